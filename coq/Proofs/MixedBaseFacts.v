(* Prefixes of different bases (SI x IEC): Prefix.__mul__ / __truediv__ keep the left base b1 and add /
   subtract the right exponent rescaled by ln b2 / ln b1.  Over the reals this is exact: the resulting
   prefix b1 ** (e1 +- e2 * ln b2 / ln b1) has exactly the value b1**e1 * b2**e2 (resp. / b2**e2), and
   powers distribute; the 1e-9 of C02 / C11 is then a measured floating-point bound. *)
From Coq Require Import Reals Lra.
Open Scope R_scope.

Definition mixed_mul_exponent (b1 e1 b2 e2 : R) : R := e1 + e2 * (ln b2 / ln b1).
Definition mixed_div_exponent (b1 e1 b2 e2 : R) : R := e1 - e2 * (ln b2 / ln b1).

Lemma ln_base_nz b : 0 < b -> b <> 1 -> ln b <> 0.
Proof.
  intros Hb H1 E. destruct (Rtotal_order b 1) as [L|[L|L]]; [|contradiction|].
  - pose proof (ln_increasing b 1 Hb L) as H. rewrite ln_1 in H. lra.
  - pose proof (ln_increasing 1 b Rlt_0_1 L) as H. rewrite ln_1 in H. lra.
Qed.

Theorem mixed_mul_exact b1 e1 b2 e2 : 0 < b1 -> b1 <> 1 -> 0 < b2 ->
  Rpower b1 (mixed_mul_exponent b1 e1 b2 e2) = Rpower b1 e1 * Rpower b2 e2.
Proof.
  intros H1 Hn H2. unfold mixed_mul_exponent, Rpower. rewrite <- exp_plus. f_equal.
  field. apply ln_base_nz; assumption.
Qed.

Theorem mixed_div_exact b1 e1 b2 e2 : 0 < b1 -> b1 <> 1 -> 0 < b2 ->
  Rpower b1 (mixed_div_exponent b1 e1 b2 e2) = Rpower b1 e1 / Rpower b2 e2.
Proof.
  intros H1 Hn H2. unfold mixed_div_exponent, Rpower, Rdiv. rewrite <- exp_Ropp, <- exp_plus. f_equal.
  field. apply ln_base_nz; assumption.
Qed.

(* Prefix.__pow__ multiplies the (possibly fractional) exponent: (b ** e) ** n = b ** (e * n) *)
Theorem mixed_pow_exact b e n : 0 < b -> Rpower (Rpower b e) n = Rpower b (e * n).
Proof. intros Hb. unfold Rpower. rewrite ln_exp. f_equal. ring. Qed.

(* cancelling back: (p * q) / q = p, exactly *)
Theorem mixed_cancel_exact b1 e1 b2 e2 : 0 < b1 -> b1 <> 1 -> 0 < b2 ->
  mixed_div_exponent b1 (mixed_mul_exponent b1 e1 b2 e2) b2 e2 = e1.
Proof. intros. unfold mixed_div_exponent, mixed_mul_exponent. ring. Qed.
