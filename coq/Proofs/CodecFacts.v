(* C15: the JSON documents of Model/Codec.v decode back to the object they were written from, and leave the
   registry as it was. *)
From stdpp Require Import gmap.
From Coq Require Import ZArith Lia.
From Measured Require Import Model.FMap Model.Units Model.Intern Model.Codec
  Proofs.FMapFacts Proofs.UnitsFacts Proofs.InternFacts Proofs.History Proofs.ReenterFacts.
Local Open Scope Z_scope.

(* ---------------------------------------------------------------- dimensions *)
Lemma ints_map_JInt zs : ints (map JInt zs) = Some zs.
Proof. induction zs as [|z zs IH]; simpl; [reflexivity|]. rewrite IH. reflexivity. Qed.

Lemma exps_from_length i n d : length (exps_from i n d) = n.
Proof. revert i. induction n as [|n IH]; intros i; simpl; [reflexivity|]. rewrite IH. reflexivity. Qed.

Lemma get_zero_wf d i : wf d -> get d i = 0 -> d !! i = None.
Proof.
  unfold wf, get. intros Hwf H. destruct (d !! i) as [v|] eqn:E; [|reflexivity].
  simpl in H. subst v. exfalso. apply (Hwf i). exact E.
Qed.
Lemma get_nonzero d i : get d i <> 0 -> d !! i = Some (get d i).
Proof. unfold get. destruct (d !! i) as [v|]; simpl; [reflexivity|]. intros H. contradiction. Qed.

Lemma of_exps_lookup n : forall i d k, wf d ->
  of_exps_from i (exps_from i n d) !! k =
  if bool_decide (Pos.to_nat i <= Pos.to_nat k < Pos.to_nat i + n)%nat then d !! k else None.
Proof.
  induction n as [|n IH]; intros i d k Hwf; simpl.
  - rewrite lookup_empty. rewrite bool_decide_eq_false_2 by lia. reflexivity.
  - destruct (Z.eqb (get d i) 0) eqn:Ez.
    + apply Z.eqb_eq in Ez. rewrite (IH (Pos.succ i) d k Hwf).
      destruct (decide (k = i)) as [->|Hne].
      * rewrite bool_decide_eq_false_2 by lia. rewrite bool_decide_eq_true_2 by lia.
        symmetry. apply get_zero_wf; assumption.
      * assert (Pos.to_nat k <> Pos.to_nat i) by (intros Heq; apply Hne, Pos2Nat.inj, Heq).
        destruct (decide (Pos.to_nat (Pos.succ i) <= Pos.to_nat k < Pos.to_nat (Pos.succ i) + n)%nat) as [Hin|Hout].
        -- rewrite bool_decide_eq_true_2 by exact Hin. rewrite bool_decide_eq_true_2 by lia. reflexivity.
        -- rewrite bool_decide_eq_false_2 by exact Hout. rewrite bool_decide_eq_false_2 by lia. reflexivity.
    + apply Z.eqb_neq in Ez.
      destruct (decide (k = i)) as [->|Hne].
      * rewrite lookup_insert. rewrite bool_decide_eq_true_2 by lia. symmetry. apply get_nonzero, Ez.
      * rewrite lookup_insert_ne by congruence. rewrite (IH (Pos.succ i) d k Hwf).
        assert (Pos.to_nat k <> Pos.to_nat i) by (intros Heq; apply Hne, Pos2Nat.inj, Heq).
        destruct (decide (Pos.to_nat (Pos.succ i) <= Pos.to_nat k < Pos.to_nat (Pos.succ i) + n)%nat) as [Hin|Hout].
        -- rewrite bool_decide_eq_true_2 by exact Hin. rewrite bool_decide_eq_true_2 by lia. reflexivity.
        -- rewrite bool_decide_eq_false_2 by exact Hout. rewrite bool_decide_eq_false_2 by lia. reflexivity.
Qed.

Theorem dim_roundtrip nd d : dim_fits nd d -> dec_dim nd (enc_dim nd d) = DOk d.
Proof.
  intros [Hwf Hfit]. unfold dec_dim, enc_dim. cbn [jget jkey_eqb]. rewrite ints_map_JInt, exps_from_length, Nat.eqb_refl.
  f_equal. apply map_eq. intros k. rewrite (of_exps_lookup nd 1 d k Hwf).
  destruct (d !! k) as [v|] eqn:E.
  - rewrite bool_decide_eq_true_2; [reflexivity|]. specialize (Hfit k). rewrite E in Hfit. specialize (Hfit (ex_intro _ v eq_refl)). lia.
  - destruct (bool_decide _); reflexivity.
Qed.

(* ---------------------------------------------------------------- prefixes *)
Theorem prefix_roundtrip p : pcanon p -> dec_prefix (enc_prefix p) = DOk p.
Proof. intros Hp. unfold dec_prefix, enc_prefix. cbn [jget jkey_eqb]. rewrite (prefix_reenter p Hp). reflexivity. Qed.

(* ---------------------------------------------------------------- units *)
Fixpoint ins_all (l : list (positive * Z)) (acc : fmap) : fmap :=
  match l with
  | [] => acc
  | (i, e) :: rest => ins_all rest (<[ i := e ]> acc)
  end.

Lemma ins_all_lookup l : forall acc k, NoDup l.*1 ->
  ins_all l acc !! k = match (list_to_map l : fmap) !! k with Some v => Some v | None => acc !! k end.
Proof.
  induction l as [|[i e] l IH]; intros acc k Hnd; simpl.
  - rewrite lookup_empty. reflexivity.
  - apply NoDup_cons in Hnd as [Hnin Hnd]. rewrite (IH _ k Hnd).
    destruct (decide (k = i)) as [->|Hne].
    + rewrite lookup_insert. rewrite (not_elem_of_list_to_map_1 (M := gmap positive) l i Hnin). rewrite lookup_insert. reflexivity.
    + rewrite (lookup_insert_ne (list_to_map l)) by congruence. rewrite (lookup_insert_ne acc) by congruence. reflexivity.
Qed.

Lemma ins_all_map_to_list (m : fmap) : ins_all (map_to_list m) ∅ = m.
Proof.
  apply map_eq. intros k. rewrite ins_all_lookup by apply NoDup_fst_map_to_list.
  rewrite list_to_map_to_list. rewrite lookup_empty. destruct (m !! k); reflexivity.
Qed.

Section Registry.
  Variable r : creg.
  Hypothesis Hnames : names_faithful r.

  Lemma dec_leaf_doc h b l d :
    nth_error (c_tbl r) h = Some b -> leaf_of b = Some l ->
    dec_byname r [(KTag, JTag TUnit); (KName, jname (leaf_name r l)); (KDim, d); (KPrefix, JNull); (KFactors, JNull)] = DOk h.
  Proof.
    intros Hh Hl. destruct Hnames as [H1 H2]. destruct (H2 h b l Hh Hl) as [n Hn].
    unfold dec_byname. cbn [jget jkey_eqb]. rewrite Hn. cbn [jname]. rewrite (H1 h b l n Hh Hl Hn). reflexivity.
  Qed.

  Lemma dec_factor_doc h b l e :
    nth_error (c_tbl r) h = Some b -> leaf_of b = Some l -> forall d,
    dec_factor r (JArr [enc_leaf r l d; JInt e]) = DOk (l, e).
  Proof.
    intros Hh Hl d. unfold dec_factor, enc_leaf. cbn [jget jkey_eqb falsy].
    rewrite (dec_leaf_doc h b l _ Hh Hl). cbn [dbind]. rewrite Hh, Hl. reflexivity.
  Qed.

  Hypothesis Hfs : factors_stored r.

  Lemma dec_factors_docs h x : nth_error (c_tbl r) h = Some x -> wf (ufac x) ->
    forall l acc, (forall i e, (i, e) ∈ l -> ufac x !! i = Some e) ->
    dec_factors r (map (fun '(i, e) => JArr [enc_leaf r (LBase i) (base_dim r i); JInt e]) l) acc O = DOk (ins_all l acc, O).
  Proof.
    intros Hh Hwf. induction l as [|[i e] l IH]; intros acc Hl; [reflexivity|].
    cbn [map dec_factors]. assert (Hie : ufac x !! i = Some e) by (apply Hl; left).
    destruct (Hfs h x i e Hh Hie) as (hb & b & Hb & Hlb).
    rewrite (dec_factor_doc hb b (LBase i) e Hb Hlb). cbn [dbind].
    assert (Hne : e <> 0) by (intros ->; apply (Hwf i), Hie).
    apply Z.eqb_neq in Hne. rewrite Hne. cbn [ins_all]. apply IH. intros i' e' Hin. apply Hl. right. exact Hin.
  Qed.

  Hypothesis Hone : one_stored r.
  Hypothesis Hnd : NoDupK (c_tbl r).
  Hypothesis Hok : stored_ok r.

  Theorem json_unit_roundtrip h x : nth_error (c_tbl r) h = Some x ->
    dec_unit r (enc_unit r x) = DOk (c_tbl r, h).
  Proof.
    intros Hh. destruct (Hok h x Hh) as (Hwf & Hdim & Hp).
    unfold enc_unit. destruct (leaf_of x) as [l|] eqn:El.
    - (* written by name *)
      unfold dec_unit, enc_leaf. cbn [jget jkey_eqb falsy]. rewrite (dec_leaf_doc h x l _ Hh El). reflexivity.
    - unfold dec_unit. cbn [jget jkey_eqb].
      assert (Hpre : (match (if bool_decide (upre x = pid) then JNull else enc_prefix (upre x)) with
                      | JNull => DOk pid | pj => dec_prefix pj end) = DOk (upre x)).
      { destruct (bool_decide (upre x = pid)) eqn:Eb.
        - apply bool_decide_eq_true in Eb. rewrite Eb. reflexivity.
        - change (dec_prefix (enc_prefix (upre x)) = DOk (upre x)). apply prefix_roundtrip, Hp. }
      destruct (map_to_list (ufac x)) as [|ie l] eqn:El2.
      + (* every base factor cancelled: the One entry *)
        apply map_to_list_empty_iff in El2.
        cbn [falsy]. destruct Hone as (ho & bo & Hbo & Hlo).
        set (pj := if bool_decide (upre x = pid) then JNull else enc_prefix (upre x)) in *.
        replace (match pj with JNull => DOk pid | _ => dec_prefix pj end) with (DOk (A := prefix) (upre x))
          by (symmetry; destruct pj; exact Hpre).
        cbn [dbind dec_factors]. rewrite (dec_factor_doc ho bo LOne 1 Hbo Hlo). cbn [dbind Z.eqb Pos.eqb dec_factors].
        rewrite bool_decide_eq_true_2 by reflexivity. cbn [Nat.eqb negb andb].
        rewrite (dim_roundtrip _ _ Hdim). cbn [dbind].
        pose proof (unit_reenter (c_tbl r) h x (udim x) Hnd Hh) as Hre. rewrite El2 in Hre. rewrite Hre. reflexivity.
      + (* prefix + [[factor, exponent] ...] + dimension *)
        cbn [map falsy]. destruct ie as [i e].
        set (pj := if bool_decide (upre x = pid) then JNull else enc_prefix (upre x)) in *.
        replace (match pj with JNull => DOk pid | _ => dec_prefix pj end) with (DOk (A := prefix) (upre x))
          by (symmetry; destruct pj; exact Hpre).
        cbn [dbind].
        pose proof (dec_factors_docs h x Hh Hwf ((i, e) :: l) ∅) as Hdf. rewrite <- El2 in Hdf.
        cbn [map] in Hdf.
        assert (Hall : forall i0 e0, (i0, e0) ∈ map_to_list (ufac x) -> ufac x !! i0 = Some e0)
          by (intros i0 e0 Hin; apply elem_of_map_to_list in Hin; exact Hin).
        specialize (Hdf Hall). rewrite El2 in Hdf. cbn [map] in Hdf. rewrite Hdf. cbn [dbind].
        cbn [Nat.eqb negb andb].
        rewrite (dim_roundtrip _ _ Hdim). cbn [dbind].
        rewrite <- El2, ins_all_map_to_list.
        rewrite (unit_reenter (c_tbl r) h x (udim x) Hnd Hh). reflexivity.
  Qed.
End Registry.

(* ---------------------------------------------------------------- the boolean checks evaluated on the exported registry imply the hypotheses *)
Lemma nth_error_combine_seq {A} (t : list A) : forall s h x, nth_error t h = Some x ->
  In ((s + h)%nat, x) (combine (seq s (length t)) t).
Proof.
  induction t as [|y t IH]; intros s h x Hh; [destruct h; discriminate|].
  destruct h as [|h]; simpl in *.
  - injection Hh as ->. left. f_equal. lia.
  - right. replace (s + S h)%nat with (S s + h)%nat by lia. apply IH, Hh.
Qed.

Lemma names_faithfulb_sound r : names_faithfulb r = true -> names_faithful r.
Proof.
  unfold names_faithfulb. intros H. rewrite forallb_forall in H.
  assert (Hx : forall h x, nth_error (c_tbl r) h = Some x ->
            match leaf_of x with
            | None => true
            | Some l => match leaf_name r l with
                        | Some n => match aget n (c_byname r) with Some h' => Nat.eqb h' h | None => false end
                        | None => false
                        end
            end = true).
  { intros h x Hh. apply (H (h, x)). apply (nth_error_combine_seq (c_tbl r) 0 h x Hh). }
  split.
  - intros h x l n Hh Hl Hn. specialize (Hx h x Hh). rewrite Hl, Hn in Hx.
    destruct (aget n (c_byname r)) as [h'|]; [|discriminate]. apply Nat.eqb_eq in Hx. congruence.
  - intros h x l Hh Hl. specialize (Hx h x Hh). rewrite Hl in Hx.
    destruct (leaf_name r l) as [n|]; [exists n; reflexivity|discriminate].
Qed.

Lemma nth_error_In' {A} (t : list A) h x : nth_error t h = Some x -> In x t.
Proof. apply nth_error_In. Qed.

Lemma existsb_leaf r l : existsb (fun b => bool_decide (leaf_of b = Some l)) (c_tbl r) = true ->
  exists hb b, nth_error (c_tbl r) hb = Some b /\ leaf_of b = Some l.
Proof.
  intros H. apply existsb_exists in H as (b & Hin & Hb). apply bool_decide_eq_true in Hb.
  apply In_nth_error in Hin as [hb Hhb]. exists hb, b. split; assumption.
Qed.

Lemma factors_storedb_sound r : factors_storedb r = true -> factors_stored r.
Proof.
  unfold factors_storedb. intros H h x i e Hh Hie. rewrite forallb_forall in H.
  specialize (H x (nth_error_In _ _ Hh)). rewrite forallb_forall in H.
  specialize (H (i, e)). apply existsb_leaf. apply H.
  apply elem_of_list_In, elem_of_map_to_list, Hie.
Qed.

Lemma one_storedb_sound r : one_storedb r = true -> one_stored r.
Proof. apply existsb_leaf. Qed.

Lemma pcanonb_sound p : pcanonb p = true -> pcanon p.
Proof.
  unfold pcanonb, pcanon. destruct (Z.eqb (pbase p) 0) eqn:Eb; intros H.
  - apply Z.eqb_eq in Eb, H. split; [intros _; exact H|intros Hne; contradiction].
  - apply Z.eqb_neq in Eb. apply negb_true_iff, Z.eqb_neq in H. split; [intros He; contradiction|intros _; exact H].
Qed.

Lemma stored_okb_sound r : stored_okb r = true -> stored_ok r.
Proof.
  unfold stored_okb. intros H h x Hh. rewrite forallb_forall in H. specialize (H x (nth_error_In _ _ Hh)).
  apply andb_true_iff in H as [H Hp]. apply andb_true_iff in H as [Hf Hd].
  rewrite forallb_forall in Hf, Hd. split; [|split].
  - intros k Hk. specialize (Hf (k, 0)). cbn in Hf. assert (false = true); [|discriminate].
    apply Hf. apply elem_of_list_In, elem_of_map_to_list, Hk.
  - split.
    + intros k Hk. specialize (Hd (k, 0)). cbn in Hd. assert (false = true); [|discriminate].
      apply Hd. apply elem_of_list_In, elem_of_map_to_list, Hk.
    + intros k [v Hv]. specialize (Hd (k, v)). cbn in Hd.
      assert (Hin : In (k, v) (map_to_list (udim x))) by (apply elem_of_list_In, elem_of_map_to_list, Hv).
      specialize (Hd Hin). apply andb_true_iff in Hd as [_ Hle]. apply Nat.leb_le in Hle. exact Hle.
  - apply pcanonb_sound, Hp.
Qed.

Lemma keys_uniqueb_sound t : keys_uniqueb t = true -> NoDupK t.
Proof.
  unfold NoDupK. induction t as [|x t IH]; intros H; [apply NoDup_nil_2|].
  cbn in H. apply andb_true_iff in H as [Hx Ht]. cbn [map]. apply NoDup_cons. split; [|apply IH, Ht].
  intros Hin. apply elem_of_list_fmap in Hin as (y & Hk & Hy). rewrite forallb_forall in Hx.
  specialize (Hx y). apply elem_of_list_In in Hy. specialize (Hx Hy). apply negb_true_iff in Hx.
  unfold ukey_eqb, feqb in Hx. assert (Hp : upre x = upre y) by (exact (f_equal fst Hk)).
  assert (Hf : ufac x = ufac y) by (exact (f_equal snd Hk)).
  rewrite Hp, Hf in Hx. rewrite !bool_decide_eq_true_2 in Hx by reflexivity. discriminate.
Qed.

Definition registry_okb (r : creg) : bool :=
  keys_uniqueb (c_tbl r) && names_faithfulb r && factors_storedb r && one_storedb r && stored_okb r.

Theorem json_unit_roundtrip_checked r : registry_okb r = true ->
  forall h x, nth_error (c_tbl r) h = Some x -> dec_unit r (enc_unit r x) = DOk (c_tbl r, h).
Proof.
  unfold registry_okb. intros H. repeat (apply andb_true_iff in H as [H ?]).
  apply json_unit_roundtrip;
    [apply names_faithfulb_sound|apply factors_storedb_sound|apply one_storedb_sound|apply keys_uniqueb_sound|apply stored_okb_sound]; assumption.
Qed.

(* ---------------------------------------------------------------- pickle / copy *)
(* a document whose key is stored is answered with the stored object and changes nothing -- whatever names it carries
   (a pickle taken before the object was named included) *)
Theorem pload_known r d h x : NoDupK (p_tbl r) -> nth_error (p_tbl r) h = Some x -> ukey (pd_args d) = ukey x ->
  pload true r d = (r, h).
Proof. intros Hn Hh Hk. unfold pload. rewrite (find_key_nth (p_tbl r) Hn h x (pd_args d) Hh Hk). reflexivity. Qed.

Theorem pload_pdump r h d : NoDupK (p_tbl r) -> pdump r h = Some d -> pload true r d = (r, h).
Proof.
  intros Hn Hd. unfold pdump in Hd. destruct (nth_error (p_tbl r) h) as [x|] eqn:Ex; [|discriminate].
  destruct (nth_error (p_names r) h) as [ns|]; [|discriminate]. injection Hd as <-.
  apply (pload_known r _ h x Hn Ex). reflexivity.
Qed.

Lemma pname_tbl r h n : p_tbl (pname r h n) = p_tbl r.
Proof. unfold pname. destruct (nth_error (p_names r) h); reflexivity. Qed.

(* the history pickle; name; unpickle: the named registry is unchanged *)
Theorem pload_stale r h d n : NoDupK (p_tbl r) -> pdump r h = Some d ->
  pload true (pname r h n) d = (pname r h n, h).
Proof.
  intros Hn Hd. unfold pdump in Hd. destruct (nth_error (p_tbl r) h) as [x|] eqn:Ex; [|discriminate].
  destruct (nth_error (p_names r) h) as [ns|]; [|discriminate]. injection Hd as <-.
  apply (pload_known _ _ h x); rewrite ?pname_tbl; [exact Hn|exact Ex|reflexivity].
Qed.
