(* Consequences of the conversion soundness theorems: linearity (C05), round trips and route
   independence (C05), and which errors the path finder / plan inliner can produce (C07). *)
From stdpp Require Import gmap.
From Coq Require Import ZArith QArith Qpower Qabs Qfield Lia Lqa List.
From Measured Require Import Model.FMap Model.Units Model.Quantity Model.Value Model.Convert Model.ConvCheck
  Proofs.FMapFacts Proofs.UnitsFacts Proofs.ValueFacts Proofs.ConvertFacts.
Import ListNotations.
Local Open Scope Q_scope.

(* the plan does not depend on the magnitude: convert = apply the plan of (s, e) to m * prefix *)
Lemma convert_plan bd tbl ord offs fuel m s e v :
  convert bd tbl ord offs fuel m s e = COk v ->
  exists plan, plan_conversion bd tbl ord offs fuel s e = COk plan /\
               v = apply_plan plan (m * pvalQ (upre s)) /\
               forall m', convert bd tbl ord offs fuel m' s e = COk (apply_plan plan (m' * pvalQ (upre s))).
Proof.
  unfold convert. destruct (negb (feqb (udim s) (udim e))); [discriminate|].
  destruct (plan_conversion bd tbl ord offs fuel s e) as [plan|]; [|discriminate]. cbn [cbind].
  destruct (plan_div0 plan); [discriminate|]. intros [= <-]. exists plan. repeat split; reflexivity.
Qed.

Section Linear.
  Variables (bd : env) (tbl offs : table) (ord : ordtab) (fuel : nat) (s e : unit3).
  Variable plan : list pstep.
  Hypothesis Hplan : plan_conversion bd tbl ord offs fuel s e = COk plan.
  Hypothesis Hoff : plan_offsets_zero plan = true.

  Theorem convert_linear k m v vk :
    convert bd tbl ord offs fuel m s e = COk v ->
    convert bd tbl ord offs fuel (k * m) s e = COk vk -> vk == k * v.
  Proof.
    intros H1 H2. destruct (convert_plan _ _ _ _ _ _ _ _ _ H1) as (p1 & E1 & -> & _).
    destruct (convert_plan _ _ _ _ _ _ _ _ _ H2) as (p2 & E2 & -> & _).
    rewrite Hplan in E1, E2. injection E1 as <-. injection E2 as <-.
    rewrite !(apply_plan_linear _ _ Hoff). ring.
  Qed.

  Theorem convert_zero v : convert bd tbl ord offs fuel 0 s e = COk v -> v == 0.
  Proof.
    intros H. destruct (convert_plan _ _ _ _ _ _ _ _ _ H) as (p1 & E1 & -> & _).
    rewrite Hplan in E1. injection E1 as <-. rewrite (apply_plan_linear _ _ Hoff). ring.
  Qed.

  Theorem convert_additive m1 m2 v1 v2 v12 :
    convert bd tbl ord offs fuel m1 s e = COk v1 -> convert bd tbl ord offs fuel m2 s e = COk v2 ->
    convert bd tbl ord offs fuel (m1 + m2) s e = COk v12 -> v12 == v1 + v2.
  Proof.
    intros H1 H2 H3. destruct (convert_plan _ _ _ _ _ _ _ _ _ H1) as (p1 & E1 & -> & _).
    destruct (convert_plan _ _ _ _ _ _ _ _ _ H2) as (p2 & E2 & -> & _).
    destruct (convert_plan _ _ _ _ _ _ _ _ _ H3) as (p3 & E3 & -> & _).
    rewrite Hplan in E1, E2, E3. injection E1 as <-. injection E2 as <-. injection E3 as <-.
    rewrite !(apply_plan_linear _ _ Hoff). ring.
  Qed.
End Linear.

(* positivity of the scale: with positive ratios and scales, the sign of the magnitude is kept *)
Definition plan_positive (plan : list pstep) : bool :=
  forallb (fun st => andb (Qltb 0 (ps_ratio st)) (forallb (fun h => Qltb 0 (fst h)) (ps_path st))) plan.

Lemma Qltb_lt a b : Qltb a b = true -> a < b.
Proof. unfold Qltb. intros H. apply negb_true_iff in H. apply Qnot_le_lt. intros L. apply Qle_bool_iff in L. congruence. Qed.

Lemma path_a_pos x p : forallb (fun h => Qltb 0 (fst h)) p = true -> 0 < path_a x p.
Proof.
  induction p as [|h p IH]; simpl; [reflexivity|].
  intros H. apply andb_prop in H as [H1 H2]. apply Qltb_lt in H1.
  apply Qmult_lt_0_compat; [apply IH, H2|apply Qpower_0_lt, H1].
Qed.

Lemma plan_a_pos plan : plan_positive plan = true -> 0 < plan_a plan.
Proof.
  induction plan as [|st pl IH]; simpl; [reflexivity|].
  intros H. apply andb_prop in H as [H1 H2]. apply andb_prop in H1 as [Hr Hp].
  apply Qltb_lt in Hr.
  apply Qmult_lt_0_compat; [apply IH, H2|]. unfold step_a.
  apply Qmult_lt_0_compat; [apply path_a_pos, Hp|exact Hr].
Qed.

Theorem apply_plan_sign plan m : plan_offsets_zero plan = true -> plan_positive plan = true ->
  (0 < m -> 0 < apply_plan plan m) /\ (m < 0 -> apply_plan plan m < 0).
Proof.
  intros Ho Hp. pose proof (plan_a_pos _ Hp) as Ha. rewrite (apply_plan_linear _ _ Ho). split; intros Hm.
  - apply Qmult_lt_0_compat; assumption.
  - setoid_replace 0 with (plan_a plan * 0) by ring. rewrite Qmult_comm, (Qmult_comm (plan_a plan) 0).
    apply Qmult_lt_compat_r; assumption.
Qed.

(* identity: converting into the very same unit returns the magnitude *)
Theorem convert_identity bd tbl ord offs fuel m u v :
  convert bd tbl ord offs (S fuel) m u u = COk v -> v == m.
Proof.
  unfold convert. destruct (negb (feqb (udim u) (udim u))); [discriminate|].
  unfold plan_conversion, plan_shape.
  destruct (ordered ord u) as [of|]; [|discriminate]. cbn [cbind].
  assert (Hk : ukey_eqb u u = true).
  { unfold ukey_eqb, feqb. rewrite !bool_decide_eq_true_2 by reflexivity. reflexivity. }
  assert (Hk1 : ukey_eqb uone uone = true) by reflexivity.
  unfold find_path0. cbn [find_path]. rewrite Hk. cbn [cbind fst].
  cbn [inline_paths end_prefix_step r_start r_end r_ratio r_exp]. unfold find_path0. cbn [find_path]. rewrite Hk1.
  cbn [cbind fst]. cbn [plan_div0 existsb ps_exp ps_path]. simpl Z.ltb. cbn [andb orb].
  intros [= <-]. unfold apply_plan. cbn [fold_left apply_step ps_path ps_ratio ps_exp apply_hop fst snd].
  unfold apply_hop. cbn [fst snd]. simpl Qpower. field. apply pvalQ_nz.
Qed.

(* round trip and route independence for certified conversions *)
Section Routes.
  Variables (se : sizes) (bd : env) (tbl offs : table) (ord : ordtab) (fuel : nat).
  Hypothesis Hpos : sizes_pos se.
  Hypothesis Hcons : consistent se tbl.

  Theorem convert_roundtrip m a b v w :
    plan_cert bd tbl ord offs fuel a b = true -> plan_cert bd tbl ord offs fuel b a = true ->
    convert bd tbl ord offs fuel m a b = COk v -> convert bd tbl ord offs fuel v b a = COk w -> w == m.
  Proof.
    intros C1 C2 H1 H2.
    rewrite (convert_certified se bd tbl offs ord Hpos Hcons _ _ _ _ _ C2 H2),
            (convert_certified se bd tbl offs ord Hpos Hcons _ _ _ _ _ C1 H1).
    field. split; apply usz_nz, Hpos.
  Qed.

  Theorem convert_route_independent m a b c v w d :
    plan_cert bd tbl ord offs fuel a b = true -> plan_cert bd tbl ord offs fuel b c = true ->
    plan_cert bd tbl ord offs fuel a c = true ->
    convert bd tbl ord offs fuel m a b = COk v -> convert bd tbl ord offs fuel v b c = COk w ->
    convert bd tbl ord offs fuel m a c = COk d -> w == d.
  Proof.
    intros C1 C2 C3 H1 H2 H3.
    rewrite (convert_certified se bd tbl offs ord Hpos Hcons _ _ _ _ _ C2 H2),
            (convert_certified se bd tbl offs ord Hpos Hcons _ _ _ _ _ C1 H1),
            (convert_certified se bd tbl offs ord Hpos Hcons _ _ _ _ _ C3 H3).
    field. split; apply usz_nz, Hpos.
  Qed.
End Routes.

(* ---------- C07: which failures the path finder and the inliner can produce ---------- *)
Definition benign (e : cerr) : Prop := e = CNF \/ e = EFuel.

Lemma find_path_errors tbl offs fuel : forall s e vis er,
  find_path tbl offs fuel s e vis = CErr er -> benign er.
Proof.
  induction fuel as [|f IH]; intros s e vis er; cbn [find_path].
  - intros [= <-]. right. reflexivity.
  - destruct (ukey_eqb s e); [discriminate|].
    destruct (in_visited s vis); [discriminate|].
    destruct (reduce_dimension s e) as [[[x s'] e']|]; [|intros [= <-]; left; reflexivity].
    assert (Hloop : forall nbrs best v0,
      (fix loop (nbrs : row) (best : list hop) (visited : list unit3) {struct nbrs}
         : cres (list hop * list unit3) :=
         match nbrs with
         | [] => COk (best, visited)
         | (inter, scale) :: rest =>
             let offset := match tget offs s' inter with Some o => o | None => 0%Q end in
             if ukey_eqb inter e' then COk ([hop_pow x (scale, offset)], visited) else
             match find_path tbl offs f inter e' visited with
             | CErr er => CErr er
             | COk (p, visited') =>
                 match p with
                 | [] => loop rest best visited'
                 | _ => let p' := map (hop_pow x) ((scale, offset) :: p) in
                        let best' := match best with
                                     | [] => p'
                                     | _ => if Nat.ltb (length p') (length best) then p' else best
                                     end in
                        loop rest best' visited'
                 end
             end
         end) nbrs best v0 = CErr er -> benign er).
    { induction nbrs as [|[inter scale] rest IHn]; intros best v0; [discriminate|].
      cbv zeta. destruct (ukey_eqb inter e'); [discriminate|].
      destruct (find_path tbl offs f inter e' v0) as [[q vq]|er'] eqn:Ef.
      + destruct q; apply IHn.
      + intros [= <-]. eapply IH, Ef. }
    apply Hloop.
Qed.

Lemma inline_paths_errors tbl offs fuel rough er :
  inline_paths tbl offs fuel rough = CErr er -> benign er.
Proof.
  induction rough as [|r rs IH]; cbn [inline_paths]; [discriminate|].
  unfold find_path0. destruct (find_path tbl offs fuel (r_start r) (r_end r) []) as [[p v]|e0] eqn:Ef; cbn [cbind fst].
  - destruct p; [intros [= <-]; left; reflexivity|].
    destruct (inline_paths tbl offs fuel rs) as [tl|e1]; cbn [cbind]; [discriminate|].
    intros [= <-]. apply IH. reflexivity.
  - intros [= <-]. eapply find_path_errors, Ef.
Qed.

(* a direct conversion (a declared or derived path exists) can only fail by running out of budget *)
Theorem convert_direct_errors bd tbl ord offs fuel m s e d er :
  plan_shape bd tbl ord offs fuel s e = COk (Direct d) ->
  Forall (fun h => ~ fst h == 0) d ->
  convert bd tbl ord offs fuel m s e = CErr er -> benign er.
Proof.
  intros Hsh Hnz. unfold convert. destruct (negb (feqb (udim s) (udim e))); [intros [= <-]; left; reflexivity|].
  unfold plan_conversion. rewrite Hsh. cbn [cbind].
  destruct (inline_paths tbl offs fuel [end_prefix_step e]) as [tl|e1] eqn:Ei; cbn [cbind].
  - cbn [plan_div0 existsb ps_exp]. simpl Z.ltb. cbn [andb orb].
    (* the only remaining steps are the end-prefix step: exponent 1 *)
    revert Ei. cbn [inline_paths end_prefix_step r_start r_end r_ratio r_exp].
    destruct (find_path0 tbl offs fuel uone uone) as [p|]; cbn [cbind]; [|discriminate].
    destruct p; [discriminate|]. intros [= <-]. cbn [existsb ps_exp]. simpl Z.ltb. cbn [andb orb]. discriminate.
  - intros [= <-]. eapply inline_paths_errors, Ei.
Qed.

(* ---------- affine form of a conversion with offsets (C10) ---------- *)
Lemma convert_affine bd tbl ord offs fuel m s e v :
  convert bd tbl ord offs fuel m s e = COk v ->
  exists plan, plan_conversion bd tbl ord offs fuel s e = COk plan /\
               v == (plan_a plan * pvalQ (upre s)) * m + plan_b plan.
Proof.
  intros H. destruct (convert_plan _ _ _ _ _ _ _ _ _ H) as (plan & E & -> & _).
  exists plan. split; [exact E|]. rewrite apply_plan_affine. ring.
Qed.

Definition affine_close (eps A B A' B' : Q) : bool :=
  andb (Qle_bool (Qabs (A - A')) (eps * Qabs A')) (Qle_bool (Qabs (B - B')) (eps * Qabs B')).

(* the plan of s -> e exists, raises nothing, and is the affine map x |-> A x + B with (A, B) within
   eps (relative) of the ideal coefficients (A', B') *)
Definition affine_case_ok (bd : env) (tbl : table) (ord : ordtab) (offs : table) (fuel : nat) (eps : Q)
           (s e : unit3) (A' B' : Q) : bool :=
  andb (feqb (udim s) (udim e))
  match plan_conversion bd tbl ord offs fuel s e with
  | COk plan => andb (negb (plan_div0 plan)) (affine_close eps (plan_a plan * pvalQ (upre s)) (plan_b plan) A' B')
  | CErr _ => false
  end.

Theorem affine_case_sound bd tbl ord offs fuel eps s e A' B' :
  affine_case_ok bd tbl ord offs fuel eps s e A' B' = true ->
  exists A B, Qabs (A - A') <= eps * Qabs A' /\ Qabs (B - B') <= eps * Qabs B' /\
    forall m, exists v, convert bd tbl ord offs fuel m s e = COk v /\ v == A * m + B.
Proof.
  unfold affine_case_ok, convert. intros H. apply andb_prop in H as [Hd H].
  destruct (plan_conversion bd tbl ord offs fuel s e) as [plan|] eqn:Ep; [|discriminate].
  apply andb_prop in H as [Hz Hc]. apply negb_true_iff in Hz.
  unfold affine_close in Hc. apply andb_prop in Hc as [Ha Hb].
  apply Qle_bool_iff in Ha. apply Qle_bool_iff in Hb.
  exists (plan_a plan * pvalQ (upre s)), (plan_b plan). split; [exact Ha|]. split; [exact Hb|].
  intros m. rewrite Hd. cbn [negb cbind]. rewrite Hz. eexists. split; [reflexivity|].
  rewrite apply_plan_affine. ring.
Qed.
