(* C15: a singleton re-enters its intern table through the arguments it was serialised as.
   pickle / copy / deepcopy call cls.__new__ on the tuple __getnewargs_ex__ returns, JSON and pydantic call
   cls.__from_json__(...), which ends in the same constructor call: in each case the key handed back is
   the key under which the object is stored, so the lookup returns the very same entry and the table
   is left unchanged.  Dimensions and prefixes are keyed by their value (generic statement), units by
   (prefix, factors) with the dimension argument ignored. *)
From stdpp Require Import gmap.
From Coq Require Import ZArith Lia.
From Measured Require Import Model.FMap Model.Units Model.Intern Proofs.FMapFacts Proofs.UnitsFacts Proofs.InternFacts Proofs.History.

(* ---------- any table interned by a decidable key ---------- *)
Section Keyed.
  Context {K : Type} (keqb : K -> K -> bool).
  Hypothesis keqb_spec : forall a b, keqb a b = true <-> a = b.

  Fixpoint kfind (k : K) (t : list K) : option nat :=
    match t with
    | [] => None
    | x :: t' => if keqb k x then Some O else option_map S (kfind k t')
    end.

  Definition kintern (t : list K) (k : K) : list K * nat :=
    match kfind k t with
    | Some h => (t, h)
    | None => (t ++ [k], length t)
    end.

  Lemma kfind_nth t : List.NoDup t -> forall h k, nth_error t h = Some k -> kfind k t = Some h.
  Proof.
    induction 1 as [|x t Hx Hn IH]; intros h k; [destruct h; discriminate|].
    destruct h as [|h]; simpl.
    - intros [= ->]. rewrite (proj2 (keqb_spec k k) eq_refl). reflexivity.
    - intros Hh. destruct (keqb k x) eqn:E.
      + apply keqb_spec in E. subst. exfalso. apply Hx. eapply nth_error_In. exact Hh.
      + rewrite (IH h k Hh). reflexivity.
  Qed.

  Theorem kintern_reenter t h k : List.NoDup t -> nth_error t h = Some k -> kintern t k = (t, h).
  Proof. intros Hn Hh. unfold kintern. rewrite (kfind_nth t Hn h k Hh). reflexivity. Qed.

  (* and interning never creates a second entry for a key *)
  Theorem kintern_nodup t k : List.NoDup t -> List.NoDup (fst (kintern t k)).
  Proof.
    intros Hn. unfold kintern. destruct (kfind k t) as [h|] eqn:E; simpl; [exact Hn|].
    apply NoDup_ListNoDup. apply NoDup_app. split; [apply NoDup_ListNoDup, Hn|]. split; [|apply NoDup_singleton].
    intros x Hx Hx'. apply elem_of_list_singleton in Hx'. subst x.
    apply elem_of_list_In in Hx. clear Hn. induction t as [|y t IH]; [inversion Hx|].
    simpl in E. destruct (keqb k y) eqn:Ek; [discriminate|].
    destruct (kfind k t); [discriminate|]. destruct Hx as [->|Hx]; [|apply IH; auto].
    rewrite (proj2 (keqb_spec k k) eq_refl) in Ek. discriminate.
  Qed.
End Keyed.

(* ---------- units: the constructor ignores the dimension it is handed when the key is known ---------- *)
Lemma find_key_nth t : NoDupK t -> forall h x u, nth_error t h = Some x -> ukey u = ukey x -> find_key u t = Some h.
Proof.
  intros Hn h x u Hh Hk.
  destruct (find_key u t) as [h'|] eqn:E.
  - destruct (find_key_Some _ _ _ E) as (v & Hv & Hkv). f_equal. eapply NoDupK_nth; eauto. congruence.
  - exfalso. apply (find_key_None _ _ E). rewrite Hk. apply elem_of_list_fmap_1. eapply elem_of_list_In, nth_error_In, Hh.
Qed.

Theorem unit_reenter t h x d : NoDupK t -> nth_error t h = Some x ->
  intern t (MkU (upre x) (ufac x) d) = (t, h).
Proof.
  intros Hn Hh. unfold intern. rewrite (find_key_nth t Hn h x (MkU (upre x) (ufac x) d) Hh eq_refl). reflexivity.
Qed.

(* in every state reachable by the public operations (Proofs/History.v) *)
Theorem unit_reenter_reachable ops h x d : hist_ok init ops -> nth_error (s_tbl (run init ops)) h = Some x ->
  intern (s_tbl (run init ops)) (MkU (upre x) (ufac x) d) = (s_tbl (run init ops), h).
Proof. intros Hok Hh. apply unit_reenter; [apply (proj2 (run_SWF ops init init_SWF Hok))|exact Hh]. Qed.

(* prefixes: Prefix applied to its newargs normalises (base, exponent) to the stored canonical prefix *)
Theorem prefix_reenter p : pcanon p -> mkp (pbase p) (pexp p) = p.
Proof. apply mkp_id_canon. Qed.
