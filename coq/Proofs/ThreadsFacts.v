From Coq Require Import List Arith Lia Bool.
Import ListNotations.
From Measured Require Import Model.Threads.

Lemma nth_error_set_nth_eq {A} i (x : A) l : i < length l -> nth_error (set_nth i x l) i = Some x.
Proof. revert i; induction l as [|y l IH]; intros [|i] H; simpl in *; try lia; auto. apply IH. lia. Qed.

Lemma nth_error_set_nth_ne {A} i j (x : A) l : i <> j -> nth_error (set_nth i x l) j = nth_error l j.
Proof. revert i j; induction l as [|y l IH]; intros [|i] [|j] H; simpl; auto; try congruence. Qed.

Lemma length_set_nth {A} i (x : A) l : length (set_nth i x l) = length l.
Proof. revert i; induction l as [|y l IH]; intros [|i]; simpl; auto. Qed.

Lemma nth_error_set_nth {A} i j (x : A) l p : nth_error (set_nth i x l) j = Some p ->
  (i = j /\ p = x) \/ (i <> j /\ nth_error l j = Some p).
Proof.
  intros H. destruct (Nat.eq_dec i j) as [->|N].
  - left. split; [reflexivity|]. destruct (Nat.lt_ge_cases j (length l)) as [L|G].
    + rewrite nth_error_set_nth_eq in H by exact L. congruence.
    + apply nth_error_None in G. assert (nth_error (set_nth j x l) j = None).
      { apply nth_error_None. rewrite length_set_nth. apply nth_error_None. exact G. } congruence.
  - right. split; [exact N|]. rewrite nth_error_set_nth_ne in H by exact N. exact H.
Qed.

Lemma table_lookup_app s o c : created s = c ++ [o] -> table_lookup s = Some o.
Proof. unfold table_lookup. intros ->. rewrite map_app. simpl. apply last_last. Qed.

Lemma table_lookup_nil s : created s = [] -> table_lookup s = None.
Proof. unfold table_lookup. intros ->. reflexivity. Qed.

Lemma table_lookup_single s o : created s = [o] -> table_lookup s = Some o.
Proof. intros H. apply (table_lookup_app s o []). exact H. Qed.

Definition holding (p : pc) : bool :=
  match p with PInside | PMiss | PHit | PAlloc _ | PInserted _ => true | _ => false end.

(* invariant of the locked protocol *)
Record LInv (s : cstate) : Prop := {
  li_len : length (created s) <= 1;
  li_owner : forall i p, nth_error (pcs s) i = Some p -> holding p = true -> owner s = Some i;
  li_done : forall i o, nth_error (pcs s) i = Some (PDone o) -> created s = [o];
  li_ins : forall i o, nth_error (pcs s) i = Some (PInserted o) -> created s = [o];
  li_miss : forall i, nth_error (pcs s) i = Some PMiss -> created s = [];
  li_alloc : forall i o, nth_error (pcs s) i = Some (PAlloc o) -> created s = [];
  li_hit : forall i, nth_error (pcs s) i = Some PHit -> exists o, created s = [o]
}.

Lemma linv_init n : LInv (cinit n).
Proof.
  assert (H : forall i p, nth_error (repeat PStart n) i = Some p -> p = PStart).
  { intros i p E. apply nth_error_In, repeat_spec in E. exact E. }
  constructor; simpl; try lia; intros i; intros; match goal with E : nth_error _ _ = Some _ |- _ => apply H in E end;
    try discriminate; subst; simpl in *; discriminate.
Qed.

Ltac setcases H := apply nth_error_set_nth in H as [[? ?]|[? H]]; subst.

Lemma cstep_linv s i : LInv s -> LInv (cstep true s i).
Proof.
  intros I. unfold cstep. destruct (nth_error (pcs s) i) as [p|] eqn:Ei; [|exact I].
  destruct p as [| | | |o|o|o].
  - (* PStart: acquire *)
    destruct (owner s) as [w|] eqn:Eo; [exact I|].
    assert (Hnone : forall j q, nth_error (pcs s) j = Some q -> holding q = false).
    { intros j q Ej. destruct (holding q) eqn:Hq; [|reflexivity]. pose proof (li_owner s I j q Ej Hq). congruence. }
    constructor; simpl; try apply I.
    + intros j q Ej Hq. setcases Ej; [reflexivity|]. rewrite (Hnone j q Ej) in Hq. discriminate.
    + intros j o Ej. setcases Ej; [discriminate|]. eapply li_done; eauto.
    + intros j o Ej. setcases Ej; [discriminate|]. eapply li_ins; eauto.
    + intros j Ej. setcases Ej; [discriminate|]. eapply li_miss; eauto.
    + intros j o Ej. setcases Ej; [discriminate|]. eapply li_alloc; eauto.
    + intros j Ej. setcases Ej; [discriminate|]. eapply li_hit; eauto.
  - (* PInside: lookup *)
    pose proof (li_owner s I i PInside Ei eq_refl) as Ow.
    assert (Hother : forall j q, j <> i -> nth_error (pcs s) j = Some q -> holding q = false).
    { intros j q N Ej. destruct (holding q) eqn:Hq; [|reflexivity]. pose proof (li_owner s I j q Ej Hq). congruence. }
    destruct (table_lookup s) as [o|] eqn:El; unfold setpc.
    + constructor; simpl; try apply I.
      * intros j q Ej Hq. setcases Ej; [exact Ow|]. eapply li_owner; eauto.
      * intros j o' Ej. setcases Ej; [discriminate|]. eapply li_done; eauto.
      * intros j o' Ej. setcases Ej; [discriminate|]. eapply li_ins; eauto.
      * intros j Ej. setcases Ej; [discriminate|]. eapply li_miss; eauto.
      * intros j o' Ej. setcases Ej; [discriminate|]. eapply li_alloc; eauto.
      * intros j Ej. setcases Ej; [|eapply li_hit; eauto].
        pose proof (li_len s I) as L. destruct (created s) as [|a [|b l]] eqn:Ec; simpl in L; try lia.
        -- rewrite (table_lookup_nil s Ec) in El. discriminate.
        -- exists a. reflexivity.
    + assert (Ec : created s = []).
      { pose proof (li_len s I) as L. destruct (created s) as [|a [|b l]] eqn:Ec; simpl in L; try lia; [reflexivity|].
        rewrite (table_lookup_single s a Ec) in El. discriminate. }
      constructor; simpl; try apply I.
      * intros j q Ej Hq. setcases Ej; [exact Ow|]. eapply li_owner; eauto.
      * intros j o' Ej. setcases Ej; [discriminate|]. eapply li_done; eauto.
      * intros j o' Ej. setcases Ej; [discriminate|]. eapply li_ins; eauto.
      * intros j Ej. setcases Ej; [exact Ec|]. eapply li_miss; eauto.
      * intros j o' Ej. setcases Ej; [discriminate|]. eapply li_alloc; eauto.
      * intros j Ej. setcases Ej; [discriminate|]. eapply li_hit; eauto.
  - (* PMiss: allocate *)
    pose proof (li_owner s I i PMiss Ei eq_refl) as Ow. pose proof (li_miss s I i Ei) as Ec.
    constructor; simpl; try apply I.
    + intros j q Ej Hq. setcases Ej; [exact Ow|]. eapply li_owner; eauto.
    + intros j o' Ej. setcases Ej; [discriminate|]. eapply li_done; eauto.
    + intros j o' Ej. setcases Ej; [discriminate|]. eapply li_ins; eauto.
    + intros j Ej. setcases Ej; [discriminate|]. eapply li_miss; eauto.
    + intros j o' Ej. setcases Ej; [exact Ec|]. eapply li_alloc; eauto.
    + intros j Ej. setcases Ej; [discriminate|]. eapply li_hit; eauto.
  - (* PHit: return the table's object, release *)
    pose proof (li_owner s I i PHit Ei eq_refl) as Ow. destruct (li_hit s I i Ei) as [o Ec].
    rewrite (table_lookup_single s o Ec).
    assert (Hother : forall j q, j <> i -> nth_error (pcs s) j = Some q -> holding q = false).
    { intros j q N Ej. destruct (holding q) eqn:Hq; [|reflexivity]. pose proof (li_owner s I j q Ej Hq). congruence. }
    constructor; simpl; try apply I.
    + intros j q Ej Hq. setcases Ej; [discriminate|]. rewrite (Hother j q) in Hq by auto. discriminate.
    + intros j o' Ej. setcases Ej; [congruence|]. eapply li_done; eauto.
    + intros j o' Ej. setcases Ej; [discriminate|]. eapply li_ins; eauto.
    + intros j Ej. setcases Ej; [discriminate|]. eapply li_miss; eauto.
    + intros j o' Ej. setcases Ej; [discriminate|]. eapply li_alloc; eauto.
    + intros j Ej. setcases Ej; [discriminate|]. eapply li_hit; eauto.
  - (* PAlloc: insert *)
    pose proof (li_owner s I i (PAlloc o) Ei eq_refl) as Ow. pose proof (li_alloc s I i o Ei) as Ec.
    assert (Hother : forall j q, j <> i -> nth_error (pcs s) j = Some q -> holding q = false).
    { intros j q N Ej. destruct (holding q) eqn:Hq; [|reflexivity]. pose proof (li_owner s I j q Ej Hq). congruence. }
    constructor; simpl; rewrite ?Ec; simpl; try lia.
    + intros j q Ej Hq. setcases Ej; [exact Ow|]. eapply li_owner; eauto.
    + intros j o' Ej. setcases Ej; [discriminate|]. pose proof (li_done s I j o' Ej). congruence.
    + intros j o' Ej. setcases Ej; [congruence|]. pose proof (Hother j _ (not_eq_sym H) Ej). discriminate.
    + intros j Ej. setcases Ej; [discriminate|]. pose proof (Hother j _ (not_eq_sym H) Ej). discriminate.
    + intros j o' Ej. setcases Ej; [discriminate|]. pose proof (Hother j _ (not_eq_sym H) Ej). discriminate.
    + intros j Ej. setcases Ej; [discriminate|]. pose proof (Hother j _ (not_eq_sym H) Ej). discriminate.
  - (* PInserted: return, release *)
    pose proof (li_owner s I i (PInserted o) Ei eq_refl) as Ow. pose proof (li_ins s I i o Ei) as Ec.
    assert (Hother : forall j q, j <> i -> nth_error (pcs s) j = Some q -> holding q = false).
    { intros j q N Ej. destruct (holding q) eqn:Hq; [|reflexivity]. pose proof (li_owner s I j q Ej Hq). congruence. }
    constructor; simpl; try apply I.
    + intros j q Ej Hq. setcases Ej; [discriminate|]. rewrite (Hother j q) in Hq by auto. discriminate.
    + intros j o' Ej. setcases Ej; [congruence|]. eapply li_done; eauto.
    + intros j o' Ej. setcases Ej; [discriminate|]. eapply li_ins; eauto.
    + intros j Ej. setcases Ej; [discriminate|]. eapply li_miss; eauto.
    + intros j o' Ej. setcases Ej; [discriminate|]. eapply li_alloc; eauto.
    + intros j Ej. setcases Ej; [discriminate|]. eapply li_hit; eauto.
  - exact I.
Qed.

Lemma crun_linv sched : forall s, LInv s -> LInv (crun true s sched).
Proof. induction sched as [|i l IH]; intros s I; simpl; [exact I|]. apply IH. apply cstep_linv. exact I. Qed.

Lemma results_spec s o : In o (results s) <-> exists i, nth_error (pcs s) i = Some (PDone o).
Proof.
  unfold results. rewrite in_flat_map. split.
  - intros (p & Hin & Ho). apply In_nth_error in Hin as [i Hi]. exists i.
    destruct p; simpl in Ho; try contradiction. destruct Ho as [->|[]]. exact Hi.
  - intros (i & Hi). exists (PDone o). split; [eapply nth_error_In; eassumption|simpl; auto].
Qed.

(* any number of threads, any schedule: every thread that has returned got the same object, that
   object is the only one ever stored under the key, and it is what later lookups return *)
Theorem locked_singleton n sched o1 o2 :
  let s := crun true (cinit n) sched in
  In o1 (results s) -> In o2 (results s) ->
  o1 = o2 /\ created s = [o1] /\ table_lookup s = Some o1.
Proof.
  intros s H1 H2. pose proof (crun_linv sched (cinit n) (linv_init n)) as I. fold s in I.
  apply results_spec in H1 as [i Hi]. apply results_spec in H2 as [j Hj].
  pose proof (li_done s I i o1 Hi) as E1. pose proof (li_done s I j o2 Hj) as E2.
  split; [congruence|]. split; [exact E1|]. apply table_lookup_single. exact E1.
Qed.

(* a later constructor call by a new thread returns that object too *)
Theorem locked_later_calls n sched o :
  let s := crun true (cinit n) sched in
  In o (results s) -> length (created s) <= 1.
Proof. intros s _. apply (li_len s). apply crun_linv. apply linv_init. Qed.

(* without the lock two threads can each create their own object *)
Theorem unlocked_refuted :
  exists sched, results (crun false (cinit 2) sched) = [0; 1] /\ length (created (crun false (cinit 2) sched)) = 2.
Proof. exists [0; 1; 0; 1; 0; 1; 0; 1; 0; 1]. vm_compute. split; reflexivity. Qed.

(* progress: under a fair completion schedule every thread finishes (the lock is always released) *)
Definition all_done (s : cstate) : bool := forallb (fun p => match p with PDone _ => true | _ => false end) (pcs s).

Example locked_three_threads_finish :
  all_done (crun true (cinit 3) [0;1;2;0;0;1;0;2;0;0; 1;1;1;1;1; 2;2;2;2;2]) = true.
Proof. vm_compute. reflexivity. Qed.
