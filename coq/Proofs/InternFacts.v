From stdpp Require Import gmap.
From Coq Require Import ZArith Lia.
From Measured Require Import Model.FMap Model.Units Model.Intern Proofs.FMapFacts Proofs.UnitsFacts.
Local Open Scope Z_scope.

(* a well-formed unit: canonical maps, support inside the defined base units, and the stored
   dimension equal to the product of the base-unit dimensions raised to the exponents *)
Definition supp (bd : env) (m : fmap) : Prop := forall k, get m k <> 0 -> k ∈ ids bd.

Definition uwf (bd : env) (u : unit3) : Prop :=
  wf (ufac u) /\ supp bd (ufac u) /\ udim u = dimOf bd (ufac u).

Definition TWF (bd : env) (t : table) : Prop := Forall (uwf bd) t.
Definition NoDupK (t : table) : Prop := NoDup (map ukey t).

Fixpoint lits_ok (bd : env) (e : expr) : Prop :=
  match e with
  | ELit u => uwf bd u
  | EMul a b | EDiv a b => lits_ok bd a /\ lits_ok bd b
  | EPow a _ | ERoot a _ | EPre _ a | ENum a | EDen a | EQuant a => lits_ok bd a
  end.

Lemma uwf_eq bd u v : uwf bd u -> uwf bd v -> ukey u = ukey v -> u = v.
Proof.
  destruct u as [p f d], v as [p' f' d']. unfold uwf, ukey; simpl.
  intros (_ & _ & ->) (_ & _ & ->) [= -> ->]. reflexivity.
Qed.

Lemma ukey_eqb_spec a b : ukey_eqb a b = true <-> ukey a = ukey b.
Proof.
  unfold ukey_eqb, ukey, feqb. rewrite andb_true_iff, !bool_decide_eq_true.
  split; [intros [-> ->]; reflexivity|intros [= -> ->]; auto].
Qed.

(* ---------- supports ---------- *)
Lemma supp_fmul bd a b : supp bd a -> supp bd b -> supp bd (fmul a b).
Proof.
  intros Ha Hb k. rewrite get_fmul. intros H.
  destruct (Z.eq_dec (get a k) 0); [apply Hb; lia|apply Ha; assumption].
Qed.

Lemma supp_fscale bd a n : supp bd a -> supp bd (fscale n a).
Proof. intros Ha k. rewrite get_fscale. intros H. apply Ha. nia. Qed.

Lemma supp_fdiv bd a b : supp bd a -> supp bd b -> supp bd (fdiv a b).
Proof. intros. apply supp_fmul; [assumption|apply supp_fscale; assumption]. Qed.

Lemma supp_froot_raw bd a n : supp bd a -> supp bd (froot_raw n a).
Proof.
  intros Ha k. rewrite get_froot_raw. intros H. apply Ha. intros E. rewrite E in H.
  now rewrite Zdiv_0_l in H.
Qed.

Lemma supp_fposp bd a : supp bd a -> supp bd (fposp a).
Proof. intros Ha k. rewrite get_fposp. intros H. apply Ha. lia. Qed.

Lemma supp_fnegp bd a : supp bd a -> supp bd (fnegp a).
Proof. intros Ha k. rewrite get_fnegp. intros H. apply Ha. lia. Qed.

Lemma supp_empty bd : supp bd fone.
Proof. intros k. rewrite get_empty. congruence. Qed.

(* ---------- every operation yields a well-formed unit from well-formed operands ---------- *)
Lemma uwf_uone bd : uwf bd uone.
Proof. unfold uwf, uone; simpl. split; [apply wf_empty|]. split; [apply supp_empty|]. now rewrite dimOf_empty. Qed.

Lemma uwf_umul bd x y r : uwf bd x -> uwf bd y -> umul x y = Ok r -> uwf bd r.
Proof.
  intros (Wx & Sx & Dx) (Wy & Sy & Dy). unfold umul.
  destruct (pmul (upre x) (upre y)); simpl; [|discriminate]. intros [= <-]. unfold uwf; simpl.
  split; [apply wf_fmul|]. split; [apply supp_fmul; assumption|].
  rewrite Dx, Dy. symmetry. apply dimOf_fmul.
Qed.

Lemma uwf_udiv bd x y r : uwf bd x -> uwf bd y -> udiv x y = Ok r -> uwf bd r.
Proof.
  intros (Wx & Sx & Dx) (Wy & Sy & Dy). unfold udiv.
  destruct (pdiv (upre x) (upre y)); simpl; [|discriminate]. intros [= <-]. unfold uwf; simpl.
  split; [apply wf_fdiv|]. split; [apply supp_fdiv; assumption|].
  rewrite Dx, Dy. symmetry. apply dimOf_fdiv.
Qed.

Lemma uwf_upow bd x n r : uwf bd x -> upow x n = Ok r -> uwf bd r.
Proof.
  intros (Wx & Sx & Dx). unfold upow. intros [= <-]. unfold uwf; simpl.
  split; [apply wf_fpow|]. split; [apply supp_fscale; assumption|].
  rewrite Dx. symmetry. apply dimOf_fpow.
Qed.

Lemma uwf_uroot bd x n r : uwf bd x -> uroot x n = Ok r -> uwf bd r.
Proof.
  intros (Wx & Sx & Dx). unfold uroot. destruct (Z.eqb_spec n 0) as [->|Hn].
  { intros [= <-]. apply uwf_uone. }
  destruct (froot (udim x) n) as [d|] eqn:Ed; simpl; [|discriminate].
  destruct (proot (upre x) n) as [p|] eqn:Ep; simpl; [|discriminate].
  destruct (froot (ufac x) n) as [f|] eqn:Ef; simpl; [|discriminate].
  intros [= <-]. unfold uwf; simpl.
  split; [eapply froot_wf; eassumption|]. split.
  - unfold froot in Ef. destruct (Z.eqb n 0); [injection Ef as <-; apply supp_empty|].
    destruct (fdivisible n (ufac x)); [injection Ef as <-|discriminate].
    apply supp_froot_raw; assumption.
  - pose proof (dimOf_froot bd (ufac x) n f Hn Ef) as H. rewrite <- Dx, Ed in H. congruence.
Qed.

Lemma uwf_upre_mul bd p x r : uwf bd x -> upre_mul p x = Ok r -> uwf bd r.
Proof.
  intros (Wx & Sx & Dx). unfold upre_mul.
  destruct (pmul (upre x) p); simpl; [|discriminate]. intros [= <-]. unfold uwf; simpl. auto.
Qed.

Lemma uwf_unum bd x r : uwf bd x -> unum bd x = Ok r -> uwf bd r.
Proof.
  intros (Wx & Sx & Dx). unfold unum. intros [= <-]. unfold uwf; simpl.
  split; [apply wf_fposp|]. split; [apply supp_fposp; assumption|reflexivity].
Qed.

Lemma uwf_uden bd x r : uwf bd x -> uden bd x = Ok r -> uwf bd r.
Proof.
  intros (Wx & Sx & Dx). unfold uden. intros [= <-]. unfold uwf; simpl.
  split; [apply wf_fnegp|]. split; [apply supp_fnegp; assumption|reflexivity].
Qed.

Lemma uwf_uquant bd x r : uwf bd x -> uquant x = Ok r -> uwf bd r.
Proof. intros (Wx & Sx & Dx). unfold uquant. intros [= <-]. unfold uwf; simpl. auto. Qed.

Lemma uwf_apply1 bd e x r : uwf bd x -> apply1 bd e x = Ok r -> uwf bd r.
Proof.
  intros Hx. destruct e; simpl; try (intros [= <-]; exact Hx).
  - apply uwf_upow; assumption.
  - apply uwf_uroot; assumption.
  - apply uwf_upre_mul; assumption.
  - apply uwf_unum; assumption.
  - apply uwf_uden; assumption.
Qed.

(* ---------- the pure evaluator only produces well-formed units (C01 for expressions) ---------- *)
Lemma nfeval_uwf bd e v : lits_ok bd e -> nfeval bd e = Ok v -> uwf bd v.
Proof.
  revert v. induction e as [u|a IHa b IHb|a IHa b IHb|a IHa n|a IHa n|p a IHa|a IHa|a IHa|a IHa];
    intros v; simpl.
  - intros H [= <-]. exact H.
  - intros [Ha Hb]. destruct (nfeval bd a) as [x| |]; simpl; try discriminate.
    destruct (nfeval bd b) as [y| |]; simpl; try discriminate.
    apply uwf_umul; auto.
  - intros [Ha Hb]. destruct (nfeval bd a) as [x| |]; simpl; try discriminate.
    destruct (nfeval bd b) as [y| |]; simpl; try discriminate.
    apply uwf_udiv; auto.
  - intros Ha. destruct (nfeval bd a) as [x| |]; simpl; try discriminate. apply uwf_upow; auto.
  - intros Ha. destruct (nfeval bd a) as [x| |]; simpl; try discriminate. apply uwf_uroot; auto.
  - intros Ha. destruct (nfeval bd a) as [x| |]; simpl; try discriminate. apply uwf_upre_mul; auto.
  - intros Ha. destruct (nfeval bd a) as [x| |]; simpl; try discriminate. apply uwf_unum; auto.
  - intros Ha. destruct (nfeval bd a) as [x| |]; simpl; try discriminate. apply uwf_uden; auto.
  - intros Ha. destruct (nfeval bd a) as [x| |]; simpl; try discriminate. apply uwf_uquant; auto.
Qed.

(* ---------- the intern table ---------- *)
Lemma find_key_Some u t h : find_key u t = Some h ->
  exists v, nth_error t h = Some v /\ ukey v = ukey u.
Proof.
  revert h. induction t as [|w t IH]; intros h; simpl; [discriminate|].
  destruct (ukey_eqb u w) eqn:E.
  - intros [= <-]. exists w. split; [reflexivity|]. symmetry. now apply ukey_eqb_spec.
  - destruct (find_key u t) as [h'|]; simpl; [|discriminate]. intros [= <-]. simpl. apply IH. reflexivity.
Qed.

Lemma find_key_None u t : find_key u t = None -> ~ ukey u ∈ map ukey t.
Proof.
  induction t as [|w t IH]; simpl; [intros _ H; inversion H|].
  destruct (ukey_eqb u w) eqn:E; [discriminate|].
  destruct (find_key u t) as [h'|]; simpl; [discriminate|]. intros _ H.
  apply elem_of_cons in H as [H|H].
  - apply ukey_eqb_spec in H. congruence.
  - apply IH; auto.
Qed.

Definition extends (t t' : table) : Prop := exists l, t' = t ++ l.

Lemma extends_refl t : extends t t.  Proof. exists []. now rewrite app_nil_r. Qed.
Lemma extends_trans a b c : extends a b -> extends b c -> extends a c.
Proof. intros [l ->] [l' ->]. exists (l ++ l'). now rewrite app_assoc. Qed.
Lemma extends_nth t t' h x : extends t t' -> nth_error t h = Some x -> nth_error t' h = Some x.
Proof.
  intros [l ->] H. rewrite nth_error_app1; [exact H|]. apply nth_error_Some. congruence.
Qed.

Lemma intern_spec bd t u t' h : intern t u = (t', h) ->
  extends t t' /\
  (exists v, nth_error t' h = Some v /\ ukey v = ukey u) /\
  (TWF bd t -> uwf bd u -> TWF bd t') /\
  (NoDupK t -> NoDupK t').
Proof.
  unfold intern. destruct (find_key u t) as [h0|] eqn:E.
  - intros [= <- <-]. split; [apply extends_refl|]. split; [apply find_key_Some; exact E|]. auto.
  - intros [= <- <-]. split; [exists [u]; reflexivity|]. split; [|split].
    + exists u. split; [|reflexivity]. rewrite nth_error_app2 by lia. now rewrite Nat.sub_diag.
    + intros Ht Hu. apply Forall_app. split; [exact Ht|]. constructor; [exact Hu|constructor].
    + unfold NoDupK. intros Hn. rewrite map_app. simpl. apply NoDup_app. split; [exact Hn|].
      split; [|apply NoDup_singleton].
      intros k Hk Hk'. apply elem_of_list_singleton in Hk'. subst k.
      apply (find_key_None u t E). exact Hk.
Qed.

Lemma TWF_nth bd t h x : TWF bd t -> nth_error t h = Some x -> uwf bd x.
Proof. intros Ht Hn. eapply Forall_forall in Ht; [exact Ht|]. eapply elem_of_list_In, nth_error_In; eassumption. Qed.

(* the outcome of the stateful evaluation agrees with the pure one *)
Definition agrees (t' : table) (r : sres) (pure : res unit3) : Prop :=
  match r, pure with
  | Ok h, Ok v => nth_error t' h = Some v
  | FracErr, FracErr => True
  | MixedBase, MixedBase => True
  | _, _ => False
  end.

Definition good (bd : env) (t t' : table) (r : sres) (pure : res unit3) : Prop :=
  TWF bd t' /\ NoDupK t' /\ extends t t' /\ agrees t' r pure.

Lemma intern_good bd t0 t r : TWF bd t -> NoDupK t -> extends t0 t -> uwf bd r ->
  good bd t0 (fst (intern t r)) (Ok (snd (intern t r))) (Ok r).
Proof.
  intros Ht Hn He Hr. destruct (intern t r) as [t' h] eqn:Ei. simpl.
  destruct (intern_spec bd t r t' h Ei) as (Hx & (v & Hv & Hk) & Hw & Hd).
  split; [auto|]. split; [auto|]. split; [eapply extends_trans; eassumption|].
  simpl. rewrite Hv. f_equal. apply (uwf_eq bd); auto.
  eapply TWF_nth; [apply Hw; assumption|exact Hv].
Qed.

Lemma seval_good bd e : forall t, TWF bd t -> NoDupK t -> lits_ok bd e ->
  good bd t (fst (seval bd t e)) (snd (seval bd t e)) (nfeval bd e).
Proof.
  assert (Hunary : forall a, (forall t, TWF bd t -> NoDupK t -> lits_ok bd a ->
      good bd t (fst (seval bd t a)) (snd (seval bd t a)) (nfeval bd a)) ->
    forall e' t, TWF bd t -> NoDupK t -> lits_ok bd a ->
      good bd t
        (fst (match seval bd t a with (t1, Ok ha) => with_handle t1 ha (apply1 bd e') | (t1, err) => (t1, err) end))
        (snd (match seval bd t a with (t1, Ok ha) => with_handle t1 ha (apply1 bd e') | (t1, err) => (t1, err) end))
        (rbind (nfeval bd a) (apply1 bd e'))).
  { clear e. intros a IHa e t Ht Hn Hl. specialize (IHa t Ht Hn Hl).
    destruct (seval bd t a) as [t1 ra]. simpl in IHa. destruct IHa as (Ht1 & Hn1 & Hx1 & Hag).
    destruct ra as [ha| |], (nfeval bd a) as [x| |]; simpl in Hag; try contradiction;
      try (simpl; repeat split; auto; fail).
    unfold with_handle. rewrite Hag. simpl.
    pose proof (TWF_nth bd t1 ha x Ht1 Hag) as Hxw.
    destruct (apply1 bd e x) as [r| |] eqn:Er; try (simpl; repeat split; auto; fail).
    pose proof (uwf_apply1 bd e x r Hxw Er) as Hr.
    pose proof (intern_good bd t t1 r Ht1 Hn1 Hx1 Hr) as G.
    destruct (intern t1 r) as [t' h']. exact G. }
  assert (Hbinary : forall (f : unit3 -> unit3 -> res unit3) a b,
    (forall x y r, uwf bd x -> uwf bd y -> f x y = Ok r -> uwf bd r) ->
    (forall t, TWF bd t -> NoDupK t -> lits_ok bd a ->
      good bd t (fst (seval bd t a)) (snd (seval bd t a)) (nfeval bd a)) ->
    (forall t, TWF bd t -> NoDupK t -> lits_ok bd b ->
      good bd t (fst (seval bd t b)) (snd (seval bd t b)) (nfeval bd b)) ->
    forall t, TWF bd t -> NoDupK t -> lits_ok bd a -> lits_ok bd b ->
    let R := match seval bd t a with
      | (t1, Ok ha) =>
          match seval bd t1 b with
          | (t2, Ok hb) =>
              match nth_error t2 ha, nth_error t2 hb with
              | Some x, Some y =>
                  match f x y with
                  | Ok r => let '(t', h') := intern t2 r in (t', Ok h')
                  | FracErr => (t2, FracErr)
                  | MixedBase => (t2, MixedBase)
                  end
              | _, _ => (t2, FracErr)
              end
          | (t2, err) => (t2, err)
          end
      | (t1, err) => (t1, err)
      end in
    good bd t (fst R) (snd R) (rbind (nfeval bd a) (fun x => rbind (nfeval bd b) (fun y => f x y)))).
  { clear e. intros f a b Hf IHa IHb t Ht Hn Hla Hlb. specialize (IHa t Ht Hn Hla).
    destruct (seval bd t a) as [t1 ra]. simpl in IHa. destruct IHa as (Ht1 & Hn1 & Hx1 & Hag).
    destruct ra as [ha| |], (nfeval bd a) as [x| |]; simpl in Hag; try contradiction;
      try (simpl; repeat split; auto; fail).
    specialize (IHb t1 Ht1 Hn1 Hlb).
    destruct (seval bd t1 b) as [t2 rb]. simpl in IHb. destruct IHb as (Ht2 & Hn2 & Hx2 & Hag2).
    assert (extends t t2) as Hx02 by (eapply extends_trans; eassumption).
    destruct rb as [hb| |], (nfeval bd b) as [y| |]; simpl in Hag2; try contradiction;
      try (simpl; repeat split; auto; fail).
    pose proof (extends_nth _ _ _ _ Hx2 Hag) as Hxa. simpl. rewrite Hxa, Hag2.
    pose proof (TWF_nth bd t2 ha x Ht2 Hxa) as Hxw.
    pose proof (TWF_nth bd t2 hb y Ht2 Hag2) as Hyw.
    destruct (f x y) as [r| |] eqn:Er; try (simpl; repeat split; auto; fail).
    pose proof (Hf x y r Hxw Hyw Er) as Hr.
    pose proof (intern_good bd t t2 r Ht2 Hn2 Hx02 Hr) as G.
    destruct (intern t2 r) as [t' h']. exact G. }
  induction e as [u|a IHa b IHb|a IHa b IHb|a IHa n|a IHa n|p a IHa|a IHa|a IHa|a IHa];
    intros t Ht Hn Hl.
  - simpl in Hl. simpl. pose proof (intern_good bd t t u Ht Hn (extends_refl t) Hl) as G.
    destruct (intern t u) as [t' h']. exact G.
  - destruct Hl as [Hla Hlb]. exact (Hbinary umul a b (uwf_umul bd) IHa IHb t Ht Hn Hla Hlb).
  - destruct Hl as [Hla Hlb]. exact (Hbinary udiv a b (uwf_udiv bd) IHa IHb t Ht Hn Hla Hlb).
  - exact (Hunary a IHa (EPow a n) t Ht Hn Hl).
  - exact (Hunary a IHa (ERoot a n) t Ht Hn Hl).
  - exact (Hunary a IHa (EPre p a) t Ht Hn Hl).
  - exact (Hunary a IHa (ENum a) t Ht Hn Hl).
  - exact (Hunary a IHa (EDen a) t Ht Hn Hl).
  - exact (Hunary a IHa (EQuant a) t Ht Hn Hl).
Qed.
