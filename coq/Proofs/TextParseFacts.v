(* Composition of the text level with the term level of the parse model: when the printed text of a term list parses
   back to that term list (checked in the kernel for every unit of the run, Run_print.text_level_agrees), Unit.parse of the
   text IS the term-level evaluation the theorems of Proofs/ParseFacts.v are about. *)
From stdpp Require Import gmap.
From Coq Require Import ZArith NArith List Bool.
From Measured Require Import Model.FMap Model.Units Model.Parse Model.ParseCheck Model.LR Model.Lex Model.TextParse.
Import ListNotations.
Local Open Scope Z_scope.

Lemma str_eqb_sound a : forall b, str_eqb a b = true -> a = b.
Proof.
  induction a as [|x a IH]; intros [|y b] H; cbn in H; try discriminate; [reflexivity|].
  apply andb_true_iff in H as [Hx Hr]. apply Z.eqb_eq in Hx. subst y. f_equal. apply IH, Hr.
Qed.

Lemma terms_eqb_sound : forall a b : list (str * Z),
  (fix eq (a b : list (str * Z)) : bool :=
     match a, b with
     | [], [] => true
     | (s, e) :: a', (s', e') :: b' => str_eqb s s' && Z.eqb e e' && eq a' b'
     | _, _ => false
     end) a b = true -> a = b.
Proof.
  induction a as [|[s e] a IH]; intros [|[s' e'] b] H; try discriminate; [reflexivity|].
  apply andb_true_iff in H as [H Hr]. apply andb_true_iff in H as [Hs He].
  apply str_eqb_sound in Hs. apply Z.eqb_eq in He. subst. f_equal. apply IH, Hr.
Qed.

Theorem text_roundtrip_is_term_roundtrip nm tab order ignore rules infos filtered terminals end_sym T l :
  render_parses_back nm order ignore rules infos filtered terminals end_sym T l = true ->
  unit_parse_text nm tab order ignore rules infos filtered terminals end_sym T (render l) = TUnit (eval_unit tab l None).
Proof.
  unfold render_parses_back, unit_parse_text.
  destruct (parse_text order ignore rules infos filtered terminals end_sym T (to_text (render l))) as [t| | |]; try discriminate.
  destruct (unit_of nm t) as [[num [den|]]|]; try discriminate.
  intros H. apply terms_eqb_sound in H. subst num. reflexivity.
Qed.
