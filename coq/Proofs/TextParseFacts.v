(* Composition of the text level with the term level of the parse model: when the printed text of a term list parses
   back to that term list (checked in the kernel for every unit of the run, Run_print.text_level_agrees), Unit.parse of the
   text IS the term-level evaluation the theorems of Proofs/ParseFacts.v are about. *)
From stdpp Require Import gmap.
From Coq Require Import ZArith NArith List Bool.
From Measured Require Import Model.FMap Model.Units Model.Parse Model.ParseCheck Model.LR Model.Lex Model.TextParse.
Import ListNotations.
Local Open Scope Z_scope.

Lemma str_eqb_sound a : forall b, str_eqb a b = true -> a = b.
Proof.
  induction a as [|x a IH]; intros [|y b] H; cbn in H; try discriminate; [reflexivity|].
  apply andb_true_iff in H as [Hx Hr]. apply Z.eqb_eq in Hx. subst y. f_equal. apply IH, Hr.
Qed.

Lemma terms_eqb_sound : forall a b : list (str * Z),
  (fix eq (a b : list (str * Z)) : bool :=
     match a, b with
     | [], [] => true
     | (s, e) :: a', (s', e') :: b' => str_eqb s s' && Z.eqb e e' && eq a' b'
     | _, _ => false
     end) a b = true -> a = b.
Proof.
  induction a as [|[s e] a IH]; intros [|[s' e'] b] H; try discriminate; [reflexivity|].
  apply andb_true_iff in H as [H Hr]. apply andb_true_iff in H as [Hs He].
  apply str_eqb_sound in Hs. apply Z.eqb_eq in He. subst. f_equal. apply IH, Hr.
Qed.

Theorem text_roundtrip_is_term_roundtrip nm tab order ignore rules infos filtered terminals end_sym T l :
  render_parses_back nm order ignore rules infos filtered terminals end_sym T l = true ->
  unit_parse_text nm tab order ignore rules infos filtered terminals end_sym T (render l) = TUnit (eval_unit tab l None).
Proof.
  unfold render_parses_back, unit_parse_text.
  destruct (parse_text order ignore rules infos filtered terminals end_sym T (to_text (render l))) as [t| | |]; try discriminate.
  destruct (unit_of nm t) as [[num [den|]]|]; try discriminate.
  intros H. apply terms_eqb_sound in H. subst num. reflexivity.
Qed.

(* a KeyError reported for a text that does not parse comes from a term that was already reduced and does not resolve *)
Lemma first_term_error_key tab l : first_term_error tab l = Some PKeyError ->
  exists t, In t l /\ eval_term tab t = PKeyError.
Proof.
  induction l as [|t l IH]; cbn [first_term_error]; [discriminate|].
  destruct (eval_term tab t) eqn:E; intros H.
  - destruct (IH H) as (t' & Hin & Ht'). exists t'. split; [right; exact Hin|exact Ht'].
  - exists t. split; [left; reflexivity|exact E].
  - discriminate.
  - discriminate.
Qed.

Lemma eval_term_key tab t : eval_term tab t = PKeyError -> resolve tab (fst t) = KeyErr.
Proof.
  unfold eval_term. destruct (resolve tab (fst t)) as [[u| |]|]; try discriminate; try reflexivity.
  all: destruct (upow u (snd t)); discriminate.
Qed.

Theorem syntax_failure_key_error nm tab order ignore rules infos filtered terminals end_sym T s :
  (forall t, parse_text order ignore rules infos filtered terminals end_sym T (to_text s) <> PTree t) ->
  unit_parse_text nm tab order ignore rules infos filtered terminals end_sym T s = TUnit PKeyError ->
  exists t, In t (reduced_terms nm (parse_failure_stack order ignore rules infos filtered terminals end_sym T (to_text s))) /\
            resolve tab (fst t) = KeyErr.
Proof.
  intros Hnt. unfold unit_parse_text.
  destruct (parse_text order ignore rules infos filtered terminals end_sym T (to_text s)) as [t| | |] eqn:E.
  - exfalso. apply (Hnt t). reflexivity.
  - destruct (first_term_error tab _) as [[| | |]|] eqn:F; try discriminate.
    intros _. destruct (first_term_error_key _ _ F) as (t & Hin & Ht). exists t. split; [exact Hin|apply eval_term_key, Ht].
  - destruct (first_term_error tab _) as [[| | |]|] eqn:F; try discriminate.
    intros _. destruct (first_term_error_key _ _ F) as (t & Hin & Ht). exists t. split; [exact Hin|apply eval_term_key, Ht].
  - destruct (first_term_error tab _) as [[| | |]|] eqn:F; try discriminate.
    intros _. destruct (first_term_error_key _ _ F) as (t & Hin & Ht). exists t. split; [exact Hin|apply eval_term_key, Ht].
Qed.

(* ---- the printed exponent reads back as the same integer, for every integer the printer can spell ---- *)
Definition dval (l : list Z) (a : Z) : Z := fold_left (fun acc d => acc * 10 + d) l a.

Lemma digits_fuel_value f : forall n acc, 0 <= n < 10 ^ Z.of_nat f -> (0 < f)%nat ->
  dval (digits_fuel f n acc) 0 = dval acc n.
Proof.
  induction f as [|f IH]; intros n acc Hn Hf; [inversion Hf|].
  cbn [digits_fuel]. destruct (Z.ltb_spec n 10) as [Hlt|Hge].
  - unfold dval. cbn [fold_left]. reflexivity.
  - destruct f as [|f'].
    + assert (E1 : 10 ^ Z.of_nat 1 = 10) by reflexivity. rewrite E1 in Hn. exfalso. apply (Z.lt_irrefl n). eapply Z.lt_le_trans; [apply Hn|exact Hge].
    + rewrite IH.
      * unfold dval. cbn [fold_left]. f_equal. rewrite Z.mul_comm. symmetry. apply Z.div_mod. discriminate.
      * rewrite Nat2Z.inj_succ, Z.pow_succ_r in Hn by apply Nat2Z.is_nonneg.
        split; [apply Z.div_pos; [apply Hn|reflexivity]|]. apply Z.div_lt_upper_bound; [reflexivity|apply Hn].
      * apply Nat.lt_0_succ.
Qed.

Lemma digits_fuel_range f : forall n acc, 0 <= n -> Forall (fun d => 0 <= d <= 9) acc ->
  Forall (fun d => 0 <= d <= 9) (digits_fuel f n acc).
Proof.
  induction f as [|f IH]; intros n acc Hn Ha; cbn [digits_fuel]; [exact Ha|].
  destruct (Z.ltb_spec n 10) as [Hlt|Hge].
  - constructor; [split; [exact Hn|]|exact Ha]. apply Z.lt_succ_r. exact Hlt.
  - apply IH; [apply Z.div_pos; [exact Hn|reflexivity]|]. constructor; [|exact Ha].
    pose proof (Z.mod_pos_bound n 10 eq_refl) as [H0 H1]. split; [exact H0|]. apply Z.lt_succ_r. exact H1.
Qed.

Lemma digits_fuel_nonempty f : forall n acc, (0 < f)%nat -> digits_fuel f n acc <> [].
Proof.
  induction f as [|f IH]; intros n acc Hf; [inversion Hf|]. cbn [digits_fuel].
  destruct (Z.ltb n 10); [discriminate|]. destruct f as [|f']; [cbn; discriminate|]. apply IH, Nat.lt_0_succ.
Qed.

Lemma unsup_sup_digit d : 0 <= d <= 9 -> unsup (sup_digit d) = Some d.
Proof.
  intros H. assert (d = 0 \/ d = 1 \/ d = 2 \/ d = 3 \/ d = 4 \/ d = 5 \/ d = 6 \/ d = 7 \/ d = 8 \/ d = 9) as Hd.
  { destruct H as [H0 H9]. destruct d as [|p|p]; [left; reflexivity| |exfalso; apply H0; reflexivity].
    do 9 (destruct p as [p|p|]; try (exfalso; apply H9; reflexivity); try (repeat (try (left; reflexivity); right); reflexivity)). }
  destruct Hd as [->|[->|[->|[->|[->|[->|[->|[->|[->| ->]]]]]]]]]; reflexivity.
Qed.

Lemma sup_digit_not_minus d : 0 <= d <= 9 -> sup_digit d <> 8315.
Proof.
  intros H E. pose proof (unsup_sup_digit d H) as U. rewrite E in U. discriminate U.
Qed.

Lemma sup_value_digits l : Forall (fun d => 0 <= d <= 9) l -> forall a, sup_value a (map sup_digit l) = Some (dval l a).
Proof.
  induction 1 as [|d l Hd _ IH]; intros a; [reflexivity|].
  cbn [map sup_value]. rewrite (unsup_sup_digit d Hd). apply IH.
Qed.

Lemma super_value_pos c cs : c <> 8315 -> super_value (c :: cs) = sup_value 0 (c :: cs).
Proof.
  intros H. unfold super_value. destruct c as [|p|p]; try reflexivity.
  repeat (destruct p as [p|p|]; try reflexivity). exfalso; apply H; reflexivity.
Qed.

(* formatting.superscript followed by formatting.from_superscript is the identity on every exponent the printer writes
   (1 prints as the empty string and is read back by the bare-symbol rule instead); 10^400 is the model's digit budget *)
Theorem superscript_reads_back e : e <> 1 -> Z.abs e < 10 ^ 400 -> super_value (superscript e) = Some e.
Proof.
  intros H1 Hb. unfold superscript. destruct (Z.eqb_spec e 1) as [E|_]; [contradiction|].
  assert (Hr : Forall (fun d => 0 <= d <= 9) (digits (Z.abs e))) by (apply digits_fuel_range; [apply Z.abs_nonneg|constructor]).
  assert (Hne : digits (Z.abs e) <> []) by (apply digits_fuel_nonempty; apply Nat.lt_0_succ).
  assert (Hv : dval (digits (Z.abs e)) 0 = Z.abs e).
  { unfold digits. rewrite digits_fuel_value; [reflexivity| |apply Nat.lt_0_succ]. split; [apply Z.abs_nonneg|exact Hb]. }
  destruct (digits (Z.abs e)) as [|d ds] eqn:Ed; [contradiction|].
  destruct (Z.ltb_spec e 0) as [Hneg|Hpos].
  - cbn [app map super_value]. cbn [map] in *. 
    change (sup_digit d :: map sup_digit ds) with (map sup_digit (d :: ds)).
    rewrite (sup_value_digits _ Hr 0), Hv. cbn [option_map]. f_equal. rewrite Z.abs_neq by (apply Z.lt_le_incl, Hneg). apply Z.opp_involutive.
  - cbn [app map]. assert (Hd : sup_digit d <> 8315) by (apply sup_digit_not_minus; inversion Hr; assumption).
    rewrite (super_value_pos _ _ Hd). change (sup_digit d :: map sup_digit ds) with (map sup_digit (d :: ds)).
    rewrite (sup_value_digits _ Hr 0), Hv. f_equal. apply Z.abs_eq, Hpos.
Qed.

(* ---- the quantity document round-trips exactly when its unit's text does (C15 rests on C13 here, and on nothing else) ---- *)
Theorem quantity_document_roundtrip nm tab pt order ignore rules infos filtered terminals end_sym T k v u of l :
  print_terms pt u of = PTerms l ->
  render_parses_back nm order ignore rules infos filtered terminals end_sym T l = true ->
  eval_unit tab l None = POk u ->
  match enc_quantity pt k v u of with
  | Some d => dec_quantity nm tab order ignore rules infos filtered terminals end_sym T d = Some (k, v, u)
  | None => False
  end.
Proof.
  intros Hp Hr He. unfold enc_quantity. rewrite Hp. unfold dec_quantity. cbn [qd_unit qd_kind qd_value].
  rewrite (text_roundtrip_is_term_roundtrip nm tab order ignore rules infos filtered terminals end_sym T l Hr), He. reflexivity.
Qed.

(* ... and when the text reads back as ANOTHER unit (the recorded collisions) or not at all, the document does not round-trip: the magnitude
   and its type are never the reason *)
Theorem quantity_document_fails_only_through_unit_text nm tab pt order ignore rules infos filtered terminals end_sym T k v u of d :
  enc_quantity pt k v u of = Some d ->
  dec_quantity nm tab order ignore rules infos filtered terminals end_sym T d <> Some (k, v, u) ->
  unit_parse_text nm tab order ignore rules infos filtered terminals end_sym T (qd_unit d) <> TUnit (POk u).
Proof.
  intros He Hd Hu. apply Hd. unfold dec_quantity. rewrite Hu. unfold enc_quantity in He.
  destruct (print_terms pt u of); try discriminate. injection He as <-. reflexivity.
Qed.
