(* Composition of the text level with the term level of the parse model: when the printed text of a term list parses
   back to that term list (checked in the kernel for every unit of the run, Run_print.text_level_agrees), Unit.parse of the
   text IS the term-level evaluation the theorems of Proofs/ParseFacts.v are about. *)
From stdpp Require Import gmap.
From Coq Require Import ZArith NArith List Bool.
From Measured Require Import Model.FMap Model.Units Model.Parse Model.ParseCheck Model.LR Model.Lex Model.TextParse.
Import ListNotations.
Local Open Scope Z_scope.

Lemma str_eqb_sound a : forall b, str_eqb a b = true -> a = b.
Proof.
  induction a as [|x a IH]; intros [|y b] H; cbn in H; try discriminate; [reflexivity|].
  apply andb_true_iff in H as [Hx Hr]. apply Z.eqb_eq in Hx. subst y. f_equal. apply IH, Hr.
Qed.

Lemma terms_eqb_sound : forall a b : list (str * Z),
  (fix eq (a b : list (str * Z)) : bool :=
     match a, b with
     | [], [] => true
     | (s, e) :: a', (s', e') :: b' => str_eqb s s' && Z.eqb e e' && eq a' b'
     | _, _ => false
     end) a b = true -> a = b.
Proof.
  induction a as [|[s e] a IH]; intros [|[s' e'] b] H; try discriminate; [reflexivity|].
  apply andb_true_iff in H as [H Hr]. apply andb_true_iff in H as [Hs He].
  apply str_eqb_sound in Hs. apply Z.eqb_eq in He. subst. f_equal. apply IH, Hr.
Qed.

Theorem text_roundtrip_is_term_roundtrip nm tab order ignore rules infos filtered terminals end_sym T l :
  render_parses_back nm order ignore rules infos filtered terminals end_sym T l = true ->
  unit_parse_text nm tab order ignore rules infos filtered terminals end_sym T (render l) = TUnit (eval_unit tab l None).
Proof.
  unfold render_parses_back, unit_parse_text.
  destruct (parse_text order ignore rules infos filtered terminals end_sym T (to_text (render l))) as [t| | |]; try discriminate.
  destruct (unit_of nm t) as [[num [den|]]|]; try discriminate.
  intros H. apply terms_eqb_sound in H. subst num. reflexivity.
Qed.

(* a KeyError reported for a text that does not parse comes from a term that was already reduced and does not resolve *)
Lemma first_term_error_key tab l : first_term_error tab l = Some PKeyError ->
  exists t, In t l /\ eval_term tab t = PKeyError.
Proof.
  induction l as [|t l IH]; cbn [first_term_error]; [discriminate|].
  destruct (eval_term tab t) eqn:E; intros H.
  - destruct (IH H) as (t' & Hin & Ht'). exists t'. split; [right; exact Hin|exact Ht'].
  - exists t. split; [left; reflexivity|exact E].
  - discriminate.
  - discriminate.
Qed.

Lemma eval_term_key tab t : eval_term tab t = PKeyError -> resolve tab (fst t) = KeyErr.
Proof.
  unfold eval_term. destruct (resolve tab (fst t)) as [[u| |]|]; try discriminate; try reflexivity.
  all: destruct (upow u (snd t)); discriminate.
Qed.

Theorem syntax_failure_key_error nm tab order ignore rules infos filtered terminals end_sym T s :
  (forall t, parse_text order ignore rules infos filtered terminals end_sym T (to_text s) <> PTree t) ->
  unit_parse_text nm tab order ignore rules infos filtered terminals end_sym T s = TUnit PKeyError ->
  exists t, In t (reduced_terms nm (parse_failure_stack order ignore rules infos filtered terminals end_sym T (to_text s))) /\
            resolve tab (fst t) = KeyErr.
Proof.
  intros Hnt. unfold unit_parse_text.
  destruct (parse_text order ignore rules infos filtered terminals end_sym T (to_text s)) as [t| | |] eqn:E.
  - exfalso. apply (Hnt t). reflexivity.
  - destruct (first_term_error tab _) as [[| | |]|] eqn:F; try discriminate.
    intros _. destruct (first_term_error_key _ _ F) as (t & Hin & Ht). exists t. split; [exact Hin|apply eval_term_key, Ht].
  - destruct (first_term_error tab _) as [[| | |]|] eqn:F; try discriminate.
    intros _. destruct (first_term_error_key _ _ F) as (t & Hin & Ht). exists t. split; [exact Hin|apply eval_term_key, Ht].
  - destruct (first_term_error tab _) as [[| | |]|] eqn:F; try discriminate.
    intros _. destruct (first_term_error_key _ _ F) as (t & Hin & Ht). exists t. split; [exact Hin|apply eval_term_key, Ht].
Qed.
