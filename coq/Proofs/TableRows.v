(* The planner reads the table of ratios only through its rows.  `_ratios` is a defaultdict: looking a unit up that has no row
   registers an EMPTY row for it, at the end of the dictionary (a refused conversion does exactly that).  Such rows are invisible:
   every function of the planner model -- the alternatives picked, the replacements, the path search, the plan, the converted
   value or the error -- is the same on `t ++ [(u, [])]` as on `t`, for every table, unit, fuel and query.  A planner that asks
   whether the unit is a key of the table (`start in _ratios`) is refuted by the same extension. *)
From stdpp Require Import gmap.
From Coq Require Import ZArith QArith List Bool FunctionalExtensionality.
From Measured Require Import Model.FMap Model.Units Model.Quantity Model.Value Model.Convert.
Import ListNotations.

Section SameRows.
  Variables t1 t2 : table.
  Hypothesis H : trow t1 = trow t2.

  Lemma tget_same : tget t1 = tget t2.
  Proof. unfold tget. rewrite H. reflexivity. Qed.

  Lemma pick_alternative_same bd : pick_alternative bd t1 = pick_alternative bd t2.
  Proof. unfold pick_alternative. rewrite H. reflexivity. Qed.

  Lemma collect_replacements_same bd : collect_replacements bd t1 = collect_replacements bd t2.
  Proof. unfold collect_replacements. rewrite (pick_alternative_same bd). reflexivity. Qed.

  Lemma apply_replacement_same bd : apply_replacement bd t1 = apply_replacement bd t2.
  Proof. unfold apply_replacement. rewrite tget_same. reflexivity. Qed.

  Lemma replace_loop_same bd ord fuel : replace_loop bd t1 ord fuel = replace_loop bd t2 ord fuel.
  Proof.
    induction fuel as [|f IH]; extensionality factors; extensionality plan; cbn [replace_loop]; [reflexivity|].
    rewrite (collect_replacements_same bd), (apply_replacement_same bd), IH. reflexivity.
  Qed.

  Lemma replace_factors_same bd ord fuel : replace_factors bd t1 ord fuel = replace_factors bd t2 ord fuel.
  Proof. unfold replace_factors. rewrite replace_loop_same. reflexivity. Qed.

  Lemma find_path_same offs fuel : find_path t1 offs fuel = find_path t2 offs fuel.
  Proof.
    induction fuel as [|f IH]; extensionality s; extensionality e; extensionality visited; cbn [find_path]; [reflexivity|].
    rewrite IH, H. reflexivity.
  Qed.

  Lemma find_path0_same offs fuel : find_path0 t1 offs fuel = find_path0 t2 offs fuel.
  Proof. unfold find_path0. rewrite find_path_same. reflexivity. Qed.

  Lemma inline_paths_same offs fuel rough : inline_paths t1 offs fuel rough = inline_paths t2 offs fuel rough.
  Proof.
    induction rough as [|r rest IH]; cbn [inline_paths]; [reflexivity|].
    rewrite find_path0_same, IH. reflexivity.
  Qed.

  Lemma rough_plan_same bd ord fuel : rough_plan bd t1 ord fuel = rough_plan bd t2 ord fuel.
  Proof. unfold rough_plan. rewrite replace_factors_same. reflexivity. Qed.

  Lemma plan_shape_same bd ord offs fuel : plan_shape bd t1 ord offs fuel = plan_shape bd t2 ord offs fuel.
  Proof. unfold plan_shape. rewrite find_path0_same, rough_plan_same. reflexivity. Qed.

  Lemma plan_conversion_same bd ord offs fuel s e : plan_conversion bd t1 ord offs fuel s e = plan_conversion bd t2 ord offs fuel s e.
  Proof.
    unfold plan_conversion. rewrite plan_shape_same.
    destruct (plan_shape bd t2 ord offs fuel s e) as [[d|r]|er]; cbn [cbind]; try reflexivity;
      rewrite inline_paths_same; reflexivity.
  Qed.

  Theorem convert_same bd ord offs fuel m s e : convert bd t1 ord offs fuel m s e = convert bd t2 ord offs fuel m s e.
  Proof. unfold convert. rewrite plan_conversion_same. reflexivity. Qed.
End SameRows.

Section SameOffsetRows.
  Variables o1 o2 : table.
  Hypothesis H : trow o1 = trow o2.

  Lemma find_path_same_offs t fuel : find_path t o1 fuel = find_path t o2 fuel.
  Proof.
    induction fuel as [|f IH]; extensionality s; extensionality e; extensionality visited; cbn [find_path]; [reflexivity|].
    rewrite IH, (tget_same o1 o2 H). reflexivity.
  Qed.

  Lemma inline_paths_same_offs t fuel rough : inline_paths t o1 fuel rough = inline_paths t o2 fuel rough.
  Proof.
    induction rough as [|r rest IH]; cbn [inline_paths]; [reflexivity|].
    unfold find_path0. rewrite find_path_same_offs, IH. reflexivity.
  Qed.

  Lemma plan_conversion_same_offs bd t ord fuel s e : plan_conversion bd t ord o1 fuel s e = plan_conversion bd t ord o2 fuel s e.
  Proof.
    unfold plan_conversion, plan_shape, find_path0. rewrite find_path_same_offs.
    destruct (ordered ord s); cbn [cbind]; [|reflexivity]. destruct (ordered ord e); cbn [cbind]; [|reflexivity].
    destruct (find_path t o2 fuel s e []) as [[p v]|er]; cbn [cbind fst]; [|reflexivity].
    destruct p as [|h p]; cbn [cbind].
    - destruct (rough_plan bd t ord fuel l l0); cbn [cbind]; [|reflexivity]. apply inline_paths_same_offs.
    - rewrite inline_paths_same_offs. reflexivity.
  Qed.

  Theorem convert_same_offs bd t ord fuel m s e : convert bd t ord o1 fuel m s e = convert bd t ord o2 fuel m s e.
  Proof. unfold convert. rewrite plan_conversion_same_offs. reflexivity. Qed.
End SameOffsetRows.

(* ---------- a row registered by a lookup ---------- *)
Lemma trow_registered t u : trow (t ++ [(u, [])]) = trow t.
Proof.
  extensionality a. induction t as [|[k r] t IH]; cbn [app trow].
  - destruct (ukey_eqb u a); reflexivity.
  - destruct (ukey_eqb k a); [reflexivity|exact IH].
Qed.

Fixpoint register_all (t : table) (us : list unit3) : table :=
  match us with [] => t | u :: us => register_all (t ++ [(u, [])]) us end.

Lemma trow_register_all us : forall t, trow (register_all t us) = trow t.
Proof. induction us as [|u us IH]; intros t; cbn [register_all]; [reflexivity|]. rewrite IH. apply trow_registered. Qed.

Theorem lookups_register_nothing_visible bd t ord offs fuel us m s e :
  convert bd (register_all t us) ord offs fuel m s e = convert bd t ord offs fuel m s e.
Proof. apply convert_same. apply trow_register_all. Qed.

Theorem lookups_register_nothing_visible_both bd t o ord fuel us vs m s e :
  convert bd (register_all t us) ord (register_all o vs) fuel m s e = convert bd t ord o fuel m s e.
Proof.
  rewrite (convert_same _ _ (trow_register_all us t)). apply convert_same_offs. apply trow_register_all.
Qed.

Theorem lookups_keep_plans bd t ord offs fuel us s e :
  plan_conversion bd (register_all t us) ord offs fuel s e = plan_conversion bd t ord offs fuel s e.
Proof. apply plan_conversion_same. apply trow_register_all. Qed.

(* the question "is this unit a key of the table" does see them *)
Definition has_row (t : table) (u : unit3) : bool := existsb (fun kr => ukey_eqb (fst kr) u) t.

Theorem key_membership_refuted : exists t u, has_row (register_all t [u]) u <> has_row t u.
Proof. exists [], uone. vm_compute. discriminate. Qed.
