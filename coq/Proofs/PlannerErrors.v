(* C07: which errors the planner's bookkeeping can produce.  With dictionaries that have unique keys
   and no empty lists (what _splat builds and every step preserves), _match_factors always succeeds
   (its _clean_pop calls find their key) and _cancel_factors can only exhaust its iteration budget. *)
From stdpp Require Import gmap.
From Coq Require Import ZArith QArith Qpower Lia List.
From Measured Require Import Model.FMap Model.Units Model.Quantity Model.Convert Proofs.FDictFacts.
Import ListNotations.

(* ---------- _match_factors ---------- *)
Lemma fcount_cons k x l : fcount k (x :: l) = ((if decide (x = k) then 1 else 0) + fcount k l)%nat.
Proof. unfold fcount. simpl. destruct (decide (x = k)); lia. Qed.

Lemma fcount_nil k : fcount k [] = 0%nat.
Proof. reflexivity. Qed.

Lemma match_scan_count to_check : forall rem found k,
  (fcount k (match_scan to_check rem found) <= fcount k found + fcount k to_check)%nat.
Proof.
  induction to_check as [|sd rest IH]; intros rem found k; cbn [match_scan]; [rewrite fcount_nil; lia|].
  destruct (is_factor sd rem).
  - destruct (feqb (fdiv rem sd) fone).
    + rewrite fcount_app, !fcount_cons, fcount_nil. lia.
    + specialize (IH (fdiv rem sd) (found ++ [sd]) k). rewrite fcount_app, fcount_cons, fcount_nil in IH. rewrite fcount_cons. lia.
  - destruct (feqb rem fone); [rewrite fcount_cons; lia|]. specialize (IH rem found k). rewrite fcount_cons. lia.
Qed.

Lemma pop_all_ok ds : forall sf, good sf -> (forall k, (fcount k ds <= klen sf k)%nat) ->
  exists atoms sf', pop_all sf ds = COk (atoms, sf') /\ good sf' /\ (forall k, klen sf' k = (klen sf k - fcount k ds)%nat).
Proof.
  induction ds as [|d ds IH]; intros sf Hg Hc.
  - exists [], sf. split; [reflexivity|]. split; [exact Hg|]. intros k. unfold fcount. simpl. lia.
  - assert (Hd : (0 < klen sf d)%nat) by (specialize (Hc d); rewrite fcount_cons in Hc; destruct (decide (d = d)); [lia|congruence]).
    destruct (clean_pop_ok sf d Hg (klen_pos_in sf d Hd)) as (x & sf1 & E1 & Hg1 & Hl1 & Ho1).
    assert (Hc1 : forall k, (fcount k ds <= klen sf1 k)%nat).
    { intros k. specialize (Hc k). rewrite fcount_cons in Hc. destruct (decide (d = k)) as [->|Hne].
      - lia.
      - rewrite (klen_other sf sf1 k (Ho1 k (not_eq_sym Hne))). lia. }
    destruct (IH sf1 Hg1 Hc1) as (atoms & sf2 & E2 & Hg2 & Hl2).
    exists (x :: atoms), sf2. split; [cbn [pop_all cbind]; rewrite E1; cbn [cbind]; rewrite E2; reflexivity|]. split; [exact Hg2|].
    intros k. rewrite Hl2, fcount_cons. destruct (decide (d = k)) as [->|Hne]; [lia|].
    rewrite (klen_other sf sf1 k (Ho1 k (not_eq_sym Hne))). lia.
Qed.

Section Planner.
  Variable bd : env.

  Definition mf_step (acc : cres (fdict * fdict * list rstep)) (end_dimension : fmap) : cres (fdict * fdict * list rstep) :=
    cbind acc (fun acc =>
      let '(sf, ef, plan) := acc in
      let dimension_factors := match_scan (by_complex_first (fd_expand sf)) end_dimension [] in
      match dimension_factors with
      | [] => COk (sf, ef, plan)
      | d0 :: ds =>
          let discovered := fold_left fmul ds d0 in
          if negb (feqb discovered end_dimension) then COk (sf, ef, plan) else
          cbind (pop_all sf dimension_factors) (fun x =>
          let '(atoms, sf') := x in
          cbind (clean_pop ef end_dimension) (fun y =>
          let '(e, ef') := y in
          let exponent := if dany_neg end_dimension then (-1)%Z else 1%Z in
          COk (sf', ef', plan ++ [MkR 1 PUnit (product_of bd atoms) (atom_unit bd e) exponent])))
      end).

  Lemma match_factors_unfold sf ef :
    match_factors bd sf ef = fold_left mf_step (by_complex_first (fd_expand ef)) (COk (sf, ef, [])).
  Proof. reflexivity. Qed.

  Lemma mf_fold_ok R : forall sf ef plan, good sf -> good ef -> (forall k, (fcount k R <= klen ef k)%nat) ->
    exists sf' ef' plan', fold_left mf_step R (COk (sf, ef, plan)) = COk (sf', ef', plan') /\ good sf' /\ good ef'.
  Proof.
    induction R as [|d R IH]; intros sf ef plan Hs He Hc.
    - exists sf, ef, plan. auto.
    - cbn [fold_left]. unfold mf_step at 2. cbn [cbind].
      assert (HcR : forall k, (fcount k R <= klen ef k)%nat) by (intros k; specialize (Hc k); rewrite fcount_cons in Hc; destruct (decide (d = k)); lia).
      destruct (match_scan (by_complex_first (fd_expand sf)) d []) as [|d0 ds] eqn:Ems; [apply IH; assumption|].
      destruct (negb (feqb (fold_left fmul ds d0) d)); [apply IH; assumption|].
      assert (Hpc : forall k, (fcount k (d0 :: ds) <= klen sf k)%nat).
      { intros k. rewrite <- Ems. pose proof (match_scan_count (by_complex_first (fd_expand sf)) d [] k) as H.
        unfold by_complex_first in *. rewrite fcount_sort, (fcount_expand sf k (proj1 Hs)), fcount_nil in H. lia. }
      destruct (pop_all_ok (d0 :: ds) sf Hs Hpc) as (atoms & sf1 & E1 & Hs1 & _).
      rewrite E1. cbn [cbind].
      assert (Hd : (0 < klen ef d)%nat) by (specialize (Hc d); rewrite fcount_cons in Hc; destruct (decide (d = d)); [lia|congruence]).
      destruct (clean_pop_ok ef d He (klen_pos_in ef d Hd)) as (x & ef1 & E2 & He1 & Hl1 & Ho1).
      rewrite E2. cbn [cbind]. apply IH; [exact Hs1|exact He1|].
      intros k. specialize (Hc k). rewrite fcount_cons in Hc. destruct (decide (d = k)) as [->|Hne]; [lia|].
      rewrite (klen_other ef ef1 k (Ho1 k (not_eq_sym Hne))). lia.
  Qed.

  (* _match_factors never raises *)
  Theorem match_factors_ok sf ef : good sf -> good ef ->
    exists sf' ef' plan, match_factors bd sf ef = COk (sf', ef', plan) /\ good sf' /\ good ef'.
  Proof.
    intros Hs He. rewrite match_factors_unfold. apply mf_fold_ok; [exact Hs|exact He|].
    intros k. unfold by_complex_first. rewrite fcount_sort, (fcount_expand ef k (proj1 He)). lia.
  Qed.

  (* ---------- _cancel_factors ---------- *)
  Lemma fd_mem_in d k : fd_mem d k = true -> In k (keys d).
  Proof.
    unfold fd_mem. destruct (fd_get d k) as [l|] eqn:E; [|discriminate]. intros _.
    apply fd_get_In in E. apply (in_map fst) in E. exact E.
  Qed.

  Lemma cancel_loop_ok fuel : forall invert dimension inverse exponent factors plan, good factors ->
    match cancel_loop bd fuel invert dimension inverse exponent factors plan with
    | COk (f', _) => good f'
    | CErr e => e = EFuel
    end.
  Proof.
    induction fuel as [|f IH]; intros invert dimension inverse exponent factors plan Hg; [reflexivity|].
    cbn [cancel_loop].
    destruct (fd_mem factors dimension) eqn:Md; cbn [andb]; [|exact Hg].
    destruct (fd_mem factors inverse) eqn:Mi; [|exact Hg].
    destruct (clean_pop_ok factors dimension Hg (fd_mem_in _ _ Md)) as (e & f1 & E1 & Hg1 & _ & Ho1).
    rewrite E1. cbn [cbind].
    destruct (feqb dimension inverse) eqn:Edi; [apply IH, Hg1|].
    apply feqb_false in Edi.
    assert (Hin : In inverse (keys f1)).
    { apply fd_mem_in. unfold fd_mem. rewrite (Ho1 inverse (not_eq_sym Edi)). exact Mi. }
    destruct (clean_pop_ok f1 inverse Hg1 Hin) as (s & f2 & E2 & Hg2 & _).
    rewrite E2. cbn [cbind]. destruct invert; apply IH, Hg2.
  Qed.

  Theorem cancel_factors_ok factors invert : good factors ->
    match cancel_factors bd factors invert with
    | COk (f', _) => good f'
    | CErr e => e = EFuel
    end.
  Proof.
    intros Hg. unfold cancel_factors.
    assert (H : forall ks fs plan, good fs ->
      match fold_left (fun acc dimension =>
              cbind acc (fun acc => let '(fs, plan) := acc in
                let exponent := if dany_neg dimension then (-1)%Z else 1%Z in
                cancel_loop bd (S (fd_size fs)) invert dimension (fpow dimension (-1)) exponent fs plan)) ks (COk (fs, plan)) with
      | COk (f', _) => good f'
      | CErr e => e = EFuel
      end).
    { induction ks as [|k ks IHk]; intros fs plan Hfs; [exact Hfs|].
      cbn [fold_left cbind].
      pose proof (cancel_loop_ok (S (fd_size fs)) invert k (fpow k (-1)) (if dany_neg k then (-1)%Z else 1%Z) fs plan Hfs) as Hc.
      destruct (cancel_loop bd (S (fd_size fs)) invert k (fpow k (-1)) (if dany_neg k then (-1)%Z else 1%Z) fs plan) as [[f' p']|e].
      - apply IHk, Hc.
      - subst e. clear. induction ks as [|k' ks IH]; [reflexivity|exact IH]. }
    apply H, Hg.
  Qed.
End Planner.

(* ---------- _replace_factors ---------- *)
Lemma fold_cbind_err {A B} (f : A -> B -> cres A) l e :
  fold_left (fun acc x => cbind acc (fun a => f a x)) l (CErr e) = CErr e.
Proof. induction l as [|x l IH]; [reflexivity|exact IH]. Qed.

Lemma In_insert_desc_l {A} (key : A -> Z) x y l : In y (insert_desc_l key x l) -> y = x \/ In y l.
Proof.
  induction l as [|z l IH]; simpl; [intros [H|[]]; left; congruence|].
  destruct (Z.leb (key z) (key x)); simpl.
  - intros [H|[H|H]]; [left; congruence|right; left; exact H|right; right; exact H].
  - intros [H|H]; [right; left; exact H|]. destruct (IH H) as [H1|H1]; [left; exact H1|right; right; exact H1].
Qed.

Lemma In_stable_sort {A} (key : A -> Z) y l : In y (stable_sort_desc key l) -> In y l.
Proof.
  unfold stable_sort_desc. induction l as [|x l IH]; simpl; [tauto|].
  intros H. apply In_insert_desc_l in H as [->|H]; [left; reflexivity|right; apply IH, H].
Qed.

Lemma ukey_eqb_refl u : ukey_eqb u u = true.
Proof. unfold ukey_eqb, feqb. rewrite !bool_decide_eq_true_2 by reflexivity. reflexivity. Qed.

Lemma rget_of_in r k x : In (k, x) r -> exists y, rget r k = Some y.
Proof.
  induction r as [|[k0 y0] r IH]; simpl; [tauto|].
  intros [H|H].
  - injection H as -> ->. rewrite ukey_eqb_refl. eauto.
  - destruct (ukey_eqb k0 k); [eauto|apply IH, H].
Qed.

Section Replace.
  Variables (bd : env) (tbl : table) (ord : ordtab).
  Hypothesis Hnz : forall u a x, tget tbl u a = Some x -> ~ (x == 0)%Q.
  Hypothesis Hord : forall k l, ordered ord k = Some l -> Forall (fun ae => snd ae <> 0%Z) l.

  Definition rep := (fmap * atom * (unit3 * list (atom * Z)))%type.
  Definition rmatch (d : fmap) (a : atom) (r : rep) : bool := andb (feqb (fst (fst r)) d) (N.eqb (snd (fst r)) a).
  Definition rcount (d : fmap) (a : atom) (reps : list rep) : nat := length (filter (rmatch d a) reps).
  Definition rep_ok (r : rep) : Prop :=
    (exists x, tget tbl (atom_unit bd (snd (fst r))) (fst (snd r)) = Some x) /\
    Forall (fun ae => snd ae <> 0%Z) (snd (snd r)).

  Lemma rcount_app d a l1 l2 : rcount d a (l1 ++ l2) = (rcount d a l1 + rcount d a l2)%nat.
  Proof. unfold rcount. rewrite filter_app, app_length. reflexivity. Qed.

  (* the list of alternatives with their ordered factors *)
  Definition alts_of (r : row) : cres (list (unit3 * list (atom * Z))) :=
    fold_right (fun '(k, _) acc =>
      cbind acc (fun acc => match ordered ord k with Some of => COk ((k, of) :: acc) | None => CErr EMissing end)) (COk []) r.

  Lemma alts_of_spec r : match alts_of r with
                         | COk alts => forall k of, In (k, of) alts -> (exists x, In (k, x) r) /\ ordered ord k = Some of
                         | CErr e => e = EMissing
                         end.
  Proof.
    induction r as [|[k x] r IH]; simpl; [intros k of []|].
    destruct (alts_of r) as [alts|e]; simpl; [|exact IH].
    destruct (ordered ord k) as [of|] eqn:Eo; [|reflexivity].
    intros k' of' [H|H].
    - injection H as <- <-. split; [exists x; left; reflexivity|exact Eo].
    - destruct (IH k' of' H) as [[y Hy] Ho]. split; [exists y; right; exact Hy|exact Ho].
  Qed.

  Lemma pick_alternative_spec a :
    match pick_alternative bd tbl ord a with
    | COk (Some (alt, of)) => (exists x, tget tbl (atom_unit bd a) alt = Some x) /\ Forall (fun ae => snd ae <> 0%Z) of
    | COk None => True
    | CErr e => e = EMissing
    end.
  Proof.
    unfold pick_alternative. fold (alts_of (trow tbl (atom_unit bd a))).
    pose proof (alts_of_spec (trow tbl (atom_unit bd a))) as Hs.
    destruct (alts_of (trow tbl (atom_unit bd a))) as [alts|e]; cbn [cbind]; [|exact Hs].
    destruct (find _ _) as [[alt of]|] eqn:Ef; [|exact I].
    apply find_some in Ef as [Hin _]. apply In_stable_sort in Hin.
    destruct (Hs alt of Hin) as [[x Hx] Ho]. split; [|eapply Hord; exact Ho].
    unfold tget. apply rget_of_in with (x := x). exact Hx.
  Qed.

  (* inner loop of the collection: the atoms of one dictionary entry *)
  Definition collect_units (dimension : fmap) (units : list atom) (acc : cres (list rep)) : cres (list rep) :=
    fold_left (fun acc a =>
      cbind acc (fun acc =>
      cbind (pick_alternative bd tbl ord a) (fun alt =>
      match alt with
      | Some x => COk (acc ++ [(dimension, a, x)])
      | None => COk acc
      end))) units acc.

  Lemma collect_units_cons dimension u units acc :
    collect_units dimension (u :: units) (COk acc) =
    collect_units dimension units
      (cbind (pick_alternative bd tbl ord u) (fun alt =>
       match alt with Some x => COk (acc ++ [(dimension, u, x)]) | None => COk acc end)).
  Proof. reflexivity. Qed.

  Lemma collect_units_err dimension units e : collect_units dimension units (CErr e) = CErr e.
  Proof. unfold collect_units. apply fold_cbind_err. Qed.

  Lemma collect_units_spec dimension units : forall acc (B : fmap -> atom -> nat),
    Forall rep_ok acc -> (forall d a, (rcount d a acc <= B d a)%nat) ->
    match collect_units dimension units (COk acc) with
    | COk acc' => Forall rep_ok acc' /\
                  forall d a, (rcount d a acc' <= B d a + if feqb dimension d then acnt a units else 0)%nat
    | CErr e => e = EMissing
    end.
  Proof.
    induction units as [|u units IH]; intros acc B Hok Hb.
    - simpl. split; [exact Hok|]. intros d a. specialize (Hb d a). destruct (feqb dimension d); unfold acnt; simpl; lia.
    - rewrite collect_units_cons.
      pose proof (pick_alternative_spec u) as Hp.
      destruct (pick_alternative bd tbl ord u) as [[[alt of]|]|e]; cbn [cbind].
      + set (acc1 := acc ++ [(dimension, u, (alt, of))]).
        assert (Hok1 : Forall rep_ok acc1) by (apply Forall_app; split; [exact Hok|constructor; [exact Hp|constructor]]).
        specialize (IH acc1 (fun d a => (B d a + if andb (feqb dimension d) (N.eqb u a) then 1 else 0)%nat) Hok1).
        assert (Hb1 : forall d a, (rcount d a acc1 <= B d a + if andb (feqb dimension d) (N.eqb u a) then 1 else 0)%nat).
        { intros d a. unfold acc1. rewrite rcount_app. specialize (Hb d a). unfold rcount at 2. simpl. unfold rmatch. simpl.
          destruct (andb (feqb dimension d) (N.eqb u a)); simpl; lia. }
        specialize (IH Hb1). destruct (collect_units dimension units (COk acc1)) as [acc'|e]; [|exact IH].
        destruct IH as [IH1 IH2]. split; [exact IH1|]. intros d a. specialize (IH2 d a).
        unfold acnt in *. simpl. destruct (feqb dimension d); simpl in *.
        * destruct (N.eq_dec u a) as [->|Hne]; [rewrite N.eqb_refl in IH2; lia|]. apply N.eqb_neq in Hne. rewrite Hne in IH2. lia.
        * lia.
      + specialize (IH acc B Hok Hb). destruct (collect_units dimension units (COk acc)) as [acc'|e]; [|exact IH].
        destruct IH as [IH1 IH2]. split; [exact IH1|]. intros d a. specialize (IH2 d a).
        unfold acnt in *. simpl. destruct (feqb dimension d); [destruct (N.eq_dec u a)|]; lia.
      + rewrite collect_units_err. exact Hp.
  Qed.

  (* the whole collection pass *)
  Definition ecount (d : fmap) (a : atom) (entries : fdict) : nat :=
    fold_right (fun '(k, l) s => ((if feqb k d then acnt a l else 0) + s)%nat) 0%nat entries.

  Definition collect_step (acc : cres (list rep)) (entry : fmap * list atom) : cres (list rep) :=
    cbind acc (fun acc => if Z.leb (dabs (fst entry)) 1 then COk acc else collect_units (fst entry) (snd entry) (COk acc)).

  Lemma collect_unfold factors :
    collect_replacements bd tbl ord factors = fold_left collect_step factors (COk []).
  Proof.
    unfold collect_replacements.
    match goal with |- fold_left ?f _ ?a = _ => assert (H : forall acc, fold_left f factors acc = fold_left collect_step factors acc) end.
    { induction factors as [|[dimension units] factors IH]; intros acc; [reflexivity|].
      cbn [fold_left]. rewrite IH. reflexivity. }
    apply H.
  Qed.

  Lemma collect_fold_err entries e : fold_left collect_step entries (CErr e) = CErr e.
  Proof. induction entries as [|x entries IH]; [reflexivity|exact IH]. Qed.

  Lemma collect_fold_spec entries : forall acc (B : fmap -> atom -> nat),
    Forall rep_ok acc -> (forall d a, (rcount d a acc <= B d a)%nat) ->
    match fold_left collect_step entries (COk acc) with
    | COk acc' => Forall rep_ok acc' /\ forall d a, (rcount d a acc' <= B d a + ecount d a entries)%nat
    | CErr e => e = EMissing
    end.
  Proof.
    induction entries as [|[k l] entries IH]; intros acc B Hok Hb.
    - simpl. split; [exact Hok|]. intros d a. specialize (Hb d a). lia.
    - cbn [fold_left]. unfold collect_step at 2. cbn [cbind fst snd].
      destruct (Z.leb (dabs k) 1).
      + specialize (IH acc B Hok Hb). destruct (fold_left collect_step entries (COk acc)) as [acc'|e]; [|exact IH].
        destruct IH as [I1 I2]. split; [exact I1|]. intros d a. specialize (I2 d a). cbn [ecount fold_right]. fold (ecount d a entries). lia.
      + pose proof (collect_units_spec k l acc B Hok Hb) as Hu.
        destruct (collect_units k l (COk acc)) as [acc1|e].
        * destruct Hu as [U1 U2].
          specialize (IH acc1 (fun d a => (B d a + if feqb k d then acnt a l else 0)%nat) U1 U2).
          destruct (fold_left collect_step entries (COk acc1)) as [acc'|e]; [|exact IH].
          destruct IH as [I1 I2]. split; [exact I1|]. intros d a. specialize (I2 d a). cbn [ecount fold_right]. fold (ecount d a entries). lia.
        * rewrite collect_fold_err. exact Hu.
  Qed.

  Lemma ecount_acount d a factors : NoDupKeys factors -> ecount d a factors = acount factors d a.
  Proof.
    unfold NoDupKeys, acount, flist. induction factors as [|[k l] factors IH]; simpl; [reflexivity|].
    intros H. inversion H as [|? ? Hnin Hnd]; subst. rewrite (IH Hnd).
    destruct (feqb k d) eqn:E.
    - apply feqb_true in E. subst k. assert (fd_get factors d = None) as -> by (apply fd_get_None; exact Hnin). unfold acnt at 2. simpl. lia.
    - lia.
  Qed.

  Lemma collect_spec factors : NoDupKeys factors ->
    match collect_replacements bd tbl ord factors with
    | COk reps => Forall rep_ok reps /\ forall d a, (rcount d a reps <= acount factors d a)%nat
    | CErr e => e = EMissing
    end.
  Proof.
    intros Hnd. rewrite collect_unfold.
    pose proof (collect_fold_spec factors [] (fun _ _ => 0%nat) (Forall_nil _) (fun d a => Nat.le_refl _)) as H.
    destruct (fold_left collect_step factors (COk [])) as [reps|e]; [|exact H].
    destruct H as [H1 H2]. split; [exact H1|]. intros d a. specialize (H2 d a). rewrite (ecount_acount d a factors Hnd) in H2. lia.
  Qed.

  (* applying the replacements *)
  Definition plan_nz (plan : list rstep) : Prop := Forall (fun r => ~ (r_ratio r == 0)%Q) plan.

  Definition ext_step (sign : Z) (acc : fdict) (be : atom * Z) : fdict :=
    let '(b, e) := be in
    let usign := if Z.ltb e 0 then (-1)%Z else 1%Z in
    fd_extend acc (fpow (atom_dim bd b) (usign * sign)) (repeat_atom b (Z.abs e)).

  Lemma repeat_atom_nonempty b e : e <> 0%Z -> repeat_atom b (Z.abs e) <> [].
  Proof.
    intros He. unfold repeat_atom. assert (exists n, Z.to_nat (Z.abs e) = S n) as [n ->] by (exists (Nat.pred (Z.to_nat (Z.abs e))); lia).
    discriminate.
  Qed.

  Lemma ext_fold_good sign altof : forall factors, Forall (fun ae => snd ae <> 0%Z) altof -> good factors ->
    good (fold_left (ext_step sign) altof factors) /\
    forall k a, (acount factors k a <= acount (fold_left (ext_step sign) altof factors) k a)%nat.
  Proof.
    induction altof as [|[b e] altof IH]; intros factors Hnz0 Hg; [cbn [fold_left]; split; [exact Hg|intros; lia]|].
    inversion Hnz0 as [|? ? He Hrest]; subst. simpl in He. cbn [fold_left].
    assert (Hg1 : good (ext_step sign factors (b, e))) by (apply good_fd_extend; [exact Hg|apply repeat_atom_nonempty, He]).
    destruct (IH _ Hrest Hg1) as [G1 G2]. split; [exact G1|]. intros k a.
    eapply Nat.le_trans; [|apply G2]. apply acount_fd_extend_ge.
  Qed.

  Lemma Qpower_nz x z : ~ (x == 0)%Q -> ~ (Qpower x z == 0)%Q.
  Proof. intros H. apply Qpower_not_0. exact H. Qed.

  Lemma apply_replacement_spec factors plan (r : rep) : rep_ok r -> good factors -> plan_nz plan ->
    (0 < acount factors (fst (fst r)) (snd (fst r)))%nat ->
    match apply_replacement bd tbl (factors, plan) r with
    | COk (f', p') => good f' /\ plan_nz p' /\
        (forall k a, (acount factors k a - (if rmatch k a r then 1 else 0) <= acount f' k a)%nat)
    | CErr e => e = CNF
    end.
  Proof.
    destruct r as [[dimension a] [alt altof]]. intros [[x Hx] Hof] Hg Hp Hc. cbn [fst snd] in *.
    unfold apply_replacement.
    set (u := atom_unit bd a) in *.
    destruct (is_factor (udim u) dimension) eqn:F1; [|destruct (is_factor (fpow (udim u) (-1)) dimension) eqn:F2]; cbn [cbind];
      try reflexivity; rewrite Hx; cbn [cbind];
      destruct (clean_remove_ok factors dimension a Hg Hc) as (f1 & E1 & Hg1 & Hc1 & Ho1); rewrite E1; cbn [cbind].
    - (* sign = 1 *)
      change (fold_left _ altof f1) with (fold_left (ext_step 1) altof f1).
      destruct (ext_fold_good 1 altof f1 Hof Hg1) as [G1 G2].
      replace (andb (Qeq_bool x 0) (Z.ltb 1 0)) with false by (simpl; rewrite andb_false_r; reflexivity).
      split; [exact G1|]. split.
      + apply Forall_app. split; [exact Hp|]. constructor; [|constructor]. cbn [r_ratio]. apply Qpower_nz. eapply Hnz. exact Hx.
      + intros k b. eapply Nat.le_trans; [|apply G2]. unfold rmatch. cbn [fst snd].
        destruct (feqb dimension k) eqn:Ek; cbn [andb].
        * apply feqb_true in Ek. subst k. destruct (N.eqb_spec a b) as [->|Hne]; [lia|]. rewrite (Ho1 dimension b (or_intror (not_eq_sym Hne))). lia.
        * apply feqb_false in Ek. rewrite (Ho1 k b (or_introl (not_eq_sym Ek))). lia.
    - (* sign = -1 *)
      change (fold_left _ altof f1) with (fold_left (ext_step (-1)) altof f1).
      destruct (ext_fold_good (-1) altof f1 Hof Hg1) as [G1 G2].
      assert (Hx0 : Qeq_bool x 0 = false).
      { destruct (Qeq_bool x 0) eqn:E0; [|reflexivity]. apply Qeq_bool_eq in E0. exfalso. exact (Hnz _ _ _ Hx E0). }
      rewrite Hx0. cbn [andb].
      split; [exact G1|]. split.
      + apply Forall_app. split; [exact Hp|]. constructor; [|constructor]. cbn [r_ratio]. apply Qpower_nz. eapply Hnz. exact Hx.
      + intros k b. eapply Nat.le_trans; [|apply G2]. unfold rmatch. cbn [fst snd].
        destruct (feqb dimension k) eqn:Ek; cbn [andb].
        * apply feqb_true in Ek. subst k. destruct (N.eqb_spec a b) as [->|Hne]; [lia|]. rewrite (Ho1 dimension b (or_intror (not_eq_sym Hne))). lia.
        * apply feqb_false in Ek. rewrite (Ho1 k b (or_introl (not_eq_sym Ek))). lia.
  Qed.

  Definition apply_all (reps : list rep) (st : cres (fdict * list rstep)) : cres (fdict * list rstep) :=
    fold_left (fun acc r => cbind acc (fun st => apply_replacement bd tbl st r)) reps st.

  Lemma apply_all_spec reps : forall factors plan, Forall rep_ok reps -> good factors -> plan_nz plan ->
    (forall d a, (rcount d a reps <= acount factors d a)%nat) ->
    match apply_all reps (COk (factors, plan)) with
    | COk (f', p') => good f' /\ plan_nz p'
    | CErr e => e = CNF
    end.
  Proof.
    induction reps as [|r reps IH]; intros factors plan Hok Hg Hp Hc; [split; assumption|].
    inversion Hok as [|? ? Hr Hrest]; subst.
    unfold apply_all. cbn [fold_left cbind]. fold (apply_all reps).
    assert (Hpos : (0 < acount factors (fst (fst r)) (snd (fst r)))%nat).
    { specialize (Hc (fst (fst r)) (snd (fst r))). unfold rcount in Hc. cbn [filter] in Hc. unfold rmatch at 1 in Hc.
      rewrite feqb_refl, N.eqb_refl in Hc. cbn [andb length] in Hc. lia. }
    pose proof (apply_replacement_spec factors plan r Hr Hg Hp Hpos) as Ha.
    destruct (apply_replacement bd tbl (factors, plan) r) as [[f1 p1]|e].
    - destruct Ha as (G1 & P1 & C1). apply IH; [exact Hrest|exact G1|exact P1|].
      intros d a. specialize (Hc d a). specialize (C1 d a). unfold rcount in Hc. cbn [filter] in Hc.
      destruct (rmatch d a r); cbn [length] in Hc; unfold rcount; lia.
    - subst e. assert (E : apply_all reps (CErr CNF) = CErr CNF) by (unfold apply_all; apply (fold_cbind_err (fun st r => apply_replacement bd tbl st r))).
      unfold apply_all in E. rewrite E. reflexivity.
  Qed.

  Lemma replace_loop_spec fuel : forall factors plan, good factors -> plan_nz plan ->
    match replace_loop bd tbl ord fuel factors plan with
    | COk (f', p') => good f' /\ plan_nz p'
    | CErr e => e = CNF \/ e = EFuel \/ e = EMissing
    end.
  Proof.
    induction fuel as [|f IH]; intros factors plan Hg Hp; [right; left; reflexivity|].
    cbn [replace_loop].
    pose proof (collect_spec factors (proj1 Hg)) as Hcs.
    destruct (collect_replacements bd tbl ord factors) as [reps|e]; cbn [cbind]; [|right; right; exact Hcs].
    destruct Hcs as [Hok Hc].
    pose proof (apply_all_spec reps factors plan Hok Hg Hp Hc) as Ha. unfold apply_all in Ha.
    destruct (fold_left _ reps (COk (factors, plan))) as [[f1 p1]|e]; cbn [cbind]; [|left; exact Ha].
    destruct Ha as [G1 P1]. destruct (Nat.eqb (length p1) (length plan)); [split; assumption|apply IH; assumption].
  Qed.

  Theorem replace_factors_spec fuel factors : good factors ->
    match replace_factors bd tbl ord fuel factors with
    | COk (f', p') => good f' /\ plan_nz p'
    | CErr e => e = CNF \/ e = EFuel \/ e = EMissing
    end.
  Proof. intros Hg. apply replace_loop_spec; [exact Hg|constructor]. Qed.
End Replace.

(* ---------- assembling: _plan_conversion and convert ---------- *)
Definition ok_err (e : cerr) : Prop := e = CNF \/ e = EFuel \/ e = EMissing.

Section Assemble.
  Variables (bd : env) (tbl offs : table) (ord : ordtab).
  Hypothesis Hnz : forall u a x, tget tbl u a = Some x -> ~ (x == 0)%Q.
  Hypothesis Hord : forall k l, ordered ord k = Some l -> Forall (fun ae => snd ae <> 0%Z) l.

  Lemma good_nil : good [].
  Proof. split; constructor. Qed.

  Lemma good_splat of : Forall (fun ae => snd ae <> 0%Z) of -> good (splat bd of).
  Proof.
    unfold splat. generalize (@nil (fmap * list atom)) good_nil.
    induction of as [|[a e] of IH]; intros acc Hacc Hf; [exact Hacc|].
    inversion Hf as [|? ? He Hrest]; subst. simpl in He. cbn [fold_left]. apply IH; [|exact Hrest].
    destruct (Z.ltb_spec e 0).
    - apply good_fd_extend; [exact Hacc|apply repeat_atom_nonempty, He].
    - apply good_fd_extend; [exact Hacc|]. unfold repeat_atom.
      assert (exists n, Z.to_nat e = S n) as [n ->] by (exists (Nat.pred (Z.to_nat e)); lia). discriminate.
  Qed.

  Lemma invert_plan_ok plan2r : plan_nz plan2r ->
    exists plan2, fold_right (fun r acc =>
        cbind acc (fun acc =>
        if Qeq_bool (r_ratio r) 0 then CErr EZero else
        COk (MkR (/ r_ratio r) (match r_prov r with PTbl u a z => PTbl u a (- z) | p => p end) (r_start r) (r_end r) (r_exp r) :: acc)))
      (COk []) plan2r = COk plan2.
  Proof.
    induction 1 as [|r rs Hr _ IH]; [exists []; reflexivity|].
    destruct IH as [p2 E]. cbn [fold_right]. rewrite E. cbn [cbind].
    destruct (Qeq_bool (r_ratio r) 0) eqn:E0; [apply Qeq_bool_eq in E0; contradiction|]. eauto.
  Qed.

  Theorem rough_plan_errors fuel sof eof e :
    Forall (fun ae => snd ae <> 0%Z) sof -> Forall (fun ae => snd ae <> 0%Z) eof ->
    rough_plan bd tbl ord fuel sof eof = CErr e -> ok_err e.
  Proof.
    intros Hs He. unfold rough_plan.
    pose proof (replace_factors_spec bd tbl ord Hnz Hord fuel (splat bd sof) (good_splat sof Hs)) as R1.
    destruct (replace_factors bd tbl ord fuel (splat bd sof)) as [[sf plan1]|e1]; cbn [cbind]; [|intros [= <-]; exact R1].
    destruct R1 as [Gs _].
    pose proof (replace_factors_spec bd tbl ord Hnz Hord fuel (splat bd eof) (good_splat eof He)) as R2.
    destruct (replace_factors bd tbl ord fuel (splat bd eof)) as [[ef plan2r]|e2]; cbn [cbind]; [|intros [= <-]; exact R2].
    destruct R2 as [Ge P2].
    destruct (invert_plan_ok plan2r P2) as [plan2 E2]. rewrite E2. cbn [cbind].
    destruct (match_factors_ok bd sf ef Gs Ge) as (sf1 & ef1 & plan3 & E3 & Gs1 & Ge1). rewrite E3. cbn [cbind].
    destruct (match_factors_ok bd ef1 sf1 Ge1 Gs1) as (ef2 & sf2 & plan4 & E4 & Ge2 & Gs2). rewrite E4. cbn [cbind].
    pose proof (cancel_factors_ok bd ef2 false Ge2) as C1.
    destruct (cancel_factors bd ef2 false) as [[ef3 plan5]|e5]; cbn [cbind]; [|intros [= <-]; right; left; exact C1].
    pose proof (cancel_factors_ok bd sf2 true Gs2) as C2.
    destruct (cancel_factors bd sf2 true) as [[sf3 plan6]|e6]; cbn [cbind]; [|intros [= <-]; right; left; exact C2].
    destruct sf3, ef3; try discriminate; intros [= <-]; left; reflexivity.
  Qed.
End Assemble.

(* ---------- conversions never raise anything but ConversionNotFound ---------- *)
From Measured Require Import Model.ConvCheck Proofs.ConvertFacts Proofs.ConvertLaws.

Definition table_nzb (t : table) : bool := forallb (fun ar => forallb (fun br => negb (Qeq_bool (snd br) 0)) (snd ar)) t.
Definition ord_nzb (o : ordtab) : bool := forallb (fun kl => forallb (fun ae => negb (Z.eqb (snd ae) 0)) (snd kl)) o.

Lemma table_nzb_row t u : table_nzb t = true -> Forall (fun br => ~ (snd br == 0)%Q) (trow t u).
Proof.
  unfold table_nzb. induction t as [|[k r] t IH]; simpl; [constructor|]. intros H. apply andb_prop in H as [H1 H2].
  destruct (ukey_eqb k u); [|apply IH, H2].
  rewrite forallb_forall in H1. apply Forall_forall. intros br Hin E. specialize (H1 br Hin).
  apply negb_true_iff in H1. apply Qeq_bool_iff in E. congruence.
Qed.

Lemma table_nzb_tget t u a x : table_nzb t = true -> tget t u a = Some x -> ~ (x == 0)%Q.
Proof.
  intros H. unfold tget. pose proof (table_nzb_row t u H) as Hr. induction (trow t u) as [|[k y] r IH]; simpl; [discriminate|].
  inversion Hr as [|? ? Hy Hrest]; subst. destruct (ukey_eqb k a); [intros [= <-]; exact Hy|apply IH, Hrest].
Qed.

Lemma ord_nzb_ordered o k l : ord_nzb o = true -> ordered o k = Some l -> Forall (fun ae => snd ae <> 0%Z) l.
Proof.
  unfold ord_nzb. induction o as [|[k' l'] o IH]; simpl; [discriminate|]. intros H. apply andb_prop in H as [H1 H2].
  destruct (ukey_eqb k' k); [|apply IH, H2]. intros [= <-].
  rewrite forallb_forall in H1. apply Forall_forall. intros ae Hin E. specialize (H1 ae Hin). apply negb_true_iff in H1.
  apply Z.eqb_neq in H1. contradiction.
Qed.

Section Convert.
  Variables (bd : env) (tbl offs : table) (ord : ordtab).
  Hypothesis Htbl : table_nzb tbl = true.
  Hypothesis Hord : ord_nzb ord = true.

  Definition hops_nz (p : list hop) : Prop := Forall (fun h => ~ (fst h == 0)%Q) p.

  Lemma hop_pow_nz x h : ~ (fst h == 0)%Q -> ~ (fst (hop_pow x h) == 0)%Q.
  Proof. intros H. unfold hop_pow. cbn [fst]. apply Qpower_not_0. exact H. Qed.

  Lemma find_path_nz fuel : forall s e vis p v, find_path tbl offs fuel s e vis = COk (p, v) -> hops_nz p.
  Proof.
    induction fuel as [|f IH]; intros s e vis p v; [discriminate|].
    cbn [find_path].
    destruct (ukey_eqb s e). { intros [= <- <-]. constructor; [cbn [fst]; discriminate|constructor]. }
    destruct (in_visited s vis). { intros [= <- <-]. constructor. }
    destruct (reduce_dimension s e) as [[[x s'] e']|]; [|discriminate].
    pose proof (table_nzb_row tbl s' Htbl) as Hrow.
    assert (Hloop : forall nbrs best v0 p0 v1,
      Forall (fun br => ~ (snd br == 0)%Q) nbrs -> hops_nz best ->
      (fix loop (nbrs : row) (best : list hop) (visited : list unit3) {struct nbrs}
         : cres (list hop * list unit3) :=
         match nbrs with
         | [] => COk (best, visited)
         | (inter, scale) :: rest =>
             let offset := match tget offs s' inter with Some o => o | None => 0%Q end in
             if ukey_eqb inter e' then COk ([hop_pow x (scale, offset)], visited) else
             match find_path tbl offs f inter e' visited with
             | CErr er => CErr er
             | COk (p, visited') =>
                 match p with
                 | [] => loop rest best visited'
                 | _ => let p' := map (hop_pow x) ((scale, offset) :: p) in
                        let best' := match best with
                                     | [] => p'
                                     | _ => if Nat.ltb (length p') (length best) then p' else best
                                     end in
                        loop rest best' visited'
                 end
             end
         end) nbrs best v0 = COk (p0, v1) -> hops_nz p0).
    { induction nbrs as [|[inter scale] rest IHn]; intros best v0 p0 v1 Hr Hb; [intros [= <- <-]; exact Hb|].
      inversion Hr as [|? ? Hsc Hrest]; subst. cbn [snd] in Hsc. cbv zeta.
      destruct (ukey_eqb inter e').
      { intros [= <- <-]. constructor; [apply hop_pow_nz; exact Hsc|constructor]. }
      destruct (find_path tbl offs f inter e' v0) as [[q vq]|er] eqn:Ef; [|discriminate].
      destruct q as [|h q]; [apply IHn; assumption|].
      apply IHn; [exact Hrest|].
      assert (Hnew : hops_nz (map (hop_pow x) ((scale, match tget offs s' inter with Some o => o | None => 0%Q end) :: h :: q))).
      { pose proof (IH _ _ _ _ _ Ef) as Hq. unfold hops_nz. apply Forall_map. constructor; [apply hop_pow_nz; exact Hsc|].
        eapply Forall_impl; [|exact Hq]. intros a Ha. apply hop_pow_nz, Ha. }
      destruct best as [|b0 best]; [exact Hnew|]. destruct (Nat.ltb _ _); [exact Hnew|exact Hb]. }
    intros Hfp. eapply Hloop; [exact Hrow|constructor|exact Hfp].
  Qed.

  Lemma inline_paths_nz fuel rough plan : inline_paths tbl offs fuel rough = COk plan ->
    Forall (fun st => hops_nz (ps_path st)) plan.
  Proof.
    revert plan. induction rough as [|r rs IH]; intros plan; cbn [inline_paths]; [intros [= <-]; constructor|].
    unfold find_path0. destruct (find_path tbl offs fuel (r_start r) (r_end r) []) as [[p v]|] eqn:Ef; cbn [cbind fst]; [|discriminate].
    destruct p as [|h p]; [discriminate|].
    destruct (inline_paths tbl offs fuel rs) as [tl|]; cbn [cbind]; [|discriminate].
    intros [= <-]. constructor; [cbn [ps_path]; eapply find_path_nz; exact Ef|apply IH; reflexivity].
  Qed.

  Lemma plan_div0_false plan : Forall (fun st => hops_nz (ps_path st)) plan -> plan_div0 plan = false.
  Proof.
    induction 1 as [|st pl Hst _ IH]; [reflexivity|]. cbn [plan_div0 existsb]. fold (plan_div0 pl). rewrite IH, orb_false_r.
    destruct (Z.ltb (ps_exp st) 0); [|reflexivity]. cbn [andb].
    induction Hst as [|h p Hh _ IHp]; [reflexivity|]. cbn [existsb]. rewrite IHp, orb_false_r.
    destruct (Qeq_bool (fst h) 0) eqn:E; [apply Qeq_bool_eq in E; contradiction|reflexivity].
  Qed.

  Lemma benign_ok e : benign e -> ok_err e.
  Proof. intros [->| ->]; [left|right; left]; reflexivity. Qed.

  (* the theorem: converting can only fail with ConversionNotFound (or by exhausting the recursion /
     iteration budget, or because the harness did not supply a unit's ordered factors) *)
  Theorem convert_only_cnf fuel m s e er :
    convert bd tbl ord offs fuel m s e = CErr er -> ok_err er.
  Proof.
    unfold convert. destruct (negb (feqb (udim s) (udim e))); [intros [= <-]; left; reflexivity|].
    destruct (plan_conversion bd tbl ord offs fuel s e) as [plan|e1] eqn:Epl; cbn [cbind].
    - (* a plan exists: the only remaining raise site is scale ** negative with a zero scale *)
      assert (Hnzp : Forall (fun st => hops_nz (ps_path st)) plan).
      { unfold plan_conversion in Epl. destruct (plan_shape bd tbl ord offs fuel s e) as [[d|rough]|] eqn:Esh; cbn [cbind] in Epl; [| |discriminate].
        - destruct (inline_paths tbl offs fuel [end_prefix_step e]) as [tl|] eqn:Et; cbn [cbind] in Epl; [|discriminate].
          injection Epl as <-. constructor; [|eapply inline_paths_nz; exact Et]. cbn [ps_path].
          unfold plan_shape in Esh. destruct (ordered ord s); [|discriminate]. destruct (ordered ord e); [|discriminate]. cbn [cbind] in Esh.
          unfold find_path0 in Esh. destruct (find_path tbl offs fuel s e []) as [[p v]|] eqn:Ef; cbn [cbind fst] in Esh; [|discriminate].
          destruct p as [|h p]; [destruct (rough_plan bd tbl ord fuel _ _); discriminate|]. injection Esh as <-. eapply find_path_nz; exact Ef.
        - eapply inline_paths_nz; exact Epl. }
      rewrite (plan_div0_false plan Hnzp). discriminate.
    - intros [= <-]. unfold plan_conversion in Epl.
      destruct (plan_shape bd tbl ord offs fuel s e) as [[d|rough]|e2] eqn:Esh; cbn [cbind] in Epl.
      + destruct (inline_paths tbl offs fuel [end_prefix_step e]) as [tl|e3] eqn:Et; cbn [cbind] in Epl; [discriminate|].
        injection Epl as <-. apply benign_ok. eapply inline_paths_errors; exact Et.
      + apply benign_ok. eapply inline_paths_errors; exact Epl.
      + injection Epl as <-. unfold plan_shape in Esh.
        destruct (ordered ord s) as [sof|] eqn:Es; [|injection Esh as <-; right; right; reflexivity].
        destruct (ordered ord e) as [eof|] eqn:Ee; [|injection Esh as <-; right; right; reflexivity]. cbn [cbind] in Esh.
        unfold find_path0 in Esh. destruct (find_path tbl offs fuel s e []) as [[p v]|e4] eqn:Ef; cbn [cbind fst] in Esh.
        * destruct p as [|h p]; [|discriminate].
          destruct (rough_plan bd tbl ord fuel sof eof) as [r|e5] eqn:Er; cbn [cbind] in Esh; [discriminate|]. injection Esh as <-.
          eapply (rough_plan_errors bd tbl ord (fun u a x => table_nzb_tget tbl u a x Htbl) (fun k l => ord_nzb_ordered ord k l Hord)); [| |exact Er].
          -- eapply ord_nzb_ordered; eauto.
          -- eapply ord_nzb_ordered; eauto.
        * injection Esh as <-. apply benign_ok. eapply find_path_errors; exact Ef.
  Qed.
End Convert.
