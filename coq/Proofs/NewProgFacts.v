(* Soundness of the abstract interpretation of Model/NewProg.v: a constructor program accepted by [prog_safe] hands one and
   the same object to every thread, under every schedule, for any number of threads. *)
From Coq Require Import List Arith Bool Lia.
Import ListNotations.
From Measured Require Import Model.NewProg.

Definition abs_at (p : list instr) (k : nat) : option astate := absrun (firstn k p) a0.

Lemma absrun_app l1 : forall l2 a,
  absrun (l1 ++ l2) a = match absrun l1 a with Some a' => absrun l2 a' | None => None end.
Proof.
  induction l1 as [|x l1 IH]; intros l2 a; [reflexivity|].
  cbn [app absrun]. destruct (atrans x a) as [a'|]; [apply IH|reflexivity].
Qed.

Lemma firstn_S_nth {A} (l : list A) : forall k x, nth_error l k = Some x -> firstn (S k) l = firstn k l ++ [x].
Proof.
  induction l as [|y l IH]; intros [|k] x H; try discriminate.
  - injection H as ->. reflexivity.
  - cbn [nth_error] in H. cbn [firstn app]. f_equal. apply (IH k x H).
Qed.

Lemma abs_at_step p k ins a : abs_at p k = Some a -> nth_error p k = Some ins -> abs_at p (S k) = atrans ins a.
Proof.
  intros Ha Hn. unfold abs_at in *. rewrite (firstn_S_nth p k ins Hn), absrun_app, Ha.
  cbn [absrun]. destruct (atrans ins a); reflexivity.
Qed.

Lemma abs_at_safe p k : prog_safe p = true -> exists a, abs_at p k = Some a.
Proof.
  unfold prog_safe, abs_at. intros H. rewrite <- (firstn_skipn k p) in H at 1. rewrite absrun_app in H.
  destruct (absrun (firstn k p) a0) as [a|]; [exists a; reflexivity|discriminate].
Qed.

(* facts that only hold while the lock is held *)
Definition awf (a : astate) : Prop :=
  (tnone a = true -> held a = true) /\ (reflk a = true -> held a = true) /\ (reflh a = true -> held a = true).

Definition facts (a : astate) (g : gstate) (i : nat) (t : tstate) : Prop :=
  awf a /\
  (held a = true <-> owner g = Some i) /\
  (tnone a = true -> table g = None) /\
  (forall r, arefl a r = true -> getreg t r = None -> table g = None) /\
  (selfA a = true -> self t <> None) /\
  (stored a = true -> self t <> None /\ table g = self t) /\
  (forall r, ann a r = true -> getreg t r <> None) /\
  (forall r o, getreg t r = Some o -> table g = Some o).

Definition tinv (p : list instr) (g : gstate) (i : nat) (t : tstate) : Prop :=
  match res t with
  | Some v => owner g <> Some i /\ (forall o, v = Some o -> table g = Some o)
  | None => exists a, abs_at p (pc t) = Some a /\ facts a g i t
  end.

Definition ginv (g : gstate) : Prop := created g = match table g with None => [] | Some o => [o] end.

(* what a step of thread i may do to the shared state, as seen by the others *)
Definition frame (i : nat) (g g' : gstate) : Prop :=
  (forall o, table g = Some o -> table g' = Some o) /\
  (table g' = table g \/ owner g = Some i) /\
  (forall j, j <> i -> (owner g = Some j <-> owner g' = Some j)).

Lemma frame_refl i g : frame i g g.
Proof. repeat split; auto. Qed.

Lemma owner_is_spec g i : owner_is g i = true <-> owner g = Some i.
Proof.
  unfold owner_is. destruct (owner g) as [j|]; [|split; discriminate].
  rewrite Nat.eqb_eq. split; [intros ->; reflexivity|intros H; injection H as ->; reflexivity].
Qed.

Lemma unlock_owner g i : owner (unlock g i) <> Some i.
Proof.
  unfold unlock. cbn [owner]. destruct (owner_is g i) eqn:E; [discriminate|].
  intros H. apply owner_is_spec in H. rewrite H in E. discriminate.
Qed.

Lemma unlock_frame g i : frame i g (unlock g i).
Proof.
  unfold frame, unlock. cbn [table owner]. repeat split; auto.
  - destruct (owner_is g i) eqn:E; [|auto]. apply owner_is_spec in E. rewrite E. intros H'; injection H' as ->. contradiction.
  - destruct (owner_is g i) eqn:E; [discriminate|auto].
Qed.

Lemma frame_other p i j g g' u : j <> i -> frame i g g' -> tinv p g j u -> tinv p g' j u.
Proof.
  intros Hij (Hmono & Htab & Hown) H. unfold tinv in *. destruct (res u) as [v|].
  - destruct H as [Ho Hv]. split; [rewrite <- (Hown j Hij); exact Ho|]. intros o E. apply Hmono, Hv, E.
  - destruct H as (a & Ha & Hwf & Hheld & Htn & Hrefl & Hself & Hst & Hnn & Hv). exists a. split; [exact Ha|].
    assert (Hsame : held a = true -> table g' = table g).
    { intros Hh. destruct Htab as [E|E]; [exact E|]. apply Hheld in Hh. rewrite Hh in E. injection E as E. contradiction. }
    destruct Hwf as (W1 & W2 & W3).
    repeat split; auto.
    + intros Hh. apply (Hown j Hij), Hheld, Hh.
    + intros Ho. apply Hheld, (Hown j Hij), Ho.
    + intros Hh. rewrite (Hsame (W1 Hh)). apply Htn, Hh.
    + intros r Hr E. assert (held a = true) as Hh by (destruct r; [apply W2|apply W3]; exact Hr).
      rewrite (Hsame Hh). apply (Hrefl r Hr E).
    + apply Hst. assumption.
    + destruct (Hst H) as [Hs Ht]. destruct (self u) as [o|] eqn:Es; [|contradiction]. apply Hmono, Ht.
    + intros r o E. apply Hmono, (Hv r o E).
Qed.

Lemma atrans_awf ins a a' : awf a -> atrans ins a = Some a' -> awf a'.
Proof.
  intros (W1 & W2 & W3) H. unfold awf.
  destruct ins as [| |r|r|r|r| | |ro| |r| |]; cbn [atrans] in H.
  - destruct (held a); [discriminate|]. injection H as <-. cbn. repeat split; intros; discriminate.
  - destruct (held a); [|discriminate]. injection H as <-. cbn. repeat split; intros; discriminate.
  - injection H as <-. destruct r; cbn; repeat split; auto.
  - injection H as <-. destruct r; cbn; repeat split; auto.
  - injection H as <-. destruct (arefl a r) eqn:E; [|repeat split; auto]. cbn. 
    assert (held a = true) by (destruct r; [apply W2|apply W3]; exact E). repeat split; auto.
  - injection H as <-. destruct (arefl a r) eqn:E; [|repeat split; auto]. cbn. 
    assert (held a = true) by (destruct r; [apply W2|apply W3]; exact E). repeat split; auto.
  - injection H as <-. cbn. repeat split; auto.
  - destruct (held a && tnone a && selfA a); [|discriminate]. injection H as <-. cbn. repeat split; auto.
  - destruct (held a && selfA a); [|discriminate]. injection H as <-. destruct ro as [[|]|]; cbn; repeat split; auto.
  - destruct (stored a); [|discriminate]. injection H as <-. repeat split; auto.
  - destruct (ann a r); [|discriminate]. injection H as <-. repeat split; auto.
  - injection H as <-. repeat split; auto.
  - injection H as <-. repeat split; auto.
Qed.

Lemma finish_ok p g i t v :
  ginv g -> (forall o, v = Some o -> table g = Some o) ->
  let '(g', t') := finish g i t v in ginv g' /\ tinv p g' i t' /\ frame i g g'.
Proof.
  intros Hg Hv. unfold finish. split; [exact Hg|]. split; [|apply unlock_frame].
  unfold tinv. cbn [res]. split; [apply unlock_owner|exact Hv].
Qed.

Lemma getreg_setreg_same t r v : getreg (setreg t r v) r = v.
Proof. destruct r; reflexivity. Qed.
Lemma getreg_setreg_other t r v : getreg (setreg t r v) (negb r) = getreg t (negb r).
Proof. destruct r; reflexivity. Qed.
Lemma getreg_next t r : getreg (next t) r = getreg t r.
Proof. destruct r; reflexivity. Qed.

Lemma bool_cases (r r' : bool) : r' = r \/ r' = negb r.
Proof. destruct r, r'; auto. Qed.

(* the state of thread i after one instruction: finished with a value the table holds, or one line further with the facts of
   the abstract successor state; or blocked, unchanged *)
Definition post (a a' : astate) (g : gstate) (t : tstate) (g' : gstate) (i : nat) (t' : tstate) : Prop :=
  match res t' with
  | Some v => owner g' <> Some i /\ (forall o, v = Some o -> table g' = Some o)
  | None => (pc t' = S (pc t) /\ facts a' g' i t') \/ (g' = g /\ t' = t)
  end.

Ltac facts_split := unfold facts; split; [assumption | split; [ | split; [ | split; [ | split; [ | split; [ | split ]]]]]].

Lemma instr_step ins a a' g i lv t :
  ginv g -> res t = None -> facts a g i t -> atrans ins a = Some a' ->
  let '(g', t') := istep ins g i lv t in ginv g' /\ post a a' g t g' i t' /\ frame i g g'.
Proof.
  intros Hg Hres Hf Ha. pose proof (atrans_awf ins a a' (proj1 Hf) Ha) as Hwf'.
  destruct Hf as (Hwf & Hheld & Htn & Hrefl & Hself & Hst & Hnn & Hv).
  assert (Hfin : forall v, (forall o, v = Some o -> table g = Some o) ->
            let '(g', t') := finish g i t v in ginv g' /\ post a a' g t g' i t' /\ frame i g g').
  { intros v Hvv. unfold finish. split; [exact Hg|]. split; [|apply unlock_frame].
    unfold post. cbn [res]. split; [apply unlock_owner|exact Hvv]. }
  destruct ins as [| |r|r|r|r| | |ro| |r| |]; cbn [istep atrans] in *.
  - (* IAcquire *)
    destruct (held a) eqn:Eh; [discriminate|]. injection Ha as <-.
    destruct (owner g) as [j|] eqn:Eo.
    + split; [exact Hg|]. split; [|apply frame_refl]. unfold post. rewrite Hres. right. split; reflexivity.
    + split; [exact Hg|]. split.
      * unfold post. cbn [next res]. rewrite Hres. left. split; [reflexivity|].
        facts_split; cbn [held tnone arefl reflk reflh selfA stored ann nnk nnh table owner self next].
        -- split; reflexivity.
        -- discriminate.
        -- intros r; destruct r; discriminate.
        -- exact Hself.
        -- exact Hst.
        -- intros r. rewrite getreg_next. exact (Hnn r).
        -- intros r o. rewrite getreg_next. apply Hv.
      * unfold frame. cbn [table owner]. split; [auto|]. split; [left; reflexivity|].
        intros j Hj. rewrite Eo. split; [discriminate|]. intros H'; injection H' as ->. contradiction.
  - (* IRelease *)
    destruct (held a) eqn:Eh; [|discriminate]. injection Ha as <-.
    split; [exact Hg|]. split; [|apply unlock_frame].
    unfold post. cbn [next res]. rewrite Hres. left. split; [reflexivity|].
    facts_split; cbn [held tnone arefl reflk reflh selfA stored ann nnk nnh table unlock self next].
    + split; [discriminate|]. intros H. exfalso. exact (unlock_owner g i H).
    + discriminate.
    + intros r; destruct r; discriminate.
    + exact Hself.
    + exact Hst.
    + intros r. rewrite getreg_next. exact (Hnn r).
    + intros r o. rewrite getreg_next. apply Hv.
  - (* IGet *)
    injection Ha as <-. split; [exact Hg|]. split; [|apply frame_refl].
    unfold post. cbn [next res]. assert (res (setreg t r (table g)) = None) as -> by (destruct r; exact Hres).
    left. split; [destruct r; reflexivity|].
    facts_split.
    + destruct r; exact Hheld.
    + destruct r; exact Htn.
    + intros r'. rewrite getreg_next. destruct r, r'; cbn; auto; first [exact (Hrefl true) | exact (Hrefl false)].
    + destruct r; exact Hself.
    + destruct r; exact Hst.
    + intros r'. rewrite getreg_next. destruct r, r'; cbn; try discriminate; first [exact (Hnn true) | exact (Hnn false)].
    + intros r' o. rewrite getreg_next. destruct r, r'; cbn; auto; first [exact (Hv true o) | exact (Hv false o)].
  - (* IGetDefault *)
    injection Ha as <-. split; [exact Hg|]. split; [|apply frame_refl].
    set (v := match table g with Some o => Some o | None => getreg t r end).
    assert (Hv1 : v = None -> table g = None) by (unfold v; destruct (table g); [discriminate|reflexivity]).
    assert (Hv2 : forall o, v = Some o -> table g = Some o).
    { unfold v. intros o. destruct (table g) as [x|] eqn:E; [auto|]. intros E'. exact (Hv r o E'). }
    assert (Hv3 : ann a r = true -> v <> None).
    { unfold v. intros Hn. destruct (table g); [discriminate|]. apply (Hnn r Hn). }
    clearbody v.
    unfold post. cbn [next res]. assert (res (setreg t r v) = None) as -> by (destruct r; exact Hres).
    left. split; [destruct r; reflexivity|].
    facts_split.
    + destruct r; exact Hheld.
    + destruct r; exact Htn.
    + intros r'. rewrite getreg_next. destruct r, r'; cbn; auto; first [exact (Hrefl true) | exact (Hrefl false)].
    + destruct r; exact Hself.
    + destruct r; exact Hst.
    + intros r'. rewrite getreg_next. destruct r, r'; cbn; auto; first [exact (Hnn true) | exact (Hnn false)].
    + intros r' o. rewrite getreg_next. destruct r, r'; cbn; auto; first [exact (Hv true o) | exact (Hv false o)].
  - (* IRetIf *)
    injection Ha as <-. destruct (getreg t r) as [o|] eqn:Er.
    + apply Hfin. intros o' E. injection E as <-. apply (Hv r o Er).
    + split; [exact Hg|]. split; [|apply frame_refl].
      unfold post. cbn [next res]. rewrite Hres. left. split; [reflexivity|].
      facts_split.
      * destruct (arefl a r); exact Hheld.
      * destruct (arefl a r) eqn:E; [intros _; apply (Hrefl r E Er)|exact Htn].
      * intros r'. rewrite getreg_next. destruct (arefl a r); apply Hrefl.
      * destruct (arefl a r); exact Hself.
      * destruct (arefl a r); exact Hst.
      * intros r'. rewrite getreg_next. destruct (arefl a r); apply Hnn.
      * intros r' o. rewrite getreg_next. apply Hv.
  - (* IRetTabIf *)
    injection Ha as <-. destruct (getreg t r) as [o|] eqn:Er.
    + apply Hfin. auto.
    + split; [exact Hg|]. split; [|apply frame_refl].
      unfold post. cbn [next res]. rewrite Hres. left. split; [reflexivity|].
      facts_split.
      * destruct (arefl a r); exact Hheld.
      * destruct (arefl a r) eqn:E; [intros _; apply (Hrefl r E Er)|exact Htn].
      * intros r'. rewrite getreg_next. destruct (arefl a r); apply Hrefl.
      * destruct (arefl a r); exact Hself.
      * destruct (arefl a r); exact Hst.
      * intros r'. rewrite getreg_next. destruct (arefl a r); apply Hnn.
      * intros r' o. rewrite getreg_next. apply Hv.
  - (* IAlloc *)
    injection Ha as <-. split; [exact Hg|]. split.
    + unfold post. cbn [res]. rewrite Hres. left. split; [reflexivity|].
      facts_split; cbn [held tnone arefl reflk reflh selfA stored ann nnk nnh table owner self].
      * exact Hheld.
      * exact Htn.
      * intros r'. destruct r'; [exact (Hrefl true)|exact (Hrefl false)].
      * discriminate.
      * discriminate.
      * intros r'. destruct r'; [exact (Hnn true)|exact (Hnn false)].
      * intros r' o. destruct r'; [exact (Hv true o)|exact (Hv false o)].
    + unfold frame. cbn [table owner]. split; [auto|]. split; [left; reflexivity|]. intros; reflexivity.
  - (* IStore *)
    destruct (held a) eqn:Eh; [|discriminate]. destruct (tnone a) eqn:Et; [|discriminate]. destruct (selfA a) eqn:Es; [|discriminate].
    injection Ha as <-. specialize (Htn eq_refl). specialize (Hself eq_refl).
    destruct (self t) as [o|] eqn:Eself; [|contradiction].
    assert (Ho : owner g = Some i) by (apply Hheld; reflexivity).
    split; [unfold ginv in *; cbn [created table]; rewrite Hg, Htn; reflexivity|]. split.
    + unfold post. cbn [next res]. rewrite Hres. left. split; [reflexivity|].
      facts_split; cbn [held tnone arefl reflk reflh selfA stored ann nnk nnh table owner self next].
      * split; auto.
      * discriminate.
      * intros r'; destruct r'; discriminate.
      * intros _. rewrite Eself. discriminate.
      * intros _. rewrite Eself. split; [discriminate|reflexivity].
      * intros r'. rewrite getreg_next. destruct r'; [exact (Hnn true)|exact (Hnn false)].
      * intros r' o'. rewrite getreg_next. intros E. apply Hv in E. rewrite Htn in E. discriminate.
    + unfold frame. cbn [table owner]. split; [intros o' E; rewrite Htn in E; discriminate|]. split; [right; exact Ho|]. intros; reflexivity.
  - (* ISetDefault *)
    destruct (held a) eqn:Eh; [|discriminate]. destruct (selfA a) eqn:Es; [|discriminate].
    cbn [andb] in Ha. specialize (Hself eq_refl).
    destruct (self t) as [o|] eqn:Eself; [|contradiction].
    assert (Ho : owner g = Some i) by (apply Hheld; reflexivity).
    set (g' := match table g with Some _ => g | None => MkG (Some o) (owner g) (fresh g) (created g ++ [o]) end).
    assert (Hg' : ginv g').
    { unfold g'. destruct (table g) eqn:E; [exact Hg|]. unfold ginv in *. cbn [created table]. rewrite Hg, E. reflexivity. }
    assert (Hmono : forall x, table g = Some x -> table g' = Some x).
    { unfold g'. intros x E. rewrite E. exact E. }
    assert (Hsome : table g' <> None).
    { unfold g'. destruct (table g) eqn:E; [rewrite E; discriminate|cbn; discriminate]. }
    assert (Hown : owner g' = owner g) by (unfold g'; destruct (table g); reflexivity).
    assert (Hstored : stored a = true -> table g' = self t).
    { intros Hs. destruct (Hst Hs) as [_ E]. rewrite Eself in *. apply Hmono, E. }
    clearbody g'.
    split; [exact Hg'|]. split.
    + unfold post. destruct ro as [r|].
      * injection Ha as <-. cbn [next res]. assert (res (setreg t r (table g')) = None) as -> by (destruct r; exact Hres).
        left. split; [destruct r; reflexivity|].
        facts_split.
        -- destruct r; cbn; rewrite Hown; split; auto.
        -- destruct r; cbn; discriminate.
        -- intros r'. destruct r, r'; cbn; discriminate.
        -- destruct r; cbn; intros _; rewrite Eself; discriminate.
        -- destruct r; cbn; intros Hs; (split; [rewrite Eself; discriminate|apply Hstored, Hs]).
        -- intros r'. rewrite getreg_next. destruct r, r'; cbn; auto; first [exact (Hnn true) | exact (Hnn false)].
        -- intros r' o'. rewrite getreg_next. destruct r, r'; cbn; auto; intros E; apply Hmono; first [exact (Hv true o' E) | exact (Hv false o' E)].
      * injection Ha as <-. cbn [next res]. rewrite Hres. left. split; [reflexivity|].
        facts_split; cbn [held tnone arefl reflk reflh selfA stored ann nnk nnh self next].
        -- rewrite Hown; split; auto.
        -- discriminate.
        -- intros r'; destruct r'; discriminate.
        -- intros _; rewrite Eself; discriminate.
        -- intros Hs; (split; [rewrite Eself; discriminate|apply Hstored, Hs]).
        -- intros r'. rewrite getreg_next. destruct r'; [exact (Hnn true)|exact (Hnn false)].
        -- intros r' o'. rewrite getreg_next. intros E. apply Hmono, (Hv r' o' E).
    + unfold frame. split; [exact Hmono|]. split; [right; exact Ho|]. intros j Hj. rewrite Hown. reflexivity.
  - (* IRetSelf *)
    destruct (stored a) eqn:Es; [|discriminate]. apply Hfin. intros o E. destruct (Hst eq_refl) as [_ E']. rewrite E', E. reflexivity.
  - (* IRetReg *)
    apply Hfin. intros o E. apply (Hv r o E).
  - (* ISkip *)
    injection Ha as <-. split; [exact Hg|]. split; [|apply frame_refl].
    unfold post. cbn [next res]. rewrite Hres. left. split; [reflexivity|].
    facts_split; auto.
  - (* IMayLeave *)
    injection Ha as <-. destruct lv; [apply Hfin; discriminate|].
    split; [exact Hg|]. split; [|apply frame_refl].
    unfold post. cbn [next res]. rewrite Hres. left. split; [reflexivity|].
    facts_split; auto.
Qed.

Lemma own_step p g i lv t : prog_safe p = true -> ginv g -> tinv p g i t ->
  let '(g', t') := tstep p g i lv t in ginv g' /\ tinv p g' i t' /\ frame i g g'.
Proof.
  intros Hp Hg Ht. unfold tstep. destruct (res t) as [v|] eqn:Hres.
  - split; [exact Hg|]. split; [exact Ht|apply frame_refl].
  - pose proof Ht as Ht0. unfold tinv in Ht. rewrite Hres in Ht. destruct Ht as (a & Ha & Hf).
    destruct (nth_error p (pc t)) as [ins|] eqn:Hn.
    + destruct (abs_at_safe p (S (pc t)) Hp) as [a' Ha']. pose proof (abs_at_step p _ ins a Ha Hn) as Hs. rewrite Hs in Ha'.
      pose proof (instr_step ins a a' g i lv t Hg Hres Hf Ha') as H. destruct (istep ins g i lv t) as [g' t'].
      destruct H as (Hg' & Hpost & Hfr). split; [exact Hg'|]. split; [|exact Hfr].
      unfold tinv. unfold post in Hpost. destruct (res t') as [v|] eqn:Hres'; [exact Hpost|].
      destruct Hpost as [[Hpc Hf']|[-> ->]].
      * exists a'. rewrite Hpc. split; [rewrite Hs; exact Ha'|exact Hf'].
      * exists a. split; assumption.
    + unfold finish. split; [exact Hg|]. split; [|apply unlock_frame].
      unfold tinv. cbn [res]. split; [apply unlock_owner|discriminate].
Qed.

Lemma set_nth_same {A} (l : list A) : forall i x y, nth_error l i = Some y -> nth_error (set_nth i x l) i = Some x.
Proof.
  induction l as [|z l IH]; intros [|i] x y H; try discriminate; cbn [set_nth nth_error] in *; [reflexivity|apply (IH i x y H)].
Qed.

Lemma set_nth_other {A} (l : list A) : forall i j x, i <> j -> nth_error (set_nth i x l) j = nth_error l j.
Proof.
  induction l as [|z l IH]; intros [|i] [|j] x H; cbn [set_nth nth_error]; try reflexivity; [contradiction|].
  apply IH. intros E. apply H. f_equal. exact E.
Qed.

Definition pinv (p : list instr) (s : pstate) : Prop :=
  ginv (fst s) /\ forall i t, nth_error (snd s) i = Some t -> tinv p (fst s) i t.

Lemma pstep_inv p s c : prog_safe p = true -> pinv p s -> pinv p (pstep p s c).
Proof.
  intros Hp [Hg Hts]. unfold pstep. destruct c as [i lv]. cbn [fst snd]. destruct s as [g ts]. cbn [fst snd] in *.
  destruct (nth_error ts i) as [t|] eqn:Hi; [|split; assumption].
  pose proof (own_step p g i lv t Hp Hg (Hts i t Hi)) as H. destruct (tstep p g i lv t) as [g' t'].
  destruct H as (Hg' & Ht' & Hfr). split; [exact Hg'|]. cbn [fst snd].
  intros j u Hj. destruct (Nat.eq_dec i j) as [<-|Hij].
  - rewrite (set_nth_same ts i t' t Hi) in Hj. injection Hj as <-. exact Ht'.
  - rewrite (set_nth_other ts i j t' Hij) in Hj. apply (frame_other p i j g g' u); [auto|exact Hfr|apply Hts, Hj].
Qed.

Lemma pinit_inv p n : pinv p (pinit n).
Proof.
  split; [reflexivity|]. cbn [fst snd pinit]. intros i t H. apply nth_error_In, repeat_spec in H. subst t.
  unfold tinv. cbn [res t0]. exists a0. split; [reflexivity|].
  unfold facts, awf. cbn. repeat split; try discriminate; try (intros r; destruct r; discriminate).
Qed.

Lemma prun_inv p : prog_safe p = true -> forall sched s, pinv p s -> pinv p (prun p s sched).
Proof.
  intros Hp. induction sched as [|c sched IH]; intros s Hs; [exact Hs|]. cbn [prun fold_left]. apply IH, pstep_inv; assumption.
Qed.

(* every constructor program the abstract interpretation accepts: any number of threads, every schedule (including every
   choice at conditional exits) -- each thread that has returned holds the object the table holds, and it is the only
   object ever stored under the key *)
Theorem safe_program_singleton p : prog_safe p = true -> forall n sched o,
  let s := prun p (pinit n) sched in
  In o (presults s) -> table (fst s) = Some o /\ created (fst s) = [o].
Proof.
  intros Hp n sched o s Ho. destruct (prun_inv p Hp sched (pinit n) (pinit_inv p n)) as [Hg Hts]. fold s in Hg, Hts.
  unfold presults in Ho. apply in_flat_map in Ho as (t & Hin & Ho).
  apply In_nth_error in Hin as [i Hi]. pose proof (Hts i t Hi) as Ht. unfold tinv in Ht.
  destruct (res t) as [[o'|]|]; try contradiction. destruct Ho as [<-|[]].
  destruct Ht as [_ Hv]. specialize (Hv o' eq_refl). split; [exact Hv|]. unfold ginv in Hg. rewrite Hg, Hv. reflexivity.
Qed.

Corollary safe_program_results_agree p : prog_safe p = true -> forall n sched o1 o2,
  In o1 (presults (prun p (pinit n) sched)) -> In o2 (presults (prun p (pinit n) sched)) -> o1 = o2.
Proof.
  intros Hp n sched o1 o2 H1 H2. destruct (safe_program_singleton p Hp n sched o1 H1) as [E1 _].
  destruct (safe_program_singleton p Hp n sched o2 H2) as [E2 _]. rewrite E1 in E2. injection E2 as E2. exact E2.
Qed.

(* ---- a replayed observation is a run of the model ---- *)
Lemma set_nth_id {A} (l : list A) : forall i x, nth_error l i = Some x -> set_nth i x l = l.
Proof.
  induction l as [|y l IH]; intros [|i] x H; try discriminate; cbn [set_nth nth_error] in *.
  - injection H as ->. reflexivity.
  - f_equal. apply IH, H.
Qed.

Lemma set_nth_twice {A} (l : list A) : forall i x y, set_nth i y (set_nth i x l) = set_nth i y l.
Proof.
  induction l as [|z l IH]; intros [|i] x y; cbn [set_nth]; try reflexivity. f_equal. apply IH.
Qed.

Lemma pstep_thread p g ts i lv t : nth_error ts i = Some t ->
  pstep p (g, ts) (i, lv) = (fst (tstep p g i lv t), set_nth i (snd (tstep p g i lv t)) ts).
Proof.
  intros H. unfold pstep. cbn [fst snd]. rewrite H. destruct (tstep p g i lv t). reflexivity.
Qed.

Lemma tstep_istep p g i lv t ins : res t = None -> nth_error p (pc t) = Some ins -> tstep p g i lv t = istep ins g i lv t.
Proof. intros H1 H2. unfold tstep. rewrite H1, H2. reflexivity. Qed.

Lemma advance_run p i idx : forall f g t ts g' t',
  nth_error ts i = Some t -> advance f p g i t idx = Some (g', t') ->
  exists sched, prun p (g, ts) sched = (g', set_nth i t' ts).
Proof.
  induction f as [|f IH]; intros g t ts g' t' Hi H; cbn [advance] in H.
  - destruct (Nat.eqb (pc t) idx); [|discriminate]. injection H as <- <-. exists []. cbn. rewrite (set_nth_id ts i t Hi). reflexivity.
  - destruct (Nat.eqb (pc t) idx).
    + injection H as <- <-. exists []. cbn. rewrite (set_nth_id ts i t Hi). reflexivity.
    + destruct (res t) eqn:Hres; [discriminate|]. destruct (nth_error p (pc t)) as [ins|] eqn:Hn; [|discriminate].
      destruct (silent_ok ins); [|discriminate].
      destruct (istep ins g i false t) as [g1 t1] eqn:Hs. destruct (res t1); [discriminate|].
      destruct (Nat.eqb (pc t1) (pc t)); [discriminate|].
      destruct (IH g1 t1 (set_nth i t1 ts) g' t' (set_nth_same ts i t1 t Hi) H) as [sched Hr].
      exists ((i, false) :: sched). cbn [prun fold_left]. rewrite (pstep_thread p g ts i false t Hi), (tstep_istep p g i false t ins Hres Hn), Hs.
      cbn [fst snd]. unfold prun in Hr. rewrite Hr, set_nth_twice. reflexivity.
Qed.

Lemma prun_app p s a b : prun p s (a ++ b) = prun p (prun p s a) b.
Proof. unfold prun. apply fold_left_app. Qed.

Lemma advance_pc p i idx : forall f g t g' t', advance f p g i t idx = Some (g', t') -> pc t' = idx.
Proof.
  induction f as [|f IHf]; intros g t g' t' Ha; cbn [advance] in Ha.
  - destruct (Nat.eqb (pc t) idx) eqn:E; [|discriminate]. injection Ha as <- <-. apply Nat.eqb_eq, E.
  - destruct (Nat.eqb (pc t) idx) eqn:E; [injection Ha as <- <-; apply Nat.eqb_eq, E|].
    destruct (res t); [discriminate|]. destruct (nth_error p (pc t)) as [ins'|]; [|discriminate].
    destruct (silent_ok ins'); [|discriminate]. destruct (istep ins' g i false t) as [g3 t3]. destruct (res t3); [discriminate|].
    destruct (Nat.eqb (pc t3) (pc t)); [discriminate|]. apply (IHf g3 t3 _ _ Ha).
Qed.

Lemma replay_run p : forall evs s s', replay p s evs = Some s' -> exists sched, prun p s sched = s'.
Proof.
  induction evs as [|[i idx] evs IH]; intros [g ts] s' H; cbn [replay] in H.
  - injection H as <-. exists []. reflexivity.
  - cbn [fst snd] in H. destruct (nth_error ts i) as [t|] eqn:Hi; [|discriminate].
    destruct (advance (S (length p)) p g i t idx) as [[g1 t1]|] eqn:Ha; [|discriminate].
    destruct (res t1) eqn:Hres; [discriminate|].
    destruct (nth_error p idx) as [ins|] eqn:Hn; [|discriminate].
    destruct (istep ins g1 i false t1) as [g2 t2] eqn:Hs.
    destruct (advance_run p i idx _ g t ts g1 t1 Hi Ha) as [s1 H1].
    match type of H with (if ?b then _ else _) = _ => destruct b eqn:Hb; [|discriminate] end.
    destruct (IH _ _ H) as [s2 H2].
    assert (Hi1 : nth_error (set_nth i t1 ts) i = Some t1) by apply (set_nth_same ts i t1 t Hi).
    pose proof (advance_pc p i idx _ g t g1 t1 Ha) as Hpc.
    exists (s1 ++ (i, false) :: s2). rewrite prun_app, H1. cbn [prun fold_left].
    rewrite (pstep_thread p g1 _ i false t1 Hi1). rewrite <- Hpc in Hn. rewrite (tstep_istep p g1 i false t1 ins Hres Hn), Hs.
    cbn [fst snd]. rewrite set_nth_twice. unfold prun in H2. exact H2.
Qed.

(* so the singleton theorem speaks about every observed schedule that replays *)
Corollary replayed_results_agree p n evs s : prog_safe p = true -> replay p (pinit n) evs = Some s ->
  forall o1 o2, In o1 (presults s) -> In o2 (presults s) -> o1 = o2.
Proof.
  intros Hp Hr o1 o2 H1 H2. destruct (replay_run p evs _ _ Hr) as [sched <-].
  apply (safe_program_results_agree p Hp n sched o1 o2 H1 H2).
Qed.
