(* The planner's Dict[Dimension, List[Unit]] as an association list: lookup / update / delete lemmas,
   the invariants "keys are unique" and "no key holds an empty list", and when _clean_pop and
   _clean_remove succeed. *)
From stdpp Require Import gmap.
From Coq Require Import ZArith QArith Lia List.
From Measured Require Import Model.FMap Model.Units Model.Quantity Model.Convert.
Import ListNotations.

Lemma feqb_true a b : feqb a b = true <-> a = b.
Proof. unfold feqb. apply bool_decide_eq_true. Qed.
Lemma feqb_refl a : feqb a a = true.
Proof. apply feqb_true. reflexivity. Qed.
Lemma feqb_false a b : feqb a b = false <-> a <> b.
Proof. unfold feqb. apply bool_decide_eq_false. Qed.

Definition keys (d : fdict) : list fmap := map fst d.
Definition NoDupKeys (d : fdict) : Prop := List.NoDup (keys d).
Definition no_empty (d : fdict) : Prop := Forall (fun kl => snd kl <> []) d.
Definition good (d : fdict) : Prop := NoDupKeys d /\ no_empty d.

Definition klen (d : fdict) (k : fmap) : nat := match fd_get d k with Some l => length l | None => 0%nat end.

Lemma fd_get_None d k : fd_get d k = None <-> ~ In k (keys d).
Proof.
  induction d as [|[k' l] d IH]; simpl; [tauto|].
  destruct (feqb k' k) eqn:E.
  - apply feqb_true in E. subst. split; [discriminate|]. intros H. exfalso. apply H. left. reflexivity.
  - apply feqb_false in E. rewrite IH. split; [intros H [H1|H1]; [congruence|auto]|intros H H1; apply H; right; exact H1].
Qed.

Lemma fd_get_In d k l : fd_get d k = Some l -> In (k, l) d.
Proof.
  induction d as [|[k' l'] d IH]; simpl; [discriminate|].
  destruct (feqb k' k) eqn:E; [apply feqb_true in E; subst; intros [= ->]; left; reflexivity|intros H; right; apply IH, H].
Qed.

Lemma fd_get_nonempty d k l : no_empty d -> fd_get d k = Some l -> l <> [].
Proof. intros Hn Hg. apply fd_get_In in Hg. unfold no_empty in Hn. rewrite Forall_forall in Hn. apply (Hn _ Hg). Qed.

(* ---- fd_set on a present key ---- *)
Lemma keys_fd_set d k l : In k (keys d) -> keys (fd_set d k l) = keys d.
Proof.
  induction d as [|[k' l'] d IH]; simpl; [tauto|]. intros H.
  destruct (feqb k' k) eqn:E; simpl; [reflexivity|].
  f_equal. apply IH. destruct H as [H|H]; [apply feqb_false in E; congruence|exact H].
Qed.

Lemma fd_get_set_same d k l : In k (keys d) -> fd_get (fd_set d k l) k = Some l.
Proof.
  induction d as [|[k' l'] d IH]; simpl; [tauto|]. intros H.
  destruct (feqb k' k) eqn:E; simpl; rewrite E; [reflexivity|].
  apply IH. destruct H as [H|H]; [apply feqb_false in E; congruence|exact H].
Qed.

Lemma fd_get_set_other d k l k' : k' <> k -> fd_get (fd_set d k l) k' = fd_get d k'.
Proof.
  intros Hne. induction d as [|[k0 l0] d IH]; simpl.
  - destruct (feqb k k') eqn:E; [apply feqb_true in E; congruence|reflexivity].
  - destruct (feqb k0 k) eqn:E; simpl.
    + apply feqb_true in E. subst k0. destruct (feqb k k') eqn:E2; [apply feqb_true in E2; congruence|reflexivity].
    + destruct (feqb k0 k'); [reflexivity|exact IH].
Qed.

Lemma no_empty_fd_set d k l : no_empty d -> l <> [] -> no_empty (fd_set d k l).
Proof.
  intros Hn Hl. induction d as [|[k' l'] d IH]; simpl.
  - constructor; [exact Hl|constructor].
  - inversion Hn as [|? ? H1 H2]; subst. destruct (feqb k' k).
    + constructor; [exact Hl|exact H2].
    + constructor; [exact H1|apply IH, H2].
Qed.

(* ---- fd_del ---- *)
Lemma keys_fd_del_incl d k x : In x (keys (fd_del d k)) -> In x (keys d).
Proof.
  induction d as [|[k' l'] d IH]; simpl; [tauto|].
  destruct (feqb k' k); simpl; [intros H; right; exact H|intros [H|H]; [left; exact H|right; apply IH, H]].
Qed.

Lemma NoDupKeys_fd_del d k : NoDupKeys d -> NoDupKeys (fd_del d k).
Proof.
  unfold NoDupKeys. induction d as [|[k' l'] d IH]; simpl; [auto|]. intros H. inversion H as [|? ? Hnin Hnd]; subst.
  destruct (feqb k' k); simpl; [exact Hnd|]. constructor; [|apply IH, Hnd].
  intros Hin. apply Hnin. eapply keys_fd_del_incl, Hin.
Qed.

Lemma fd_get_del_same d k : NoDupKeys d -> fd_get (fd_del d k) k = None.
Proof.
  unfold NoDupKeys. induction d as [|[k' l'] d IH]; simpl; [reflexivity|]. intros H. inversion H as [|? ? Hnin Hnd]; subst.
  destruct (feqb k' k) eqn:E; simpl.
  - apply feqb_true in E. subst. apply fd_get_None. exact Hnin.
  - rewrite E. apply IH, Hnd.
Qed.

Lemma fd_get_del_other d k k' : k' <> k -> fd_get (fd_del d k) k' = fd_get d k'.
Proof.
  intros Hne. induction d as [|[k0 l0] d IH]; simpl; [reflexivity|].
  destruct (feqb k0 k) eqn:E; simpl.
  - apply feqb_true in E. subst k0. destruct (feqb k k') eqn:E2; [apply feqb_true in E2; congruence|reflexivity].
  - destruct (feqb k0 k'); [reflexivity|exact IH].
Qed.

Lemma no_empty_fd_del d k : no_empty d -> no_empty (fd_del d k).
Proof.
  intros Hn. induction d as [|[k' l'] d IH]; simpl; [constructor|]. inversion Hn as [|? ? H1 H2]; subst.
  destruct (feqb k' k); [exact H2|]. constructor; [exact H1|apply IH, H2].
Qed.

(* ---- fd_extend ---- *)
Lemma fd_get_app_new d k l : fd_get d k = None -> fd_get (d ++ [(k, l)]) k = Some l.
Proof.
  induction d as [|[k' l'] d IH]; simpl; [rewrite feqb_refl; reflexivity|].
  destruct (feqb k' k); [discriminate|exact IH].
Qed.

Lemma fd_get_app_other d k l k' : k' <> k -> fd_get (d ++ [(k, l)]) k' = fd_get d k'.
Proof.
  intros Hne. induction d as [|[k0 l0] d IH]; simpl.
  - destruct (feqb k k') eqn:E; [apply feqb_true in E; congruence|reflexivity].
  - destruct (feqb k0 k'); [reflexivity|exact IH].
Qed.

Lemma good_fd_extend d k l : good d -> l <> [] -> good (fd_extend d k l).
Proof.
  intros [Hnd Hne] Hl. unfold fd_extend. destruct (fd_get d k) as [l0|] eqn:E.
  - split.
    + unfold NoDupKeys. rewrite keys_fd_set; [exact Hnd|]. apply fd_get_In in E. apply (in_map fst) in E. exact E.
    + apply no_empty_fd_set; [exact Hne|]. destruct l0; [exact Hl|discriminate].
  - split.
    + unfold NoDupKeys, keys. rewrite map_app. simpl. apply NoDup_ListNoDup. apply NoDup_app. split; [apply NoDup_ListNoDup, Hnd|].
      split; [|apply NoDup_singleton]. intros x Hx Hx'. apply elem_of_list_singleton in Hx'. subst.
      apply fd_get_None in E. apply E. apply elem_of_list_In. exact Hx.
    + unfold no_empty. apply Forall_app. split; [exact Hne|]. constructor; [exact Hl|constructor].
Qed.

Lemma klen_fd_extend d k l k' : klen (fd_extend d k l) k' = (klen d k' + if feqb k k' then length l else 0)%nat.
Proof.
  unfold klen, fd_extend. destruct (fd_get d k) as [l0|] eqn:E.
  - destruct (feqb k k') eqn:E2.
    + apply feqb_true in E2. subst k'. rewrite fd_get_set_same by (apply fd_get_In in E; apply (in_map fst) in E; exact E).
      rewrite E, app_length. reflexivity.
    + apply feqb_false in E2. rewrite fd_get_set_other by congruence. lia.
  - destruct (feqb k k') eqn:E2.
    + apply feqb_true in E2. subst k'. rewrite (fd_get_app_new d k l E), E. simpl. reflexivity.
    + apply feqb_false in E2. rewrite fd_get_app_other by congruence. lia.
Qed.

(* ---- _clean_pop ---- *)
Lemma clean_pop_ok d k : good d -> In k (keys d) ->
  exists x d', clean_pop d k = COk (x, d') /\ good d' /\
    klen d' k = (klen d k - 1)%nat /\ (forall k', k' <> k -> fd_get d' k' = fd_get d k').
Proof.
  intros [Hnd Hne] Hin. unfold clean_pop.
  destruct (fd_get d k) as [l|] eqn:E; [|apply fd_get_None in E; contradiction].
  pose proof (fd_get_nonempty d k l Hne E) as Hl. destruct l as [|x rest]; [congruence|].
  exists x. destruct rest as [|y rest].
  - exists (fd_del d k). split; [reflexivity|]. split; [split; [apply NoDupKeys_fd_del, Hnd|apply no_empty_fd_del, Hne]|].
    split; [unfold klen; rewrite (fd_get_del_same d k Hnd), E; reflexivity|]. intros k' Hk'. apply fd_get_del_other, Hk'.
  - exists (fd_set d k (y :: rest)). split; [reflexivity|].
    split; [split; [unfold NoDupKeys; rewrite keys_fd_set by exact Hin; exact Hnd|apply no_empty_fd_set; [exact Hne|discriminate]]|].
    split; [unfold klen; rewrite (fd_get_set_same d k _ Hin), E; simpl; lia|]. intros k' Hk'. apply fd_get_set_other, Hk'.
Qed.

Lemma klen_pos_in d k : (0 < klen d k)%nat -> In k (keys d).
Proof.
  unfold klen. destruct (fd_get d k) as [l|] eqn:E; [|lia]. intros _. apply fd_get_In in E. apply (in_map fst) in E. exact E.
Qed.

Lemma in_klen_pos d k : no_empty d -> In k (keys d) -> (0 < klen d k)%nat.
Proof.
  intros Hne Hin. unfold klen. destruct (fd_get d k) as [l|] eqn:E; [|apply fd_get_None in E; contradiction].
  pose proof (fd_get_nonempty d k l Hne E). destruct l; [congruence|simpl; lia].
Qed.

Lemma klen_other d d' k : fd_get d' k = fd_get d k -> klen d' k = klen d k.
Proof. unfold klen. intros ->. reflexivity. Qed.

(* ---- counting dimensions in the expansion ---- *)
Definition fcount (k : fmap) (l : list fmap) : nat := count_occ (fun a b : fmap => decide (a = b)) l k.

Lemma fcount_app k a b : fcount k (a ++ b) = (fcount k a + fcount k b)%nat.
Proof. unfold fcount. apply count_occ_app. Qed.

Lemma fcount_expand d k : NoDupKeys d -> fcount k (fd_expand d) = klen d k.
Proof.
  unfold NoDupKeys, fd_expand, klen. induction d as [|[k' l] d IH]; simpl; [reflexivity|]. intros H. inversion H as [|? ? Hnin Hnd]; subst.
  rewrite fcount_app, (IH Hnd). destruct (feqb k' k) eqn:E.
  - apply feqb_true in E. subst k'. assert (fd_get d k = None) as -> by (apply fd_get_None; exact Hnin).
    assert (fcount k (map (fun _ => k) l) = length l) as ->; [|lia].
    clear. induction l; simpl; [reflexivity|]. unfold fcount in *. simpl. destruct (decide (k = k)); [|congruence]. rewrite IHl. reflexivity.
  - apply feqb_false in E. assert (fcount k (map (fun _ => k') l) = 0%nat) as ->; [|lia].
    clear -E. induction l; simpl; [reflexivity|]. unfold fcount in *. simpl. destruct (decide (k' = k)); [congruence|]. exact IHl.
Qed.

Lemma fcount_insert (key : fmap -> Z) x l k : fcount k (insert_desc_l key x l) = fcount k (x :: l).
Proof.
  induction l as [|y l IH]; simpl; [reflexivity|].
  destruct (Z.leb (key y) (key x)); [reflexivity|].
  unfold fcount in *. simpl in *. rewrite IH. destruct (decide (y = k)), (decide (x = k)); lia.
Qed.

Lemma fcount_sort key l k : fcount k (stable_sort_desc key l) = fcount k l.
Proof.
  unfold stable_sort_desc. induction l as [|x l IH]; simpl; [reflexivity|].
  rewrite fcount_insert. unfold fcount in *. simpl. rewrite IH. reflexivity.
Qed.

(* ---- atoms inside a key's list: _clean_remove ---- *)
Definition acnt (a : atom) (l : list atom) : nat := count_occ N.eq_dec l a.
Definition flist (d : fdict) (k : fmap) : list atom := match fd_get d k with Some l => l | None => [] end.
Definition acount (d : fdict) (k : fmap) (a : atom) : nat := acnt a (flist d k).

Lemma remove_first_ok a l : (0 < acnt a l)%nat ->
  exists r, remove_first a l = Some r /\ acnt a r = (acnt a l - 1)%nat /\ (forall b, b <> a -> acnt b r = acnt b l).
Proof.
  unfold acnt. induction l as [|x l IH]; simpl; [lia|]. intros H.
  destruct (N.eqb_spec x a) as [->|Hne].
  - exists l. split; [reflexivity|]. split.
    + destruct (N.eq_dec a a); [lia|congruence].
    + intros b Hb. destruct (N.eq_dec a b); [congruence|reflexivity].
  - destruct (N.eq_dec x a); [congruence|]. destruct (IH H) as (r & Er & Hr1 & Hr2). rewrite Er.
    exists (x :: r). split; [reflexivity|]. split.
    + simpl. destruct (N.eq_dec x a); [congruence|exact Hr1].
    + intros b Hb. simpl. rewrite (Hr2 b Hb). reflexivity.
Qed.

Lemma flist_in d k : flist d k <> [] -> In k (keys d).
Proof.
  unfold flist. destruct (fd_get d k) as [l|] eqn:E; [|congruence]. intros _. apply fd_get_In in E. apply (in_map fst) in E. exact E.
Qed.

Lemma clean_remove_ok d k a : good d -> (0 < acount d k a)%nat ->
  exists d', clean_remove d k a = COk d' /\ good d' /\
    acount d' k a = (acount d k a - 1)%nat /\
    (forall k' a', (k' <> k \/ a' <> a) -> acount d' k' a' = acount d k' a').
Proof.
  intros [Hnd Hne] Hc. unfold clean_remove, acount, flist in *.
  destruct (fd_get d k) as [l|] eqn:E; [|simpl in Hc; unfold acnt in Hc; simpl in Hc; lia].
  assert (Hin : In k (keys d)) by (apply fd_get_In in E; apply (in_map fst) in E; exact E).
  destruct (remove_first_ok a l Hc) as (r & Er & Hr1 & Hr2). rewrite Er.
  destruct r as [|y r].
  - exists (fd_del d k). split; [reflexivity|]. split; [split; [apply NoDupKeys_fd_del, Hnd|apply no_empty_fd_del, Hne]|].
    split.
    + rewrite (fd_get_del_same d k Hnd). exact Hr1.
    + intros k' a' Hd. destruct (decide (k' = k)) as [->|Hk].
      * destruct Hd as [Hd|Hd]; [congruence|]. rewrite (fd_get_del_same d k Hnd), E. rewrite <- (Hr2 a' Hd). reflexivity.
      * rewrite (fd_get_del_other d k k' Hk). reflexivity.
  - exists (fd_set d k (y :: r)). split; [reflexivity|].
    split; [split; [unfold NoDupKeys; rewrite keys_fd_set by exact Hin; exact Hnd|apply no_empty_fd_set; [exact Hne|discriminate]]|].
    split.
    + rewrite (fd_get_set_same d k _ Hin). exact Hr1.
    + intros k' a' Hd. destruct (decide (k' = k)) as [->|Hk].
      * destruct Hd as [Hd|Hd]; [congruence|]. rewrite (fd_get_set_same d k _ Hin), E. apply Hr2, Hd.
      * rewrite (fd_get_set_other d k _ k' Hk). reflexivity.
Qed.

Lemma acnt_app a l1 l2 : acnt a (l1 ++ l2) = (acnt a l1 + acnt a l2)%nat.
Proof. unfold acnt. apply count_occ_app. Qed.

Lemma acount_fd_extend_ge d k l k' a' : (acount d k' a' <= acount (fd_extend d k l) k' a')%nat.
Proof.
  unfold acount, flist, fd_extend. destruct (fd_get d k) as [l0|] eqn:E.
  - destruct (decide (k' = k)) as [->|Hk].
    + rewrite fd_get_set_same by (apply fd_get_In in E; apply (in_map fst) in E; exact E). rewrite E, acnt_app. lia.
    + rewrite fd_get_set_other by exact Hk. lia.
  - destruct (decide (k' = k)) as [->|Hk].
    + rewrite (fd_get_app_new d k l E), E. unfold acnt at 1. simpl. lia.
    + rewrite fd_get_app_other by exact Hk. lia.
Qed.
