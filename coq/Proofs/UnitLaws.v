From stdpp Require Import gmap.
From Coq Require Import ZArith Lia.
From Measured Require Import Model.FMap Model.Units Proofs.FMapFacts Proofs.UnitsFacts.
Local Open Scope Z_scope.

(* units whose maps are canonical and whose prefix is the identity or a power of base b *)
Definition uok (b : Z) (x : unit3) : Prop := wf (ufac x) /\ wf (udim x) /\ inbase b (upre x).

Lemma unit3_eq p f d p' f' d' : p = p' -> f = f' -> d = d' -> MkU p f d = MkU p' f' d'.
Proof. intros -> -> ->. reflexivity. Qed.

Lemma inbase_pid b : inbase b pid.
Proof. split; [apply pcanon_pid|left; reflexivity]. Qed.

Lemma uok_uone b : uok b uone.
Proof. unfold uok, uone; simpl. split; [apply wf_empty|split; [apply wf_empty|apply inbase_pid]]. Qed.

Lemma umul_ok b x y : b <> 0 -> uok b x -> uok b y -> exists r, umul x y = Ok r /\ uok b r /\
  pexp (upre r) = pexp (upre x) + pexp (upre y) /\ ufac r = fmul (ufac x) (ufac y) /\ udim r = fmul (udim x) (udim y).
Proof.
  intros Hb (Fx & Dx & Px) (Fy & Dy & Py). unfold umul.
  destruct (pmul_inbase b _ _ Hb Px Py) as (r & -> & Hr & Er). simpl.
  eexists. split; [reflexivity|]. simpl. split; [|auto].
  split; [apply wf_fmul|split; [apply wf_fmul|exact Hr]].
Qed.

Lemma uok_eq b r r' : uok b r -> uok b r' -> pexp (upre r) = pexp (upre r') ->
  ufac r = ufac r' -> udim r = udim r' -> r = r'.
Proof.
  destruct r, r'; simpl. intros (_ & _ & P) (_ & _ & P') E -> ->. simpl in *.
  f_equal. apply (inbase_eq b); auto.
Qed.

Theorem umul_comm b x y : b <> 0 -> uok b x -> uok b y -> umul x y = umul y x.
Proof.
  intros Hb Hx Hy.
  destruct (umul_ok b x y Hb Hx Hy) as (r & -> & Hr & E1 & E2 & E3).
  destruct (umul_ok b y x Hb Hy Hx) as (r' & -> & Hr' & E1' & E2' & E3').
  f_equal. apply (uok_eq b); auto; try lia.
  - rewrite E2, E2'. apply fmul_comm.
  - rewrite E3, E3'. apply fmul_comm.
Qed.

Theorem umul_assoc b x y z : b <> 0 -> uok b x -> uok b y -> uok b z ->
  rbind (umul x y) (fun r => umul r z) = rbind (umul y z) (fun r => umul x r).
Proof.
  intros Hb Hx Hy Hz.
  destruct (umul_ok b x y Hb Hx Hy) as (r & -> & Hr & E1 & E2 & E3).
  destruct (umul_ok b y z Hb Hy Hz) as (s & -> & Hs & S1 & S2 & S3). simpl.
  destruct (umul_ok b r z Hb Hr Hz) as (u & -> & Hu & U1 & U2 & U3).
  destruct (umul_ok b x s Hb Hx Hs) as (v & -> & Hv & V1 & V2 & V3).
  f_equal. apply (uok_eq b); auto; try lia.
  - rewrite U2, V2, E2, S2. symmetry. apply fmul_assoc.
  - rewrite U3, V3, E3, S3. symmetry. apply fmul_assoc.
Qed.

Theorem umul_one_r b x : b <> 0 -> uok b x -> umul x uone = Ok x.
Proof.
  intros Hb Hx. destruct (umul_ok b x uone Hb Hx (uok_uone b)) as (r & -> & Hr & E1 & E2 & E3).
  f_equal. destruct Hx as (Fx & Dx & Px). apply (uok_eq b); auto.
  - split; [assumption|split; assumption].
  - rewrite E1. simpl. lia.
  - rewrite E2. simpl. apply fmul_one_r; assumption.
  - rewrite E3. simpl. apply fmul_one_r; assumption.
Qed.

Lemma upow_ok b x n : b <> 0 -> uok b x -> exists r, upow x n = Ok r /\ uok b r /\
  pexp (upre r) = pexp (upre x) * n /\ ufac r = fpow (ufac x) n /\ udim r = fpow (udim x) n.
Proof.
  intros Hb (Fx & Dx & Px). unfold upow. eexists. split; [reflexivity|]. simpl.
  destruct (ppow_inbase b (upre x) n Hb Px) as [Hq Eq].
  split; [|auto]. split; [apply wf_fpow|split; [apply wf_fpow|exact Hq]].
Qed.

Lemma udiv_ok b x y : b <> 0 -> uok b x -> uok b y -> exists r, udiv x y = Ok r /\ uok b r /\
  pexp (upre r) = pexp (upre x) - pexp (upre y) /\ ufac r = fdiv (ufac x) (ufac y) /\ udim r = fdiv (udim x) (udim y).
Proof.
  intros Hb (Fx & Dx & Px) (Fy & Dy & Py). unfold udiv.
  destruct (pdiv_inbase b _ _ Hb Px Py) as (r & -> & Hr & Er). simpl.
  eexists. split; [reflexivity|]. simpl. split; [|auto].
  split; [apply wf_fdiv|split; [apply wf_fdiv|exact Hr]].
Qed.

(* x * x**-1 is One *)
Theorem umul_inv b x : b <> 0 -> uok b x -> rbind (upow x (-1)) (fun i => umul x i) = Ok uone.
Proof.
  intros Hb Hx. destruct (upow_ok b x (-1) Hb Hx) as (i & -> & Hi & I1 & I2 & I3). simpl.
  destruct (umul_ok b x i Hb Hx Hi) as (r & -> & Hr & E1 & E2 & E3).
  f_equal. apply (uok_eq b); auto.
  - apply uok_uone.
  - simpl. lia.
  - rewrite E2, I2. apply fmul_inv.
  - rewrite E3, I3. apply fmul_inv.
Qed.

(* a / b is a * b**-1 *)
Theorem udiv_as_mul b x y : b <> 0 -> uok b x -> uok b y ->
  udiv x y = rbind (upow y (-1)) (fun i => umul x i).
Proof.
  intros Hb Hx Hy. destruct (upow_ok b y (-1) Hb Hy) as (i & -> & Hi & I1 & I2 & I3). simpl.
  destruct (umul_ok b x i Hb Hx Hi) as (r & -> & Hr & E1 & E2 & E3).
  destruct (udiv_ok b x y Hb Hx Hy) as (q & -> & Hq & Q1 & Q2 & Q3).
  f_equal. apply (uok_eq b); auto; try lia.
  - rewrite Q2, E2, I2. apply fdiv_as_mul.
  - rewrite Q3, E3, I3. apply fdiv_as_mul.
Qed.

(* x**a * x**b is x**(a+b) *)
Theorem upow_add b x m n : b <> 0 -> uok b x ->
  rbind (upow x m) (fun p => rbind (upow x n) (fun q => umul p q)) = upow x (m + n).
Proof.
  intros Hb Hx.
  destruct (upow_ok b x m Hb Hx) as (p & -> & Hp & P1 & P2 & P3).
  destruct (upow_ok b x n Hb Hx) as (q & -> & Hq & Q1 & Q2 & Q3). simpl.
  destruct (umul_ok b p q Hb Hp Hq) as (r & -> & Hr & E1 & E2 & E3).
  destruct (upow_ok b x (m + n) Hb Hx) as (s & -> & Hs & S1 & S2 & S3).
  f_equal. apply (uok_eq b); auto; try lia.
  - rewrite E2, P2, Q2, S2. apply fpow_add.
  - rewrite E3, P3, Q3, S3. apply fpow_add.
Qed.

(* (x**a)**b is x**(a*b) *)
Theorem upow_mul b x m n : b <> 0 -> uok b x ->
  rbind (upow x m) (fun p => upow p n) = upow x (m * n).
Proof.
  intros Hb Hx.
  destruct (upow_ok b x m Hb Hx) as (p & -> & Hp & P1 & P2 & P3). simpl.
  destruct (upow_ok b p n Hb Hp) as (q & -> & Hq & Q1 & Q2 & Q3).
  destruct (upow_ok b x (m * n) Hb Hx) as (s & -> & Hs & S1 & S2 & S3).
  f_equal. apply (uok_eq b); auto; try lia.
  - rewrite Q2, P2, S2. apply fpow_mul.
  - rewrite Q3, P3, S3. apply fpow_mul.
Qed.

(* (x**n).root(n) is x, n <> 0 *)
Theorem uroot_upow b x n : b <> 0 -> n <> 0 -> uok b x ->
  rbind (upow x n) (fun p => uroot p n) = Ok x.
Proof.
  intros Hb Hn (Fx & Dx & Px). unfold upow. simpl. unfold uroot. simpl.
  destruct (Z.eqb_spec n 0); [contradiction|].
  rewrite (froot_fpow (udim x) n Dx Hn). simpl.
  rewrite (proot_inbase b (upre x) n Hb Hn Px). simpl.
  rewrite (froot_fpow (ufac x) n Fx Hn). simpl. destruct x; reflexivity.
Qed.

(* the same laws one level down: dimensions *)
Theorem dim_laws (a b c : fmap) (m n : Z) : wf a ->
  fmul a b = fmul b a /\ fmul a (fmul b c) = fmul (fmul a b) c /\ fmul a fone = a /\
  fmul a (fpow a (-1)) = fone /\ fdiv a b = fmul a (fpow b (-1)) /\
  fmul (fpow a m) (fpow a n) = fpow a (m + n) /\ fpow (fpow a m) n = fpow a (m * n) /\
  (n <> 0 -> froot (fpow a n) n = Some a).
Proof.
  intros Ha.
  exact (conj (fmul_comm a b) (conj (fmul_assoc a b c) (conj (fmul_one_r a Ha) (conj (fmul_inv a)
        (conj (fdiv_as_mul a b) (conj (fpow_add a m n) (conj (fpow_mul a m n)
        (fun Hn => froot_fpow a n Ha Hn)))))))).
Qed.

(* and same-base prefixes *)
Theorem prefix_laws (b : Z) (p q s : prefix) (n : Z) : b <> 0 -> inbase b p -> inbase b q -> inbase b s ->
  pmul p q = pmul q p /\
  (pmul p q ≫= fun r => pmul r s) = (pmul q s ≫= fun r => pmul p r) /\
  pmul p pid = Some p /\ pmul pid p = Some p /\
  (n <> 0 -> proot (ppow p n) n = Some p).
Proof.
  intros Hb Hp Hq Hs.
  split; [apply (pmul_comm_inbase b); assumption|].
  split; [apply (pmul_assoc_inbase b); assumption|].
  split; [unfold pmul; simpl; reflexivity|].
  split.
  - unfold pmul. simpl. destruct (Z.eqb_spec (pbase p) 0) as [E|E]; [|reflexivity].
    destruct Hp as [[P0 _] _]. destruct p as [pb pe]; simpl in *. subst pb. rewrite (P0 eq_refl). reflexivity.
  - intros Hn. apply (proot_inbase b); assumption.
Qed.
