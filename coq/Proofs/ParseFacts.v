(* C13 at the level of terms: parsing what the printer produced gives back the unit.  The printer
   pushes the whole prefix into the first factor (prefix.root(exponent)); parsing resolves every term,
   raises it to its exponent and multiplies left to right.  If every printed piece resolves to the
   unit it was printed from (the decidable `printable` guard, evaluated exhaustively on the real symbol
   table by the harness), the product is the original unit -- same prefix, same factors, same
   dimension, hence (by interning) the same object. *)
From stdpp Require Import gmap.
From Coq Require Import ZArith Lia List.
From Measured Require Import Model.FMap Model.Units Model.Intern Model.Parse Model.ParseCheck
  Proofs.FMapFacts Proofs.UnitsFacts Proofs.InternFacts.
Import ListNotations.
Local Open Scope Z_scope.

Definition atomu (bd : env) (a : positive) : unit3 := MkU pid {[ a := 1 ]} (dimOf bd {[ a := 1 ]}).

Lemma pmul_pid_r p : pmul p pid = Some p.
Proof. reflexivity. Qed.

Lemma pcanon_base0 q : pcanon q -> pbase q = 0 -> q = pid.
Proof. intros [H _] Hb. destruct q as [b e]; simpl in *. subst b. rewrite (H eq_refl). reflexivity. Qed.

Lemma pmul_pid_l q : pcanon q -> pmul pid q = Some q.
Proof.
  intros Hq. unfold pmul. destruct (Z.eqb_spec (pbase q) 0) as [Hb|Hb]; [rewrite (pcanon_base0 q Hq Hb); reflexivity|reflexivity].
Qed.

Lemma ppow_pid e : ppow pid e = pid.
Proof. unfold ppow, mkp; simpl. reflexivity. Qed.

Lemma ppow_proot p e q : pcanon p -> e <> 0 -> proot p e = Some q -> ppow q e = p.
Proof.
  intros Hp He. unfold proot. destruct (Z.eqb_spec e 0); [contradiction|].
  destruct (Z.eqb_spec (pexp p mod e) 0) as [Hm|]; [|discriminate]. intros [= <-].
  assert (Hx : pexp p / e * e = pexp p) by (pose proof (Z.div_mod (pexp p) e He); lia).
  destruct (Z.eq_dec (pbase p) 0) as [Hb|Hb].
  - rewrite (pcanon_base0 p Hp Hb). reflexivity.
  - assert (Hpe : pexp p <> 0) by (apply Hp; exact Hb).
    assert (Hq : pexp p / e <> 0) by (intros E; rewrite E in Hx; lia).
    rewrite (mkp_base_nz _ _ Hb Hq). unfold ppow. cbn [pbase pexp]. rewrite Hx. apply mkp_id_canon, Hp.
Qed.

Lemma proot_canon' p e q : pcanon p -> proot p e = Some q -> pcanon q.
Proof. apply proot_canon. Qed.

(* the factor map built by multiplying atom powers one after the other *)
Definition fac_fold (acc : fmap) (l : list (positive * Z)) : fmap :=
  fold_left (fun f '(a, e) => fmul f (fpow {[ a := 1 ]} e)) l acc.

Definition cnt (k : positive) (l : list (positive * Z)) : Z :=
  fold_right (fun '(a, e) s => (if Pos.eqb a k then e else 0) + s) 0 l.

Lemma get_single_pow a e k : get (fpow ({[ a := 1 ]} : fmap) e) k = if Pos.eqb a k then e else 0.
Proof.
  rewrite get_fpow. unfold get. destruct (Pos.eqb_spec a k) as [->|Hne].
  - rewrite lookup_singleton. simpl. lia.
  - rewrite lookup_singleton_ne by exact Hne. simpl. lia.
Qed.

Lemma get_fac_fold l : forall acc k, get (fac_fold acc l) k = get acc k + cnt k l.
Proof.
  induction l as [|[a e] l IH]; intros acc k; simpl; [lia|].
  unfold fac_fold in *. simpl. rewrite IH, get_fmul, get_single_pow. lia.
Qed.

Lemma get_of_list l k : get (of_list l) k = cnt k l.
Proof.
  induction l as [|[a e] l IH]; simpl; [apply get_empty|].
  rewrite get_fmul, IH. destruct (Z.eqb_spec e 0) as [->|He].
  - rewrite get_empty. destruct (Pos.eqb a k); lia.
  - unfold get at 1. destruct (Pos.eqb_spec a k) as [->|Hne]; [rewrite lookup_singleton|rewrite lookup_singleton_ne by exact Hne]; simpl; lia.
Qed.

Lemma wf_fac_fold l acc : wf acc -> wf (fac_fold acc l).
Proof.
  revert acc. induction l as [|[a e] l IH]; intros acc H; simpl; [exact H|].
  unfold fac_fold in *. simpl. apply IH, wf_fmul.
Qed.

Section Roundtrip.
  Variable bd : env.
  Variable tab : symtab.

  (* every atom used is a defined base unit *)
  Definition atom_ok (a : positive) : Prop := a ∈ ids bd.

  Lemma uwf_atomu a : atom_ok a -> uwf bd (atomu bd a).
  Proof.
    intros Ha. unfold uwf, atomu; simpl. split; [apply wf_singleton; lia|]. split; [|reflexivity].
    intros k Hk. destruct (Pos.eq_dec k a) as [->|Hne]; [exact Ha|].
    exfalso. apply Hk. unfold get. rewrite lookup_singleton_ne by congruence. reflexivity.
  Qed.

  (* the remaining terms: each symbol resolves to its atom's unit *)
  Definition rest_resolves (rest : list (positive * Z)) (ss : list (str * Z)) : Prop :=
    Forall2 (fun ae se => snd ae = snd se /\ atom_ok (fst ae) /\ resolve tab (fst se) = Found (Ok (atomu bd (fst ae)))) rest ss.

  Lemma eval_rest rest : forall ss acc, rest_resolves rest ss -> uwf bd acc ->
    exists r, eval_terms_from tab acc ss = POk r /\ uwf bd r /\ upre r = upre acc /\ ufac r = fac_fold (ufac acc) rest.
  Proof.
    induction rest as [|[a e] rest IH]; intros ss acc Hr Hacc.
    - inversion Hr; subst. exists acc. simpl. auto.
    - inversion Hr as [|? [s e'] ? ss' [He [Ha Hres]] Hr']; subst. simpl in He, Ha, Hres. subst e'.
      cbn [eval_terms_from]. unfold eval_term. cbn [fst snd]. rewrite Hres.
      unfold upow. cbn [atomu upre ufac udim].
      set (x := MkU (ppow pid e) (fpow {[ a := 1 ]} e) (fpow (dimOf bd {[ a := 1 ]}) e)).
      assert (Hx : uwf bd x) by (apply (uwf_upow bd (atomu bd a) e x); [apply (uwf_atomu a Ha)|reflexivity]).
      unfold umul. unfold x at 1. cbn [upre]. rewrite ppow_pid, pmul_pid_r. cbn [of_opt rbind].
      set (acc' := MkU (upre acc) (fmul (ufac acc) (ufac x)) (fmul (udim acc) (udim x))).
      assert (Hacc' : uwf bd acc').
      { eapply (uwf_umul bd acc x); [exact Hacc|exact Hx|]. unfold umul. unfold x at 1. cbn [upre]. rewrite ppow_pid, pmul_pid_r. reflexivity. }
      destruct (IH ss' acc' Hr' Hacc') as (r & Er & Hrw & Hrp & Hrf).
      exists r. split; [exact Er|]. split; [exact Hrw|]. split; [exact Hrp|]. rewrite Hrf. reflexivity.
  Qed.

  (* the theorem: parse (print u) = u *)
  Theorem parse_print u a1 e1 rest q ps s1 ss :
    uwf bd u -> pcanon (upre u) -> e1 <> 0 -> atom_ok a1 ->
    (forall k, get (ufac u) k = cnt k ((a1, e1) :: rest)) ->
    proot (upre u) e1 = Some q ->
    resolve tab (ps ++ s1) = Found (upre_mul q (atomu bd a1)) ->
    rest_resolves rest ss ->
    eval_terms tab ((ps ++ s1, e1) :: ss) = POk u.
  Proof.
    intros Hu Hp He Ha Hfac Hroot Hres Hrest.
    assert (Hq : pcanon q) by (eapply proot_canon; eauto).
    cbn [eval_terms]. unfold eval_term. cbn [fst snd]. rewrite Hres.
    unfold upre_mul. cbn [atomu upre ufac udim]. rewrite (pmul_pid_l q Hq). cbn [of_opt rbind].
    unfold upow. cbn [upre ufac udim].
    set (x := MkU (ppow q e1) (fpow {[ a1 := 1 ]} e1) (fpow (dimOf bd {[ a1 := 1 ]}) e1)).
    assert (Hx : uwf bd x).
    { apply (uwf_upow bd (MkU q {[ a1 := 1 ]} (dimOf bd {[ a1 := 1 ]})) e1 x); [|reflexivity].
      apply (uwf_upre_mul bd q (atomu bd a1)); [apply uwf_atomu, Ha|].
      unfold upre_mul. cbn [atomu upre]. rewrite (pmul_pid_l q Hq). reflexivity. }
    destruct (eval_rest rest ss x Hrest Hx) as (r & Er & Hrw & Hrp & Hrf).
    rewrite Er. f_equal. apply (uwf_eq bd); [exact Hrw|exact Hu|].
    unfold ukey. f_equal.
    - rewrite Hrp. unfold x. cbn [upre]. apply (ppow_proot (upre u) e1 q Hp He Hroot).
    - apply wf_ext; [apply Hrw|apply Hu|]. intros k. rewrite Hrf, get_fac_fold, Hfac. unfold x. cbn [ufac cnt fold_right].
      rewrite get_single_pow. reflexivity.
  Qed.
End Roundtrip.

(* superscript digits decode to the integer they were printed from: '^n' and the superscript spelling
   carry the same exponent *)
Definition unsup_digit (c : Z) : option Z :=
  if Z.eqb c 185 then Some 1 else if Z.eqb c 178 then Some 2 else if Z.eqb c 179 then Some 3
  else if Z.eqb c 8304 then Some 0 else if andb (Z.leb 8308 c) (Z.leb c 8313) then Some (c - 8304) else None.

Lemma unsup_sup d : 0 <= d <= 9 -> unsup_digit (sup_digit d) = Some d.
Proof.
  intros H. assert (d = 0 \/ d = 1 \/ d = 2 \/ d = 3 \/ d = 4 \/ d = 5 \/ d = 6 \/ d = 7 \/ d = 8 \/ d = 9) as Hd by lia.
  destruct Hd as [->|[->|[->|[->|[->|[->|[->|[->|[->| ->]]]]]]]]]; reflexivity.
Qed.
