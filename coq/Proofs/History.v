From stdpp Require Import gmap.
From Coq Require Import ZArith Lia.
From Measured Require Import Model.FMap Model.Units Model.Intern Proofs.FMapFacts Proofs.UnitsFacts Proofs.InternFacts.
Local Open Scope Z_scope.

(* what a history may contain: base-unit definitions with a canonical dimension, and
   evaluations of expressions whose literal leaves are well-formed units *)
Definition op_ok (s : state) (o : op) : Prop :=
  match o with
  | Define id d => wf d
  | Eval e => lits_ok (s_env s) e
  end.

Fixpoint hist_ok (s : state) (h : list op) : Prop :=
  match h with
  | [] => True
  | o :: h' => op_ok s o /\ hist_ok (step s o) h'
  end.

Definition SWF (s : state) : Prop := TWF (s_env s) (s_tbl s) /\ NoDupK (s_tbl s).

Lemma uwf_weaken bd id d u : ~ id ∈ ids bd -> uwf bd u -> uwf ((id, d) :: bd) u.
Proof.
  intros Hid (W & S & D). split; [exact W|]. split.
  - intros k Hk. unfold ids; simpl. apply elem_of_cons. right. apply S. exact Hk.
  - rewrite D. symmetry. apply dimOf_cons_fresh.
    destruct (Z.eq_dec (get (ufac u) id) 0) as [E|E]; [exact E|]. exfalso. apply Hid. apply S. exact E.
Qed.

Lemma step_SWF s o : SWF s -> op_ok s o -> SWF (step s o).
Proof.
  intros [Ht Hn] Ho. destruct o as [id d|e]; simpl in *.
  - destruct (bool_decide (id ∈ ids (s_env s))) eqn:E; [split; assumption|].
    apply bool_decide_eq_false in E.
    set (u := MkU pid {[id := 1]} d).
    destruct (intern (s_tbl s) u) as [t' h] eqn:Ei. simpl.
    destruct (intern_spec ((id, d) :: s_env s) (s_tbl s) u t' h Ei) as (_ & _ & Hw & Hd).
    split; simpl; [|apply Hd; exact Hn].
    apply Hw.
    + eapply Forall_impl; [exact Ht|]. intros x Hx. apply uwf_weaken; assumption.
    + unfold uwf, u; simpl. split; [apply wf_singleton; lia|]. split.
      * intros k Hk. unfold ids; simpl. apply elem_of_cons.
        destruct (decide (k = id)) as [->|Hne]; [left; reflexivity|].
        exfalso. apply Hk. unfold get. rewrite lookup_singleton_ne by congruence. reflexivity.
      * symmetry. apply dimOf_singleton; assumption.
  - pose proof (seval_good (s_env s) e (s_tbl s) Ht Hn Ho) as (G1 & G2 & _). split; assumption.
Qed.

Lemma init_SWF : SWF init.
Proof.
  split; simpl.
  - constructor; [apply uwf_uone|constructor].
  - unfold NoDupK. simpl. apply NoDup_singleton.
Qed.

Theorem run_SWF h : forall s, SWF s -> hist_ok s h -> SWF (run s h).
Proof.
  induction h as [|o h IH]; intros s Hs Hh; simpl in *; [exact Hs|].
  destruct Hh as [Ho Hh]. apply IH; [apply step_SWF; assumption|exact Hh].
Qed.

(* every unit in the table, after any history, reports the product of its factors' dimensions *)
Theorem all_histories_dimension h u :
  hist_ok init h -> u ∈ s_tbl (run init h) ->
  udim u = dimOf (s_env (run init h)) (ufac u).
Proof.
  intros Hh Hu. pose proof (run_SWF h init init_SWF Hh) as [Ht _].
  eapply Forall_forall in Ht; [|exact Hu]. apply Ht.
Qed.

(* the unit an expression evaluates to is a function of the expression alone: in any
   reachable state it is the stored triple equal to the pure normal form *)
Theorem eval_is_pure s e : SWF s -> lits_ok (s_env s) e ->
  match snd (seval (s_env s) (s_tbl s) e), nfeval (s_env s) e with
  | Ok h, Ok v => nth_error (fst (seval (s_env s) (s_tbl s) e)) h = Some v
                  /\ udim v = dimOf (s_env s) (ufac v)
  | FracErr, FracErr => True
  | MixedBase, MixedBase => True
  | _, _ => False
  end.
Proof.
  intros [Ht Hn] Hl. pose proof (seval_good (s_env s) e (s_tbl s) Ht Hn Hl) as (_ & _ & _ & Ha).
  unfold agrees in Ha.
  destruct (snd (seval (s_env s) (s_tbl s) e)) as [h| |], (nfeval (s_env s) e) as [v| |] eqn:Ev; auto.
  split; [exact Ha|]. apply (nfeval_uwf _ _ _ Hl Ev).
Qed.

Lemma NoDupK_nth t h1 h2 v1 v2 : NoDupK t ->
  nth_error t h1 = Some v1 -> nth_error t h2 = Some v2 -> ukey v1 = ukey v2 -> h1 = h2.
Proof.
  unfold NoDupK. revert h1 h2. induction t as [|w t IH]; intros h1 h2 Hn H1 H2 Hk.
  - destruct h1; discriminate.
  - simpl in Hn. apply NoDup_cons in Hn as [Hw Hn].
    destruct h1 as [|h1], h2 as [|h2]; simpl in *.
    + reflexivity.
    + injection H1 as ->. exfalso. apply Hw. rewrite Hk.
      apply elem_of_list_fmap_1. eapply elem_of_list_In, nth_error_In. exact H2.
    + injection H2 as ->. exfalso. apply Hw. rewrite <- Hk.
      apply elem_of_list_fmap_1. eapply elem_of_list_In, nth_error_In. exact H1.
    + f_equal. eapply IH; eassumption.
Qed.

(* identity: evaluating two expressions one after the other in any reachable state returns
   the same table handle (the very same object) exactly when they denote the same key *)
Theorem identity_iff_key s e1 e2 h1 h2 v1 v2 :
  SWF s -> lits_ok (s_env s) e1 -> lits_ok (s_env s) e2 ->
  let r1 := seval (s_env s) (s_tbl s) e1 in
  let r2 := seval (s_env s) (fst r1) e2 in
  snd r1 = Ok h1 -> snd r2 = Ok h2 ->
  nfeval (s_env s) e1 = Ok v1 -> nfeval (s_env s) e2 = Ok v2 ->
  (h1 = h2 <-> ukey v1 = ukey v2).
Proof.
  intros [Ht Hn] Hl1 Hl2 r1 r2 E1 E2 N1 N2.
  pose proof (seval_good (s_env s) e1 (s_tbl s) Ht Hn Hl1) as (Ht1 & Hn1 & Hx1 & Ha1).
  fold r1 in Ht1, Hn1, Hx1, Ha1.
  pose proof (seval_good (s_env s) e2 (fst r1) Ht1 Hn1 Hl2) as (Ht2 & Hn2 & Hx2 & Ha2).
  fold r2 in Ht2, Hn2, Hx2, Ha2.
  rewrite E1, N1 in Ha1. rewrite E2, N2 in Ha2. simpl in Ha1, Ha2.
  pose proof (extends_nth _ _ _ _ Hx2 Ha1) as Ha1'.
  split.
  - intros ->. congruence.
  - intros Hk. eapply NoDupK_nth; eassumption.
Qed.
