(* Soundness of conversion: plan application is affine; every path the DFS finder returns multiplies
   to the ratio of the two units' sizes, for every table that is consistent with a size assignment;
   every certified plan converts correctly.  All over Q, for all tables, sizes, magnitudes, fuel. *)
From stdpp Require Import gmap.
From Coq Require Import ZArith QArith Qpower Qabs Qfield Lia Lqa List.
From Measured Require Import Model.FMap Model.Units Model.Quantity Model.Value Model.Convert Model.ConvCheck
  Proofs.FMapFacts Proofs.UnitsFacts Proofs.ValueFacts.
Import ListNotations.
Local Open Scope Q_scope.

(* ---------- plan application is affine in the magnitude ---------- *)
Fixpoint path_a (x : Z) (p : list hop) : Q :=
  match p with [] => 1 | h :: p' => path_a x p' * fst h ^ x end.
Fixpoint path_b (x : Z) (p : list hop) : Q :=
  match p with [] => 0 | h :: p' => path_a x p' * snd h + path_b x p' end.

Lemma apply_path_affine x p m : fold_left (apply_hop x) p m == path_a x p * m + path_b x p.
Proof.
  revert m. induction p as [|h p IH]; intros m; simpl; [ring|].
  rewrite IH. unfold apply_hop. ring.
Qed.

Definition step_a (st : pstep) : Q := path_a (ps_exp st) (ps_path st) * ps_ratio st.
Definition step_b (st : pstep) : Q := path_b (ps_exp st) (ps_path st).

Lemma apply_step_affine m st : apply_step m st == step_a st * m + step_b st.
Proof. unfold apply_step, step_a, step_b. rewrite apply_path_affine. ring. Qed.

Fixpoint plan_a (plan : list pstep) : Q :=
  match plan with [] => 1 | st :: pl => plan_a pl * step_a st end.
Fixpoint plan_b (plan : list pstep) : Q :=
  match plan with [] => 0 | st :: pl => plan_a pl * step_b st + plan_b pl end.

Global Instance apply_step_proper : Proper (Qeq ==> eq ==> Qeq) apply_step.
Proof. intros a b E st ? <-. rewrite !apply_step_affine, E. reflexivity. Qed.

Lemma apply_plan_proper plan a b : a == b -> apply_plan plan a == apply_plan plan b.
Proof.
  revert a b. induction plan as [|st pl IH]; intros a b E; simpl; [exact E|].
  apply IH. rewrite E. reflexivity.
Qed.

Theorem apply_plan_affine plan m : apply_plan plan m == plan_a plan * m + plan_b plan.
Proof.
  revert m. induction plan as [|st pl IH]; intros m; simpl; [ring|].
  unfold apply_plan in *. simpl. rewrite IH, apply_step_affine. ring.
Qed.

(* offsets all zero: the plan is a pure scaling *)
Lemma path_b_zero x p : forallb (fun h => Qeq_bool (snd h) 0) p = true -> path_b x p == 0.
Proof.
  induction p as [|h p IH]; simpl; [reflexivity|].
  intros H. apply andb_prop in H as [H1 H2]. apply Qeq_bool_eq in H1. rewrite H1, (IH H2). ring.
Qed.

Lemma plan_b_zero plan : plan_offsets_zero plan = true -> plan_b plan == 0.
Proof.
  induction plan as [|st pl IH]; simpl; [reflexivity|].
  intros H. apply andb_prop in H as [H1 H2]. unfold step_b. rewrite (path_b_zero _ _ H1), (IH H2). ring.
Qed.

Theorem apply_plan_linear plan m : plan_offsets_zero plan = true -> apply_plan plan m == plan_a plan * m.
Proof. intros H. rewrite apply_plan_affine, (plan_b_zero _ H). ring. Qed.

(* ---------- sizes ---------- *)
Lemma fsz_ext se a b : (forall k, get a k = get b k) -> fsz se a == fsz se b.
Proof. intros H. induction se as [|[k s] se IH]; simpl; [reflexivity|]. rewrite H, IH. reflexivity. Qed.

Lemma fsz_froot se f n r : n <> 0%Z -> froot f n = Some r -> fsz se r ^ n == fsz se f.
Proof.
  intros Hn. unfold froot. destruct (Z.eqb_spec n 0) as [|_]; [contradiction|].
  destruct (fdivisible n f) eqn:D; [|discriminate]. intros [= <-].
  rewrite <- fsz_fpow. apply fsz_ext. intros k. rewrite get_fpow, get_froot_raw.
  apply fdivisible_spec with (k := k) in D. pose proof (Z.div_mod (get f k) n Hn). lia.
Qed.

Lemma usz_uroot se a n r : n <> 0%Z -> uroot a n = Ok r -> usz se r ^ n == usz se a.
Proof.
  intros Hn. unfold uroot. destruct (Z.eqb_spec n 0) as [|_]; [contradiction|].
  destruct (froot (udim a) n) as [d|]; simpl; [|discriminate].
  destruct (proot (upre a) n) as [p|] eqn:Ep; simpl; [|discriminate].
  destruct (froot (ufac a) n) as [f|] eqn:Ef; simpl; [|discriminate].
  intros [= <-]. unfold usz; simpl. rewrite Qmult_power, (pval_proot _ _ _ Hn Ep), (fsz_froot _ _ _ _ Hn Ef).
  reflexivity.
Qed.

Lemma usz_nz se u : sizes_pos se -> ~ usz se u == 0.
Proof.
  intros H E. unfold usz in E. apply Qmult_integral in E as [E|E]; [exact (pvalQ_nz _ E)|exact (fsz_nz _ _ H E)].
Qed.

Lemma ukey_eqb_usz se a b : ukey_eqb a b = true -> usz se a == usz se b.
Proof.
  unfold ukey_eqb, feqb. intros H. apply andb_prop in H as [H1 H2].
  apply bool_decide_eq_true in H1. apply bool_decide_eq_true in H2. unfold usz. rewrite H1, H2. reflexivity.
Qed.

(* ---------- consistency of a ratio table with a size assignment ---------- *)
Definition row_consistent (se : sizes) (a : unit3) (r : row) : Prop :=
  Forall (fun br => usz se a == snd br * usz se (fst br)) r.
Definition consistent (se : sizes) (t : table) : Prop :=
  Forall (fun ar => row_consistent se (fst ar) (snd ar)) t.

Definition row_consistentb (se : sizes) (a : unit3) (r : row) : bool :=
  forallb (fun br => Qeq_bool (usz se a) (snd br * usz se (fst br))) r.
Definition consistentb (se : sizes) (t : table) : bool :=
  forallb (fun ar => row_consistentb se (fst ar) (snd ar)) t.

Lemma consistentb_sound se t : consistentb se t = true -> consistent se t.
Proof.
  unfold consistentb, consistent. rewrite forallb_forall, Forall_forall. intros H ar Hin.
  specialize (H ar Hin). unfold row_consistentb in H. unfold row_consistent.
  rewrite forallb_forall in H. rewrite Forall_forall. intros br Hb. apply Qeq_bool_eq, H, Hb.
Qed.

Lemma trow_consistent se t u : consistent se t -> row_consistent se u (trow t u).
Proof.
  induction 1 as [|[k r] t Hk _ IH]; simpl; [constructor|].
  destruct (ukey_eqb k u) eqn:E; [|exact IH].
  simpl in Hk. unfold row_consistent in *. rewrite Forall_forall in *. intros br Hin.
  rewrite <- (ukey_eqb_usz se k u E). apply Hk, Hin.
Qed.

Lemma rget_consistent se a r b x : row_consistent se a r -> rget r b = Some x -> usz se a == x * usz se b.
Proof.
  induction 1 as [|[k y] r Hk _ IH]; simpl; [discriminate|].
  destruct (ukey_eqb k b) eqn:E; [|exact IH].
  intros [= <-]. simpl in Hk. rewrite Hk, (ukey_eqb_usz se k b E). reflexivity.
Qed.

Lemma tget_consistent se t a b x : consistent se t -> tget t a b = Some x -> usz se a == x * usz se b.
Proof. intros H. unfold tget. apply rget_consistent, trow_consistent, H. Qed.

(* ---------- the path finder ---------- *)
Fixpoint path_scale (p : list hop) : Q :=
  match p with [] => 1 | h :: p' => fst h * path_scale p' end.

Lemma path_scale_pow x p : path_scale (map (hop_pow x) p) == path_scale p ^ x.
Proof.
  induction p as [|h p IH]; simpl; [now rewrite Qpower_1|]. rewrite IH, Qmult_power. reflexivity.
Qed.

Lemma path_a_scale x p : path_a x p == path_scale p ^ x.
Proof.
  induction p as [|h p IH]; simpl; [now rewrite Qpower_1|]. rewrite IH, Qmult_power. ring.
Qed.

Lemma reduce_dimension_spec se s e x s' e' :
  reduce_dimension s e = Some (x, s', e') ->
  usz se s' ^ x == usz se s /\ usz se e' ^ x == usz se e.
Proof.
  unfold reduce_dimension.
  destruct (negb (feqb (udim s) (udim e))); [discriminate|].
  destruct (feqb (udim s) fone); [intros [= <- <- <-]; split; reflexivity|].
  destruct (Z.eqb_spec (dgcd (udim s)) 0) as [|Hx]; [intros [= <- <- <-]; split; reflexivity|].
  destruct (uroot s (dgcd (udim s))) as [rs| |] eqn:Es;
    try (intros [= <- <- <-]; split; reflexivity).
  destruct (uroot e (dgcd (udim s))) as [re| |] eqn:Ee;
    try (intros [= <- <- <-]; split; reflexivity).
  intros [= <- <- <-]. split; eapply usz_uroot; eauto.
Qed.

Section PathSound.
  Variable se : sizes.
  Variable tbl offs : table.
  Hypothesis Hpos : sizes_pos se.
  Hypothesis Hcons : consistent se tbl.

  Lemma find_path_sound fuel : forall s e vis p vis',
    find_path tbl offs fuel s e vis = COk (p, vis') -> p <> [] ->
    path_scale p * usz se e == usz se s.
  Proof.
    induction fuel as [|f IH]; intros s e vis p vis'; [discriminate|].
    cbn [find_path].
    destruct (ukey_eqb s e) eqn:Ese.
    { intros [= <- <-] _. simpl. rewrite (ukey_eqb_usz se s e Ese). ring. }
    destruct (in_visited s vis); [intros [= <- <-] Hne; congruence|].
    destruct (reduce_dimension s e) as [[[x s'] e']|] eqn:Er; [|discriminate].
    destruct (reduce_dimension_spec se _ _ _ _ _ Er) as [Hs He].
    pose proof (trow_consistent se tbl s' Hcons) as Hrow.
    (* the loop over the neighbours, generalised over the best path so far *)
    assert (Hloop : forall nbrs best v0 p0 v1,
      row_consistent se s' nbrs ->
      (best = [] \/ path_scale best * usz se e == usz se s) ->
      (fix loop (nbrs : row) (best : list hop) (visited : list unit3) {struct nbrs}
         : cres (list hop * list unit3) :=
         match nbrs with
         | [] => COk (best, visited)
         | (inter, scale) :: rest =>
             let offset := match tget offs s' inter with Some o => o | None => 0%Q end in
             if ukey_eqb inter e' then COk ([hop_pow x (scale, offset)], visited) else
             match find_path tbl offs f inter e' visited with
             | CErr er => CErr er
             | COk (p, visited') =>
                 match p with
                 | [] => loop rest best visited'
                 | _ => let p' := map (hop_pow x) ((scale, offset) :: p) in
                        let best' := match best with
                                     | [] => p'
                                     | _ => if Nat.ltb (length p') (length best) then p' else best
                                     end in
                        loop rest best' visited'
                 end
             end
         end) nbrs best v0 = COk (p0, v1) ->
      p0 <> [] -> path_scale p0 * usz se e == usz se s).
    { induction nbrs as [|[inter scale] rest IHn]; intros best v0 p0 v1 Hr Hb.
      - intros [= <- <-] Hne. destruct Hb as [->|Hb]; [congruence|exact Hb].
      - inversion Hr as [|? ? Hhd Htl]; subst. simpl in Hhd.
        cbv zeta.
        destruct (ukey_eqb inter e') eqn:Eie.
        + intros [= <- <-] _. simpl.
          rewrite <- Hs, <- He, Hhd, (ukey_eqb_usz se inter e' Eie), Qmult_power. ring.
        + destruct (find_path tbl offs f inter e' v0) as [[q vq]|er] eqn:Ef; [|discriminate].
          destruct q as [|h q].
          * apply IHn; assumption.
          * apply IHn; [assumption|].
            assert (Hnew : path_scale (map (hop_pow x)
                       ((scale, match tget offs s' inter with Some o => o | None => 0 end) :: h :: q))
                     * usz se e == usz se s).
            { rewrite path_scale_pow. cbn [path_scale fst].
              assert (Hq : path_scale (h :: q) * usz se e' == usz se inter)
                by (eapply IH; [exact Ef|discriminate]).
              cbn [path_scale] in Hq.
              rewrite <- Hs, <- He, <- Qmult_power. apply Qpower_comp; [|reflexivity].
              rewrite Hhd, <- Hq. ring. }
            destruct best as [|b0 best]; [right; exact Hnew|].
            destruct (Nat.ltb _ _); [right; exact Hnew|exact Hb]. }
    intros Hfp Hne. eapply Hloop; [exact Hrow|left; reflexivity|exact Hfp|exact Hne].
  Qed.

  Lemma find_path0_sound fuel s e p :
    find_path0 tbl offs fuel s e = COk p -> p <> [] -> path_scale p * usz se e == usz se s.
  Proof.
    unfold find_path0. destruct (find_path tbl offs fuel s e []) as [[q v]|] eqn:E; simpl; [|discriminate].
    intros [= <-]. eapply find_path_sound; eauto.
  Qed.
End PathSound.

(* ---------- certified plans ---------- *)
Section Certified.
  Variable se : sizes.
  Variable bd : env.
  Variable tbl offs : table.
  Variable ord : ordtab.
  Hypothesis Hpos : sizes_pos se.
  Hypothesis Hcons : consistent se tbl.

  Definition rstep_factor (r : rstep) : Q :=
    r_ratio r * (usz se (r_start r) / usz se (r_end r)) ^ r_exp r.
  Fixpoint rough_factor (rough : list rstep) : Q :=
    match rough with [] => 1 | r :: rs => rough_factor rs * rstep_factor r end.

  Lemma rough_factor_app a b : rough_factor (a ++ b) == rough_factor a * rough_factor b.
  Proof. induction a as [|r a IH]; simpl; [ring|]. rewrite IH. ring. Qed.

  Lemma inline_paths_sound fuel rough plan :
    inline_paths tbl offs fuel rough = COk plan -> plan_a plan == rough_factor rough.
  Proof.
    revert plan. induction rough as [|r rs IH]; intros plan; cbn [inline_paths].
    - intros [= <-]. reflexivity.
    - destruct (find_path0 tbl offs fuel (r_start r) (r_end r)) as [p|] eqn:Ep; simpl; [|discriminate].
      destruct p as [|h p]; [discriminate|].
      destruct (inline_paths tbl offs fuel rs) as [tl|] eqn:Et; simpl; [|discriminate].
      intros [= <-]. simpl. rewrite (IH tl eq_refl). unfold step_a, rstep_factor. cbn [ps_exp ps_path ps_ratio].
      rewrite path_a_scale.
      assert (Hp : path_scale (h :: p) == usz se (r_start r) / usz se (r_end r)).
      { pose proof (find_path0_sound se tbl offs Hcons fuel _ _ _ Ep) as H.
        rewrite <- H by discriminate. field. apply usz_nz, Hpos. }
      rewrite Hp. ring.
  Qed.

  Lemma usz_pid u : is_pid u = true -> usz se u == fsz se (ufac u).
  Proof. unfold is_pid. rewrite bool_decide_eq_true. intros E. unfold usz. rewrite E. unfold pvalQ; simpl. ring. Qed.

  Lemma step_vec_sound r v : step_vec tbl r = Some v -> rstep_factor r == fsz se v.
  Proof.
    unfold step_vec, rstep_factor.
    destruct (is_pid (r_start r)) eqn:Ps; simpl; [|discriminate].
    destruct (is_pid (r_end r)) eqn:Pe; simpl; [|discriminate].
    assert (Hhop : (usz se (r_start r) / usz se (r_end r)) ^ r_exp r
                   == fsz se (fpow (fdiv (ufac (r_start r)) (ufac (r_end r))) (r_exp r))).
    { rewrite fsz_fpow, fsz_fdiv, (usz_pid _ Ps), (usz_pid _ Pe) by exact Hpos. reflexivity. }
    destruct (r_prov r) as [|u a z|].
    - destruct (Qeq_bool (r_ratio r) 1) eqn:E1; [|discriminate]. intros [= <-].
      apply Qeq_bool_eq in E1. rewrite E1, Hhop. ring.
    - destruct (tget tbl u a) as [x0|] eqn:Et; [|discriminate].
      destruct (Qeq_bool (r_ratio r) (x0 ^ z)) eqn:E1; simpl; [|discriminate].
      destruct (Qeq_bool x0 0) eqn:E0; simpl; [discriminate|].
      destruct (is_pid u) eqn:Pu; simpl; [|discriminate].
      destruct (is_pid a) eqn:Pa; simpl; [|discriminate].
      intros [= <-]. apply Qeq_bool_eq in E1.
      pose proof (tget_consistent se tbl u a x0 Hcons Et) as Hx.
      rewrite fsz_fmul, fsz_fpow, fsz_fdiv, <- (usz_pid _ Pu), <- (usz_pid _ Pa), E1, Hhop by exact Hpos.
      assert (Hx0 : x0 == usz se u / usz se a).
      { rewrite Hx. field. apply usz_nz, Hpos. }
      rewrite <- Hx0. reflexivity.
    - discriminate.
  Qed.

  Lemma plan_vec_sound rough v : plan_vec tbl rough = Some v -> rough_factor rough == fsz se v.
  Proof.
    revert v. induction rough as [|r rs IH]; intros v; simpl.
    - intros [= <-]. rewrite fsz_one. reflexivity.
    - destruct (step_vec tbl r) as [a|] eqn:Es; [|discriminate].
      destruct (plan_vec tbl rs) as [b|] eqn:Ep; [|discriminate].
      intros [= <-]. rewrite fsz_fmul, (IH b eq_refl), (step_vec_sound _ _ Es) by exact Hpos. ring.
  Qed.

  Lemma end_prefix_factor e : rough_factor [end_prefix_step e] == / pvalQ (upre e).
  Proof.
    simpl. unfold rstep_factor, end_prefix_step. cbn [r_ratio r_start r_end r_exp].
    assert (H : usz se uone / usz se uone == 1) by (field; apply usz_nz, Hpos).
    rewrite H. simpl. ring.
  Qed.

  (* the main theorem: a conversion whose plan is certified returns magnitude * size(start)/size(end) *)
  Theorem convert_certified fuel m s e v :
    plan_cert bd tbl ord offs fuel s e = true ->
    convert bd tbl ord offs fuel m s e = COk v ->
    v == m * usz se s / usz se e.
  Proof.
    unfold plan_cert, shape_cert, convert.
    intros Hc. apply andb_prop in Hc as [Hshape Hoff].
    destruct (negb (feqb (udim s) (udim e))); [discriminate|].
    destruct (plan_conversion bd tbl ord offs fuel s e) as [plan|] eqn:Epl; [|discriminate].
    cbn [cbind]. destruct (plan_div0 plan); [discriminate|]. intros [= <-].
    rewrite (apply_plan_linear _ _ Hoff).
    assert (Hne : ~ usz se e == 0) by (apply usz_nz, Hpos).
    assert (Hpe : ~ pvalQ (upre e) == 0) by apply pvalQ_nz.
    unfold plan_conversion in Epl.
    destruct (plan_shape bd tbl ord offs fuel s e) as [[d|rough]|] eqn:Esh; [| |discriminate]; cbn [cbind] in Epl.
    - (* direct path *)
      destruct (inline_paths tbl offs fuel [end_prefix_step e]) as [tl|] eqn:Et; [|discriminate].
      cbn [cbind] in Epl. injection Epl as <-.
      cbn [plan_a]. rewrite (inline_paths_sound _ _ _ Et), end_prefix_factor.
      unfold step_a. cbn [ps_exp ps_path ps_ratio]. rewrite path_a_scale.
      (* the direct path comes from find_path0 s e *)
      unfold plan_shape in Esh.
      destruct (ordered ord s); [|discriminate]. destruct (ordered ord e); [|discriminate]. cbn [cbind] in Esh.
      destruct (find_path0 tbl offs fuel s e) as [p|] eqn:Ep; [|discriminate]. cbn [cbind] in Esh.
      destruct p as [|h p].
      { destruct (rough_plan bd tbl ord fuel _ _); discriminate. }
      injection Esh as <-.
      pose proof (find_path0_sound se tbl offs Hcons fuel _ _ _ Ep) as Hd.
      assert (Hp : path_scale (h :: p) == usz se s / usz se e) by (rewrite <- Hd by discriminate; field; exact Hne).
      rewrite Hp.
      apply orb_prop in Hshape as [Hk|Hpp].
      + pose proof (ukey_eqb_usz se s e Hk) as Hse.
        assert (Hpre : pvalQ (upre s) == pvalQ (upre e)).
        { unfold ukey_eqb in Hk. apply andb_prop in Hk as [Hk _]. apply bool_decide_eq_true in Hk. now rewrite Hk. }
        rewrite Hse, Hpre. simpl. field; repeat split; assumption.
      + apply andb_prop in Hpp as [Hps Hpe']. unfold is_pid in Hps, Hpe'.
        apply bool_decide_eq_true in Hps. apply bool_decide_eq_true in Hpe'.
        rewrite Hps, Hpe'. simpl. unfold pvalQ; simpl. field. exact Hne.
    - (* certified rough plan *)
      rewrite (inline_paths_sound _ _ _ Epl), rough_factor_app, end_prefix_factor.
      unfold certify in Hshape. destruct (plan_vec tbl rough) as [vec|] eqn:Ev; [|discriminate].
      unfold feqb in Hshape. apply bool_decide_eq_true in Hshape.
      rewrite (plan_vec_sound _ _ Ev), Hshape, fsz_fdiv by exact Hpos.
      unfold usz. field; repeat split; try exact Hpe; try (apply fsz_nz, Hpos); apply pvalQ_nz.
  Qed.
End Certified.
