(* First-order Gaussian propagation: the uncertainty formulas of Measurement equal
   sqrt((df/dx sigma_x)^2 + (df/dy sigma_y)^2) with the partial derivatives taken by Coquelicot's
   Derive, over the reals, for all measurands (zero included where the operator is differentiable),
   all sigmas, all integer exponents. *)
From Coq Require Import Reals Lra ZArith Lia.
From Coquelicot Require Import Coquelicot.
From Measured Require Import Model.Measure.
Open Scope R_scope.

Definition prop2 (f : R -> R -> R) (x sx y sy : R) : R :=
  sqrt ((Derive (fun u => f u y) x * sx) ^ 2 + (Derive (fun v => f x v) y * sy) ^ 2).
Definition prop1 (f : R -> R) (x sx : R) : R := sqrt ((Derive f x * sx) ^ 2).

Lemma pow2_powerRZ a : powerRZ a 2 = a ^ 2.
Proof. simpl. reflexivity. Qed.

Lemma unc_add x sx y sy : sqrt (evalR (envR x sx y sy) rad_addsub) = prop2 Rplus x sx y sy.
Proof.
  unfold prop2. f_equal. simpl evalR.
  replace (Derive (fun u => u + y) x) with 1 by (symmetry; apply is_derive_unique; auto_derive; auto; ring).
  replace (Derive (fun v => x + v) y) with 1 by (symmetry; apply is_derive_unique; auto_derive; auto; ring).
  ring.
Qed.

Lemma unc_sub x sx y sy : sqrt (evalR (envR x sx y sy) rad_addsub) = prop2 Rminus x sx y sy.
Proof.
  unfold prop2. f_equal. simpl evalR.
  replace (Derive (fun u => u - y) x) with 1 by (symmetry; apply is_derive_unique; auto_derive; auto; ring).
  replace (Derive (fun v => x - v) y) with (-1) by (symmetry; apply is_derive_unique; auto_derive; auto; ring).
  ring.
Qed.

Lemma unc_mul x sx y sy : sqrt (evalR (envR x sx y sy) rad_mul) = prop2 Rmult x sx y sy.
Proof.
  unfold prop2. f_equal. simpl evalR.
  replace (Derive (fun u => u * y) x) with y by (symmetry; apply is_derive_unique; auto_derive; auto; ring).
  replace (Derive (fun v => x * v) y) with x by (symmetry; apply is_derive_unique; auto_derive; auto; ring).
  ring.
Qed.

Lemma unc_div x sx y sy : y <> 0 -> sqrt (evalR (envR x sx y sy) rad_div) = prop2 Rdiv x sx y sy.
Proof.
  intros Hy. unfold prop2. f_equal. simpl evalR.
  replace (Derive (fun u => u / y) x) with (/ y) by (symmetry; apply is_derive_unique; auto_derive; auto; field; auto).
  replace (Derive (fun v => x / v) y) with (- x / y / y) by (symmetry; apply is_derive_unique; auto_derive; auto; field; auto).
  field. auto.
Qed.

Lemma derive_powerRZ x n : (n <> 0)%Z -> (x <> 0 \/ (1 <= n)%Z) ->
  Derive (fun u => powerRZ u n) x = IZR n * powerRZ x (n - 1).
Proof.
  intros Hn Hx. apply is_derive_unique.
  destruct n as [|p|p]; [congruence| |].
  - simpl powerRZ at 1.
    auto_derive; auto.
    rewrite Rmult_1_l.
    replace (Z.pos p - 1)%Z with (Z.of_nat (Nat.pred (Pos.to_nat p))) by lia.
    rewrite <- pow_powerRZ. rewrite <- positive_nat_Z, <- INR_IZR_INZ. reflexivity.
  - destruct Hx as [Hx|]; [|lia].
    unfold powerRZ at 1. auto_derive.
    + apply pow_nonzero. exact Hx.
    + rewrite Rmult_1_l.
      assert (H: powerRZ x (Z.neg p - 1) = / (x ^ (S (Pos.to_nat p)))).
      { replace (Z.neg p - 1)%Z with (- Z.of_nat (S (Pos.to_nat p)))%Z by lia.
        rewrite powerRZ_neg'. rewrite <- pow_powerRZ. reflexivity. }
      rewrite H.
      replace (IZR (Z.neg p)) with (- INR (Pos.to_nat p)) by (rewrite INR_IZR_INZ, positive_nat_Z; reflexivity).
      destruct (Pos.to_nat p) eqn:E; [lia|]. simpl pred. simpl pow.
      field. split; [|exact Hx]. apply pow_nonzero. exact Hx.
Qed.

Lemma unc_pow x sx y sy n : (n <> 0)%Z -> (x <> 0 \/ (1 <= n)%Z) ->
  sqrt (evalR (envR x sx y sy) (rad_pow n)) = prop1 (fun u => powerRZ u n) x sx.
Proof.
  intros Hn Hx. unfold prop1. f_equal. rewrite (derive_powerRZ x n Hn Hx).
  simpl evalR. ring.
Qed.

(* closed forms *)
Lemma unc_pow_closed x sx y sy n : 0 <= sx ->
  sqrt (evalR (envR x sx y sy) (rad_pow n)) = Rabs (IZR n) * Rabs (powerRZ x (n - 1)) * sx.
Proof.
  intros Hs. unfold rad_pow. cbn [evalR envR]. set (a := IZR n * (powerRZ x (n - 1) * sx)).
  replace (powerRZ a 2) with (Rsqr a) by (unfold Rsqr; simpl; ring).
  rewrite sqrt_Rsqr_abs. unfold a. rewrite !Rabs_mult, (Rabs_pos_eq sx Hs). ring.
Qed.

Lemma radicand_nonneg op x sx y sy : 0 <= evalR (envR x sx y sy) (radicand op).
Proof.
  destruct op as [| | | |n]; simpl radicand; try (simpl evalR; nra).
  destruct (Z.eqb n 0); simpl evalR; [lra|]. nra.
Qed.

Lemma unc_nonneg op x sx y sy : 0 <= sqrt (evalR (envR x sx y sy) (radicand op)).
Proof. apply sqrt_pos. Qed.

(* a plain quantity is a measurement with zero uncertainty *)
Lemma unc_plain_add x sx y : 0 <= sx -> sqrt (evalR (envR x sx y 0) rad_addsub) = sx.
Proof.
  intros H. unfold rad_addsub. cbn [evalR envR].
  replace (powerRZ sx 2 + powerRZ 0 2) with (Rsqr sx) by (unfold Rsqr; simpl; ring).
  apply sqrt_Rsqr, H.
Qed.

Lemma unc_plain_mul x sx y : 0 <= sx -> sqrt (evalR (envR x sx y 0) rad_mul) = Rabs y * sx.
Proof.
  intros H. unfold rad_mul, rad_join. cbn [evalR envR].
  replace (powerRZ (y * sx) 2 + powerRZ (x * 0) 2) with (Rsqr (y * sx)) by (unfold Rsqr; simpl; ring).
  rewrite sqrt_Rsqr_abs, Rabs_mult, (Rabs_pos_eq sx H). reflexivity.
Qed.
