(* Declarations keep the table of ratios reciprocal: conversions.equate writes _ratios[a][b] = mb / ma AND
   _ratios[b][a] = ma / mb, unconditionally, so after ANY sequence of declarations and re-declarations the
   two directions of every declared pair multiply to one, and the figure of the latest declaration is the
   one in force in both directions.  A variant that keeps an already declared reverse ratio (dict.setdefault)
   is refuted on a two-declaration history.  All over Q, for every table and every history. *)
From stdpp Require Import gmap.
From Coq Require Import ZArith QArith Qabs Qfield Lia List Bool.
From Measured Require Import Model.FMap Model.Units Model.Quantity Model.Value Model.Convert Model.Declare Proofs.InternFacts.
Import ListNotations.
Local Open Scope Q_scope.

(* ---------- the key comparison is an equivalence ---------- *)
Lemma keq_refl a : ukey_eqb a a = true.
Proof. apply ukey_eqb_spec. reflexivity. Qed.

Lemma keq_sym a b : ukey_eqb a b = ukey_eqb b a.
Proof.
  destruct (ukey_eqb a b) eqn:E1, (ukey_eqb b a) eqn:E2; try reflexivity.
  - apply ukey_eqb_spec in E1. symmetry in E1. apply ukey_eqb_spec in E1. congruence.
  - apply ukey_eqb_spec in E2. symmetry in E2. apply ukey_eqb_spec in E2. congruence.
Qed.

Lemma keq_left k a b : ukey_eqb k a = true -> ukey_eqb k b = ukey_eqb a b.
Proof.
  intros H. apply ukey_eqb_spec in H.
  destruct (ukey_eqb k b) eqn:E1, (ukey_eqb a b) eqn:E2; try reflexivity.
  - apply ukey_eqb_spec in E1. assert (E : ukey a = ukey b) by congruence. apply ukey_eqb_spec in E. congruence.
  - apply ukey_eqb_spec in E2. assert (E : ukey k = ukey b) by congruence. apply ukey_eqb_spec in E. congruence.
Qed.

Lemma keq_right a b k : ukey_eqb a b = true -> ukey_eqb k a = ukey_eqb k b.
Proof. intros H. rewrite (keq_sym k a), (keq_sym k b). apply keq_left. exact H. Qed.

(* ---------- dict assignment, read back ---------- *)
Lemma rget_rset r u v x : rget (rset r u x) v = if ukey_eqb u v then Some x else rget r v.
Proof.
  induction r as [|[k y] r IH]; cbn [rset rget].
  - reflexivity.
  - destruct (ukey_eqb k u) eqn:Eku; cbn [rget].
    + rewrite (keq_left k u v Eku). destruct (ukey_eqb u v); reflexivity.
    + destruct (ukey_eqb k v) eqn:Ekv.
      * destruct (ukey_eqb u v) eqn:Euv; [|reflexivity].
        rewrite (keq_right u v k Euv) in Eku. congruence.
      * exact IH.
Qed.

Lemma trow_tset t a b x a' :
  trow (tset t a b x) a' = if ukey_eqb a a' then rset (trow t a') b x else trow t a'.
Proof.
  induction t as [|[k r] t IH]; cbn [tset trow].
  - destruct (ukey_eqb a a'); reflexivity.
  - destruct (ukey_eqb k a) eqn:Eka; cbn [trow].
    + rewrite (keq_left k a a' Eka). destruct (ukey_eqb a a'); reflexivity.
    + destruct (ukey_eqb k a') eqn:Eka'.
      * destruct (ukey_eqb a a') eqn:Eaa; [|reflexivity].
        rewrite (keq_right a a' k Eaa) in Eka. congruence.
      * exact IH.
Qed.

Lemma tget_tset t a b x a' b' :
  tget (tset t a b x) a' b' = if ukey_eqb a a' && ukey_eqb b b' then Some x else tget t a' b'.
Proof.
  unfold tget. rewrite trow_tset. destruct (ukey_eqb a a'); cbn [andb]; [|reflexivity].
  apply rget_rset.
Qed.

Lemma tget_equate t ma a mb b c d :
  tget (equate t ma a mb b) c d =
  if ukey_eqb b c && ukey_eqb a d then Some (ma / mb)
  else if ukey_eqb a c && ukey_eqb b d then Some (mb / ma) else tget t c d.
Proof. unfold equate. rewrite !tget_tset. reflexivity. Qed.

(* ---------- the stores read off the source are the model's equate ---------- *)
Lemma shapes_eqb_eq l l' : shapes_eqb l l' = true -> l = l'.
Proof.
  revert l'. induction l as [|[[[x y] p] q] l IH]; intros [|[[[x' y'] p'] q'] l']; cbn; try discriminate; [reflexivity|].
  rewrite !andb_true_iff. intros [[[[Hx Hy] Hp] Hq] Hl]. rewrite (IH l' Hl).
  destruct x, x', y, y', p, p', q, q'; try discriminate; reflexivity.
Qed.

Theorem shipped_stores_are_equate stores t ma a mb b :
  shapes_eqb stores shipped_stores = true -> equate_of stores t ma a mb b = equate t ma a mb b.
Proof. intros H. rewrite (shapes_eqb_eq _ _ H). reflexivity. Qed.

(* ---------- the invariant ---------- *)
Definition Reciprocal (t : table) : Prop :=
  forall c d r, tget t c d = Some r -> exists r', tget t d c = Some r' /\ r * r' == 1.

Lemma reciprocal_empty : Reciprocal [].
Proof. intros c d r H. discriminate. Qed.

Lemma equate_reciprocal t ma a mb b :
  ~ ma == 0 -> ~ mb == 0 -> ukey_eqb a b = false -> Reciprocal t -> Reciprocal (equate t ma a mb b).
Proof.
  intros Hma Hmb Hab Ht c d r. rewrite !tget_equate.
  destruct (ukey_eqb b c) eqn:Ebc, (ukey_eqb a d) eqn:Ead, (ukey_eqb a c) eqn:Eac, (ukey_eqb b d) eqn:Ebd;
    cbn [andb]; intros H;
    try (injection H as <-);
    try (rewrite <- (keq_right b c a Ebc), Hab in Eac; discriminate);
    try (rewrite (keq_right b d a Ebd) in Hab; congruence);
    try (eexists; split; [reflexivity|field; auto]; fail);
    try (apply Ht; exact H).
Qed.

(* a history of declarations: (ma, a, mb, b) is  equate(ma a, mb b) *)
Definition decl := (Q * unit3 * Q * unit3)%type.
Definition decl_ok (d : decl) : Prop :=
  let '(ma, a, mb, b) := d in ~ ma == 0 /\ ~ mb == 0 /\ ukey_eqb a b = false.
Definition declare (t : table) (d : decl) : table := let '(ma, a, mb, b) := d in equate t ma a mb b.

Theorem declarations_reciprocal ds t : Forall decl_ok ds -> Reciprocal t -> Reciprocal (fold_left declare ds t).
Proof.
  revert t. induction ds as [|[[[ma a] mb] b] ds IH]; intros t Hok Ht; cbn [fold_left]; [exact Ht|].
  inversion Hok as [|? ? Hd Hrest]; subst. cbv beta iota delta [decl_ok] in Hd. destruct Hd as (Hma & Hmb & Hab).
  apply IH; [exact Hrest|]. cbn [declare]. apply equate_reciprocal; assumption.
Qed.

(* the latest declaration of a pair is the one in force, in both directions *)
Theorem latest_declaration_in_force t ma a mb b :
  ukey_eqb a b = false ->
  tget (equate t ma a mb b) a b = Some (mb / ma) /\ tget (equate t ma a mb b) b a = Some (ma / mb).
Proof.
  intros Hab. rewrite !tget_equate, !keq_refl. cbn [andb].
  rewrite (keq_sym b a), Hab. cbn [andb]. split; reflexivity.
Qed.

(* declarations about other pairs leave a declared pair alone *)
Theorem other_declaration_keeps t ma a mb b c d :
  ukey_eqb a c && ukey_eqb b d = false -> ukey_eqb b c && ukey_eqb a d = false ->
  tget (equate t ma a mb b) c d = tget t c d.
Proof. intros H1 H2. rewrite tget_equate, H1, H2. reflexivity. Qed.

(* ---------- the variant that keeps a reverse ratio already declared ---------- *)
Definition equate_keep (t : table) (ma : Q) (a : unit3) (mb : Q) (b : unit3) : table :=
  let t1 := tset t a b (mb / ma) in
  match tget t1 b a with Some _ => t1 | None => tset t1 b a (ma / mb) end.

Definition kx_a : unit3 := MkU pid {[ 1%positive := 1%Z ]} fone.
Definition kx_b : unit3 := MkU pid {[ 2%positive := 1%Z ]} fone.

Theorem keep_declared_reverse_refuted :
  exists r r', let t := equate_keep (equate_keep [] 1 kx_a (17 # 10) kx_b) 1 kx_a (17018 # 10000) kx_b in
    tget t kx_a kx_b = Some r /\ tget t kx_b kx_a = Some r' /\ ~ r * r' == 1.
Proof. eexists. eexists. cbv zeta. split; [vm_compute; reflexivity|]. split; [vm_compute; reflexivity|]. vm_compute. discriminate. Qed.

(* non-vacuity: the same two declarations through equate itself *)
Example redeclared_pair_reciprocal :
  Reciprocal (fold_left declare [(1, kx_a, 17 # 10, kx_b); (1, kx_a, 17018 # 10000, kx_b)] []).
Proof.
  apply declarations_reciprocal; [|exact reciprocal_empty].
  repeat constructor; try (vm_compute; discriminate).
Qed.

(* ---------- translate: ratios one both ways, offsets opposite ---------- *)
Lemma tshapes_eqb_eq l l' : tshapes_eqb l l' = true -> l = l'.
Proof.
  revert l'. induction l as [|[[[w x] y] v] l IH]; intros [|[[[w' x'] y'] v'] l']; cbn; try discriminate; [reflexivity|].
  rewrite !andb_true_iff. intros [[[[Hw Hx] Hy] Hv] Hl]. rewrite (IH l' Hl).
  destruct w, w', x, x', y, y', v, v'; try discriminate; reflexivity.
Qed.

Theorem shipped_tstores_are_translate stores t o scale degree z :
  tshapes_eqb stores shipped_tstores = true ->
  translate_of stores t o scale degree z = (translate_ratios t scale degree, translate_offsets o scale degree z).
Proof. intros H. rewrite (tshapes_eqb_eq _ _ H). reflexivity. Qed.

Lemma translate_ratios_reciprocal t scale degree :
  ukey_eqb scale degree = false -> Reciprocal t -> Reciprocal (translate_ratios t scale degree).
Proof.
  intros Hsd Ht c d r. unfold translate_ratios. rewrite !tget_tset.
  destruct (ukey_eqb scale c) eqn:Esc, (ukey_eqb degree d) eqn:Edd, (ukey_eqb degree c) eqn:Edc, (ukey_eqb scale d) eqn:Esd;
    cbn [andb]; intros H;
    try (injection H as <-);
    try (rewrite (keq_right scale c degree Esc), Edc in Hsd; rewrite keq_sym in Hsd; rewrite keq_refl in Hsd; discriminate);
    try (rewrite <- (keq_right scale c degree Esc) in Edc; rewrite keq_sym, Hsd in Edc; discriminate);
    try (rewrite <- (keq_right scale d degree Esd) in Edd; rewrite keq_sym, Hsd in Edd; discriminate);
    try (eexists; split; [reflexivity|reflexivity]; fail);
    try (apply Ht; exact H).
Qed.

Definition Opposite (o : table) : Prop :=
  forall c d z, tget o c d = Some z -> exists z', tget o d c = Some z' /\ z + z' == 0.

Lemma opposite_empty : Opposite [].
Proof. intros c d z H. discriminate. Qed.

Lemma translate_offsets_opposite o scale degree z :
  ukey_eqb scale degree = false -> Opposite o -> Opposite (translate_offsets o scale degree z).
Proof.
  intros Hsd Ho c d r. unfold translate_offsets. rewrite !tget_tset.
  destruct (ukey_eqb scale c) eqn:Esc, (ukey_eqb degree d) eqn:Edd, (ukey_eqb degree c) eqn:Edc, (ukey_eqb scale d) eqn:Esd;
    cbn [andb]; intros H;
    try (injection H as <-);
    try (rewrite <- (keq_right scale c degree Esc) in Edc; rewrite keq_sym, Hsd in Edc; discriminate);
    try (rewrite <- (keq_right scale d degree Esd) in Edd; rewrite keq_sym, Hsd in Edd; discriminate);
    try (eexists; split; [reflexivity|ring]; fail);
    try (apply Ho; exact H).
Qed.

(* a history of declarations of both kinds *)
Inductive anydecl := DEquate (d : decl) | DTranslate (scale degree : unit3) (z : Q).
Definition anydecl_ok (d : anydecl) : Prop :=
  match d with DEquate d => decl_ok d | DTranslate scale degree _ => ukey_eqb scale degree = false end.
Definition declare_any (st : table * table) (d : anydecl) : table * table :=
  match d with
  | DEquate d => (declare (fst st) d, snd st)
  | DTranslate scale degree z => (translate_ratios (fst st) scale degree, translate_offsets (snd st) scale degree z)
  end.

Theorem history_tables ds st :
  Forall anydecl_ok ds -> Reciprocal (fst st) -> Opposite (snd st) ->
  Reciprocal (fst (fold_left declare_any ds st)) /\ Opposite (snd (fold_left declare_any ds st)).
Proof.
  revert st. induction ds as [|d ds IH]; intros st Hok Hr Ho; cbn [fold_left]; [split; assumption|].
  inversion Hok as [|? ? Hd Hrest]; subst. apply IH; [exact Hrest| |].
  - destruct d as [[[[ma a] mb] b]|scale degree z]; cbn [declare_any fst].
    + cbv beta iota delta [anydecl_ok decl_ok] in Hd. destruct Hd as (Hma & Hmb & Hab).
      cbn [declare]. apply equate_reciprocal; assumption.
    + apply translate_ratios_reciprocal; assumption.
  - destruct d as [[[[ma a] mb] b]|scale degree z]; cbn [declare_any snd]; [exact Ho|].
    apply translate_offsets_opposite; assumption.
Qed.

(* a scale and its degree convert into each other by opposite shifts: there and back is the identity *)
Theorem translated_pair_roundtrip o scale degree z m :
  ukey_eqb scale degree = false ->
  exists z1 z2, tget (translate_offsets o scale degree z) degree scale = Some z1 /\
                tget (translate_offsets o scale degree z) scale degree = Some z2 /\ (m * 1 + z1) * 1 + z2 == m.
Proof.
  intros Hsd. unfold translate_offsets. exists (- z), z. rewrite !tget_tset, !keq_refl. cbn [andb].
  rewrite Hsd. cbn [andb]. split; [reflexivity|]. split; [reflexivity|ring].
Qed.

(* ---------- the executable checks of Model/Declare.v mean what they say ---------- *)
Lemma rget_in row d r : rget row d = Some r -> exists b, In (b, r) row /\ ukey_eqb b d = true.
Proof.
  induction row as [|[k y] row IH]; cbn [rget]; [discriminate|].
  destruct (ukey_eqb k d) eqn:E.
  - intros [= <-]. exists k. split; [left; reflexivity|exact E].
  - intros Hr. destruct (IH Hr) as (b & Hin & Hb). exists b. split; [right; exact Hin|exact Hb].
Qed.

Lemma trow_in t c : trow t c = [] \/ exists a, In (a, trow t c) t /\ ukey_eqb a c = true.
Proof.
  induction t as [|[k r] t IH]; cbn [trow]; [left; reflexivity|].
  destruct (ukey_eqb k c) eqn:E.
  - right. exists k. split; [left; reflexivity|exact E].
  - destruct IH as [IH|(a & Hin & Ha)]; [left; exact IH|]. right. exists a. split; [right; exact Hin|exact Ha].
Qed.

Lemma rget_keq row a c : ukey_eqb a c = true -> rget row a = rget row c.
Proof.
  intros Hac. induction row as [|[k y] row IH]; cbn [rget]; [reflexivity|].
  rewrite (keq_right a c k Hac), IH. reflexivity.
Qed.

Lemma trow_keq t b d : ukey_eqb b d = true -> trow t b = trow t d.
Proof.
  intros Hbd. induction t as [|[k r] t IH]; cbn [trow]; [reflexivity|].
  rewrite (keq_right b d k Hbd), IH. reflexivity.
Qed.

Lemma tget_keq t a b c d : ukey_eqb a c = true -> ukey_eqb b d = true -> tget t b a = tget t d c.
Proof. intros Hac Hbd. unfold tget. rewrite (trow_keq t b d Hbd). apply rget_keq. exact Hac. Qed.

Definition ReciprocalWithin (eps : Q) (t : table) : Prop :=
  forall c d r, tget t c d = Some r -> exists r', tget t d c = Some r' /\ Qabs (r * r' - 1) <= eps.
Definition OppositeExact (o : table) : Prop :=
  forall c d z, tget o c d = Some z -> exists z', tget o d c = Some z' /\ z + z' == 0.

Theorem reciprocalb_sound eps t : reciprocalb eps t = true -> ReciprocalWithin eps t.
Proof.
  unfold reciprocalb. intros Hb c d r Hr. unfold tget in Hr.
  destruct (trow_in t c) as [E|(a & Hin & Hac)]; [rewrite E in Hr; discriminate|].
  destruct (rget_in _ _ _ Hr) as (b & Hinb & Hbd).
  rewrite forallb_forall in Hb. specialize (Hb _ Hin). cbn [fst snd] in Hb.
  rewrite forallb_forall in Hb. specialize (Hb _ Hinb). cbn [fst snd] in Hb.
  rewrite (tget_keq t a b c d Hac Hbd) in Hb.
  destruct (tget t d c) as [r'|]; [|discriminate].
  exists r'. split; [reflexivity|]. apply Qle_bool_iff. exact Hb.
Qed.

Theorem oppositeb_sound o : oppositeb o = true -> OppositeExact o.
Proof.
  unfold oppositeb. intros Hb c d z Hz. unfold tget in Hz.
  destruct (trow_in o c) as [E|(a & Hin & Hac)]; [rewrite E in Hz; discriminate|].
  destruct (rget_in _ _ _ Hz) as (b & Hinb & Hbd).
  rewrite forallb_forall in Hb. specialize (Hb _ Hin). cbn [fst snd] in Hb.
  rewrite forallb_forall in Hb. specialize (Hb _ Hinb). cbn [fst snd] in Hb.
  rewrite (tget_keq o a b c d Hac Hbd) in Hb.
  destruct (tget o d c) as [z'|]; [|discriminate].
  exists z'. split; [reflexivity|]. apply Qeq_bool_iff. exact Hb.
Qed.
