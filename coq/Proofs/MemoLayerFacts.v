From Coq Require Import List Arith Bool Lia.
Import ListNotations.
From Measured Require Import Model.MemoLayer.

Section Layer.
  Variable inner : nat -> nat.
  Variable o : nat.
  Hypothesis inner_singleton : forall k, inner k = o.     (* the constructor behind the helper hands out one object (C20_program_safe) *)

  Definition pc_ok (p : mpc) : Prop := match p with MGot v | MDone v => v = o | _ => True end.
  Definition MLInv (s : mlstate) : Prop := (forall v, mcache s = Some v -> v = o) /\ Forall pc_ok (mthreads s).

  Lemma upd_forall (P : mpc -> Prop) p' : forall l k, Forall P l -> P p' -> Forall P (upd l k p').
  Proof.
    induction l as [|x l IH]; intros k Hl Hp; [constructor|]. inversion Hl as [|? ? Hx Hr]; subst.
    destruct k; cbn [upd]; constructor; auto.
  Qed.

  Lemma mlstep_inv s i : MLInv s -> MLInv (mlstep inner s i).
  Proof.
    intros [Hc Ht]. unfold mlstep. destruct (nth_error (mthreads s) i) as [p|] eqn:E; [|split; assumption].
    destruct p as [| |v|v].
    - destruct (mcache s) as [v|] eqn:Ec; split; cbn [mcache mthreads].
      + exact Hc.
      + apply upd_forall; [exact Ht|]. cbn. apply Hc. reflexivity.
      + intros v' H. discriminate.
      + apply upd_forall; [exact Ht|exact I].
    - split; cbn [mcache mthreads]; [exact Hc|]. apply upd_forall; [exact Ht|]. cbn. apply inner_singleton.
    - assert (Hv : v = o).
      { apply nth_error_In in E. rewrite Forall_forall in Ht. exact (Ht _ E). }
      split; cbn [mcache mthreads]; [intros v' [= <-]; exact Hv|]. apply upd_forall; [exact Ht|exact Hv].
    - split; assumption.
  Qed.

  Lemma mlinit_inv n : MLInv (mlinit n).
  Proof.
    split; [intros v H; discriminate|]. cbn. apply Forall_forall. intros p H. apply repeat_spec in H. subst p. exact I.
  Qed.

  (* any number of threads, any schedule: every value a thread gets from the memoised helper is that one object, and so is whatever
     the cache ends up holding *)
  Theorem memo_layer_singleton n sched : let s := mlrun inner (mlinit n) sched in
    (forall v, In v (mlresults s) -> v = o) /\ (forall v, mcache s = Some v -> v = o).
  Proof.
    cbv zeta. assert (H : MLInv (mlrun inner (mlinit n) sched)).
    { unfold mlrun. generalize (mlinit_inv n). generalize (mlinit n). induction sched as [|i sched IH]; intros s Hs; [exact Hs|].
      cbn [fold_left]. apply IH, mlstep_inv, Hs. }
    destruct H as [Hc Ht]. split; [|exact Hc].
    intros v Hin. unfold mlresults in Hin. apply in_flat_map in Hin as (p & Hp & Hv).
    rewrite Forall_forall in Ht. specialize (Ht p Hp). destruct p; try contradiction. destruct Hv as [<-|[]]. exact Ht.
  Qed.
End Layer.

(* without the hypothesis the layer is no better than what it wraps: two calls returning different objects are both handed out *)
Lemma memo_layer_transparent_to_races :
  mlresults (mlrun (fun k => k) (mlinit 2) [0; 1; 0; 1; 0; 1]) = [0; 1].
Proof. vm_compute. reflexivity. Qed.
