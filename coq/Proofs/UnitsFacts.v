From stdpp Require Import gmap.
From Coq Require Import ZArith Lia.
From Measured Require Import Model.FMap Model.Units Proofs.FMapFacts.
Local Open Scope Z_scope.

(* ---------- free abelian group laws on fmap ---------- *)
Ltac fext := apply wf_ext;
  [ first [apply wf_fmul|apply wf_fscale|apply wf_fdiv|apply wf_fpow|apply wf_finv|apply wf_empty|apply wf_froot_raw|assumption]
  | first [apply wf_fmul|apply wf_fscale|apply wf_fdiv|apply wf_fpow|apply wf_finv|apply wf_empty|apply wf_froot_raw|assumption]
  | intros ?k; rewrite ?get_fmul, ?get_fdiv, ?get_fpow, ?get_finv, ?get_fscale, ?get_fmul, ?get_fdiv, ?get_fpow, ?get_finv, ?get_empty ].

Lemma fmul_comm a b : fmul a b = fmul b a.
Proof. fext. lia. Qed.

Lemma fmul_assoc a b c : fmul a (fmul b c) = fmul (fmul a b) c.
Proof. fext. lia. Qed.

Lemma fmul_one_r a : wf a -> fmul a fone = a.
Proof. intros. fext. lia. Qed.

Lemma fmul_one_l a : wf a -> fmul fone a = a.
Proof. intros. fext. lia. Qed.

Lemma fmul_inv a : fmul a (fpow a (-1)) = fone.
Proof. fext. lia. Qed.

Lemma fdiv_as_mul a b : fdiv a b = fmul a (fpow b (-1)).
Proof. fext. lia. Qed.

Lemma fpow_add a m n : fmul (fpow a m) (fpow a n) = fpow a (m + n).
Proof. fext. lia. Qed.

Lemma fpow_mul a m n : fpow (fpow a m) n = fpow a (m * n).
Proof. fext. lia. Qed.

Lemma fpow_1 a : wf a -> fpow a 1 = a.
Proof. intros. fext. lia. Qed.

Lemma fpow_0 a : fpow a 0 = fone.
Proof. fext. lia. Qed.

Lemma fpow_fmul a b n : fpow (fmul a b) n = fmul (fpow a n) (fpow b n).
Proof. fext. lia. Qed.

Lemma fdivisible_fpow a n : n <> 0 -> fdivisible n (fpow a n) = true.
Proof.
  intros Hn. apply fdivisible_spec. intros k. rewrite get_fpow. apply Z.mod_mul. exact Hn.
Qed.

Lemma froot_fpow a n : wf a -> n <> 0 -> froot (fpow a n) n = Some a.
Proof.
  intros Ha Hn. unfold froot. destruct (Z.eqb_spec n 0); [contradiction|].
  rewrite fdivisible_fpow by exact Hn. f_equal.
  fext. rewrite get_froot_raw, get_fpow. now rewrite Z.div_mul.
Qed.

Lemma froot_Some_pow a n r : wf a -> n <> 0 -> froot a n = Some r -> fpow r n = a.
Proof.
  intros Ha Hn. unfold froot. destruct (Z.eqb_spec n 0); [contradiction|].
  destruct (fdivisible n a) eqn:Hd; [|discriminate]. intros [= <-].
  pose proof (proj1 (fdivisible_spec _ _) Hd) as Hd'; clear Hd; rename Hd' into Hd.
  fext. rewrite get_froot_raw. specialize (Hd k).
  pose proof (Z.div_mod (get a k) n Hn). lia.
Qed.

Lemma froot_wf a n r : froot a n = Some r -> wf r.
Proof.
  unfold froot. destruct (Z.eqb n 0); [intros [= <-]; apply wf_empty|].
  destruct (fdivisible n a); [intros [= <-]; apply wf_froot_raw|discriminate].
Qed.

(* ---------- prefixes ---------- *)
Lemma mkp_canon b e : pcanon (mkp b e) \/ (b = 0 /\ e <> 0).
Proof.
  unfold mkp, pcanon. destruct (Z.eqb_spec b 0), (Z.eqb_spec e 0); simpl; subst; simpl; lia.
Qed.

Lemma mkp_nz b e : b <> 0 -> pcanon (mkp b e).
Proof. intros. destruct (mkp_canon b e) as [?|[? ?]]; [assumption|contradiction]. Qed.

Lemma pcanon_pid : pcanon pid.
Proof. unfold pcanon, pid; simpl; lia. Qed.

Lemma pcanon_eq p q : pcanon p -> pcanon q -> pbase p = pbase q -> pexp p = pexp q -> p = q.
Proof. destruct p, q; simpl; intros; subst; reflexivity. Qed.

Lemma mkp_id_canon p : pcanon p -> mkp (pbase p) (pexp p) = p.
Proof.
  destruct p as [b e]. unfold pcanon, mkp; simpl. intros [H0 H1].
  destruct (Z.eqb_spec b 0), (Z.eqb_spec e 0); simpl; subst; try reflexivity.
  - exfalso; apply H1; auto.
Qed.

Lemma pmul_canon p q r : pcanon p -> pcanon q -> pmul p q = Some r -> pcanon r.
Proof.
  unfold pmul. intros Hp Hq.
  destruct (Z.eqb_spec (pbase q) 0); [intros [= <-]; exact Hp|].
  destruct (Z.eqb_spec (pbase p) 0); [intros [= <-]; exact Hq|].
  destruct (Z.eqb_spec (pbase q) (pbase p)); [|discriminate].
  intros [= <-]. apply mkp_nz; assumption.
Qed.

Lemma pdiv_canon p q r : pcanon p -> pcanon q -> pdiv p q = Some r -> pcanon r.
Proof.
  unfold pdiv. intros Hp Hq.
  destruct (Z.eqb_spec (pbase q) 0); [intros [= <-]; exact Hp|].
  destruct (Z.eqb_spec (pbase p) 0); [intros [= <-]; apply mkp_nz; assumption|].
  destruct (Z.eqb_spec (pbase q) (pbase p)); [|discriminate].
  intros [= <-]. apply mkp_nz; assumption.
Qed.

Lemma ppow_canon p n : pcanon p -> pcanon (ppow p n).
Proof.
  intros Hp. unfold ppow. destruct (Z.eq_dec (pbase p) 0) as [E|E].
  - destruct Hp as [H0 _]. rewrite E, (H0 E). simpl. apply pcanon_pid.
  - apply mkp_nz; assumption.
Qed.

Lemma proot_canon p n r : pcanon p -> proot p n = Some r -> pcanon r.
Proof.
  intros Hp. unfold proot. destruct (Z.eqb n 0); [intros [= <-]; apply pcanon_pid|].
  destruct (Z.eqb (pexp p mod n) 0); [|discriminate]. intros [= <-].
  destruct (Z.eq_dec (pbase p) 0) as [E|E].
  - destruct Hp as [H0 _]. rewrite E, (H0 E). simpl. apply pcanon_pid.
  - apply mkp_nz; assumption.
Qed.

(* the value of a canonical prefix as (base, exponent), identity normalised to exponent 0:
   two canonical prefixes are equal iff same base-or-identity and same exponent *)
Lemma mkp_base_nz b e : b <> 0 -> e <> 0 -> mkp b e = MkP b e.
Proof. unfold mkp. intros. destruct (Z.eqb_spec b 0), (Z.eqb_spec e 0); simpl; try lia; reflexivity. Qed.

Lemma mkp_e0 b : mkp b 0 = pid.
Proof. unfold mkp, pid. destruct (Z.eqb_spec b 0); simpl; subst; reflexivity. Qed.

(* same-base prefix group laws: all operands are canonical and have base 0 or [b] *)
Definition inbase (b : Z) (p : prefix) : Prop := pcanon p /\ (pbase p = 0 \/ pbase p = b).

Lemma pmul_inbase b p q : b <> 0 -> inbase b p -> inbase b q ->
  exists r, pmul p q = Some r /\ inbase b r /\ pexp r = pexp p + pexp q.
Proof.
  intros Hb [Hp Bp] [Hq Bq]. unfold pmul.
  destruct (Z.eqb_spec (pbase q) 0) as [E|E].
  { exists p. split; [reflexivity|]. split; [split; assumption|].
    destruct Hq as [H0 _]. rewrite (H0 E). lia. }
  destruct (Z.eqb_spec (pbase p) 0) as [E'|E'].
  { exists q. split; [reflexivity|]. split; [split; assumption|].
    destruct Hp as [H0 _]. rewrite (H0 E'). lia. }
  assert (pbase q = pbase p) as -> by lia. rewrite Z.eqb_refl.
  eexists. split; [reflexivity|]. split.
  - split; [apply mkp_nz; assumption|].
    unfold mkp. destruct (andb _ _); simpl; lia.
  - unfold mkp. destruct (Z.eqb_spec (pbase p) 0), (Z.eqb_spec (pexp p + pexp q) 0); simpl; lia.
Qed.

Lemma inbase_eq b p q : inbase b p -> inbase b q -> pexp p = pexp q -> p = q.
Proof.
  intros [Hp Bp] [Hq Bq] He. apply pcanon_eq; auto.
  destruct Hp as [P0 P1], Hq as [Q0 Q1].
  destruct (Z.eq_dec (pbase p) 0) as [E|E], (Z.eq_dec (pbase q) 0) as [F|F]; lia.
Qed.

Lemma pmul_comm_inbase b p q : b <> 0 -> inbase b p -> inbase b q -> pmul p q = pmul q p.
Proof.
  intros Hb Hp Hq.
  destruct (pmul_inbase b p q Hb Hp Hq) as (r & -> & Hr & Er).
  destruct (pmul_inbase b q p Hb Hq Hp) as (r' & -> & Hr' & Er').
  f_equal. apply (inbase_eq b); auto. lia.
Qed.

Lemma pmul_assoc_inbase b p q s : b <> 0 -> inbase b p -> inbase b q -> inbase b s ->
  (pmul p q ≫= fun r => pmul r s) = (pmul q s ≫= fun r => pmul p r).
Proof.
  intros Hb Hp Hq Hs.
  destruct (pmul_inbase b p q Hb Hp Hq) as (r & -> & Hr & Er).
  destruct (pmul_inbase b q s Hb Hq Hs) as (r' & -> & Hr' & Er'). simpl.
  destruct (pmul_inbase b r s Hb Hr Hs) as (u & -> & Hu & Eu).
  destruct (pmul_inbase b p r' Hb Hp Hr') as (u' & -> & Hu' & Eu').
  f_equal. apply (inbase_eq b); auto. lia.
Qed.

Lemma ppow_inbase b p n : b <> 0 -> inbase b p -> inbase b (ppow p n) /\ pexp (ppow p n) = pexp p * n.
Proof.
  intros Hb [Hp Bp]. split; [split|].
  - apply ppow_canon; assumption.
  - unfold ppow, mkp. destruct (andb _ _); simpl; lia.
  - unfold ppow, mkp. destruct (Z.eqb_spec (pbase p) 0), (Z.eqb_spec (pexp p * n) 0); simpl; try lia.
Qed.

Lemma pdiv_inbase b p q : b <> 0 -> inbase b p -> inbase b q ->
  exists r, pdiv p q = Some r /\ inbase b r /\ pexp r = pexp p - pexp q.
Proof.
  intros Hb [Hp Bp] [Hq Bq]. unfold pdiv.
  destruct (Z.eqb_spec (pbase q) 0) as [E|E].
  { exists p. split; [reflexivity|]. split; [split; assumption|].
    destruct Hq as [H0 _]. rewrite (H0 E). lia. }
  destruct (Z.eqb_spec (pbase p) 0) as [E'|E'].
  { eexists. split; [reflexivity|]. destruct Hp as [H0 _]. rewrite (H0 E'). split; [split|].
    - apply mkp_nz; assumption.
    - unfold mkp. destruct (andb _ _); simpl; lia.
    - unfold mkp. destruct (Z.eqb_spec (pbase q) 0), (Z.eqb_spec (- pexp q) 0); simpl; lia. }
  assert (pbase q = pbase p) as -> by lia. rewrite Z.eqb_refl.
  eexists. split; [reflexivity|]. split.
  - split; [apply mkp_nz; assumption|].
    unfold mkp. destruct (andb _ _); simpl; lia.
  - unfold mkp. destruct (Z.eqb_spec (pbase p) 0), (Z.eqb_spec (pexp p - pexp q) 0); simpl; lia.
Qed.

Lemma proot_inbase b p n : b <> 0 -> n <> 0 -> inbase b p ->
  proot (ppow p n) n = Some p.
Proof.
  intros Hb Hn [[P0 P1] Bp]. destruct p as [pb pe]; simpl in *.
  unfold proot, ppow; simpl. destruct (Z.eqb_spec n 0); [contradiction|].
  destruct (Z.eq_dec pb 0) as [E|E].
  - subst pb. rewrite (P0 eq_refl). simpl. unfold mkp; simpl.
    rewrite ?Zmod_0_l; simpl; rewrite ?Zdiv_0_l; reflexivity.
  - pose proof (P1 E) as Pe.
    rewrite (mkp_base_nz pb (pe * n)) by (auto; nia). simpl.
    rewrite Z.mod_mul by auto. simpl. rewrite Z.div_mul by auto.
    rewrite mkp_base_nz by auto. reflexivity.
Qed.

(* ---------- dimOf is a group homomorphism ---------- *)
Definition dsum (bd : env) (m : fmap) (i : positive) : Z :=
  fold_right (fun '(k, d) acc => get d i * get m k + acc) 0 bd.

Lemma wf_dimOf bd m : wf (dimOf bd m).
Proof. destruct bd as [|[k d] bd]; simpl; [apply wf_empty|apply wf_fmul]. Qed.

Lemma get_dimOf bd m i : get (dimOf bd m) i = dsum bd m i.
Proof.
  induction bd as [|[k d] bd IH]; simpl; [apply get_empty|].
  rewrite get_fmul, get_fpow, IH. reflexivity.
Qed.

Lemma dsum_ext bd m m' i : (forall k, get m k = get m' k) -> dsum bd m i = dsum bd m' i.
Proof. intros H. induction bd as [|[k d] bd IH]; simpl; [reflexivity|]. rewrite IH, H. reflexivity. Qed.

Lemma dsum_fmul bd a b i : dsum bd (fmul a b) i = dsum bd a i + dsum bd b i.
Proof. induction bd as [|[k d] bd IH]; simpl; [reflexivity|]. rewrite IH, get_fmul. lia. Qed.

Lemma dsum_fscale bd a n i : dsum bd (fscale n a) i = dsum bd a i * n.
Proof. induction bd as [|[k d] bd IH]; simpl; [reflexivity|]. rewrite IH, get_fscale. lia. Qed.

Lemma dsum_empty bd i : dsum bd fone i = 0.
Proof. induction bd as [|[k d] bd IH]; simpl; [reflexivity|]. rewrite IH, get_empty. lia. Qed.

Lemma dimOf_fmul bd a b : dimOf bd (fmul a b) = fmul (dimOf bd a) (dimOf bd b).
Proof.
  apply wf_ext; [apply wf_dimOf|apply wf_fmul|]. intros i.
  rewrite get_fmul, !get_dimOf. apply dsum_fmul.
Qed.

Lemma dimOf_fpow bd a n : dimOf bd (fpow a n) = fpow (dimOf bd a) n.
Proof.
  apply wf_ext; [apply wf_dimOf|apply wf_fpow|]. intros i.
  rewrite get_fpow, !get_dimOf. apply dsum_fscale.
Qed.

Lemma dimOf_fdiv bd a b : dimOf bd (fdiv a b) = fdiv (dimOf bd a) (dimOf bd b).
Proof.
  apply wf_ext; [apply wf_dimOf|apply wf_fdiv|]. intros i.
  rewrite get_fdiv, !get_dimOf. unfold fdiv, finv. rewrite dsum_fmul, dsum_fscale. lia.
Qed.

Lemma dimOf_empty bd : dimOf bd fone = fone.
Proof.
  apply wf_ext; [apply wf_dimOf|apply wf_empty|]. intros i.
  rewrite get_dimOf, get_empty. apply dsum_empty.
Qed.

Lemma dsum_root bd a n i : n <> 0 -> (forall k, get a k mod n = 0) ->
  dsum bd (froot_raw n a) i * n = dsum bd a i.
Proof.
  intros Hn Hd. induction bd as [|[k d] bd IH]; simpl; [reflexivity|].
  rewrite get_froot_raw. specialize (Hd k). pose proof (Z.div_mod (get a k) n Hn). nia.
Qed.

Lemma dimOf_froot bd a n r : n <> 0 -> froot a n = Some r ->
  froot (dimOf bd a) n = Some (dimOf bd r).
Proof.
  intros Hn. unfold froot. destruct (Z.eqb_spec n 0); [contradiction|].
  destruct (fdivisible n a) eqn:Hd; [|discriminate]. intros [= <-].
  pose proof (proj1 (fdivisible_spec _ _) Hd) as Hd'; clear Hd; rename Hd' into Hd.
  assert (fdivisible n (dimOf bd a) = true) as ->.
  { apply fdivisible_spec. intros i. rewrite get_dimOf, <- (dsum_root bd a n i Hn Hd).
    apply Z.mod_mul; exact Hn. }
  f_equal. apply wf_ext; [apply wf_froot_raw|apply wf_dimOf|]. intros i.
  rewrite get_froot_raw, !get_dimOf, <- (dsum_root bd a n i Hn Hd). now rewrite Z.div_mul.
Qed.

(* a new base unit that no existing unit mentions does not change any dimension *)
Lemma dimOf_cons_fresh bd k d m : get m k = 0 -> dimOf ((k, d) :: bd) m = dimOf bd m.
Proof.
  intros H. simpl. rewrite H. rewrite fpow_0. apply fmul_one_l. apply wf_dimOf.
Qed.

Lemma dimOf_singleton bd k d : ~ k ∈ map fst bd -> wf d ->
  dimOf ((k, d) :: bd) {[ k := 1 ]} = d.
Proof.
  intros Hk Hd. simpl.
  assert (get ({[k := 1]} : fmap) k = 1) as -> by (unfold get; now rewrite lookup_singleton).
  rewrite fpow_1 by exact Hd.
  assert (dimOf bd {[k := 1]} = fone) as ->; [|apply fmul_one_r; exact Hd].
  apply wf_ext; [apply wf_dimOf|apply wf_empty|]. intros i. rewrite get_dimOf, get_empty.
  clear Hd. induction bd as [|[k' d'] bd IH]; simpl; [reflexivity|].
  rewrite IH.
  - assert (k' <> k) by (intros ->; apply Hk; simpl; left).
    unfold get at 2. rewrite lookup_singleton_ne by congruence. simpl. lia.
  - intros Hin. apply Hk. simpl. right. exact Hin.
Qed.
