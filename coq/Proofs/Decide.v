(* boolean (vm_compute-able) versions of the well-formedness predicates, with soundness *)
From stdpp Require Import gmap.
From Coq Require Import ZArith Lia.
From Measured Require Import Model.FMap Model.Units Model.Intern
  Proofs.FMapFacts Proofs.UnitsFacts Proofs.InternFacts Proofs.History.
Local Open Scope Z_scope.

Definition wfb (m : fmap) : bool := bool_decide (map_Forall (fun _ e => e <> 0) m).
Definition suppb (bd : env) (m : fmap) : bool := bool_decide (map_Forall (fun k (_ : Z) => k ∈ ids bd) m).
Definition uwfb (bd : env) (u : unit3) : bool :=
  wfb (ufac u) && suppb bd (ufac u) && feqb (udim u) (dimOf bd (ufac u)).

Lemma wfb_spec m : wfb m = true -> wf m.
Proof.
  unfold wfb. rewrite bool_decide_eq_true. intros H k E. exact (H k 0 E eq_refl).
Qed.

Lemma suppb_spec bd m : suppb bd m = true -> supp bd m.
Proof.
  unfold suppb. rewrite bool_decide_eq_true. intros H k Hk. unfold get in Hk.
  destruct (m !! k) as [x|] eqn:E; [exact (H k x E)|simpl in Hk; congruence].
Qed.

Lemma uwfb_spec bd u : uwfb bd u = true -> uwf bd u.
Proof.
  unfold uwfb, feqb. rewrite !andb_true_iff, bool_decide_eq_true. intros [[H1 H2] H3].
  split; [apply wfb_spec; exact H1|]. split; [apply suppb_spec; exact H2|exact H3].
Qed.

Fixpoint lits_okb (bd : env) (e : expr) : bool :=
  match e with
  | ELit u => uwfb bd u
  | EMul a b | EDiv a b => lits_okb bd a && lits_okb bd b
  | EPow a _ | ERoot a _ | EPre _ a | ENum a | EDen a | EQuant a => lits_okb bd a
  end.

Lemma lits_okb_spec bd e : lits_okb bd e = true -> lits_ok bd e.
Proof.
  induction e; simpl; rewrite ?andb_true_iff; try (intros [? ?]; split); auto using uwfb_spec.
Qed.

Definition op_okb (s : state) (o : op) : bool :=
  match o with
  | Define id d => wfb d
  | Eval e => lits_okb (s_env s) e
  end.

Fixpoint hist_okb (s : state) (h : list op) : bool :=
  match h with
  | [] => true
  | o :: h' => op_okb s o && hist_okb (step s o) h'
  end.

Lemma hist_okb_spec h : forall s, hist_okb s h = true -> hist_ok s h.
Proof.
  induction h as [|o h IH]; intros s; simpl; [auto|]. rewrite andb_true_iff. intros [Ho Hh].
  split; [|apply IH; exact Hh]. destruct o; simpl in *; [apply wfb_spec; exact Ho|apply lits_okb_spec; exact Ho].
Qed.

Definition nodupkb (t : table) : bool := bool_decide (NoDup (map ukey t)).

Definition swfb (s : state) : bool := forallb (uwfb (s_env s)) (s_tbl s) && nodupkb (s_tbl s).

Lemma swfb_spec s : swfb s = true -> SWF s.
Proof.
  unfold swfb, nodupkb. rewrite andb_true_iff, bool_decide_eq_true. intros [H1 H2]. split; [|exact H2].
  apply Forall_forall. intros u Hu. apply uwfb_spec.
  rewrite forallb_forall in H1. apply H1. apply elem_of_list_In. exact Hu.
Qed.
