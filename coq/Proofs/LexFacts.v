(* Facts about the character-level parser model (Model/Lex.v):
   - matching consumes a prefix: nothing of the text is lost or invented by the scanner;
   - every token returned leaves a strictly shorter rest, so the lexer's recursion on the length of the text is enough;
   - two artefacts with the same terminals, rules and related LALR tables give the same result on EVERY text. *)
From Coq Require Import List Arith NArith PArith Bool Lia.
Import ListNotations.
From Measured Require Import Model.LR Model.Lex Proofs.LRFacts.

(* ---------------------------------------------------------------- the matcher consumes a prefix *)
Definition suffix_of (rest s : text) : Prop := exists pre, s = pre ++ rest.

Lemma suffix_refl s : suffix_of s s.
Proof. exists []. reflexivity. Qed.
Lemma suffix_trans a b c : suffix_of a b -> suffix_of b c -> suffix_of a c.
Proof. intros [p ->] [q ->]. exists (q ++ p). rewrite app_assoc. reflexivity. Qed.
Lemma suffix_cons x s : suffix_of s (x :: s).
Proof. exists [x]. reflexivity. Qed.
Lemma suffix_length rest s : suffix_of rest s -> length rest <= length s.
Proof. intros [p ->]. rewrite app_length. lia. Qed.

(* whenever the continuation is called, it is called on a suffix of the text *)
Lemma rm_suffix r : forall s (k : text -> option text) res,
  rm r s k = Some res -> exists s', suffix_of s' s /\ k s' = Some res.
Proof.
  induction r as [|c|lo hi|a IHa b IHb|a IHa b IHb|a IHa|a IHa]; intros s k res H; cbn [rm] in H.
  - exists s. split; [apply suffix_refl|exact H].
  - destruct s as [|x s']; [discriminate|]. destruct (N.eqb x c); [|discriminate].
    exists s'. split; [apply suffix_cons|exact H].
  - destruct s as [|x s']; [discriminate|]. destruct (N.leb lo x && N.leb x hi); [|discriminate].
    exists s'. split; [apply suffix_cons|exact H].
  - destruct (IHa _ _ _ H) as (s1 & Hs1 & H1). destruct (IHb _ _ _ H1) as (s2 & Hs2 & H2).
    exists s2. split; [eapply suffix_trans; eassumption|exact H2].
  - destruct (rm a s k) as [r1|] eqn:E1.
    + injection H as <-. apply IHa. exact E1.
    + apply IHb. exact H.
  - destruct (rm a s k) as [r1|] eqn:E1.
    + injection H as <-. apply IHa. exact E1.
    + exists s. split; [apply suffix_refl|exact H].
  - (* RPlus: induction on the iteration bound *)
    remember (length s) as n eqn:En. clear En. revert s H.
    induction n as [|n IHn]; intros s H.
    + destruct (IHa _ _ _ H) as (s1 & Hs1 & H1). exists s1. split; assumption.
    + destruct (IHa _ _ _ H) as (s1 & Hs1 & H1).
      destruct (Nat.ltb (length s1) (length s)).
      * match type of H1 with context [match ?L with Some _ => _ | None => _ end] => destruct L as [r2|] eqn:E2 end.
        -- injection H1 as <-. destruct (IHn _ E2) as (s2 & Hs2 & H2). exists s2. split; [eapply suffix_trans; eassumption|exact H2].
        -- exists s1. split; assumption.
      * exists s1. split; assumption.
Qed.

Theorem rmatch_suffix r s rest : rmatch r s = Some rest -> suffix_of rest s.
Proof.
  unfold rmatch. intros H. destruct (rm_suffix r s _ _ H) as (s' & Hs & Hk). injection Hk as <-. exact Hs.
Qed.

Lemma firstn_suffix rest s : suffix_of rest s -> firstn (length s - length rest) s ++ rest = s.
Proof.
  intros [p ->]. rewrite app_length. replace (length p + length rest - length rest) with (length p) by lia.
  rewrite firstn_app, Nat.sub_diag, firstn_all. cbn [firstn]. rewrite app_nil_r. reflexivity.
Qed.

(* Scanner.match: the text is split into the token's text and the rest *)
Theorem first_match_splits cands s ty txt rest :
  first_match cands s = Some (ty, txt, rest) -> s = txt ++ rest /\ exists t, In t cands /\ tm_id t = ty.
Proof.
  induction cands as [|t cands IH]; cbn [first_match]; [discriminate|].
  destruct (rmatch (tm_re t) s) as [r1|] eqn:E.
  - intros H. injection H as <- <- <-. split.
    + symmetry. apply firstn_suffix. eapply rmatch_suffix, E.
    + exists t. split; [left; reflexivity|reflexivity].
  - intros H. destruct (IH H) as (Hs & t' & Hin & Hid). split; [exact Hs|]. exists t'. split; [right; exact Hin|exact Hid].
Qed.

(* BasicLexer.next_token: a token comes with text that really stands in the input, after a skipped stretch, and the
   rest is strictly shorter than what the lexer was given *)
Theorem next_token_progress ignore : forall n cands s t rest,
  next_token ignore n cands s = SToken t rest ->
  length rest < length s /\ exists skipped, s = skipped ++ snd t ++ rest.
Proof.
  induction n as [|n IH]; intros cands s t rest H.
  - destruct s as [|x s]; [discriminate|]. cbn [next_token] in H.
    destruct (first_match cands (x :: s)) as [[[ty txt] r1]|] eqn:E; [|discriminate].
    destruct (Nat.leb (length (x :: s)) (length r1)) eqn:El; [discriminate|].
    destruct (mem ty ignore); [discriminate|]. injection H as <- <-.
    apply Nat.leb_gt in El. split; [exact El|]. exists []. cbn [app snd]. apply (first_match_splits _ _ _ _ _ E).
  - destruct s as [|x s]; [discriminate|]. cbn [next_token] in H.
    destruct (first_match cands (x :: s)) as [[[ty txt] r1]|] eqn:E; [|discriminate].
    destruct (Nat.leb (length (x :: s)) (length r1)) eqn:El; [discriminate|]. apply Nat.leb_gt in El.
    destruct (first_match_splits _ _ _ _ _ E) as (Hs & _).
    destruct (mem ty ignore).
    + destruct (IH cands r1 t rest H) as (Hl & sk & Hsk). split; [lia|].
      exists (txt ++ sk). rewrite Hs, Hsk, app_assoc. reflexivity.
    + injection H as <- <-. split; [exact El|]. exists []. exact Hs.
Qed.

(* the scanner handed to the LALR driver never returns the text it was given *)
Corollary scan_progress order ignore accepted s t rest :
  scan order ignore accepted s = Some (Some (t, rest)) -> length rest < length s.
Proof.
  unfold scan. destruct (next_token ignore (length s) (candidates order ignore accepted) s) as [|t' r'| |] eqn:E; try discriminate.
  intros H. injection H as <- <-. apply (next_token_progress ignore _ _ _ _ _ E).
Qed.

(* ---------------------------------------------------------------- the two artefacts agree on every text *)
Section TextBisim.
  Variables (order : list terminal) (ignore : list positive) (rules : list rule) (infos : list rinfo)
            (filtered terminals : list positive) (end_sym : positive).
  Variables (A B : table) (fl : list nat) (symbols : list positive).
  Hypothesis Hrel : states_related fl symbols A B = true.
  Hypothesis Hclosed : table_closed A = true.

  Lemma run_text_sim fuel : forall stack vals s, in_range A stack ->
    run_text order ignore rules infos filtered terminals end_sym B fuel (map (fun_of fl) stack) vals s =
    run_text order ignore rules infos filtered terminals end_sym A fuel stack vals s.
  Proof.
    induction fuel as [|fu IH]; intros stack vals s Hr; [reflexivity|].
    destruct stack as [|st stack]; [reflexivity|].
    assert (Hst : st < length (t_states A)) by (inversion Hr; assumption).
    cbn [run_text map]. rewrite <- (accepts_sim terminals A B fl symbols Hrel st Hst).
    destruct (scan order ignore (accepts terminals A st) s) as [[[tok rest]|]|]; [| |reflexivity].
    - destruct (feed_sim tree (build infos filtered) rules A B fl symbols Hrel Hclosed (S fu) (st :: stack) vals (tok_type tok) (tok_tree tok) false Hr) as [E1 E2].
      cbn [map] in E1. rewrite E1.
      destruct (feed tree (build infos filtered) rules A (S fu) (st :: stack) vals (tok_type tok) (tok_tree tok) false) as [st' vs'| | |] eqn:Ef; cbn [map_fed]; try reflexivity.
      apply IH. eapply E2. reflexivity.
    - destruct (feed_sim tree (build infos filtered) rules A B fl symbols Hrel Hclosed (S fu) (st :: stack) vals end_sym (TInline []) true Hr) as [E1 _].
      cbn [map] in E1. rewrite E1.
      destruct (feed tree (build infos filtered) rules A (S fu) (st :: stack) vals end_sym (TInline []) true); reflexivity.
  Qed.

  Theorem parse_text_bisim s :
    parse_text order ignore rules infos filtered terminals end_sym A s =
    parse_text order ignore rules infos filtered terminals end_sym B s.
  Proof.
    unfold parse_text. destruct (rel_parts A B fl symbols Hrel) as (_ & Hs & _). rewrite <- Hs. symmetry.
    change [fun_of fl (t_start A)] with (map (fun_of fl) [t_start A]). apply run_text_sim.
    constructor; [apply start_in_range, Hclosed|constructor].
  Qed.
End TextBisim.
