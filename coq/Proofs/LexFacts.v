(* Facts about the character-level parser model (Model/Lex.v):
   - matching consumes a prefix: nothing of the text is lost or invented by the scanner;
   - every token returned leaves a strictly shorter rest, so the lexer's recursion on the length of the text is enough;
   - two artefacts with the same terminals, rules and related LALR tables give the same result on EVERY text. *)
From Coq Require Import List Arith NArith PArith Bool Lia.
Import ListNotations.
From Measured Require Import Model.LR Model.Lex Proofs.LRFacts.

(* ---------------------------------------------------------------- the matcher consumes a prefix *)
Definition suffix_of (rest s : text) : Prop := exists pre, s = pre ++ rest.

Lemma suffix_refl s : suffix_of s s.
Proof. exists []. reflexivity. Qed.
Lemma suffix_trans a b c : suffix_of a b -> suffix_of b c -> suffix_of a c.
Proof. intros [p ->] [q ->]. exists (q ++ p). rewrite app_assoc. reflexivity. Qed.
Lemma suffix_cons x s : suffix_of s (x :: s).
Proof. exists [x]. reflexivity. Qed.
Lemma suffix_length rest s : suffix_of rest s -> length rest <= length s.
Proof. intros [p ->]. rewrite app_length. lia. Qed.

(* whenever the continuation is called, it is called on a suffix of the text *)
Lemma rm_suffix r : forall s (k : text -> option text) res,
  rm r s k = Some res -> exists s', suffix_of s' s /\ k s' = Some res.
Proof.
  induction r as [|c|lo hi|a IHa b IHb|a IHa b IHb|a IHa|a IHa]; intros s k res H; cbn [rm] in H.
  - exists s. split; [apply suffix_refl|exact H].
  - destruct s as [|x s']; [discriminate|]. destruct (N.eqb x c); [|discriminate].
    exists s'. split; [apply suffix_cons|exact H].
  - destruct s as [|x s']; [discriminate|]. destruct (N.leb lo x && N.leb x hi); [|discriminate].
    exists s'. split; [apply suffix_cons|exact H].
  - destruct (IHa _ _ _ H) as (s1 & Hs1 & H1). destruct (IHb _ _ _ H1) as (s2 & Hs2 & H2).
    exists s2. split; [eapply suffix_trans; eassumption|exact H2].
  - destruct (rm a s k) as [r1|] eqn:E1.
    + injection H as <-. apply IHa. exact E1.
    + apply IHb. exact H.
  - destruct (rm a s k) as [r1|] eqn:E1.
    + injection H as <-. apply IHa. exact E1.
    + exists s. split; [apply suffix_refl|exact H].
  - (* RPlus: induction on the iteration bound *)
    remember (length s) as n eqn:En. clear En. revert s H.
    induction n as [|n IHn]; intros s H.
    + destruct (IHa _ _ _ H) as (s1 & Hs1 & H1). exists s1. split; assumption.
    + destruct (IHa _ _ _ H) as (s1 & Hs1 & H1).
      destruct (Nat.ltb (length s1) (length s)).
      * match type of H1 with context [match ?L with Some _ => _ | None => _ end] => destruct L as [r2|] eqn:E2 end.
        -- injection H1 as <-. destruct (IHn _ E2) as (s2 & Hs2 & H2). exists s2. split; [eapply suffix_trans; eassumption|exact H2].
        -- exists s1. split; assumption.
      * exists s1. split; assumption.
Qed.

Theorem rmatch_suffix r s rest : rmatch r s = Some rest -> suffix_of rest s.
Proof.
  unfold rmatch. intros H. destruct (rm_suffix r s _ _ H) as (s' & Hs & Hk). injection Hk as <-. exact Hs.
Qed.

Lemma firstn_suffix rest s : suffix_of rest s -> firstn (length s - length rest) s ++ rest = s.
Proof.
  intros [p ->]. rewrite app_length. replace (length p + length rest - length rest) with (length p) by lia.
  rewrite firstn_app, Nat.sub_diag, firstn_all. cbn [firstn]. rewrite app_nil_r. reflexivity.
Qed.

(* Scanner.match: the text is split into the token's text and the rest *)
Theorem first_match_splits cands s ty txt rest :
  first_match cands s = Some (ty, txt, rest) -> s = txt ++ rest /\ exists t, In t cands /\ tm_id t = ty.
Proof.
  induction cands as [|t cands IH]; cbn [first_match]; [discriminate|].
  destruct (rmatch (tm_re t) s) as [r1|] eqn:E.
  - intros H. injection H as <- <- <-. split.
    + symmetry. apply firstn_suffix. eapply rmatch_suffix, E.
    + exists t. split; [left; reflexivity|reflexivity].
  - intros H. destruct (IH H) as (Hs & t' & Hin & Hid). split; [exact Hs|]. exists t'. split; [right; exact Hin|exact Hid].
Qed.

(* BasicLexer.next_token: a token comes with text that really stands in the input, after a skipped stretch, and the
   rest is strictly shorter than what the lexer was given *)
Theorem next_token_progress ignore : forall n cands s t rest,
  next_token ignore n cands s = SToken t rest ->
  length rest < length s /\ exists skipped, s = skipped ++ snd t ++ rest.
Proof.
  induction n as [|n IH]; intros cands s t rest H.
  - destruct s as [|x s]; [discriminate|]. cbn [next_token] in H.
    destruct (first_match cands (x :: s)) as [[[ty txt] r1]|] eqn:E; [|discriminate].
    destruct (Nat.leb (length (x :: s)) (length r1)) eqn:El; [discriminate|].
    destruct (mem ty ignore); [discriminate|]. injection H as <- <-.
    apply Nat.leb_gt in El. split; [exact El|]. exists []. cbn [app snd]. apply (first_match_splits _ _ _ _ _ E).
  - destruct s as [|x s]; [discriminate|]. cbn [next_token] in H.
    destruct (first_match cands (x :: s)) as [[[ty txt] r1]|] eqn:E; [|discriminate].
    destruct (Nat.leb (length (x :: s)) (length r1)) eqn:El; [discriminate|]. apply Nat.leb_gt in El.
    destruct (first_match_splits _ _ _ _ _ E) as (Hs & _).
    destruct (mem ty ignore).
    + destruct (IH cands r1 t rest H) as (Hl & sk & Hsk). split; [lia|].
      exists (txt ++ sk). rewrite Hs, Hsk, app_assoc. reflexivity.
    + injection H as <- <-. split; [exact El|]. exists []. exact Hs.
Qed.

(* the scanner handed to the LALR driver never returns the text it was given *)
Corollary scan_progress order ignore accepted s t rest :
  scan order ignore accepted s = Some (Some (t, rest)) -> length rest < length s.
Proof.
  unfold scan. destruct (next_token ignore (length s) (candidates order ignore accepted) s) as [|t' r'| |] eqn:E; try discriminate.
  intros H. injection H as <- <-. apply (next_token_progress ignore _ _ _ _ _ E).
Qed.

(* ---------------------------------------------------------------- the two artefacts agree on every text *)
Section TextBisim.
  Variables (order : list terminal) (ignore : list positive) (rules : list rule) (infos : list rinfo)
            (filtered terminals : list positive) (end_sym : positive).
  Variables (A B : table) (fl : list nat) (symbols : list positive).
  Hypothesis Hrel : states_related fl symbols A B = true.
  Hypothesis Hclosed : table_closed A = true.

  Lemma run_text_sim fuel : forall stack vals s, in_range A stack ->
    run_text order ignore rules infos filtered terminals end_sym B fuel (map (fun_of fl) stack) vals s =
    run_text order ignore rules infos filtered terminals end_sym A fuel stack vals s.
  Proof.
    induction fuel as [|fu IH]; intros stack vals s Hr; [reflexivity|].
    destruct stack as [|st stack]; [reflexivity|].
    assert (Hst : st < length (t_states A)) by (inversion Hr; assumption).
    cbn [run_text map]. rewrite <- (accepts_sim terminals A B fl symbols Hrel st Hst).
    destruct (scan order ignore (accepts terminals A st) s) as [[[tok rest]|]|]; [| |reflexivity].
    - destruct (feed_sim tree (build infos filtered) rules A B fl symbols Hrel Hclosed (S fu) (st :: stack) vals (tok_type tok) (tok_tree tok) false Hr) as [E1 E2].
      cbn [map] in E1. rewrite E1.
      destruct (feed tree (build infos filtered) rules A (S fu) (st :: stack) vals (tok_type tok) (tok_tree tok) false) as [st' vs'| | |] eqn:Ef; cbn [map_fed]; try reflexivity.
      apply IH. eapply E2. reflexivity.
    - destruct (feed_sim tree (build infos filtered) rules A B fl symbols Hrel Hclosed (S fu) (st :: stack) vals end_sym (TInline []) true Hr) as [E1 _].
      cbn [map] in E1. rewrite E1.
      destruct (feed tree (build infos filtered) rules A (S fu) (st :: stack) vals end_sym (TInline []) true); reflexivity.
  Qed.

  Theorem parse_text_bisim s :
    parse_text order ignore rules infos filtered terminals end_sym A s =
    parse_text order ignore rules infos filtered terminals end_sym B s.
  Proof.
    unfold parse_text. destruct (rel_parts A B fl symbols Hrel) as (_ & Hs & _). rewrite <- Hs. symmetry.
    change [fun_of fl (t_start A)] with (map (fun_of fl) [t_start A]). apply run_text_sim.
    constructor; [apply start_in_range, Hclosed|constructor].
  Qed.
End TextBisim.

(* ---------------------------------------------------------------- character classes and maximal munch *)
(* a regular expression that consumes exactly one character satisfying P: what the grammar's letter classes compile to *)
Definition is_class (r : re) (P : N -> bool) : Prop :=
  forall s (k : text -> option text), rm r s k = match s with x :: s' => if P x then k s' else None | [] => None end.

Lemma class_char c : is_class (RChar c) (fun x => N.eqb x c).
Proof. intros [|x s] k; reflexivity. Qed.
Lemma class_range lo hi : is_class (RRange lo hi) (fun x => N.leb lo x && N.leb x hi).
Proof. intros [|x s] k; reflexivity. Qed.
Lemma class_alt a b P Q : is_class a P -> is_class b Q -> is_class (RAlt a b) (fun x => P x || Q x).
Proof.
  intros Ha Hb [|x s] k; cbn [rm]; rewrite Ha, Hb; [reflexivity|].
  destruct (P x), (Q x); cbn [orb]; destruct (k s); reflexivity.
Qed.

(* which expressions are classes, decided syntactically *)
Fixpoint class_pred (r : re) : option (N -> bool) :=
  match r with
  | RChar c => Some (fun x => N.eqb x c)
  | RRange lo hi => Some (fun x => N.leb lo x && N.leb x hi)
  | RAlt a b => match class_pred a, class_pred b with Some P, Some Q => Some (fun x => P x || Q x) | _, _ => None end
  | _ => None
  end.
Lemma class_pred_sound r : forall P, class_pred r = Some P -> is_class r P.
Proof.
  induction r as [|c|lo hi|a IHa b IHb|a IHa b IHb|a IHa|a IHa]; intros P H; cbn in H; try discriminate.
  - injection H as <-. apply class_char.
  - injection H as <-. apply class_range.
  - destruct (class_pred a) as [Pa|]; [|discriminate]. destruct (class_pred b) as [Pb|]; [|discriminate].
    injection H as <-. apply class_alt; [apply IHa|apply IHb]; reflexivity.
Qed.

Fixpoint drop_while (P : N -> bool) (s : text) : text :=
  match s with x :: s' => if P x then drop_while P s' else s | [] => [] end.

(* (class)+ takes the longest run of class characters: Python's greedy `+` on a one-character body never gives one back
   when the continuation accepts everything *)
Theorem plus_class_munch r P : is_class r P -> forall s,
  rmatch (RPlus r) s = match s with x :: s' => if P x then Some (drop_while P s') else None | [] => None end.
Proof.
  intros Hc s. unfold rmatch. cbn [rm].
  set (loop := fix loop (n : nat) (s0 : text) {struct n} : option text :=
         rm r s0 (fun s' => match n with
                            | O => Some s'
                            | S n' => if Nat.ltb (length s') (length s0)
                                      then match loop n' s' with Some r0 => Some r0 | None => Some s' end
                                      else Some s'
                            end)).
  assert (H : forall n s0, length s0 <= n ->
            loop n s0 = match s0 with x :: s' => if P x then Some (drop_while P s') else None | [] => None end).
  { induction n as [|n IH]; intros s0 Hl.
    - destruct s0 as [|x s']; [|cbn in Hl; lia]. unfold loop. rewrite Hc. reflexivity.
    - destruct s0 as [|x s']; [unfold loop; rewrite Hc; reflexivity|].
      change (loop (S n) (x :: s')) with
        (rm r (x :: s') (fun s'' => if Nat.ltb (length s'') (length (x :: s'))
                                    then match loop n s'' with Some r0 => Some r0 | None => Some s'' end else Some s'')).
      rewrite Hc. destruct (P x); [|reflexivity].
      assert (Hlt : Nat.ltb (length s') (length (x :: s')) = true) by (apply Nat.ltb_lt; cbn; lia). rewrite Hlt.
      rewrite (IH s') by (cbn in Hl; lia).
      destruct s' as [|y s'']; [reflexivity|]. cbn [drop_while]. destruct (P y); reflexivity. }
  apply H. lia.
Qed.

(* ---------------------------------------------------------------- a symbol is one token *)
Fixpoint take_while (P : N -> bool) (s : text) : text :=
  match s with x :: s' => if P x then x :: take_while P s' else [] | [] => [] end.

Lemma take_drop_while P s : take_while P s ++ drop_while P s = s.
Proof. induction s as [|x s IH]; cbn; [reflexivity|]. destruct (P x); cbn; [rewrite IH|]; reflexivity. Qed.

Lemma firstn_take_while P s : firstn (length s - length (drop_while P s)) s = take_while P s.
Proof.
  assert (Hl : length s - length (drop_while P s) = length (take_while P s)).
  { rewrite <- (take_drop_while P s) at 1. rewrite app_length. lia. }
  rewrite Hl. rewrite <- (take_drop_while P s) at 2.
  rewrite firstn_app, Nat.sub_diag, firstn_all. cbn [firstn]. apply app_nil_r.
Qed.

(* Scanner.match on a text that starts with a class character, when the (class)+ terminal t is the first candidate that
   matches: the token is the whole run of class characters -- however long -- and the rest starts at the first character
   outside the class *)
Theorem class_plus_token cands_before t cands_after body P x s :
  tm_re t = RPlus body -> is_class body P -> P x = true ->
  (forall u, In u cands_before -> rmatch (tm_re u) (x :: s) = None) ->
  first_match (cands_before ++ t :: cands_after) (x :: s) = Some (tm_id t, x :: take_while P s, drop_while P s).
Proof.
  intros Hre Hc Hx Hbefore. induction cands_before as [|u l IH]; cbn [app first_match].
  - rewrite Hre, (plus_class_munch body P Hc (x :: s)), Hx. f_equal. f_equal.
    pose proof (firstn_take_while P (x :: s)) as H. cbn [drop_while take_while] in H. rewrite Hx in H. exact (f_equal (fun l => (tm_id t, l)) H).
  - rewrite (Hbefore u (or_introl eq_refl)). apply IH. intros v Hv. apply Hbefore. right. exact Hv.
Qed.

(* ---------------------------------------------------------------- fuel: more of it never changes an answer *)
Section Fuel.
  Variables (value : Type) (redv : nat -> list value -> value) (rules : list rule) (T : table).

  Lemma feed_mono : forall f stack vals ty v e,
    feed value redv rules T f stack vals ty v e <> Stuck value ->
    forall f', f <= f' -> feed value redv rules T f' stack vals ty v e = feed value redv rules T f stack vals ty v e.
  Proof.
    induction f as [|f IH]; intros stack vals ty v e Hne f' Hle; [exfalso; apply Hne; reflexivity|].
    destruct f' as [|f']; [lia|]. cbn [feed] in *.
    destruct stack as [|st stack]; [reflexivity|].
    destruct (lookup (state_row T st) ty) as [[s'|r]|]; try reflexivity.
    destruct (nth_error rules r) as [ru|]; [|reflexivity].
    destruct (drop (r_len ru) (st :: stack)) as [|top rest] eqn:Ed; [reflexivity|].
    destruct (lookup (state_row T top) (r_origin ru)) as [[ns|]|]; try reflexivity.
    destruct (andb e (Nat.eqb ns (t_end T))); [reflexivity|].
    apply IH; [exact Hne|lia].
  Qed.
End Fuel.

Section FuelText.
  Variables (order : list terminal) (ignore : list positive) (rules : list rule) (infos : list rinfo)
            (filtered terminals : list positive) (end_sym : positive) (T : table).

  (* once the text-level parser has answered (a tree or an exception class), every larger budget gives the same answer:
     the budget of parse_text is not part of the result *)
  Theorem run_text_mono : forall f stack vals s,
    run_text order ignore rules infos filtered terminals end_sym T f stack vals s <> PBroken ->
    forall f', f <= f' ->
    run_text order ignore rules infos filtered terminals end_sym T f' stack vals s =
    run_text order ignore rules infos filtered terminals end_sym T f stack vals s.
  Proof.
    induction f as [|f IH]; intros stack vals s Hne f' Hle; [exfalso; apply Hne; reflexivity|].
    destruct f' as [|f']; [lia|]. cbn [run_text] in *.
    destruct stack as [|st stack]; [reflexivity|].
    destruct (scan order ignore (accepts terminals T st) s) as [[[tok rest]|]|]; [| |reflexivity].
    - assert (Hf : feed tree (build infos filtered) rules T (S f) (st :: stack) vals (tok_type tok) (tok_tree tok) false <> Stuck tree).
      { intros E. apply Hne. rewrite E. reflexivity. }
      rewrite (feed_mono tree (build infos filtered) rules T (S f) _ _ _ _ _ Hf (S f')) by lia.
      destruct (feed tree (build infos filtered) rules T (S f) (st :: stack) vals (tok_type tok) (tok_tree tok) false) as [st' vs'| | |] eqn:Ef; try reflexivity.
      apply IH; [exact Hne|lia].
    - assert (Hf : feed tree (build infos filtered) rules T (S f) (st :: stack) vals end_sym (TInline []) true <> Stuck tree).
      { intros E. apply Hne. rewrite E. reflexivity. }
      rewrite (feed_mono tree (build infos filtered) rules T (S f) _ _ _ _ _ Hf (S f')) by lia. reflexivity.
  Qed.
End FuelText.
