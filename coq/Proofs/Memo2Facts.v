(* Forgetting paths before plans is what makes a declaration safe against queries made while it is in progress; the other order
   (which the library had until e2a1d4e) leaves a stale plan behind. *)
From Coq Require Import List Bool.
Import ListNotations.
From Measured Require Import Model.Memo2.

Section Memo2Facts.
  Context {D K P V : Type}.
  Variable keqb : K -> K -> bool.
  Hypothesis keqb_eq : forall a b, keqb a b = true -> a = b.
  Variable pf : list D -> K -> P.
  Variable g : P -> K -> V.
  Variable cacheable : V -> bool.

  Notation lookupP := (@lookup K keqb P).
  Notation lookupV := (@lookup K keqb V).
  Notation do_line := (do_line keqb pf g cacheable).
  Notation run_lines := (run_lines keqb pf g cacheable).

  (* every memoised path is the path of one of the declaration lists in [Ds]; every memoised plan is built from such a path *)
  Definition pathsOK (Ds : list (list D)) (c : list (K * P)) : Prop :=
    forall k p, lookupP k c = Some p -> exists X, In X Ds /\ p = pf X k.
  Definition plansOK (Ds : list (list D)) (c : list (K * V)) : Prop :=
    forall k v, lookupV k c = Some v -> exists X, In X Ds /\ v = g (pf X k) k.

  (* the state is consistent with the declarations it holds: what a fresh process with the same declarations would compute *)
  Definition Cons (s : @state2 D K P V) : Prop := pathsOK [decls2 s] (pathc s) /\ plansOK [decls2 s] (planc s).

  Lemma lookup_cons {A} k k' (v : A) c : @lookup K keqb A k ((k', v) :: c) = if keqb k k' then Some v else @lookup K keqb A k c.
  Proof. reflexivity. Qed.

  (* a query keeps "paths from Dp, plans from Dv" as long as the current declarations are among Dp and Dp is included in Dv *)
  Lemma query_keeps Dp Dv s k : In (decls2 s) Dp -> incl Dp Dv ->
    pathsOK Dp (pathc s) -> plansOK Dv (planc s) ->
    let s' := fst (do_line s (LQuery k)) in
    decls2 s' = decls2 s /\ pathsOK Dp (pathc s') /\ plansOK Dv (planc s').
  Proof.
    intros Hd Hi Hp Hv. cbn [do_line]. destruct (lookupV k (planc s)) as [v|] eqn:Ev; cbn [fst]; [auto|].
    destruct (lookupP k (pathc s)) as [p|] eqn:Ep.
    - cbn [fst decls2 pathc planc]. split; [reflexivity|]. split; [exact Hp|].
      destruct (cacheable (g p k)); [|exact Hv].
      intros k' v'. rewrite lookup_cons. destruct (keqb k' k) eqn:Ek; [|apply Hv].
      intros [= <-]. apply keqb_eq in Ek. subst k'. destruct (Hp k p Ep) as (X & HX & ->). exists X. split; [apply Hi, HX|reflexivity].
    - cbn [fst decls2 pathc planc]. split; [reflexivity|]. split.
      + intros k' p'. rewrite lookup_cons. destruct (keqb k' k) eqn:Ek; [|apply Hp].
        intros [= <-]. apply keqb_eq in Ek. subst k'. exists (decls2 s). split; [exact Hd|reflexivity].
      + destruct (cacheable (g (pf (decls2 s) k) k)); [|exact Hv].
        intros k' v'. rewrite lookup_cons. destruct (keqb k' k) eqn:Ek; [|apply Hv].
        intros [= <-]. apply keqb_eq in Ek. subst k'. exists (decls2 s). split; [apply Hi, Hd|reflexivity].
  Qed.

  Lemma queries_keep Dp Dv qs : forall s, In (decls2 s) Dp -> incl Dp Dv ->
    pathsOK Dp (pathc s) -> plansOK Dv (planc s) ->
    let s' := fst (run_lines s (map LQuery qs)) in
    decls2 s' = decls2 s /\ pathsOK Dp (pathc s') /\ plansOK Dv (planc s').
  Proof.
    induction qs as [|k qs IH]; intros s Hd Hi Hp Hv; cbn [map run_lines fst]; [auto|].
    destruct (query_keeps Dp Dv s k Hd Hi Hp Hv) as (E1 & Hp1 & Hv1).
    destruct (do_line s (LQuery k)) as [s1 a] eqn:E. cbn [fst] in *.
    assert (Hd1 : In (decls2 s1) Dp) by (rewrite E1; exact Hd).
    destruct (IH s1 Hd1 Hi Hp1 Hv1) as (E2 & Hp2 & Hv2).
    destruct (run_lines s1 (map LQuery qs)) as [s2 o]. cbn [fst] in *. rewrite E2, E1. auto.
  Qed.

  Lemma run_lines_app s a b :
    fst (run_lines s (a ++ b)) = fst (run_lines (fst (run_lines s a)) b).
  Proof.
    revert s. induction a as [|l a IH]; intros s; cbn [app run_lines fst]; [reflexivity|].
    destruct (do_line s l) as [s1 x]. specialize (IH s1).
    destruct (run_lines s1 (a ++ b)) as [s2 o]. destruct (run_lines s1 a) as [s3 o3]. cbn [fst] in *. exact IH.
  Qed.

  Lemma run_lines_cons s l r : fst (run_lines s (l :: r)) = fst (run_lines (fst (do_line s l)) r).
  Proof. cbn [run_lines]. destruct (do_line s l) as [s1 a]. cbn [fst]. destruct (run_lines s1 r) as [s2 o]. reflexivity. Qed.

  Lemma pathsOK_nil Ds : pathsOK Ds []. Proof. intros k p H. discriminate. Qed.
  Lemma plansOK_nil Ds : plansOK Ds []. Proof. intros k p H. discriminate. Qed.
  Lemma pathsOK_incl A B c : incl A B -> pathsOK A c -> pathsOK B c.
  Proof. intros Hi H k p E. destruct (H k p E) as (X & HX & ->). exists X. split; [apply Hi, HX|reflexivity]. Qed.
  Lemma plansOK_incl A B c : incl A B -> plansOK A c -> plansOK B c.
  Proof. intros Hi H k p E. destruct (H k p E) as (X & HX & ->). exists X. split; [apply Hi, HX|reflexivity]. Qed.

  (* while the ratios are being stored, with queries in between: everything memoised comes from one of the declaration lists the
     process has been through *)
  Lemma stores_phase stores : forall s Ds, In (decls2 s) Ds -> pathsOK Ds (pathc s) -> plansOK Ds (planc s) ->
    let s' := fst (run_lines s (store_lines stores)) in
    exists Ds', In (decls2 s') Ds' /\ pathsOK Ds' (pathc s') /\ plansOK Ds' (planc s') /\ decls2 s' = decls2 s ++ map fst stores.
  Proof.
    induction stores as [|[d qs] stores IH]; intros s Ds Hd Hp Hv; cbv zeta.
    - cbn [store_lines flat_map run_lines fst map]. exists Ds. rewrite app_nil_r. auto.
    - unfold store_lines. cbn [flat_map fst snd]. fold (store_lines stores).
      change (LStore d :: map LQuery qs ++ store_lines stores) with ([LStore d] ++ (map LQuery qs ++ store_lines stores)).
      cbn [app]. rewrite run_lines_cons. cbn [do_line fst].
      set (s1 := MkS2 (decls2 s ++ [d]) (pathc s) (planc s)).
      rewrite run_lines_app.
      set (Ds1 := (decls2 s ++ [d]) :: Ds).
      destruct (queries_keep Ds1 Ds1 qs s1) as (E2 & Hp2 & Hv2).
      { left. reflexivity. }
      { apply incl_refl. }
      { apply (pathsOK_incl Ds); [apply incl_tl, incl_refl|exact Hp]. }
      { apply (plansOK_incl Ds); [apply incl_tl, incl_refl|exact Hv]. }
      set (s2 := fst (run_lines s1 (map LQuery qs))) in *.
      assert (Hd2 : In (decls2 s2) Ds1) by (rewrite E2; left; reflexivity).
      destruct (IH s2 Ds1 Hd2 Hp2 Hv2) as (Ds' & H1 & H2 & H3 & H4).
      exists Ds'. split; [exact H1|]. split; [exact H2|]. split; [exact H3|].
      rewrite H4, E2. cbn [decls2 s1 map fst]. rewrite <- app_assoc. reflexivity.
  Qed.

  (* paths forgotten before plans: whatever other threads ask between the lines of the declaration -- while the ratios are being
     stored, between the two forgettings, and afterwards -- the state ends consistent with the new declarations *)
  Theorem declaration_path_first_consistent s stores q1 q2 : Cons s ->
    let s' := fst (run_lines s (declaration true stores q1 q2)) in
    decls2 s' = decls2 s ++ map fst stores /\ Cons s'.
  Proof.
    intros [Hp Hv]. cbv zeta. unfold declaration.
    rewrite run_lines_app.
    destruct (stores_phase stores s [decls2 s] (or_introl eq_refl) Hp Hv) as (Ds & Hd2 & Hp2 & Hv2 & E2).
    set (s2 := fst (run_lines s (store_lines stores))) in *. set (D1 := decls2 s ++ map fst stores) in *.
    (* forget the paths *)
    cbn [app]. rewrite run_lines_cons. cbn [do_line fst].
    set (s3 := MkS2 (decls2 s2) [] (planc s2)).
    rewrite run_lines_app.
    destruct (queries_keep [D1] Ds q1 s3) as (E4 & Hp4 & Hv4).
    { cbn [decls2 s3]. rewrite E2. left. reflexivity. }
    { intros x [<-|[]]. rewrite <- E2. exact Hd2. }
    { apply pathsOK_nil. }
    { exact Hv2. }
    set (s4 := fst (run_lines s3 (map LQuery q1))) in *.
    (* forget the plans *)
    rewrite run_lines_cons. cbn [do_line fst].
    set (s5 := MkS2 (decls2 s4) (pathc s4) []).
    destruct (queries_keep [D1] [D1] q2 s5) as (E6 & Hp6 & Hv6).
    { cbn [decls2 s5]. rewrite E4. cbn [decls2 s3]. rewrite E2. left. reflexivity. }
    { apply incl_refl. }
    { exact Hp4. }
    { apply plansOK_nil. }
    assert (E : decls2 (fst (run_lines s5 (map LQuery q2))) = D1).
    { rewrite E6. cbn [decls2 s5]. rewrite E4. cbn [decls2 s3]. exact E2. }
    split; [exact E|]. unfold Cons. rewrite E. split; assumption.
  Qed.

  (* in a consistent state every query is answered as a fresh process with the same declarations would answer it, and the state
     stays consistent *)
  Lemma consistent_query s k : Cons s ->
    snd (do_line s (LQuery k)) = Some (g (pf (decls2 s) k) k) /\ Cons (fst (do_line s (LQuery k))).
  Proof.
    intros [Hp Hv]. split.
    - cbn [do_line]. destruct (lookupV k (planc s)) as [v|] eqn:Ev.
      + cbn [snd]. destruct (Hv k v Ev) as (X & [<-|[]] & ->). reflexivity.
      + destruct (lookupP k (pathc s)) as [p|] eqn:Ep; cbn [snd]; [|reflexivity].
        destruct (Hp k p Ep) as (X & [<-|[]] & ->). reflexivity.
    - destruct (query_keeps [decls2 s] [decls2 s] s k) as (E & Hp' & Hv'); [left; reflexivity|apply incl_refl|exact Hp|exact Hv|].
      unfold Cons. rewrite E. split; assumption.
  Qed.
End Memo2Facts.

(* the other order -- plans first, as the library had it -- is refuted: declarations are numbers, the "path" of key k is their sum,
   the plan is the path; a.equals(..) twice with one query of another thread between the two forgettings *)
Definition ex_pf (ds : list nat) (k : nat) : nat := fold_right Nat.add 0 ds.
Definition ex_g (p : nat) (k : nat) : nat := p.
Lemma plan_first_refuted :
  let s0 := fst (run_lines Nat.eqb ex_pf ex_g (fun _ => true) (MkS2 [] [] []) (declaration false [(2, [])] [] [7])) in
  let '(s1, answers) := run_lines Nat.eqb ex_pf ex_g (fun _ => true) s0 (declaration false [(6, [])] [7] [7; 7]) in
  decls2 s1 = [2; 6] /\ answers = [None; None; Some 2; None; Some 2; Some 2] /\ ex_g (ex_pf (decls2 s1) 7) 7 = 8.
Proof. vm_compute. repeat split. Qed.
Lemma path_first_same_history :
  let s0 := fst (run_lines Nat.eqb ex_pf ex_g (fun _ => true) (MkS2 [] [] []) (declaration true [(2, [])] [] [7])) in
  snd (run_lines Nat.eqb ex_pf ex_g (fun _ => true) s0 (declaration true [(6, [])] [7] [7; 7])) = [None; None; Some 2; None; Some 8; Some 8].
Proof. vm_compute. reflexivity. Qed.
