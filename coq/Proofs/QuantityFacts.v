From stdpp Require Import gmap.
From Coq Require Import ZArith QArith Lia.
From Measured Require Import Model.FMap Model.Units Model.Quantity Proofs.FMapFacts.
Local Open Scope Z_scope.

Lemma umul_dim a b r : umul a b = Ok r -> udim r = fmul (udim a) (udim b).
Proof. unfold umul. destruct (pmul _ _); simpl; [intros [= <-]; reflexivity|discriminate]. Qed.
Lemma udiv_dim a b r : udiv a b = Ok r -> udim r = fdiv (udim a) (udim b).
Proof. unfold udiv. destruct (pdiv _ _); simpl; [intros [= <-]; reflexivity|discriminate]. Qed.
Lemma upow_dim a n r : upow a n = Ok r -> udim r = fpow (udim a) n.
Proof. unfold upow. intros [= <-]. reflexivity. Qed.
Lemma upre_mul_dim p a r : upre_mul p a = Ok r -> udim r = udim a.
Proof. unfold upre_mul. destruct (pmul _ _); simpl; [intros [= <-]; reflexivity|discriminate]. Qed.
Lemma uroot_dim a n r : n <> 0 -> uroot a n = Ok r -> froot (udim a) n = Some (udim r).
Proof.
  intros Hn. unfold uroot. destruct (Z.eqb_spec n 0); [contradiction|].
  destruct (froot (udim a) n); simpl; [|discriminate].
  destruct (proot (upre a) n); simpl; [|discriminate].
  destruct (froot (ufac a) n); simpl; [|discriminate]. intros [= <-]. reflexivity.
Qed.

(* the dimension an operand carries: numbers and prefixes are dimensionless *)
Definition vdim (v : value) : fmap :=
  match v with VUnit u => udim u | VQty q => udim (qu q) | _ => fone end.

Definition vkind (v : value) : option kind :=
  match v with VNum k _ => Some k | VQty q => Some (qk q) | _ => None end.

Definition is_dec (v : value) : bool := match vkind v with Some KDec => true | _ => false end.

Ltac solve_wf := first [apply wf_fmul | apply wf_fdiv | apply wf_fpow | apply wf_empty | assumption].
Ltac fsolve := apply wf_ext; [solve_wf | solve_wf |
  intros ?k; rewrite ?get_fmul, ?get_fdiv, ?get_fpow, ?get_empty; lia].

Ltac break_res :=
  repeat match goal with
  | |- context [of_res ?r _] => let E := fresh "E" in destruct r eqn:E; simpl
  | |- context [match pmul ?a ?b with _ => _ end] => destruct (pmul a b); simpl
  | |- context [match pdiv ?a ?b with _ => _ end] => destruct (pdiv a b); simpl
  | |- context [if is_zero ?b then _ else _] => destruct (is_zero b); simpl
  | |- context [if bool_decide ?b then _ else _] => destruct (bool_decide b); simpl
  end.

Ltac use_dims :=
  repeat match goal with
  | E : umul _ _ = Ok _ |- _ => apply umul_dim in E; rewrite E
  | E : udiv _ _ = Ok _ |- _ => apply udiv_dim in E; rewrite E
  | E : upre_mul _ _ = Ok _ |- _ => apply upre_mul_dim in E; rewrite E
  end.

Section Facts.
  Variable conv : unit3 -> unit3 -> option Q.

  (* multiplication: for every combination of quantity / unit / number / prefix operands on either
     side, a quantity result has the product of the operands' dimensions *)
  Theorem mul_dims l r q : wf (vdim l) -> wf (vdim r) ->
    binop conv OpMul l r = Val (VQty q) -> udim (qu q) = fmul (vdim l) (vdim r).
  Proof.
    intros Wl Wr. unfold binop.
    destruct l as [k m|u|s|p|], r as [k' m'|u'|s'|p'|]; simpl in *; break_res;
      try discriminate; intros [= <-]; simpl; use_dims; simpl; fsolve.
  Qed.

  (* division, except number / quantity (see rtruediv_refuted) *)
  Theorem div_dims l r q : wf (vdim l) -> wf (vdim r) ->
    (forall k m, l <> VNum k m) ->
    binop conv OpDiv l r = Val (VQty q) -> udim (qu q) = fdiv (vdim l) (vdim r).
  Proof.
    intros Wl Wr Hl. unfold binop.
    destruct l as [k m|u|s|p|], r as [k' m'|u'|s'|p'|]; simpl in *; break_res;
      try discriminate; try (exfalso; eapply Hl; reflexivity);
      intros [= <-]; simpl; use_dims; simpl; fsolve.
  Qed.

  (* 1 / (2 m) is 0.5 m: the unit is kept, so the dimension is not the quotient's *)
  Theorem rtruediv_keeps_unit k m s q :
    binop conv OpDiv (VNum k m) (VQty s) = Val (VQty q) -> qu q = qu s.
  Proof.
    unfold binop. simpl. destruct (is_zero (qm s)); simpl; [discriminate|]. intros [= <-]. reflexivity.
  Qed.

  Theorem pow_dims s n q : q_pow s n = Val (VQty q) -> udim (qu q) = fpow (udim (qu s)) n.
  Proof.
    unfold q_pow. destruct (is_zero (qm s) && (n <? 0)); [discriminate|]. simpl. intros [= <-]. reflexivity.
  Qed.

  (* addition and subtraction return the left operand's unit *)
  Theorem addsub_left_unit (sub : bool) a r q :
    lmethod conv (if sub then OpSub else OpAdd) (VQty a) r = Val (VQty q) -> qu q = qu a.
  Proof.
    destruct sub; simpl; unfold q_addsub; destruct r as [| |t| |]; try discriminate;
      destruct (in_unit conv t (qu a)) as [|[| |t'| |]| |]; try discriminate; intros [= <-]; reflexivity.
  Qed.

  (* a Decimal operand makes the result a Decimal *)
  Lemma kjoin_dec_l k : kjoin KDec k = KDec.  Proof. destruct k; reflexivity. Qed.
  Lemma kjoin_dec_r k : kjoin k KDec = KDec.  Proof. destruct k; reflexivity. Qed.
  Lemma kdivk_dec_l k : kdivk KDec k = KDec.  Proof. destruct k; reflexivity. Qed.
  Lemma kdivk_dec_r k : kdivk k KDec = KDec.  Proof. destruct k; reflexivity. Qed.

  Theorem decimal_muldiv (dv : bool) l r q : is_dec l || is_dec r = true ->
    binop conv (if dv then OpDiv else OpMul) l r = Val (VQty q) -> qk q = KDec.
  Proof.
    unfold binop, is_dec.
    destruct dv, l as [k m|u|s|p|], r as [k' m'|u'|s'|p'|]; simpl;
      repeat match goal with
      | s : qty |- _ => destruct s as [? ? ?]; simpl
      | k : kind |- _ => destruct k; simpl
      end; try discriminate; intros _; break_res; try discriminate; intros [= <-]; reflexivity.
  Qed.

  Theorem decimal_addsub (sub : bool) a b q : is_dec (VQty a) || is_dec (VQty b) = true ->
    binop conv (if sub then OpSub else OpAdd) (VQty a) (VQty b) = Val (VQty q) -> qk q = KDec.
  Proof.
    unfold binop, is_dec. destruct a as [ka ma ua], b as [kb mb ub]. simpl.
    intros Hd. destruct sub; simpl; unfold q_addsub, in_unit; simpl;
      destruct (negb (dim_eqb ub ua)); simpl; try discriminate;
      destruct (conv ub ua); simpl; try discriminate; intros [= <-]; simpl;
      destruct ka, kb; simpl in *; try discriminate; reflexivity.
  Qed.

  (* quantities of different dimensions: + and - raise ConversionNotFound, ordering raises
     TypeError, == is False; such an operation never yields a number *)
  Lemma dim_eqb_false a b : udim a <> udim b -> dim_eqb a b = false.
  Proof. unfold dim_eqb, feqb. intros H. apply bool_decide_eq_false. exact H. Qed.

  Theorem incommensurable_addsub (sub : bool) a b : udim (qu a) <> udim (qu b) ->
    binop conv (if sub then OpSub else OpAdd) (VQty a) (VQty b) = Err ECNF.
  Proof.
    intros H. unfold binop. destruct sub; simpl; unfold q_addsub, in_unit;
      rewrite (dim_eqb_false (qu b) (qu a)) by congruence; reflexivity.
  Qed.

  Theorem incommensurable_in_unit a t : udim (qu a) <> udim t -> in_unit conv a t = Err ECNF.
  Proof. intros H. unfold in_unit. rewrite (dim_eqb_false (qu a) t H). reflexivity. Qed.

  Theorem incommensurable_eq a b : udim (qu a) <> udim (qu b) ->
    binop conv OpEq (VQty a) (VQty b) = Bool false.
  Proof.
    intros H. unfold binop. simpl. unfold q_cmp.
    rewrite (dim_eqb_false (qu a) (qu b) H), (dim_eqb_false (qu b) (qu a)) by congruence. reflexivity.
  Qed.

  Theorem incommensurable_order op a b : udim (qu a) <> udim (qu b) ->
    compare conv op (VQty a) (VQty b) = Err ETypeError.
  Proof.
    intros H. unfold compare.
    assert (E1 : q_lt conv a (VQty b) = NotImpl).
    { unfold q_lt, q_cmp. rewrite (dim_eqb_false (qu a) (qu b) H). reflexivity. }
    assert (E2 : q_lt conv b (VQty a) = NotImpl).
    { unfold q_lt, q_cmp. rewrite (dim_eqb_false (qu b) (qu a)) by congruence. reflexivity. }
    destruct op; unfold cmp_method, reflected, q_le_derived, q_gt_derived, q_ge_derived; rewrite ?E1, ?E2; reflexivity.
  Qed.
End Facts.

(* ---- comparisons when no conversion exists (C07) ---- *)
Section NoConversion.
  Let conv : unit3 -> unit3 -> option Q := fun _ _ => None.

  Lemma q_cmp_no_conversion lt a b : ufac (qu a) <> ufac (qu b) -> q_cmp conv lt a (VQty b) = NotImpl.
  Proof.
    intros H. unfold q_cmp. destruct (negb (dim_eqb (qu a) (qu b))); [reflexivity|].
    cbv zeta. unfold unprefixed. cbn [qu qm qk].
    assert (E : ukey_eqb (MkU pid (ufac (qu a)) (udim (qu a))) (MkU pid (ufac (qu b)) (udim (qu b))) = false).
    { unfold ukey_eqb, feqb. cbn [upre ufac]. rewrite (bool_decide_eq_false_2 (ufac (qu a) = ufac (qu b))) by exact H.
      apply andb_false_r. }
    rewrite E. unfold in_unit. cbn [qu]. destruct (negb _); reflexivity.
  Qed.

  Theorem eq_no_conversion a b : ufac (qu a) <> ufac (qu b) ->
    binop conv OpEq (VQty a) (VQty b) = Bool false.
  Proof.
    intros H. unfold binop. cbn [lmethod rmethod q_eq].
    pose proof (q_cmp_no_conversion false a b H) as E1.
    assert (E2 : q_cmp conv false b (VQty a) = NotImpl) by (apply q_cmp_no_conversion; congruence).
    unfold lmethod, rmethod. rewrite E1, E2. reflexivity.
  Qed.

  Theorem order_no_conversion op a b : ufac (qu a) <> ufac (qu b) ->
    compare conv op (VQty a) (VQty b) = Err ETypeError.
  Proof.
    intros H. unfold compare.
    assert (E1 : q_lt conv a (VQty b) = NotImpl) by (apply q_cmp_no_conversion; exact H).
    assert (E2 : q_lt conv b (VQty a) = NotImpl) by (apply q_cmp_no_conversion; congruence).
    destruct op; unfold cmp_method, reflected, q_le_derived, q_gt_derived, q_ge_derived; rewrite ?E1, ?E2; reflexivity.
  Qed.
End NoConversion.
