(* C09: chains of declared equivalences.  An edge (a, b, r) declares  size a = r * size b.  Relative to
   a size assignment its error is  err = r * size b / size a  (1 when exact).  A chain a0 -> a1 -> ...
   -> an multiplies to  (size a0 / size an) * product of the errors (telescoping), so if every edge of
   the table has  1/hi_e <= err_e <= hi_e  then every chain that uses each table edge at most once
   deviates from the size ratio by at most the product of ALL the hi_e of the table. *)
From stdpp Require Import gmap.
From Coq Require Import ZArith QArith Qpower Qabs Qfield Lia Lqa List.
From Measured Require Import Model.FMap Model.Units Model.Quantity Model.Value Model.Convert
  Proofs.FMapFacts Proofs.UnitsFacts Proofs.ValueFacts Proofs.ConvertFacts.
Import ListNotations.
Local Open Scope Q_scope.

Definition edge := (unit3 * unit3 * Q)%type.
Definition e_a (e : edge) : unit3 := fst (fst e).
Definition e_b (e : edge) : unit3 := snd (fst e).
Definition e_r (e : edge) : Q := snd e.

Definition eerr (se : sizes) (e : edge) : Q := e_r e * usz se (e_b e) / usz se (e_a e).

(* a chain through the edge list E, given by the indices of the edges it follows *)
Fixpoint linked (E : list edge) (l : list nat) (a c : unit3) : Prop :=
  match l with
  | [] => ukey_eqb a c = true
  | i :: l' => exists e, nth_error E i = Some e /\ ukey_eqb a (e_a e) = true /\ linked E l' (e_b e) c
  end.

Fixpoint chain_ratio (E : list edge) (l : list nat) : Q :=
  match l with
  | [] => 1
  | i :: l' => match nth_error E i with Some e => e_r e | None => 1 end * chain_ratio E l'
  end.

Fixpoint chain_err (se : sizes) (E : list edge) (l : list nat) : Q :=
  match l with
  | [] => 1
  | i :: l' => match nth_error E i with Some e => eerr se e | None => 1 end * chain_err se E l'
  end.

Lemma chain_telescope se E : sizes_pos se -> forall l a c, linked E l a c ->
  chain_ratio E l * usz se c / usz se a == chain_err se E l.
Proof.
  intros Hpos. induction l as [|i l IH]; intros a c; simpl.
  - intros H. rewrite (ukey_eqb_usz se a c H). field. apply usz_nz, Hpos.
  - intros (e & Hn & Ha & Hl). rewrite Hn. rewrite <- (IH _ _ Hl). unfold eerr.
    rewrite (ukey_eqb_usz se a (e_a e) Ha). field. split; apply usz_nz, Hpos.
Qed.

(* per-edge bounds hi i >= 1 on the errors *)
Definition bounded (se : sizes) (E : list edge) (hi : nat -> Q) : Prop :=
  forall i e, nth_error E i = Some e -> / hi i <= eerr se e /\ eerr se e <= hi i.

Fixpoint prod_upto (hi : nat -> Q) (n : nat) : Q :=
  match n with O => 1 | S k => prod_upto hi k * hi k end.

Fixpoint prod_list (hi : nat -> Q) (l : list nat) : Q :=
  match l with [] => 1 | i :: l' => hi i * prod_list hi l' end.

Lemma prod_list_ge1 hi l : (forall i, 1 <= hi i) -> 1 <= prod_list hi l.
Proof.
  intros H. induction l as [|i l IH]; simpl; [apply Qle_refl|].
  setoid_replace 1 with (1 * 1) by ring. apply Qmult_le_compat_nonneg; split; try (apply H || exact IH); discriminate.
Qed.

Lemma prod_upto_ge1 hi n : (forall i, 1 <= hi i) -> 1 <= prod_upto hi n.
Proof.
  intros H. induction n as [|n IH]; simpl; [apply Qle_refl|].
  setoid_replace 1 with (1 * 1) by ring. apply Qmult_le_compat_nonneg; split; try (apply H || exact IH); discriminate.
Qed.

(* the product over a duplicate-free list of indices below n is at most the product over all of them *)
Lemma prod_list_le_upto hi : (forall i, 1 <= hi i) -> forall n l,
  List.NoDup l -> (forall i, In i l -> (i < n)%nat) -> prod_list hi l <= prod_upto hi n.
Proof.
  intros H1. induction n as [|n IH]; intros l Hnd Hlt.
  - destruct l as [|i l]; [apply Qle_refl|]. exfalso. specialize (Hlt i (or_introl eq_refl)). lia.
  - simpl prod_upto.
    destruct (in_dec Nat.eq_dec n l) as [Hin|Hnin].
    + apply in_split in Hin as (l1 & l2 & ->).
      assert (Hnd' : List.NoDup (l1 ++ l2)) by (eapply NoDup_remove_1; exact Hnd).
      assert (Hnot : ~ In n (l1 ++ l2)) by (eapply NoDup_remove_2; exact Hnd).
      assert (Hlt' : forall i, In i (l1 ++ l2) -> (i < n)%nat).
      { intros i Hi. assert (i < S n)%nat by (apply Hlt; apply in_app_iff in Hi as [Hi|Hi]; apply in_app_iff; [left|right; right]; exact Hi).
        assert (i <> n) by (intros ->; exact (Hnot Hi)). lia. }
      assert (E : prod_list hi (l1 ++ n :: l2) == prod_list hi (l1 ++ l2) * hi n).
      { clear. induction l1 as [|x l1 IHl]; simpl; [ring|]. rewrite IHl. ring. }
      rewrite E. apply Qmult_le_compat_r; [apply IH; assumption|].
      eapply Qle_trans; [|apply H1]. discriminate.
    + assert (Hlt' : forall i, In i l -> (i < n)%nat).
      { intros i Hi. assert (i < S n)%nat by (apply Hlt, Hi). assert (i <> n) by (intros ->; exact (Hnin Hi)). lia. }
      eapply Qle_trans; [apply IH; assumption|].
      setoid_replace (prod_upto hi n) with (prod_upto hi n * 1) at 1 by ring.
      apply Qmult_le_compat_nonneg; split; try apply Qle_refl; try apply H1.
      * eapply Qle_trans; [|apply prod_upto_ge1, H1]. discriminate.
      * discriminate.
Qed.

Lemma chain_err_bounds se E hi : bounded se E hi -> (forall i, 1 <= hi i) -> forall l,
  (forall i, In i l -> (i < length E)%nat) ->
  / prod_list hi l <= chain_err se E l /\ chain_err se E l <= prod_list hi l.
Proof.
  intros Hb H1. induction l as [|i l IH]; intros Hlt; simpl.
  - split; [rewrite Qinv_1 || (unfold Qinv; simpl); apply Qle_refl|apply Qle_refl].
  - destruct (nth_error E i) as [e|] eqn:En.
    2:{ exfalso. apply nth_error_None in En. specialize (Hlt i (or_introl eq_refl)). lia. }
    destruct (Hb i e En) as [Hlo Hhi].
    destruct IH as [IHlo IHhi]; [intros j Hj; apply Hlt; right; exact Hj|].
    assert (Hpi : 0 < hi i) by (eapply Qlt_le_trans; [|apply H1]; reflexivity).
    assert (Hpl : 0 < prod_list hi l) by (eapply Qlt_le_trans; [|apply prod_list_ge1, H1]; reflexivity).
    assert (Hil : 0 < / hi i) by (apply Qinv_lt_0_compat, Hpi).
    assert (Hill : 0 < / prod_list hi l) by (apply Qinv_lt_0_compat, Hpl).
    split.
    + rewrite Qinv_mult_distr. apply Qmult_le_compat_nonneg; split; try assumption; apply Qlt_le_weak; assumption.
    + apply Qmult_le_compat_nonneg; split; try assumption.
      * eapply Qle_trans; [apply Qlt_le_weak, Hil|exact Hlo].
      * eapply Qle_trans; [apply Qlt_le_weak, Hill|exact IHlo].
Qed.

(* the theorem: any chain that follows each table edge at most once agrees with the size ratio of its
   end points within the total slack of the table *)
Theorem chain_bound se E hi l a c :
  sizes_pos se -> bounded se E hi -> (forall i, 1 <= hi i) ->
  List.NoDup l -> (forall i, In i l -> (i < length E)%nat) -> linked E l a c ->
  let dev := chain_ratio E l * usz se c / usz se a in
  / prod_upto hi (length E) <= dev /\ dev <= prod_upto hi (length E).
Proof.
  intros Hpos Hb H1 Hnd Hlt Hl. cbv zeta. rewrite (chain_telescope se E Hpos l a c Hl).
  destruct (chain_err_bounds se E hi Hb H1 l Hlt) as [Hlo Hhi].
  pose proof (prod_list_le_upto hi H1 (length E) l Hnd Hlt) as Hle.
  assert (Hpl : 0 < prod_list hi l) by (eapply Qlt_le_trans; [|apply prod_list_ge1, H1]; reflexivity).
  split.
  - eapply Qle_trans; [|exact Hlo]. apply Qle_shift_inv_l; [exact Hpl|].
    assert (Hpu : 0 < prod_upto hi (length E)) by (eapply Qlt_le_trans; [|apply prod_upto_ge1, H1]; reflexivity).
    setoid_replace (/ prod_upto hi (length E) * prod_list hi l) with (prod_list hi l / prod_upto hi (length E)) by (field; intros E0; rewrite E0 in Hpu; discriminate).
    apply Qle_shift_div_r; [exact Hpu|]. rewrite Qmult_1_l. exact Hle.
  - eapply Qle_trans; [exact Hhi|exact Hle].
Qed.

(* two chains between the same end points (in particular a declared edge, which is a chain of length
   one, against any other chain) agree within the square of the slack *)
Corollary chains_agree se E hi l1 l2 a c :
  sizes_pos se -> bounded se E hi -> (forall i, 1 <= hi i) ->
  List.NoDup l1 -> (forall i, In i l1 -> (i < length E)%nat) -> linked E l1 a c ->
  List.NoDup l2 -> (forall i, In i l2 -> (i < length E)%nat) -> linked E l2 a c ->
  0 < usz se a -> 0 < usz se c ->
  let S := prod_upto hi (length E) in
  chain_ratio E l1 <= chain_ratio E l2 * (S * S).
Proof.
  intros Hpos Hb H1 Hnd1 Hlt1 Hl1 Hnd2 Hlt2 Hl2 Ha Hc. cbv zeta.
  destruct (chain_bound se E hi l1 _ _ Hpos Hb H1 Hnd1 Hlt1 Hl1) as [_ C1]. cbv zeta in C1.
  destruct (chain_bound se E hi l2 _ _ Hpos Hb H1 Hnd2 Hlt2 Hl2) as [C2 _]. cbv zeta in C2.
  set (S := prod_upto hi (length E)) in *.
  assert (HS : 0 < S) by (eapply Qlt_le_trans; [|apply prod_upto_ge1, H1]; reflexivity).
  set (k := usz se c / usz se a).
  assert (Hk : 0 < k) by (unfold k; apply Qlt_shift_div_l; [exact Ha|]; rewrite Qmult_0_l; exact Hc).
  assert (E1 : chain_ratio E l1 * usz se c / usz se a == chain_ratio E l1 * k) by (unfold k; field; intros E0; rewrite E0 in Ha; discriminate).
  assert (E2 : chain_ratio E l2 * usz se c / usz se a == chain_ratio E l2 * k) by (unfold k; field; intros E0; rewrite E0 in Ha; discriminate).
  rewrite E1 in C1. rewrite E2 in C2.
  assert (H : chain_ratio E l1 * k <= chain_ratio E l2 * (S * S) * k).
  { eapply Qle_trans; [exact C1|].
    setoid_replace S with (/ S * (S * S)) at 1 by (field; intros E0; rewrite E0 in HS; discriminate).
    setoid_replace (chain_ratio E l2 * (S * S) * k) with (chain_ratio E l2 * k * (S * S)) by ring.
    apply Qmult_le_compat_r; [exact C2|]. apply Qlt_le_weak, Qmult_lt_0_compat; exact HS. }
  apply Qmult_le_r in H; assumption.
Qed.

(* decidable per-edge check used on the regenerated declarations: err within [1/hi, hi] *)
Definition edge_within (se : sizes) (e : edge) (h : Q) : bool :=
  andb (Qle_bool 1 h) (andb (Qle_bool (/ h) (eerr se e)) (Qle_bool (eerr se e) h)).

Fixpoint edges_within (se : sizes) (E : list edge) (H : list Q) : bool :=
  match E, H with
  | [], [] => true
  | e :: E1, h :: H1 => andb (edge_within se e h) (edges_within se E1 H1)
  | _, _ => false
  end.

Definition hi_of (H : list Q) (i : nat) : Q := nth i H 1.

Lemma edges_within_bounded se E H : edges_within se E H = true ->
  bounded se E (hi_of H) /\ (forall i, 1 <= hi_of H i).
Proof.
  revert H. induction E as [|e E IH]; intros [|h H]; simpl; try discriminate.
  - intros _. split; [intros [|i] e0; discriminate|]. intros [|i]; simpl; apply Qle_refl.
  - intros Hw. apply andb_prop in Hw as [He Hr]. destruct (IH H Hr) as [Hb H1].
    unfold edge_within in He. apply andb_prop in He as [Hh He]. apply andb_prop in He as [Hlo Hhi].
    apply Qle_bool_iff in Hh. apply Qle_bool_iff in Hlo. apply Qle_bool_iff in Hhi.
    split.
    + intros [|i] e0; simpl; [intros [= <-]; split; assumption|apply Hb].
    + intros [|i]; simpl; [exact Hh|apply H1].
Qed.

Fixpoint prod_all (H : list Q) : Q := match H with [] => 1 | h :: H1 => h * prod_all H1 end.

Lemma prod_upto_hi_of H : prod_upto (hi_of H) (length H) == prod_all H.
Proof.
  induction H as [|h H IH] using rev_ind; [reflexivity|].
  rewrite app_length. simpl length. replace (length H + 1)%nat with (S (length H)) by lia. simpl prod_upto.
  assert (E1 : prod_upto (hi_of (H ++ [h])) (length H) == prod_upto (hi_of H) (length H)).
  { assert (G : forall n, (n <= length H)%nat -> prod_upto (hi_of (H ++ [h])) n == prod_upto (hi_of H) n).
    { induction n as [|n IHn]; intros Hn; simpl; [reflexivity|]. rewrite IHn by lia.
      unfold hi_of. rewrite app_nth1 by lia. reflexivity. }
    apply G. lia. }
  rewrite E1, IH. unfold hi_of. rewrite app_nth2 by lia. replace (length H - length H)%nat with O by lia. simpl nth.
  clear. induction H as [|x H IH]; simpl; [ring|]. rewrite <- IH. ring.
Qed.
