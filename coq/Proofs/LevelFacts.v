From Coq Require Import Reals Lra ZArith.
From Measured Require Import Model.LevelModel.
Open Scope R_scope.

Lemma level_closed q r b p k : level q r b p k = k / p * (ln (q / r) / ln b).
Proof. unfold level. simpl. unfold Rdiv. ring. Qed.

Lemma quantify_closed l r b p k : quantify l r b p k = Rpower b (l * p / k) * r.
Proof. unfold quantify. simpl. reflexivity. Qed.

Section Level.
  Variables (r b p k : R).
  Hypothesis Hr : 0 < r.
  Hypothesis Hb : 0 < b.
  Hypothesis Hb1 : b <> 1.
  Hypothesis Hp : p <> 0.
  Hypothesis Hk : k <> 0.

  Lemma ln_b_nz : ln b <> 0.
  Proof.
    intros E. destruct (Rtotal_order b 1) as [L|[L|L]]; [|contradiction|].
    - pose proof (ln_increasing b 1 Hb L) as H. rewrite ln_1 in H. lra.
    - pose proof (ln_increasing 1 b Rlt_0_1 L) as H. rewrite ln_1 in H. lra.
  Qed.

  Theorem roundtrip_q q : 0 < q -> quantify (level q r b p k) r b p k = q.
  Proof.
    intros Hq. rewrite quantify_closed, level_closed. unfold Rpower.
    replace (k / p * (ln (q / r) / ln b) * p / k * ln b) with (ln (q / r)) by (field; repeat split; auto using ln_b_nz).
    rewrite exp_ln; [field; lra|]. apply Rdiv_lt_0_compat; assumption.
  Qed.

  Theorem roundtrip_l l : level (quantify l r b p k) r b p k = l.
  Proof.
    rewrite level_closed, quantify_closed.
    replace (Rpower b (l * p / k) * r / r) with (Rpower b (l * p / k)) by (field; lra).
    unfold Rpower. rewrite ln_exp. field. repeat split; auto using ln_b_nz.
  Qed.

  (* the level that a quantity compares equal to is exactly its own level *)
  Theorem level_eq q l : 0 < q -> (quantify l r b p k = q <-> l = level q r b p k).
  Proof.
    intros Hq. split.
    - intros <-. symmetry. apply roundtrip_l.
    - intros ->. apply roundtrip_q, Hq.
  Qed.

  Theorem quantify_pos l : 0 < quantify l r b p k.
  Proof. rewrite quantify_closed. apply Rmult_lt_0_compat; [apply exp_pos|exact Hr]. Qed.
End Level.

(* strictly increasing for a base above 1, a positive prefix value and k = 1 or 2 *)
Theorem level_monotone r b p k q1 q2 : 0 < r -> 1 < b -> 0 < p -> 0 < k -> 0 < q1 -> q1 < q2 ->
  level q1 r b p k < level q2 r b p k.
Proof.
  intros Hr Hb Hp Hk H1 H12. rewrite !level_closed.
  assert (Hlb : 0 < ln b) by (rewrite <- ln_1; apply ln_increasing; lra).
  assert (Hq : ln (q1 / r) < ln (q2 / r)).
  { apply ln_increasing; [apply Rdiv_lt_0_compat; lra|]. unfold Rdiv. apply Rmult_lt_compat_r; [apply Rinv_0_lt_compat; lra|lra]. }
  assert (Hkp : 0 < k / p) by (apply Rdiv_lt_0_compat; lra).
  apply Rmult_lt_compat_l; [exact Hkp|]. unfold Rdiv. apply Rmult_lt_compat_r; [apply Rinv_0_lt_compat; lra|exact Hq].
Qed.

(* the reference may be given in any unit: only the ratio q / r enters *)
Theorem level_unit_independent c q r b p k : c <> 0 -> r <> 0 -> level (c * q) (c * r) b p k = level q r b p k.
Proof. intros Hc Hr. rewrite !level_closed. replace (c * q / (c * r)) with (q / r) by (field; auto). reflexivity. Qed.

(* a root-power quantity (k = 2) squared is the power quantity with the same level (k = 1) *)
Theorem root_power_square q r b p : 0 < q -> 0 < r -> level q r b p 2 = level (q * q) (r * r) b p 1.
Proof.
  intros Hq Hr. rewrite !level_closed.
  replace (q * q / (r * r)) with ((q / r) * (q / r)) by (field; lra).
  rewrite ln_mult by (apply Rdiv_lt_0_compat; assumption). unfold Rdiv. ring.
Qed.
