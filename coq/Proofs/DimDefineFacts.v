From Coq Require Import List ZArith Bool Lia.
Import ListNotations.
From Measured Require Import Model.DimDefine.
Local Open Scope Z_scope.

(* every key has one slot per fundamental dimension plus the trailing slot the very first definition left behind, which stays 0 *)
Definition DInv (s : dstate) : Prop :=
  NoDup (dtable s) /\ Forall (fun k => length k = S (fundamental s) /\ last k 0 = 0) (dtable s).

Lemma ext_inj a b : ext a = ext b -> a = b.
Proof. unfold ext. intros H. apply app_inj_tail in H. apply H. Qed.

Lemma last_ext k : last (ext k) 0 = 0.
Proof. unfold ext. apply last_last. Qed.

Lemma last_new_key n : n <> O -> last (new_key n) 0 = 1.
Proof. destruct n; [contradiction|]. intros _. unfold new_key. apply last_last. Qed.

Lemma length_new_key n : length (new_key n) = S n.
Proof.
  destruct n; [reflexivity|]. unfold new_key. rewrite app_length, repeat_length. cbn. lia.
Qed.

Lemma NoDup_map_inj {A B} (f : A -> B) (l : list A) : (forall a b, f a = f b -> a = b) -> NoDup l -> NoDup (map f l).
Proof.
  intros Hf H. induction H as [|x l Hx _ IH]; cbn; constructor; [|exact IH].
  intros Hin. apply in_map_iff in Hin as (y & Hy & Hin). apply Hf in Hy. subst y. contradiction.
Qed.

(* the first definition (Number) from the empty table *)
Lemma define_first : DInv (define dinit).
Proof.
  unfold DInv, define, dinit. cbn. split.
  - constructor; [intros []|constructor].
  - constructor; [split; reflexivity|constructor].
Qed.

Lemma NoDup_snoc {A} (l : list A) x : NoDup l -> ~ In x l -> NoDup (l ++ [x]).
Proof.
  intros H Hx. induction H as [|y l Hy _ IH]; cbn; [constructor; [intros []|constructor]|].
  constructor.
  - intros Hin. apply in_app_or in Hin as [Hin|[->|[]]]; [contradiction|]. apply Hx. left. reflexivity.
  - apply IH. intros Hin. apply Hx. right. exact Hin.
Qed.

(* a new fundamental dimension: the table stays duplicate-free, every key has the new length, the trailing slot stays 0 *)
Theorem define_inv s : DInv s -> fundamental s <> O -> DInv (define s).
Proof.
  intros [Hnd Hall] Hn. unfold DInv, define. cbn [fundamental dtable]. split.
  - apply NoDup_map_inj; [exact ext_inj|]. apply NoDup_snoc; [exact Hnd|].
    intros Hin. rewrite Forall_forall in Hall. destruct (Hall _ Hin) as [_ Hl]. rewrite (last_new_key _ Hn) in Hl. discriminate.
  - apply Forall_forall. intros k Hin. apply in_map_iff in Hin as (k0 & <- & Hin0). split; [|apply last_ext].
    unfold ext. rewrite app_length. cbn [length]. apply in_app_or in Hin0 as [Hin0|[<-|[]]].
    + rewrite Forall_forall in Hall. destruct (Hall _ Hin0) as [Hlen _]. lia.
    + rewrite length_new_key. lia.
Qed.

(* after any number of definitions the invariant holds (the table of a process that has only defined fundamental dimensions) *)
Theorem defines_inv n : DInv (defines (S n) dinit).
Proof.
  induction n as [|n IH]; [exact define_first|]. cbn [defines]. apply define_inv; [exact IH|].
  clear IH. induction n; cbn; discriminate.
Qed.

(* every object keeps its position: a dimension found under k before is found under ext k afterwards, at the same place; the new
   dimension is the last one *)
Lemma index_of_map_ext k t : index_of (ext k) (map ext t) = index_of k t.
Proof.
  induction t as [|k' t IH]; [reflexivity|]. cbn [map index_of].
  destruct (list_eq_dec Z.eq_dec (ext k) (ext k')) as [E|E], (list_eq_dec Z.eq_dec k k') as [E'|E']; try reflexivity.
  - apply ext_inj in E. contradiction.
  - subst k'. contradiction.
  - rewrite IH. reflexivity.
Qed.

Lemma index_of_app_l k t u i : index_of k t = Some i -> index_of k (t ++ u) = Some i.
Proof.
  revert i. induction t as [|k' t IH]; intros i H; [discriminate|]. cbn [app index_of] in *.
  destruct (list_eq_dec Z.eq_dec k k'); [exact H|].
  destruct (index_of k t) as [j|]; [|discriminate]. rewrite (IH j eq_refl). exact H.
Qed.

Theorem define_keeps_objects s k i : index_of k (dtable s) = Some i -> index_of (ext k) (dtable (define s)) = Some i.
Proof.
  intros H. unfold define. cbn [dtable]. rewrite index_of_map_ext. apply index_of_app_l, H.
Qed.

(* the arithmetic of dimensions does not notice the new slot: products, quotients and powers of re-keyed dimensions are the re-keyed
   products, quotients and powers *)
Lemma zipw_ext f a : forall b, length a = length b -> f 0 0 = 0 -> zipw f (ext a) (ext b) = ext (zipw f a b).
Proof.
  induction a as [|x a IH]; intros [|y b] Hl Hf; try discriminate; cbn [ext app zipw].
  - rewrite Hf. reflexivity.
  - f_equal. apply IH; [injection Hl as Hl; exact Hl|exact Hf].
Qed.

Theorem dmul_ext a b : length a = length b -> dmul (ext a) (ext b) = ext (dmul a b).
Proof. intros H. apply zipw_ext; [exact H|reflexivity]. Qed.
Theorem ddiv_ext a b : length a = length b -> ddiv (ext a) (ext b) = ext (ddiv a b).
Proof. intros H. apply zipw_ext; [exact H|reflexivity]. Qed.
Theorem dpow_ext a n : dpow (ext a) n = ext (dpow a n).
Proof. unfold dpow, ext. rewrite map_app. reflexivity. Qed.
