(* Two parse tables related by a state map that respects every shift / reduce / goto entry, the start
   state and the end state drive Lark's LALR runtime to identical results on every input, for every
   scanner and every tree-building callbacks. *)
From Coq Require Import List Arith PArith Bool Lia.
From Measured Require Import Model.LR.
Import ListNotations.

Lemma action_eqb_eq a b : action_eqb a b = true -> a = b.
Proof. destruct a, b; simpl; try discriminate; intros H; apply Nat.eqb_eq in H; congruence. Qed.

Lemma opt_action_eqb_eq x y : opt_action_eqb x y = true -> x = y.
Proof. destruct x, y; simpl; try discriminate; [intros H; f_equal; apply action_eqb_eq, H|reflexivity]. Qed.

Lemma lookup_not_in r sym : ~ In sym (map fst r) -> lookup r sym = None.
Proof.
  induction r as [|[k a] r IH]; simpl; [reflexivity|]. intros H.
  destruct (Pos.eqb_spec k sym) as [->|Hne]; [exfalso; apply H; left; reflexivity|]. apply IH. intros Hin. apply H. right. exact Hin.
Qed.

Lemma rows_related_lookup f symbols ra rb : rows_related f symbols ra rb = true ->
  forall sym, option_map (map_action f) (lookup ra sym) = lookup rb sym.
Proof.
  unfold rows_related. rewrite forallb_forall. intros H sym.
  destruct (in_dec Pos.eq_dec sym (symbols ++ map fst ra ++ map fst rb)) as [Hin|Hnin].
  - apply opt_action_eqb_eq, H, Hin.
  - rewrite !in_app_iff in Hnin.
    rewrite (lookup_not_in ra sym), (lookup_not_in rb sym); [reflexivity| |]; intros Hx; apply Hnin; auto.
Qed.

Section Bisim.
  Variables token value input : Type.
  Variable ttype : token -> positive.
  Variable scan : list positive -> input -> option (option (token * input)).
  Variable tokv : token -> value.
  Variable redv : nat -> list value -> value.
  Variable rules : list rule.
  Variable terminals : list positive.
  Variable end_sym : positive.
  Variables A B : table.
  Variable fl : list nat.
  Variable symbols : list positive.
  Hypothesis Hrel : states_related fl symbols A B = true.
  Hypothesis Hclosed : table_closed A = true.

  Let f := fun_of fl.
  Let n := length (t_states A).

  Lemma rel_parts :
    (forall a, a < n -> forall sym, option_map (map_action f) (lookup (state_row A a) sym) = lookup (state_row B (f a)) sym) /\
    f (t_start A) = t_start B /\
    (forall a, a < n -> Nat.eqb (f a) (t_end B) = Nat.eqb a (t_end A)).
  Proof.
    unfold states_related in Hrel. apply andb_prop in Hrel as [_ H]. apply andb_prop in H as [H1 H]. apply andb_prop in H as [H2 H3].
    rewrite forallb_forall in H1, H3. repeat split.
    - intros a Ha sym. apply rows_related_lookup with (symbols := symbols). apply H1. apply in_seq. unfold n in Ha. lia.
    - apply Nat.eqb_eq, H2.
    - intros a Ha. apply eqb_prop. apply H3. apply in_seq. unfold n in Ha. lia.
  Qed.

  Lemma closed_shift a sym s : a < n -> lookup (state_row A a) sym = Some (Shift s) -> s < n.
  Proof.
    intros Ha Hl. unfold table_closed in Hclosed. apply andb_prop in Hclosed as [_ H]. rewrite forallb_forall in H.
    assert (Hin : In (state_row A a) (t_states A)) by (unfold state_row; apply nth_In; exact Ha).
    specialize (H _ Hin). rewrite forallb_forall in H.
    assert (Hk : exists k, In (k, Shift s) (state_row A a)).
    { clear -Hl. induction (state_row A a) as [|[k x] r IH]; simpl in *; [discriminate|].
      destruct (Pos.eqb k sym); [injection Hl as ->; exists k; left; reflexivity|]. destruct (IH Hl) as [k' Hk']. exists k'. right. exact Hk'. }
    destruct Hk as [k Hk]. specialize (H _ Hk). simpl in H. apply Nat.ltb_lt in H. exact H.
  Qed.

  Lemma start_in_range : t_start A < n.
  Proof. unfold table_closed in Hclosed. apply andb_prop in Hclosed as [H _]. apply Nat.ltb_lt in H. exact H. Qed.

  Definition map_fed (x : fed value) : fed value :=
    match x with
    | Shifted _ st vs => Shifted _ (map f st) vs
    | y => y
    end.

  Definition in_range (stack : list nat) : Prop := Forall (fun a => a < n) stack.

  Lemma in_range_drop k stack : in_range stack -> in_range (drop k stack).
  Proof.
    unfold in_range, drop. revert stack. induction k as [|k IH]; intros stack H; simpl; [exact H|].
    destruct stack as [|x st]; [constructor|]. apply IH. inversion H; assumption.
  Qed.

  Lemma map_drop k (stack : list nat) : map f (drop k stack) = drop k (map f stack).
  Proof. unfold drop. revert stack. induction k as [|k IH]; intros [|x st]; simpl; auto. Qed.

  Lemma feed_sim fuel : forall stack vals ty v e, in_range stack ->
    feed value redv rules B fuel (map f stack) vals ty v e = map_fed (feed value redv rules A fuel stack vals ty v e) /\
    (forall st vs, feed value redv rules A fuel stack vals ty v e = Shifted _ st vs -> in_range st).
  Proof.
    destruct rel_parts as (Hlook & _ & Hend).
    induction fuel as [|fu IH]; intros stack vals ty v e Hr; [split; [reflexivity|discriminate]|].
    destruct stack as [|st stack]; [split; [reflexivity|discriminate]|].
    assert (Hst : st < n) by (inversion Hr; assumption).
    cbn [feed map]. rewrite <- (Hlook st Hst ty).
    destruct (lookup (state_row A st) ty) as [[s'|r]|] eqn:El; cbn [option_map map_action].
    - destruct e; [split; [reflexivity|discriminate]|]. split; [reflexivity|].
      intros st0 vs [= <- <-]. constructor; [eapply closed_shift; eauto|exact Hr].
    - destruct (nth_error rules r) as [ru|]; [|split; [reflexivity|discriminate]].
      change (f st :: map f stack) with (map f (st :: stack)).
      rewrite <- (map_drop (r_len ru) (st :: stack)).
      pose proof (in_range_drop (r_len ru) (st :: stack) Hr) as Hr'.
      destruct (drop (r_len ru) (st :: stack)) as [|top rest] eqn:Ed; [split; [reflexivity|discriminate]|].
      cbn [map]. assert (Htop : top < n) by (inversion Hr'; assumption).
      rewrite <- (Hlook top Htop (r_origin ru)).
      destruct (lookup (state_row A top) (r_origin ru)) as [[ns|r2]|] eqn:El2; cbn [option_map map_action];
        try (split; [reflexivity|discriminate]).
      assert (Hns : ns < n) by (eapply closed_shift; eauto).
      rewrite (Hend ns Hns).
      destruct (andb e (Nat.eqb ns (t_end A))); [split; [reflexivity|discriminate]|].
      assert (Hr2 : in_range (ns :: top :: rest)) by (constructor; assumption).
      destruct (IH (ns :: top :: rest) (redv r (rev (take (r_len ru) vals)) :: drop (r_len ru) vals) ty v e Hr2) as [IH1 IH2].
      cbn [map] in IH1. split; [exact IH1|exact IH2].
    - split; [reflexivity|discriminate].
  Qed.

  Lemma accepts_sim a : a < n -> accepts terminals A a = accepts terminals B (f a).
  Proof.
    intros Ha. destruct rel_parts as (Hlook & _ & _). unfold accepts. apply filter_ext. intros t.
    rewrite <- (Hlook a Ha t). destruct (lookup (state_row A a) t); reflexivity.
  Qed.

  Lemma run_sim fuel : forall stack vals inp dummy, in_range stack ->
    run token value input ttype scan tokv redv rules terminals end_sym B fuel (map f stack) vals inp dummy =
    run token value input ttype scan tokv redv rules terminals end_sym A fuel stack vals inp dummy.
  Proof.
    induction fuel as [|fu IH]; intros stack vals inp dummy Hr; [reflexivity|].
    destruct stack as [|st stack]; [reflexivity|].
    assert (Hst : st < n) by (inversion Hr; assumption).
    cbn [run map]. rewrite <- (accepts_sim st Hst).
    destruct (scan (accepts terminals A st) inp) as [[[tok rest]|]|]; [| |reflexivity].
    - destruct (feed_sim (S fu) (st :: stack) vals (ttype tok) (tokv tok) false Hr) as [E1 E2].
      cbn [map] in E1. rewrite E1.
      destruct (feed value redv rules A (S fu) (st :: stack) vals (ttype tok) (tokv tok) false) as [st' vs'| | |] eqn:Ef; cbn [map_fed]; try reflexivity.
      apply IH. eapply E2. reflexivity.
    - destruct (feed_sim (S fu) (st :: stack) vals end_sym dummy true Hr) as [E1 _].
      cbn [map] in E1. rewrite E1.
      destruct (feed value redv rules A (S fu) (st :: stack) vals end_sym dummy true); reflexivity.
  Qed.

  Theorem bisim_sound fuel inp dummy :
    parse token value input ttype scan tokv redv rules terminals end_sym A fuel inp dummy =
    parse token value input ttype scan tokv redv rules terminals end_sym B fuel inp dummy.
  Proof.
    unfold parse. destruct rel_parts as (_ & Hs & _). rewrite <- Hs. symmetry.
    change [f (t_start A)] with (map f [t_start A]). apply run_sim. constructor; [apply start_in_range|constructor].
  Qed.
End Bisim.
