From stdpp Require Import gmap.
From Coq Require Import ZArith QArith Qpower Qabs Lia Lqa.
From Measured Require Import Model.FMap Model.Units Model.Quantity Model.Value
  Proofs.FMapFacts Proofs.UnitsFacts.

Local Open Scope Q_scope.

Lemma fsz_pos se f : sizes_pos se -> 0 < fsz se f.
Proof.
  induction 1 as [|[k s] se Hs _ IH]; simpl; [reflexivity|].
  apply Qmult_lt_0_compat; [apply Qpower_0_lt; exact Hs|exact IH].
Qed.

Lemma fsz_nz se f : sizes_pos se -> ~ fsz se f == 0.
Proof. intros H E. pose proof (fsz_pos se f H) as P. rewrite E in P. discriminate. Qed.

Lemma fsz_fmul se a b : sizes_pos se -> fsz se (fmul a b) == fsz se a * fsz se b.
Proof.
  induction 1 as [|[k s] se Hs _ IH]; simpl; [reflexivity|].
  rewrite get_fmul, IH, Qpower_plus; [ring|]. simpl in Hs. intros E. rewrite E in Hs. discriminate.
Qed.

Lemma fsz_fpow se a n : fsz se (fpow a n) == (fsz se a) ^ n.
Proof.
  induction se as [|[k s] se IH]; simpl; [now rewrite Qpower_1|].
  rewrite get_fpow, IH, Qmult_power, Qpower_mult. reflexivity.
Qed.

Lemma fsz_one se : fsz se fone == 1.
Proof. induction se as [|[k s] se IH]; simpl; [reflexivity|]. rewrite get_empty, IH. simpl. ring. Qed.

Lemma fsz_fdiv se a b : sizes_pos se -> fsz se (fdiv a b) == fsz se a / fsz se b.
Proof.
  intros H. unfold fdiv, finv. rewrite fsz_fmul by exact H.
  change (fscale (-1) b) with (fpow b (-1)). rewrite fsz_fpow. reflexivity.
Qed.

(* ---- prefixes ---- *)
Lemma pvalQ_pid : pvalQ pid == 1.  Proof. reflexivity. Qed.

Lemma pvalQ_mkp b e : pvalQ (mkp b e) == if Z.eqb b 0 then 1 else inject_Z b ^ e.
Proof.
  unfold mkp, pvalQ. destruct (Z.eqb_spec b 0) as [->|Hb]; simpl; [reflexivity|].
  destruct (Z.eqb_spec e 0) as [->|He]; simpl; [reflexivity|].
  destruct (Z.eqb_spec b 0); [contradiction|reflexivity].
Qed.

Lemma inject_nz b : b <> 0%Z -> ~ inject_Z b == 0.
Proof. intros H E. apply H. unfold Qeq in E. simpl in E. lia. Qed.

Lemma pvalQ_nz p : ~ pvalQ p == 0.
Proof.
  unfold pvalQ. destruct (Z.eqb_spec (pbase p) 0); [discriminate|]. apply Qpower_not_0. apply inject_nz. assumption.
Qed.

Lemma pvalQ_base0 p : pcanon p -> pbase p = 0%Z -> pvalQ p == 1.
Proof. intros _ E. unfold pvalQ. rewrite E. reflexivity. Qed.

(* prefix product / quotient / power / root have the product / quotient / power / root value, exactly,
   for prefixes of one base (or the identity) *)
Theorem pval_pmul p q r : pcanon p -> pcanon q -> pmul p q = Some r -> pvalQ r == pvalQ p * pvalQ q.
Proof.
  intros Hp Hq. unfold pmul.
  destruct (Z.eqb_spec (pbase q) 0) as [E|E]; [intros [= <-]; rewrite (pvalQ_base0 q Hq E); ring|].
  destruct (Z.eqb_spec (pbase p) 0) as [E'|E']; [intros [= <-]; rewrite (pvalQ_base0 p Hp E'); ring|].
  destruct (Z.eqb_spec (pbase q) (pbase p)) as [Eb|]; [|discriminate]. intros [= <-].
  rewrite pvalQ_mkp. unfold pvalQ. rewrite Eb.
  destruct (Z.eqb_spec (pbase p) 0); [contradiction|]. apply Qpower_plus. apply inject_nz. assumption.
Qed.

Theorem pval_pdiv p q r : pcanon p -> pcanon q -> pdiv p q = Some r -> pvalQ r == pvalQ p / pvalQ q.
Proof.
  intros Hp Hq. unfold pdiv.
  destruct (Z.eqb_spec (pbase q) 0) as [E|E]; [intros [= <-]; rewrite (pvalQ_base0 q Hq E); field|].
  destruct (Z.eqb_spec (pbase p) 0) as [E'|E'].
  { intros [= <-]. rewrite (pvalQ_base0 p Hp E'), pvalQ_mkp. unfold pvalQ.
    destruct (Z.eqb_spec (pbase q) 0); [contradiction|]. rewrite Qpower_opp. field.
    apply Qpower_not_0. apply inject_nz. assumption. }
  destruct (Z.eqb_spec (pbase q) (pbase p)) as [Eb|]; [|discriminate]. intros [= <-].
  rewrite pvalQ_mkp. unfold pvalQ. rewrite Eb.
  destruct (Z.eqb_spec (pbase p) 0); [contradiction|].
  unfold Z.sub. rewrite Qpower_plus by (apply inject_nz; assumption). rewrite Qpower_opp. field.
  apply Qpower_not_0. apply inject_nz. assumption.
Qed.

Theorem pval_ppow p n : pvalQ (ppow p n) == pvalQ p ^ n.
Proof.
  unfold ppow. rewrite pvalQ_mkp. unfold pvalQ. destruct (Z.eqb_spec (pbase p) 0); [now rewrite Qpower_1|].
  apply Qpower_mult.
Qed.

Theorem pval_proot p n r : n <> 0%Z -> proot p n = Some r -> pvalQ r ^ n == pvalQ p.
Proof.
  intros Hn. unfold proot. destruct (Z.eqb_spec n 0); [contradiction|].
  destruct (Z.eqb_spec (pexp p mod n) 0) as [Hm|]; [|discriminate]. intros [= <-].
  rewrite pvalQ_mkp. unfold pvalQ. destruct (Z.eqb_spec (pbase p) 0); [now rewrite Qpower_1|].
  rewrite <- Qpower_mult. assert (pexp p / n * n = pexp p)%Z as ->; [|reflexivity].
  pose proof (Z.div_mod (pexp p) n Hn). lia.
Qed.

(* ---- units ---- *)
Lemma usz_umul se a b r : sizes_pos se -> pcanon (upre a) -> pcanon (upre b) ->
  umul a b = Ok r -> usz se r == usz se a * usz se b.
Proof.
  intros Hs Ha Hb. unfold umul. destruct (pmul (upre a) (upre b)) as [p|] eqn:E; simpl; [|discriminate].
  intros [= <-]. unfold usz; simpl. rewrite (pval_pmul _ _ _ Ha Hb E), fsz_fmul by exact Hs. ring.
Qed.

Lemma usz_udiv se a b r : sizes_pos se -> pcanon (upre a) -> pcanon (upre b) ->
  udiv a b = Ok r -> usz se r == usz se a / usz se b.
Proof.
  intros Hs Ha Hb. unfold udiv. destruct (pdiv (upre a) (upre b)) as [p|] eqn:E; simpl; [|discriminate].
  intros [= <-]. unfold usz; simpl. rewrite (pval_pdiv _ _ _ Ha Hb E), fsz_fdiv by exact Hs. field.
  split; [|apply pvalQ_nz]. pose proof (fsz_pos se (ufac b) Hs) as P. intros E0. rewrite E0 in P. discriminate.
Qed.

Lemma usz_upow se a n r : upow a n = Ok r -> usz se r == usz se a ^ n.
Proof. unfold upow. intros [= <-]. unfold usz; simpl. rewrite pval_ppow, fsz_fpow, Qmult_power. reflexivity. Qed.

Lemma usz_upre_mul se p a r : pcanon p -> pcanon (upre a) -> upre_mul p a = Ok r -> usz se r == pvalQ p * usz se a.
Proof.
  intros Hp Ha. unfold upre_mul. destruct (pmul (upre a) p) as [x|] eqn:E; simpl; [|discriminate].
  intros [= <-]. unfold usz; simpl. rewrite (pval_pmul _ _ _ Ha Hp E). ring.
Qed.

(* (p*u)**n is p**n * u**n, as normal forms *)
Theorem upow_upre_mul b p a n : b <> 0%Z -> inbase b p -> inbase b (upre a) ->
  rbind (upre_mul p a) (fun x => upow x n) = rbind (upow a n) (fun y => upre_mul (ppow p n) y).
Proof.
  intros Hb Hp Ha. unfold upre_mul, upow.
  destruct (pmul_inbase b (upre a) p Hb Ha Hp) as (x & -> & Hx & Ex). simpl.
  destruct (ppow_inbase b (upre a) n Hb Ha) as [Hq Eq]. destruct (ppow_inbase b p n Hb Hp) as [Hq' Eq'].
  destruct (pmul_inbase b _ _ Hb Hq Hq') as (y & -> & Hy & Ey). simpl.
  f_equal. f_equal. destruct (ppow_inbase b x n Hb Hx) as [Hz Ez].
  apply (inbase_eq b); auto. lia.
Qed.

(* ---- quantities ---- *)
Section Values.
  Variable se : sizes.
  Hypothesis Hse : sizes_pos se.
  Variable conv : unit3 -> unit3 -> option Q.

  Definition qcanon (q : qty) : Prop := pcanon (upre (qu q)).

  Lemma usz_nz u : ~ usz se u == 0.
  Proof.
    unfold usz. intros E. apply Qmult_integral in E as [E|E]; [exact (pvalQ_nz _ E)|].
    pose proof (fsz_pos se (ufac u) Hse) as P. rewrite E in P. discriminate.
  Qed.

  Lemma in_unit_shape a t : in_unit conv a t = Err ECNF \/ exists q, in_unit conv a t = Val (VQty q).
  Proof.
    unfold in_unit. destruct (negb (dim_eqb (qu a) t)); [left; reflexivity|].
    destruct (conv (qu a) t); [right; eexists; reflexivity|left; reflexivity].
  Qed.

  (* stripping the prefix never changes the value *)
  Theorem val_unprefixed q : val se (unprefixed q) == val se q.
  Proof. unfold val, unprefixed, usz. cbn [qm qu upre ufac]. rewrite pvalQ_pid. ring. Qed.

  (* m * (p*u) equals (m * value p) * u *)
  Theorem val_prefixed_unit p u r m k : pcanon p -> pcanon (upre u) -> upre_mul p u = Ok r ->
    val se (MkQty k m r) == val se (MkQty k (m * pvalQ p) u).
  Proof. intros Hp Hu E. unfold val; simpl. rewrite (usz_upre_mul se p u r Hp Hu E). ring. Qed.

  Theorem val_mul a b q : qcanon a -> qcanon b -> q_mul a (VQty b) = Val (VQty q) ->
    val se q == val se a * val se b.
  Proof.
    intros Ha Hb. unfold q_mul. destruct (umul (qu a) (qu b)) as [r| |] eqn:E; simpl; try discriminate.
    intros [= <-]. unfold val; simpl. rewrite (usz_umul se _ _ _ Hse Ha Hb E). ring.
  Qed.

  Theorem val_div a b q : qcanon a -> qcanon b -> q_truediv a (VQty b) = Val (VQty q) ->
    val se q == val se a / val se b.
  Proof.
    intros Ha Hb. unfold q_truediv. destruct (is_zero (qm b)) eqn:Z; [discriminate|].
    destruct (udiv (qu a) (qu b)) as [r| |] eqn:E; simpl; try discriminate.
    intros [= <-]. unfold val; simpl. rewrite (usz_udiv se _ _ _ Hse Ha Hb E). field.
    split; [apply usz_nz|]. unfold is_zero in Z. intros E0. apply Qeq_bool_neq in Z. contradiction.
  Qed.

  (* dividing by a (prefixed) unit divides by its prefix factor and its size *)
  Theorem val_div_unit a u q : qcanon a -> pcanon (upre u) -> q_truediv a (VUnit u) = Val (VQty q) ->
    val se q == val se a / pvalQ (upre u) / fsz se (ufac u).
  Proof.
    intros Ha Hu. unfold q_truediv. destruct (udiv (qu a) u) as [r| |] eqn:E; simpl; try discriminate.
    intros [= <-]. unfold val; simpl. rewrite (usz_udiv se _ _ _ Hse Ha Hu E). unfold usz. field.
    repeat split; first [apply pvalQ_nz | apply fsz_nz; exact Hse].
  Qed.

  Theorem val_pow a n q : q_pow a n = Val (VQty q) -> val se q == val se a ^ n.
  Proof.
    unfold q_pow. destruct (is_zero (qm a) && (n <? 0)%Z); [discriminate|]. simpl.
    intros [= <-]. unfold val; simpl. rewrite (usz_upow se (qu a) n _ eq_refl), Qmult_power. reflexivity.
  Qed.

  Hypothesis Hconv : conv_sound se conv.

  (* conversion preserves the value *)
  Theorem val_in_unit a t q : in_unit conv a t = Val (VQty q) -> val se q == val se a /\ qu q = t.
  Proof.
    unfold in_unit. destruct (negb (dim_eqb (qu a) t)); [discriminate|].
    destruct (conv (qu a) t) as [r|] eqn:E; [|discriminate]. intros [= <-]. split; [|reflexivity].
    unfold val, usz; simpl. pose proof (Hconv _ _ _ E) as Hr.
    transitivity (qm a * pvalQ (upre (qu a)) * (r * fsz se (ufac t))); [|rewrite Hr; ring].
    field. apply pvalQ_nz.
  Qed.

  Theorem val_addsub (sub : bool) a b q : q_addsub conv sub a (VQty b) = Val (VQty q) ->
    val se q == if sub then val se a - val se b else val se a + val se b.
  Proof.
    unfold q_addsub. destruct (in_unit_shape b (qu a)) as [E|[b' E]]; rewrite E; [discriminate|].
    destruct (val_in_unit _ _ _ E) as [Hv Hu]. intros [= <-]. unfold val in *; simpl. rewrite <- Hu in *.
    destruct sub; rewrite <- Hv; ring.
  Qed.

  (* == and < agree with the physical values *)
  Lemma Qeq_bool_true_iff x y : Qeq_bool x y = true <-> x == y.
  Proof. apply Qeq_bool_iff. Qed.

  Lemma Qltb_true_iff x y : Qltb x y = true <-> x < y.
  Proof.
    unfold Qltb. rewrite negb_true_iff. split.
    - intros H. apply Qnot_le_lt. intros L. apply Qle_bool_iff in L. congruence.
    - intros H. destruct (Qle_bool y x) eqn:E; [|reflexivity]. apply Qle_bool_iff in E.
      exfalso. exact (Qlt_not_le _ _ H E).
  Qed.

  Lemma ukey_eqb_fac a b : ukey_eqb a b = true -> ufac a = ufac b.
  Proof. unfold ukey_eqb, feqb. rewrite andb_true_iff, !bool_decide_eq_true. tauto. Qed.

  Lemma scale_eq x y f : ~ f == 0 -> (x == y <-> x * f == y * f).
  Proof. intros N. split; [intros ->; reflexivity|apply Qmult_inj_r; exact N]. Qed.

  Lemma scale_lt x y f : 0 < f -> (x < y <-> x * f < y * f).
  Proof. intros P. symmetry. apply Qmult_lt_r. exact P. Qed.

  Lemma val_shape q : val se q == (qm q * pvalQ (upre (qu q))) * fsz se (ufac (qu q)).
  Proof. unfold val, usz. ring. Qed.

  Theorem eq_is_value_eq a b e : q_cmp conv false a (VQty b) = Bool e -> (e = true <-> val se a == val se b).
  Proof.
    unfold q_cmp. destruct (negb (dim_eqb (qu a) (qu b))); [discriminate|]. cbv zeta.
    destruct (ukey_eqb (qu (unprefixed a)) (qu (unprefixed b))) eqn:K.
    - intros [= <-]. apply ukey_eqb_fac in K. cbn [unprefixed qu ufac qm] in *. rewrite Qeq_bool_true_iff.
      rewrite (val_shape a), (val_shape b), K. apply scale_eq. apply fsz_nz. exact Hse.
    - destruct (in_unit_shape (unprefixed a) (qu (unprefixed b))) as [E|[a' E]]; rewrite E; [discriminate|].
      intros [= <-]. destruct (val_in_unit _ _ _ E) as [Hv Hu]. rewrite val_unprefixed in Hv.
      rewrite Qeq_bool_true_iff. rewrite <- Hv, <- (val_unprefixed b). unfold val. rewrite Hu.
      apply scale_eq. apply usz_nz.
  Qed.

  Theorem lt_is_value_lt a b e : q_cmp conv true a (VQty b) = Bool e -> (e = true <-> val se a < val se b).
  Proof.
    unfold q_cmp. destruct (negb (dim_eqb (qu a) (qu b))); [discriminate|]. cbv zeta.
    destruct (ukey_eqb (qu (unprefixed a)) (qu (unprefixed b))) eqn:K.
    - intros [= <-]. apply ukey_eqb_fac in K. cbn [unprefixed qu ufac qm] in *. rewrite Qltb_true_iff.
      rewrite (val_shape a), (val_shape b), K. apply scale_lt. apply fsz_pos. exact Hse.
    - destruct (in_unit_shape (unprefixed a) (qu (unprefixed b))) as [E|[a' E]]; rewrite E; [discriminate|].
      intros [= <-]. destruct (val_in_unit _ _ _ E) as [Hv Hu]. rewrite val_unprefixed in Hv.
      rewrite Qltb_true_iff. rewrite <- Hv, <- (val_unprefixed b). unfold val. rewrite Hu.
      apply scale_lt. unfold usz, unprefixed. cbn [qu upre ufac]. rewrite pvalQ_pid, Qmult_1_l. apply fsz_pos. exact Hse.
  Qed.
End Values.
