(* Declarations that are all true of one assignment of sizes build a table consistent with it -- whatever their order, however often a
   pair is re-declared.  `consistent se t` is the hypothesis of the soundness theorems of C04 / C05 (Proofs/ConvertFacts.v); this is
   where it comes from: conversions.equate stores mb / ma and ma / mb, and  ma * size a = mb * size b  makes both entries true. *)
From stdpp Require Import gmap.
From Coq Require Import ZArith QArith Qfield List Bool.
From Measured Require Import Model.FMap Model.Units Model.Quantity Model.Value Model.Convert Model.ConvCheck
  Proofs.ConvertFacts Proofs.EquateFacts.
Import ListNotations.
Local Open Scope Q_scope.

Lemma rset_consistent se a r b x :
  row_consistent se a r -> usz se a == x * usz se b -> row_consistent se a (rset r b x).
Proof.
  unfold row_consistent. intros Hr Hx. induction r as [|[k y] r IH]; cbn [rset].
  - constructor; [exact Hx|constructor].
  - inversion Hr as [|? ? Hk Hrest]; subst. destruct (ukey_eqb k b) eqn:E.
    + constructor; [|exact Hrest]. cbn [fst snd]. rewrite (ukey_eqb_usz se k b E). exact Hx.
    + constructor; [exact Hk|]. apply IH. exact Hrest.
Qed.

Lemma tset_consistent se t a b x :
  consistent se t -> usz se a == x * usz se b -> consistent se (tset t a b x).
Proof.
  unfold consistent. intros Ht Hx. induction t as [|[k r] t IH]; cbn [tset].
  - constructor; [|constructor]. cbn [fst snd]. constructor; [exact Hx|constructor].
  - inversion Ht as [|? ? Hk Hrest]; subst. destruct (ukey_eqb k a) eqn:E.
    + constructor; [|exact Hrest]. cbn [fst snd] in *. apply rset_consistent; [exact Hk|].
      rewrite (ukey_eqb_usz se k a E). exact Hx.
    + constructor; [exact Hk|]. apply IH. exact Hrest.
Qed.

(* the declaration  ma a = mb b  is true of the sizes *)
Definition decl_true (se : sizes) (d : decl) : Prop :=
  let '(ma, a, mb, b) := d in ~ ma == 0 /\ ~ mb == 0 /\ ma * usz se a == mb * usz se b.

Theorem equate_consistent se t ma a mb b :
  ~ ma == 0 -> ~ mb == 0 -> ma * usz se a == mb * usz se b ->
  consistent se t -> consistent se (equate t ma a mb b).
Proof.
  intros Hma Hmb Htrue Ht. unfold equate. apply tset_consistent; [apply tset_consistent; [exact Ht|]|].
  - assert (E : usz se a == mb * usz se b / ma) by (rewrite <- Htrue; field; exact Hma).
    rewrite E. field. exact Hma.
  - assert (E : usz se b == ma * usz se a / mb) by (rewrite Htrue; field; exact Hmb).
    rewrite E. field. exact Hmb.
Qed.

Theorem true_declarations_consistent se ds t :
  Forall (decl_true se) ds -> consistent se t -> consistent se (fold_left declare ds t).
Proof.
  revert t. induction ds as [|[[[ma a] mb] b] ds IH]; intros t Hok Ht; cbn [fold_left]; [exact Ht|].
  inversion Hok as [|? ? Hd Hrest]; subst. cbv beta iota delta [decl_true] in Hd. destruct Hd as (Hma & Hmb & Htrue).
  apply IH; [exact Hrest|]. cbn [declare]. apply equate_consistent; assumption.
Qed.

Lemma consistent_empty se : consistent se [].
Proof. constructor. Qed.
