From stdpp Require Import gmap.
From Coq Require Import ZArith QArith Qpower Lia.
From Measured Require Import Model.FMap Model.Units Model.Quantity Model.Value
  Proofs.FMapFacts Proofs.UnitsFacts Proofs.ValueFacts.
Local Open Scope Q_scope.

Section Order.
  Variable se : sizes.
  Hypothesis Hse : sizes_pos se.
  Variable conv : unit3 -> unit3 -> option Q.
  Hypothesis Hconv : conv_sound se conv.

  Lemma dim_eqb_refl u : dim_eqb u u = true.
  Proof. unfold dim_eqb, feqb. apply bool_decide_eq_true. reflexivity. Qed.

  Lemma ukey_eqb_refl u : ukey_eqb u u = true.
  Proof. unfold ukey_eqb, feqb. rewrite !bool_decide_eq_true_2 by reflexivity. reflexivity. Qed.

  Theorem eq_reflexive a : q_cmp conv false a (VQty a) = Bool true.
  Proof.
    unfold q_cmp. rewrite dim_eqb_refl. simpl. rewrite ukey_eqb_refl. f_equal. apply Qeq_bool_iff. reflexivity.
  Qed.

  Theorem eq_symmetric a b e1 e2 :
    q_cmp conv false a (VQty b) = Bool e1 -> q_cmp conv false b (VQty a) = Bool e2 -> e1 = e2.
  Proof.
    intros H1 H2. apply (eq_is_value_eq se Hse conv Hconv) in H1. apply (eq_is_value_eq se Hse conv Hconv) in H2.
    destruct e1, e2; try reflexivity.
    - assert (true = true) as T by reflexivity. apply H1 in T. symmetry in T. apply H2 in T. discriminate.
    - assert (true = true) as T by reflexivity. apply H2 in T. symmetry in T. apply H1 in T. discriminate.
  Qed.

  (* exactly one of a < b, a == b, a > b *)
  Theorem trichotomy a b l1 l2 e :
    q_cmp conv true a (VQty b) = Bool l1 -> q_cmp conv true b (VQty a) = Bool l2 ->
    q_cmp conv false a (VQty b) = Bool e ->
    (l1 = true /\ e = false /\ l2 = false) \/ (l1 = false /\ e = true /\ l2 = false) \/ (l1 = false /\ e = false /\ l2 = true).
  Proof.
    intros H1 H2 H3.
    apply (lt_is_value_lt se Hse conv Hconv) in H1. apply (lt_is_value_lt se Hse conv Hconv) in H2.
    apply (eq_is_value_eq se Hse conv Hconv) in H3.
    destruct (Q_dec (val se a) (val se b)) as [[L|G]|E].
    - left. split; [apply H1; exact L|]. split.
      + destruct e; [|reflexivity]. exfalso. assert (val se a == val se b) as X by (apply H3; reflexivity).
        rewrite X in L. exact (Qlt_irrefl _ L).
      + destruct l2; [|reflexivity]. exfalso. assert (val se b < val se a) as X by (apply H2; reflexivity).
        exact (Qlt_irrefl _ (Qlt_trans _ _ _ L X)).
    - right. right. split; [|split; [|apply H2; exact G]].
      + destruct l1; [|reflexivity]. exfalso. assert (val se a < val se b) as X by (apply H1; reflexivity).
        exact (Qlt_irrefl _ (Qlt_trans _ _ _ G X)).
      + destruct e; [|reflexivity]. exfalso. assert (val se a == val se b) as X by (apply H3; reflexivity).
        rewrite X in G. exact (Qlt_irrefl _ G).
    - right. left. split; [|split; [apply H3; exact E|]].
      + destruct l1; [|reflexivity]. exfalso. assert (val se a < val se b) as X by (apply H1; reflexivity).
        rewrite E in X. exact (Qlt_irrefl _ X).
      + destruct l2; [|reflexivity]. exfalso. assert (val se b < val se a) as X by (apply H2; reflexivity).
        rewrite E in X. exact (Qlt_irrefl _ X).
  Qed.

  (* the order is the order of the physical values, so sorting a mixed-unit list sorts it physically *)
  Theorem lt_physical a b : q_cmp conv true a (VQty b) = Bool true -> val se a < val se b.
  Proof. intros H. apply (lt_is_value_lt se Hse conv Hconv) in H. apply H. reflexivity. Qed.

  Theorem sorted_physical (l : list qty) :
    (forall i j a b, (i < j)%nat -> nth_error l i = Some a -> nth_error l j = Some b ->
       q_cmp conv true b (VQty a) = Bool false) ->
    forall i j a b, (i < j)%nat -> nth_error l i = Some a -> nth_error l j = Some b -> val se a <= val se b.
  Proof.
    intros H i j a b Hij Ha Hb. specialize (H i j a b Hij Ha Hb).
    apply (lt_is_value_lt se Hse conv Hconv) in H. apply Qnot_lt_le. intros L. apply H in L. discriminate.
  Qed.
  (* <= and >= (as functools.total_ordering derives them from __lt__ and __eq__) mirror each other *)
  Theorem le_ge_mirror a b l1 l2 e :
    q_cmp conv true a (VQty b) = Bool l1 -> q_cmp conv true b (VQty a) = Bool l2 ->
    q_cmp conv false a (VQty b) = Bool e ->
    (q_le_derived conv a (VQty b) = Bool (l1 || e)%bool) /\ (q_ge_derived conv b (VQty a) = Bool (negb l2)) /\
    ((l1 || e)%bool = negb l2).
  Proof.
    intros H1 H2 H3. split; [|split].
    - unfold q_le_derived, q_lt. rewrite H1. destruct l1; [reflexivity|]. unfold binop. cbn [lmethod]. rewrite H3. reflexivity.
    - unfold q_ge_derived, q_lt. rewrite H2. reflexivity.
    - destruct (trichotomy a b l1 l2 e H1 H2 H3) as [(-> & -> & ->)|[(-> & -> & ->)|(-> & -> & ->)]]; reflexivity.
  Qed.
End Order.

(* intervals of measurements: symmetric overlap *)
Definition meq (v1 s1 v2 s2 : Q) : bool := Qle_bool (v1 - s1) (v2 + s2) && Qle_bool (v2 - s2) (v1 + s1).

Theorem meq_symmetric v1 s1 v2 s2 : meq v1 s1 v2 s2 = meq v2 s2 v1 s1.
Proof. unfold meq. apply andb_comm. Qed.

(* the one-sided test the code used before the fix is not symmetric *)
Definition meq_old (v1 s1 v2 s2 : Q) : bool :=
  (Qle_bool (v1 - s1) (v2 - s2) && Qle_bool (v2 - s2) (v1 + s1)) || (Qle_bool (v1 - s1) (v2 + s2) && Qle_bool (v2 + s2) (v1 + s1)).

Theorem meq_old_asymmetric : meq_old 5 1 5 3 = false /\ meq_old 5 3 5 1 = true.
Proof. vm_compute. split; reflexivity. Qed.

(* hash: (magnitude, unit object).  Equal quantities in different units hash differently. *)
Definition hash_key (q : qty) : Q * unit3 := (qm q, qu q).

Theorem hash_refuted :
  let m := MkU pid {[ 1%positive := 1%Z ]} {[ 2%positive := 1%Z ]} in
  let km := MkU (MkP 10 3) {[ 1%positive := 1%Z ]} {[ 2%positive := 1%Z ]} in
  q_cmp (fun _ _ => None) false (MkQty KInt 1 km) (VQty (MkQty KInt 1000 m)) = Bool true /\
  hash_key (MkQty KInt 1 km) <> hash_key (MkQty KInt 1000 m).
Proof. split; [vm_compute; reflexivity|]. unfold hash_key. simpl. intros [= H]. Qed.

Theorem hash_partial a b : qu a = qu b -> qm a = qm b -> hash_key a = hash_key b.
Proof. unfold hash_key. intros -> ->. reflexivity. Qed.
