From stdpp Require Import gmap.
From Coq Require Import ZArith Lia.
From Measured Require Import Model.FMap.
Local Open Scope Z_scope.

Lemma nz_default z : default 0 (nz z) = z.
Proof. unfold nz. destruct (Z.eqb_spec z 0); simpl; lia. Qed.

Lemma nz_not0 z : nz z <> Some 0.
Proof. unfold nz. destruct (Z.eqb_spec z 0); congruence. Qed.

Lemma get_empty k : get fone k = 0.
Proof. unfold get, fone. now rewrite lookup_empty. Qed.

Lemma get_fmul a b k : get (fmul a b) k = get a k + get b k.
Proof.
  unfold get, fmul. rewrite lookup_merge.
  destruct (a !! k) as [x|] eqn:Ha, (b !! k) as [y|] eqn:Hb; simpl;
    rewrite ?nz_default; simpl; lia.
Qed.

Lemma get_fscale n a k : get (fscale n a) k = get a k * n.
Proof.
  unfold get, fscale. rewrite lookup_omap.
  destruct (a !! k) as [x|]; simpl; rewrite ?nz_default; lia.
Qed.

Lemma get_finv a k : get (finv a) k = - get a k.
Proof. unfold finv. rewrite get_fscale. lia. Qed.

Lemma get_fdiv a b k : get (fdiv a b) k = get a k - get b k.
Proof. unfold fdiv. rewrite get_fmul, get_finv. lia. Qed.

Lemma get_fpow a n k : get (fpow a n) k = get a k * n.
Proof. apply get_fscale. Qed.

Lemma get_froot_raw n a k : get (froot_raw n a) k = get a k / n.
Proof.
  unfold get, froot_raw. rewrite lookup_omap.
  destruct (a !! k) as [x|]; simpl; rewrite ?nz_default; auto.
Qed.

Lemma get_fposp a k : get (fposp a) k = Z.max 0 (get a k).
Proof.
  unfold get, fposp. rewrite lookup_omap.
  destruct (a !! k) as [x|]; simpl; [|lia].
  destruct (Z.ltb_spec 0 x); simpl; lia.
Qed.

Lemma get_fnegp a k : get (fnegp a) k = Z.max 0 (- get a k).
Proof.
  unfold get, fnegp. rewrite lookup_omap.
  destruct (a !! k) as [x|]; simpl; [|lia].
  destruct (Z.ltb_spec x 0); simpl; lia.
Qed.

Lemma wf_empty : wf fone.
Proof. intros k. unfold fone. rewrite lookup_empty. congruence. Qed.

Lemma wf_fmul a b : wf (fmul a b).
Proof.
  intros k. unfold fmul. rewrite lookup_merge.
  destruct (a !! k), (b !! k); simpl; try apply nz_not0; congruence.
Qed.

Lemma wf_fscale n a : wf (fscale n a).
Proof.
  intros k. unfold fscale. rewrite lookup_omap.
  destruct (a !! k); simpl; try apply nz_not0; congruence.
Qed.

Lemma wf_finv a : wf (finv a).  Proof. apply wf_fscale. Qed.
Lemma wf_fdiv a b : wf (fdiv a b).  Proof. apply wf_fmul. Qed.
Lemma wf_fpow a n : wf (fpow a n).  Proof. apply wf_fscale. Qed.

Lemma wf_froot_raw n a : wf (froot_raw n a).
Proof.
  intros k. unfold froot_raw. rewrite lookup_omap.
  destruct (a !! k); simpl; try apply nz_not0; congruence.
Qed.

Lemma wf_fposp a : wf (fposp a).
Proof.
  intros k. unfold fposp. rewrite lookup_omap.
  destruct (a !! k) as [x|]; simpl; [|congruence].
  destruct (Z.ltb_spec 0 x); simpl; [intros [=]; lia|congruence].
Qed.

Lemma wf_fnegp a : wf (fnegp a).
Proof.
  intros k. unfold fnegp. rewrite lookup_omap.
  destruct (a !! k) as [x|]; simpl; [|congruence].
  destruct (Z.ltb_spec x 0); simpl; [intros [=]; lia|congruence].
Qed.

Lemma wf_singleton k e : e <> 0 -> wf ({[ k := e ]} : fmap).
Proof.
  intros He j. destruct (decide (j = k)) as [->|Hn].
  - rewrite lookup_singleton. congruence.
  - rewrite lookup_singleton_ne by congruence. congruence.
Qed.

Lemma wf_of_list l : wf (of_list l).
Proof. destruct l as [|[k e] l]; simpl; [apply wf_empty|apply wf_fmul]. Qed.

(* extensionality for canonical maps *)
Lemma wf_ext a b : wf a -> wf b -> (forall k, get a k = get b k) -> a = b.
Proof.
  intros Ha Hb H. apply map_eq. intros k. specialize (H k). unfold get in H.
  specialize (Ha k). specialize (Hb k).
  destruct (a !! k) as [x|], (b !! k) as [y|]; simpl in *; try congruence.
Qed.

Lemma fdivisible_spec n a :
  fdivisible n a = true <-> forall k, (get a k) mod n = 0.
Proof.
  unfold fdivisible. rewrite bool_decide_eq_true. unfold map_Forall, get. split.
  - intros H k. destruct (a !! k) as [x|] eqn:E; simpl; [eauto|now rewrite Zmod_0_l].
  - intros H k x E. specialize (H k). now rewrite E in H.
Qed.
