From Coq Require Import List Bool.
Import ListNotations.
From Measured Require Import Model.Memo.

Section MemoFacts.
  Context {D K V : Type}.
  Variable keqb : K -> K -> bool.
  Hypothesis keqb_eq : forall a b, keqb a b = true -> a = b.
  Variable f : list D -> K -> V.
  Variable cacheable : V -> bool.

  Definition MInv (s : @mstate D K V) : Prop :=
    forall k v, clookup keqb k (cache s) = Some v -> v = f (decls s) k.

  Lemma minv_init : MInv minit.
  Proof. intros k v H. discriminate. Qed.

  Lemma mstep_inv s o : MInv s -> MInv (fst (mstep keqb f cacheable true s o)).
  Proof.
    intros I. destruct o as [d|k]; simpl.
    - intros k v H. discriminate.
    - destruct (clookup keqb k (cache s)) as [v|] eqn:E; simpl; [exact I|].
      destruct (cacheable (f (decls s) k)); simpl; [|exact I].
      intros k' v'. simpl. destruct (keqb k' k) eqn:Ek.
      + intros [= <-]. apply keqb_eq in Ek. subst. reflexivity.
      + apply I.
  Qed.

  Lemma mstep_answer s k : MInv s ->
    snd (mstep keqb f cacheable true s (Query k)) = Some (f (decls s) k).
  Proof.
    intros I. simpl. destruct (clookup keqb k (cache s)) as [v|] eqn:E; simpl; [|reflexivity].
    f_equal. apply I. exact E.
  Qed.

  Lemma mstep_decls s o : decls (fst (mstep keqb f cacheable true s o)) =
    decls s ++ match o with Declare d => [d] | Query _ => [] end.
  Proof.
    destruct o as [d|k]; simpl; [reflexivity|].
    destruct (clookup keqb k (cache s)); simpl; [now rewrite app_nil_r|].
    now rewrite app_nil_r.
  Qed.

  (* with invalidation on declaration, after ANY history of declarations and queries (successful
     or not, on any keys), a query is answered by f applied to exactly the declarations made so
     far: the history of queries is invisible *)
  Theorem memo_transparent l : forall s k, MInv s ->
    let s' := fst (mrun keqb f cacheable true s l) in
    snd (mstep keqb f cacheable true s' (Query k)) = Some (f (decls s ++ declarations l) k) /\ MInv s'.
  Proof.
    induction l as [|o l IH]; intros s k I; simpl.
    - rewrite app_nil_r. split; [apply mstep_answer; exact I|exact I].
    - pose proof (mstep_inv s o I) as I'. pose proof (mstep_decls s o) as Ed.
      destruct (mstep keqb f cacheable true s o) as [s1 a] eqn:E1. simpl in I', Ed.
      specialize (IH s1 k I'). destruct (mrun keqb f cacheable true s1 l) as [s2 r] eqn:E2. simpl in *.
      rewrite Ed in IH. rewrite <- app_assoc in IH.
      destruct o; simpl in *; exact IH.
  Qed.

  (* every answer along the way is the pure function of the declarations before it *)
  Theorem memo_answers_pure l : forall s, MInv s ->
    forall i k pre, firstn i l = pre -> nth_error l i = Some (Query k) ->
    nth_error (snd (mrun keqb f cacheable true s l)) i = Some (Some (f (decls s ++ declarations pre) k)).
  Proof.
    induction l as [|o l IH]; intros s I i k pre Hpre Hnth; [destruct i; discriminate|].
    simpl. pose proof (mstep_inv s o I) as I'. pose proof (mstep_decls s o) as Ed.
    pose proof (mstep_answer s) as Ans.
    destruct (mstep keqb f cacheable true s o) as [s1 a] eqn:E1. simpl in I', Ed.
    destruct (mrun keqb f cacheable true s1 l) as [s2 r] eqn:E2. simpl.
    destruct i as [|i]; simpl in Hnth, Hpre |- *.
    - injection Hnth as ->. subst pre. simpl. rewrite app_nil_r.
      specialize (Ans k I). rewrite E1 in Ans. simpl in Ans. now rewrite Ans.
    - subst pre. specialize (IH s1 I' i k (firstn i l) eq_refl Hnth). rewrite E2 in IH. simpl in IH.
      rewrite IH, Ed. simpl. rewrite <- app_assoc. destruct o; reflexivity.
  Qed.
End MemoFacts.

(* without invalidation the cache goes stale: a failed lookup is remembered across the
   declaration that would make it succeed *)
Example memo_stale :
  let f := fun (ds : list nat) (k : nat) => existsb (Nat.eqb k) ds in
  snd (mrun Nat.eqb f (fun _ => true) false minit [Query 5; Declare 5; Query 5]) = [Some false; None; Some false]
  /\ snd (mrun Nat.eqb f (fun _ => true) true minit [Query 5; Declare 5; Query 5]) = [Some false; None; Some true].
Proof. vm_compute. split; reflexivity. Qed.
