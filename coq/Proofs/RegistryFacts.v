From stdpp Require Import gmap.
From Coq Require Import ZArith Lia.
From Measured Require Import Model.Registry.

(* one namespace (names, or symbols) is faithful when the table and the objects' own lists
   agree: key k is bound to o exactly when o lists k.  Since the table is a function, no key
   is claimed by two objects. *)
Definition faithful (m : gmap key nat) (c : gmap nat (list key)) : Prop :=
  forall k o, m !! k = Some o <-> k ∈ default [] (c !! o).

Definition RInv (r : reg) : Prop :=
  faithful (byn r) (nm r) /\ faithful (bys r) (sy r) /\
  (forall o, o >= next r -> nm r !! o = None /\ sy r !! o = None).

Lemma faithful_unique m c k o1 o2 : faithful m c ->
  k ∈ default [] (c !! o1) -> k ∈ default [] (c !! o2) -> o1 = o2.
Proof. intros F H1 H2. apply F in H1. apply F in H2. congruence. Qed.

Lemma taken_false_other m k o o' : taken m (Some k) (Some o) = false -> m !! k = Some o' -> o' = o.
Proof.
  unfold taken. intros H E. rewrite E in H. apply negb_false_iff, Nat.eqb_eq in H. exact H.
Qed.

Lemma taken_false_new m k : taken m (Some k) None = false -> m !! k = None.
Proof. unfold taken. destruct (m !! k); [discriminate|reflexivity]. Qed.

Lemma elem_add_key multi l k x : x ∈ add_key multi l k -> x ∈ l \/ x = k.
Proof.
  unfold add_key. destruct multi.
  - intros H. apply elem_of_app in H as [H|H]; [left; exact H|right]. now apply elem_of_list_singleton in H.
  - destruct l; [intros H; right; now apply elem_of_list_singleton in H|intros H; left; exact H].
Qed.

Lemma add_key_keeps multi l k x : x ∈ l -> x ∈ add_key multi l k.
Proof.
  unfold add_key. destruct multi; [intros; apply elem_of_app; left; assumption|].
  destruct l; [intros H; inversion H|auto].
Qed.

(* in single mode the new key is recorded unless the object already has this very key *)
Lemma add_key_has multi l k : (multi = false -> renames l (Some k) = false) -> k ∈ add_key multi l k.
Proof.
  unfold add_key, renames. destruct multi.
  - intros _. apply elem_of_app. right. apply elem_of_list_singleton. reflexivity.
  - intros H. destruct l as [|k' l]; [apply elem_of_list_singleton; reflexivity|].
    specialize (H eq_refl). apply negb_false_iff, Pos.eqb_eq in H. subst. left.
Qed.

Lemma bind1_faithful multi m c o k m' c' :
  faithful m c ->
  (match k with Some k => (forall o', m !! k = Some o' -> o' = o) | None => True end) ->
  (multi = false -> renames (default [] (c !! o)) k = false) ->
  bind1 multi m c o k = (m', c') ->
  faithful m' c' /\ (forall o', o' <> o -> c' !! o' = c !! o') /\
  (match k with Some k => m' !! k = Some o /\ k ∈ default [] (c' !! o) | None => True end).
Proof.
  intros F Hfree Hren. destruct k as [k|]; simpl; intros [= <- <-]; [|auto].
  split; [|split].
  - intros x p. destruct (decide (x = k)) as [->|Nk].
    + rewrite lookup_insert. destruct (decide (p = o)) as [->|No].
      * rewrite lookup_insert. simpl. split; [intros _; apply add_key_has; exact Hren|reflexivity].
      * rewrite lookup_insert_ne by congruence. split; [intros [= ->]; contradiction|].
        intros H. apply F in H. apply Hfree in H. contradiction.
    + rewrite lookup_insert_ne by congruence. destruct (decide (p = o)) as [->|No].
      * rewrite lookup_insert. simpl. rewrite (F x o). split.
        -- apply add_key_keeps.
        -- intros H. apply elem_add_key in H as [H|H]; [exact H|contradiction].
      * rewrite lookup_insert_ne by congruence. apply F.
  - intros o' No. rewrite lookup_insert_ne by congruence. reflexivity.
  - rewrite !lookup_insert. simpl. split; [reflexivity|apply add_key_has; exact Hren].
Qed.

Lemma orb4_false a b c d : a || b || c || d = false -> a = false /\ b = false /\ c = false /\ d = false.
Proof. destruct a, b, c, d; simpl; intros; try discriminate; auto. Qed.
Lemma orb3_false a b c : a || b || c = false -> a = false /\ b = false /\ c = false.
Proof. destruct a, b, c; simpl; intros; try discriminate; auto. Qed.

(* the invariant is preserved by every operation; a raising operation changes nothing; a
   successful one binds the declared name and symbol to the object, which reports them *)
Theorem rstep_spec multi r op : RInv r ->
  let '(r', out) := rstep multi r op in
  RInv r' /\
  match out with
  | Raised => r' = r
  | Done o =>
      let '(n, s) := match op with New n s _ | Name _ n s _ => (n, s) end in
      (match n with Some k => byn r' !! k = Some o /\ k ∈ names r' o | None => True end) /\
      (match s with Some k => bys r' !! k = Some o /\ k ∈ symbols r' o | None => True end) /\
      (* nothing else is disturbed: other objects keep their lists *)
      (forall o', o' <> o -> names r' o' = names r o' /\ symbols r' o' = symbols r o')
  end.
Proof.
  intros (Fn & Fs & Hfresh). destruct op as [n s spaced|o n s spaced]; simpl.
  - destruct (taken (byn r) n None || taken (bys r) s None || (spaced && bool_decide (is_Some s))) eqn:E.
    { split; [split; [|split]; assumption|reflexivity]. }
    apply orb3_false in E as (E1 & E2 & E3).
    destruct (Hfresh (next r) (le_n _)) as [Hn Hs].
    destruct (bind1 multi (byn r) (nm r) (next r) n) as [bn cn] eqn:B1.
    destruct (bind1 multi (bys r) (sy r) (next r) s) as [bs cs] eqn:B2.
    assert (A1 : match n with Some k => forall o', byn r !! k = Some o' -> o' = next r | None => True end).
    { destruct n as [k|]; [|exact I]. intros o' Ho'. apply taken_false_new in E1. congruence. }
    assert (A2 : multi = false -> renames (default [] (nm r !! next r)) n = false).
    { intros _. rewrite Hn. simpl. unfold renames. destruct n; reflexivity. }
    destruct (bind1_faithful multi _ _ _ n _ _ Fn A1 A2 B1) as (F1 & K1 & L1).
    assert (A3 : match s with Some k => forall o', bys r !! k = Some o' -> o' = next r | None => True end).
    { destruct s as [k|]; [|exact I]. intros o' Ho'. apply taken_false_new in E2. congruence. }
    assert (A4 : multi = false -> renames (default [] (sy r !! next r)) s = false).
    { intros _. rewrite Hs. simpl. unfold renames. destruct s; reflexivity. }
    destruct (bind1_faithful multi _ _ _ s _ _ Fs A3 A4 B2) as (F2 & K2 & L2).
    split; [split; [exact F1|split; [exact F2|]]|].
    + intros o Ho. simpl in *. rewrite K1, K2 by lia. apply Hfresh. lia.
    + unfold names, symbols. simpl. split; [exact L1|]. split; [exact L2|].
      intros o' No. rewrite K1, K2 by exact No. auto.
  - destruct (Nat.ltb_spec o (next r)) as [Lt|Ge]; simpl; [|split; [split; [|split]; assumption|reflexivity]].
    destruct (taken (byn r) n (Some o) || taken (bys r) s (Some o) || (spaced && bool_decide (is_Some s))
              || (negb multi && (renames (names r o) n || renames (symbols r o) s))) eqn:E.
    { split; [split; [|split]; assumption|reflexivity]. }
    apply orb4_false in E as (E1 & E2 & E3 & E4).
    destruct (bind1 multi (byn r) (nm r) o n) as [bn cn] eqn:B1.
    destruct (bind1 multi (bys r) (sy r) o s) as [bs cs] eqn:B2.
    assert (Hren : multi = false -> renames (names r o) n = false /\ renames (symbols r o) s = false).
    { intros ->. simpl in E4. apply orb_false_iff in E4. exact E4. }
    assert (A1 : match n with Some k => forall o', byn r !! k = Some o' -> o' = o | None => True end).
    { destruct n as [k|]; [|exact I]. intros o' Ho'. eapply taken_false_other; eassumption. }
    assert (A2 : multi = false -> renames (default [] (nm r !! o)) n = false).
    { intros M. apply Hren in M. apply M. }
    destruct (bind1_faithful multi _ _ _ n _ _ Fn A1 A2 B1) as (F1 & K1 & L1).
    assert (A3 : match s with Some k => forall o', bys r !! k = Some o' -> o' = o | None => True end).
    { destruct s as [k|]; [|exact I]. intros o' Ho'. eapply taken_false_other; eassumption. }
    assert (A4 : multi = false -> renames (default [] (sy r !! o)) s = false).
    { intros M. apply Hren in M. apply M. }
    destruct (bind1_faithful multi _ _ _ s _ _ Fs A3 A4 B2) as (F2 & K2 & L2).
    split; [split; [exact F1|split; [exact F2|]]|].
    + intros o' Ho'. simpl in *. rewrite K1, K2 by lia. apply Hfresh. exact Ho'.
    + unfold names, symbols. simpl. split; [exact L1|]. split; [exact L2|].
      intros o' No. rewrite K1, K2 by exact No. auto.
Qed.

Lemma rempty_inv : RInv rempty.
Proof.
  split; [|split]; simpl.
  - intros k o. rewrite !lookup_empty. simpl. split; [discriminate|intros H; inversion H].
  - intros k o. rewrite !lookup_empty. simpl. split; [discriminate|intros H; inversion H].
  - intros o _. rewrite !lookup_empty. auto.
Qed.

Theorem rrun_inv multi l : forall r, RInv r -> RInv (rrun multi r l).
Proof.
  induction l as [|op l IH]; intros r Hr; simpl; [exact Hr|]. apply IH.
  pose proof (rstep_spec multi r op Hr) as H. destruct (rstep multi r op) as [r' out]. apply H.
Qed.

(* ---------- the boolean invariant is sound ---------- *)
From Measured Require Import Model.RegCheck.

Lemma faithfulb_spec m c : faithfulb m c = true -> faithful m c.
Proof.
  unfold faithfulb. rewrite andb_true_iff, !bool_decide_eq_true. intros [H1 H2] k o. split.
  - intros E. exact (H1 k o E).
  - intros Hin. destruct (c !! o) as [l|] eqn:E; simpl in Hin; [|inversion Hin].
    specialize (H2 o l E). rewrite Forall_forall in H2. apply H2. exact Hin.
Qed.

Lemma rinvb_spec r : rinvb r = true -> RInv r.
Proof.
  unfold rinvb. rewrite !andb_true_iff, !bool_decide_eq_true. intros [[[H1 H2] H3] H4].
  split; [apply faithfulb_spec; exact H1|]. split; [apply faithfulb_spec; exact H2|].
  intros o Ho. split.
  - destruct (nm r !! o) as [l|] eqn:E; [|reflexivity]. specialize (H3 o l E). simpl in H3. lia.
  - destruct (sy r !! o) as [l|] eqn:E; [|reflexivity]. specialize (H4 o l E). simpl in H4. lia.
Qed.
