(* Executable model of measured's Dimension / Prefix / Unit algebra.
   A unit is the triple handed to the Unit(...) constructor: (prefix, factors, dimension);
   its interning key is (prefix, factors).  Dimensions and factor maps are elements of the
   free abelian group FMap.fmap (no zero entries; One / Number are the empty map). *)
From stdpp Require Import gmap.
From Coq Require Import ZArith Lia.
From Measured Require Import Model.FMap.
Local Open Scope Z_scope.

(* ---------- prefixes: base ** exponent; IdentityPrefix = Prefix(0, 0) ---------- *)
Record prefix := MkP { pbase : Z; pexp : Z }.
Global Instance prefix_eq_dec : EqDecision prefix.
Proof. solve_decision. Defined.

Definition pid : prefix := MkP 0 0.

(* Prefix.__new__: (base <> 0, exponent == 0) is IdentityPrefix *)
Definition mkp (b e : Z) : prefix :=
  if andb (negb (Z.eqb b 0)) (Z.eqb e 0) then pid else MkP b e.

(* None = operands of different non-zero bases: the code produces a float exponent there,
   which is outside this exact model (handled numerically, see Props/C11) *)
Definition pmul (p q : prefix) : option prefix :=
  if Z.eqb (pbase q) 0 then Some p
  else if Z.eqb (pbase p) 0 then Some q
  else if Z.eqb (pbase q) (pbase p) then Some (mkp (pbase p) (pexp p + pexp q))
  else None.

Definition pdiv (p q : prefix) : option prefix :=
  if Z.eqb (pbase q) 0 then Some p
  else if Z.eqb (pbase p) 0 then Some (mkp (pbase q) (- pexp q))
  else if Z.eqb (pbase q) (pbase p) then Some (mkp (pbase p) (pexp p - pexp q))
  else None.

Definition ppow (p : prefix) (n : Z) : prefix := mkp (pbase p) (pexp p * n).

(* Prefix.root: None = FractionalDimensionError *)
Definition proot (p : prefix) (n : Z) : option prefix :=
  if Z.eqb n 0 then Some pid
  else if Z.eqb (pexp p mod n) 0 then Some (mkp (pbase p) (pexp p / n)) else None.

(* canonical prefixes: the ones Prefix.__new__ can return *)
Definition pcanon (p : prefix) : Prop := (pbase p = 0 -> pexp p = 0) /\ (pbase p <> 0 -> pexp p <> 0).

(* ---------- units ---------- *)
Record unit3 := MkU { upre : prefix; ufac : fmap; udim : fmap }.

Global Instance unit3_eq_dec : EqDecision unit3.
Proof. solve_decision. Defined.

Definition ukey (u : unit3) : prefix * fmap := (upre u, ufac u).
Definition ukey_eqb (a b : unit3) : bool :=
  andb (bool_decide (upre a = upre b)) (feqb (ufac a) (ufac b)).

Definition uone : unit3 := MkU pid fone fone.

Inductive res (A : Type) := Ok (a : A) | FracErr | MixedBase.
Arguments Ok {A} a.  Arguments FracErr {A}.  Arguments MixedBase {A}.

Definition of_opt {A} (o : option A) (e : res A) : res A :=
  match o with Some a => Ok a | None => e end.

Definition rbind {A B} (r : res A) (f : A -> res B) : res B :=
  match r with Ok a => f a | FracErr => FracErr | MixedBase => MixedBase end.

(* environment: the dimension of every defined base unit *)
Definition env := list (positive * fmap).

Definition dimOf (bd : env) (m : fmap) : fmap :=
  fold_right (fun '(k, d) acc => fmul (fpow d (get m k)) acc) fone bd.

(* Unit._multiply *)
Definition umul (a b : unit3) : res unit3 :=
  rbind (of_opt (pmul (upre a) (upre b)) MixedBase) (fun p =>
  Ok (MkU p (fmul (ufac a) (ufac b)) (fmul (udim a) (udim b)))).

(* Unit._divide *)
Definition udiv (a b : unit3) : res unit3 :=
  rbind (of_opt (pdiv (upre a) (upre b)) MixedBase) (fun p =>
  Ok (MkU p (fdiv (ufac a) (ufac b)) (fdiv (udim a) (udim b)))).

(* Unit.__pow__ *)
Definition upow (a : unit3) (n : Z) : res unit3 :=
  Ok (MkU (ppow (upre a) n) (fpow (ufac a) n) (fpow (udim a) n)).

(* Unit.root: dimension.root, then prefix.root, then the factor test; every failure is
   FractionalDimensionError *)
Definition uroot (a : unit3) (n : Z) : res unit3 :=
  if Z.eqb n 0 then Ok uone else
  rbind (of_opt (froot (udim a) n) FracErr) (fun d =>
  rbind (of_opt (proot (upre a) n) FracErr) (fun p =>
  rbind (of_opt (froot (ufac a) n) FracErr) (fun f =>
  Ok (MkU p f d)))).

(* Prefix.__mul__(Unit):  Unit(other.prefix * self, other.factors, other.dimension) *)
Definition upre_mul (p : prefix) (a : unit3) : res unit3 :=
  rbind (of_opt (pmul (upre a) p) MixedBase) (fun q => Ok (MkU q (ufac a) (udim a))).

(* Unit.as_ratio: numerator keeps the prefix; dimensions are the products over the factors *)
Definition unum (bd : env) (a : unit3) : res unit3 :=
  Ok (MkU (upre a) (fposp (ufac a)) (dimOf bd (fposp (ufac a)))).
Definition uden (bd : env) (a : unit3) : res unit3 :=
  Ok (MkU pid (fnegp (ufac a)) (dimOf bd (fnegp (ufac a)))).

(* Unit.quantify(): the unprefixed unit *)
Definition uquant (a : unit3) : res unit3 := Ok (MkU pid (ufac a) (udim a)).

(* ---------- unit expressions ---------- *)
Inductive expr :=
| ELit (u : unit3)
| EMul (a b : expr)
| EDiv (a b : expr)
| EPow (a : expr) (n : Z)
| ERoot (a : expr) (n : Z)
| EPre (p : prefix) (a : expr)
| ENum (a : expr)
| EDen (a : expr)
| EQuant (a : expr).

Definition apply1 (bd : env) (e : expr) (x : unit3) : res unit3 :=
  match e with
  | EPow _ n => upow x n
  | ERoot _ n => uroot x n
  | EPre p _ => upre_mul p x
  | ENum _ => unum bd x
  | EDen _ => uden bd x
  | EQuant _ => uquant x
  | _ => Ok x
  end.

(* pure evaluation: the normal form an expression denotes *)
Fixpoint nfeval (bd : env) (e : expr) : res unit3 :=
  match e with
  | ELit u => Ok u
  | EMul a b => rbind (nfeval bd a) (fun x => rbind (nfeval bd b) (fun y => umul x y))
  | EDiv a b => rbind (nfeval bd a) (fun x => rbind (nfeval bd b) (fun y => udiv x y))
  | EPow a _ | ERoot a _ | EPre _ a | ENum a | EDen a | EQuant a =>
      rbind (nfeval bd a) (apply1 bd e)
  end.
