(* Executable checkers around the conversion model: comparison of the model's outcome with what the
   implementation returned, the plan certificate (independent of the planner), and a diagnosis of
   uncertified plans by call site. *)
From stdpp Require Import gmap.
From Coq Require Import ZArith QArith Qabs Lia List.
From Measured Require Import Model.FMap Model.Units Model.Quantity Model.Convert.
Import ListNotations.
Local Open Scope Z_scope.

Definition is_pid (u : unit3) : bool := bool_decide (upre u = pid).

(* |a - b| <= tol * |b| *)
Definition Qclose (tol a b : Q) : bool := Qle_bool (Qabs (a - b)) (tol * Qabs b).

Inductive cexp :=
| XVal (v : Q)            (* the implementation returned this magnitude, in the requested unit object *)
| XErr (e : cerr)
| XOther.                 (* any other exception / a result in another unit object *)

Definition cerr_eqb (a b : cerr) : bool :=
  match a, b with
  | CNF, CNF | EKey, EKey | EIndex, EIndex | EValue, EValue | EZero, EZero | EFuel, EFuel | EMissing, EMissing => true
  | _, _ => false
  end.

(* c_ref: an absolute reference scale added to |model value| in the tolerance (0 for pure scalings;
   the size of the cancelling terms for conversions with offsets) *)
Record ccase := MkCase { c_m : Q; c_s : unit3; c_e : unit3; c_x : cexp; c_ref : Q }.

Section Check.
  Variable bd : env.
  Variable tbl : table.
  Variable ord : ordtab.
  Variable offs : table.
  Variable fuel : nat.
  Variable tol : Q.

  Definition conv_ok (c : ccase) : bool :=
    match convert bd tbl ord offs fuel (c_m c) (c_s c) (c_e c), c_x c with
    | COk v, XVal w => Qle_bool (Qabs (w - v)) (tol * (Qabs v + c_ref c))
    | CErr e, XErr e' => cerr_eqb e e'
    | _, _ => false
    end.

  (* ---------- the certificate ---------- *)
  (* formal logarithm of a rough step's factor in the free abelian group on base units, provided
     the step's number is what its provenance says *)
  Definition step_vec (r : rstep) : option fmap :=
    if negb (andb (is_pid (r_start r)) (is_pid (r_end r))) then None else
    let hopv := fpow (fdiv (ufac (r_start r)) (ufac (r_end r))) (r_exp r) in
    match r_prov r with
    | PUnit => if Qeq_bool (r_ratio r) 1 then Some hopv else None
    | PTbl u a z =>
        match tget tbl u a with
        | Some x =>
            if andb (andb (Qeq_bool (r_ratio r) (Qpower x z)) (negb (Qeq_bool x 0)))
                    (andb (is_pid u) (is_pid a))
            then Some (fmul (fpow (fdiv (ufac u) (ufac a)) z) hopv) else None
        | None => None
        end
    | PEndPrefix => None
    end.

  Fixpoint plan_vec (rough : list rstep) : option fmap :=
    match rough with
    | [] => Some fone
    | r :: rest =>
        match step_vec r, plan_vec rest with
        | Some v, Some w => Some (fmul v w)
        | _, _ => None
        end
    end.

  Definition certify (s e : unit3) (rough : list rstep) : bool :=
    match plan_vec rough with
    | Some v => feqb v (fdiv (ufac s) (ufac e))
    | None => false
    end.

  Definition no_offsets : bool := forallb (fun '(_, r) => forallb (fun '(_, o) => Qeq_bool o 0) r) offs.

  Definition plan_offsets_zero (plan : list pstep) : bool :=
    forallb (fun st => forallb (fun h => Qeq_bool (snd h) 0) (ps_path st)) plan.

  (* the conversion s -> e is covered by the soundness theorem: its plan is direct between
     unprefixed units (or trivial), or its rough plan is certified against the table; and no hop
     of the realised plan carries an offset *)
  Definition shape_cert (s e : unit3) : bool :=
    match plan_shape bd tbl ord offs fuel s e with
    | COk (Direct _) => orb (ukey_eqb s e) (andb (is_pid s) (is_pid e))
    | COk (Rough r) => certify s e r
    | CErr _ => false
    end.

  Definition plan_cert (s e : unit3) : bool :=
    andb (shape_cert s e)
         (match plan_conversion bd tbl ord offs fuel s e with
          | COk plan => plan_offsets_zero plan
          | CErr _ => false
          end).

  (* ---------- diagnosis of an uncertified rough plan ---------- *)
  (* flip the exponent of the steps selected by [mask] among those satisfying [sel] *)
  Fixpoint flip_steps (sel : rstep -> bool) (mask : list bool) (rough : list rstep) : list rstep :=
    match rough with
    | [] => []
    | r :: rest =>
        if sel r then
          match mask with
          | true :: m' => MkR (r_ratio r) (r_prov r) (r_start r) (r_end r) (- r_exp r) :: flip_steps sel m' rest
          | _ :: m' => r :: flip_steps sel m' rest
          | [] => r :: rest
          end
        else r :: flip_steps sel mask rest
    end.

  Fixpoint masks (n : nat) : list (list bool) :=
    match n with
    | O => [[]]
    | S k => flat_map (fun m => [false :: m; true :: m]) (masks k)
    end.

  Definition is_hop_step (r : rstep) : bool :=
    match r_prov r with PUnit => negb (ukey_eqb (r_start r) (r_end r)) | _ => false end.

  (* an uncertified plan becomes certified by negating the exponent of some unit-to-unit steps:
     the defect is the sign heuristic of _match_factors / _cancel_factors *)
  Definition fixable_by_sign (s e : unit3) (rough : list rstep) : bool :=
    let n := length (List.filter is_hop_step rough) in
    if Nat.ltb 10 n then false else
    existsb (fun m => certify s e (flip_steps is_hop_step m rough)) (masks n).

  (* 0 certified; 1 direct path between prefixed units; 2 uncertified, certified after negating the
     exponent of some unit-to-unit steps (sign heuristic of _match_factors/_cancel_factors);
     3 uncertified otherwise; 4 no plan; 5 certified shape but a hop carries an offset *)
  Definition diag (s e : unit3) : nat :=
    match plan_shape bd tbl ord offs fuel s e with
    | COk (Direct _) => if shape_cert s e then (if plan_cert s e then 0 else 5)%nat else 1%nat
    | COk (Rough r) => if certify s e r then (if plan_cert s e then 0 else 5)%nat
                       else if fixable_by_sign s e r then 2%nat else 3%nat
    | CErr _ => 4%nat
    end.
End Check.
