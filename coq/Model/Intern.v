(* The process-wide Unit intern table as a state machine.  A handle is the position of the
   entry in the (append-only) table: Unit.__new__ looks the key (prefix, factors) up and
   returns the existing object -- ignoring the dimension it was handed -- or stores the new
   triple.  Every operation computes its constructor arguments from the *stored* triples of
   its operands, as the call sites in measured/__init__.py do. *)
From stdpp Require Import gmap.
From Coq Require Import ZArith Lia.
From Measured Require Import Model.FMap Model.Units.
Local Open Scope Z_scope.

Definition table := list unit3.

Fixpoint find_key (u : unit3) (t : table) : option nat :=
  match t with
  | [] => None
  | v :: t' => if ukey_eqb u v then Some O else option_map S (find_key u t')
  end.

Definition intern (t : table) (u : unit3) : table * nat :=
  match find_key u t with
  | Some h => (t, h)
  | None => (t ++ [u], length t)
  end.

Definition sres := res nat.

Definition with_handle (t : table) (h : nat) (f : unit3 -> res unit3) : table * sres :=
  match nth_error t h with
  | None => (t, FracErr)            (* unreachable: handles always point into the table *)
  | Some x =>
      match f x with
      | Ok r => let '(t', h') := intern t r in (t', Ok h')
      | FracErr => (t, FracErr)
      | MixedBase => (t, MixedBase)
      end
  end.

Fixpoint seval (bd : env) (t : table) (e : expr) : table * sres :=
  match e with
  | ELit u => let '(t', h) := intern t u in (t', Ok h)
  | EMul a b | EDiv a b =>
      match seval bd t a with
      | (t1, Ok ha) =>
          match seval bd t1 b with
          | (t2, Ok hb) =>
              match nth_error t2 ha, nth_error t2 hb with
              | Some x, Some y =>
                  match (match e with EMul _ _ => umul x y | _ => udiv x y end) with
                  | Ok r => let '(t', h') := intern t2 r in (t', Ok h')
                  | FracErr => (t2, FracErr)
                  | MixedBase => (t2, MixedBase)
                  end
              | _, _ => (t2, FracErr)
              end
          | (t2, err) => (t2, err)
          end
      | (t1, err) => (t1, err)
      end
  | EPow a _ | ERoot a _ | EPre _ a | ENum a | EDen a | EQuant a =>
      match seval bd t a with
      | (t1, Ok ha) => with_handle t1 ha (apply1 bd e)
      | (t1, err) => (t1, err)
      end
  end.

(* histories: defining a new base unit, or evaluating a unit expression (any public
   operation that reaches the Unit constructor is such an evaluation) *)
Inductive op :=
| Define (id : positive) (d : fmap)
| Eval (e : expr).

Record state := MkS { s_tbl : table; s_env : env }.

Definition ids (bd : env) : list positive := map fst bd.

Definition step (s : state) (o : op) : state :=
  match o with
  | Define id d =>
      if bool_decide (id ∈ ids (s_env s)) then s
      else MkS (fst (intern (s_tbl s) (MkU pid {[ id := 1 ]} d))) ((id, d) :: s_env s)
  | Eval e => MkS (fst (seval (s_env s) (s_tbl s) e)) (s_env s)
  end.

Definition run (s : state) (h : list op) : state := fold_left step h s.

Definition init : state := MkS [uone] [].
