(* The interning constructors as PROGRAMS: __new__ of Dimension / Prefix / Unit is translated at every run (harness/struct_scan.py)
   into a list of the instructions below -- one per source line that touches the intern table, the lock or the local variables
   holding a looked-up object -- and run by n threads on one key under an arbitrary schedule.  [prog_safe] is an abstract
   interpretation of the program text (one forward pass); Proofs/NewProgFacts.v proves that every program it accepts hands the
   same object to every thread under every schedule.  Registers: [true] = the local `known`, [false] = the outcome of the
   membership test `key in cls._known`. *)
From Coq Require Import List Arith Bool.
Import ListNotations.

Inductive instr :=
| IAcquire                       (* with _interning:  (entry) *)
| IRelease                       (* end of the with block, reached by falling through *)
| IGet (r : bool)                (* known = cls._known.get(key)       /  the test `key in cls._known` *)
| IGetDefault (r : bool)         (* known = cls._known.get(key, known) *)
| IRetIf (r : bool)              (* if known is not None: return known *)
| IRetTabIf (r : bool)           (* if <test>: return cls._known[key]  -- reads the table again *)
| IAlloc                         (* self = super().__new__(cls) *)
| IStore                         (* cls._known[key] = self *)
| ISetDefault (ro : option bool) (* [known =] cls._known.setdefault(key, self) *)
| IRetSelf                       (* return self *)
| IRetReg (r : bool)             (* return known *)
| ISkip                          (* a line that touches neither the table, the lock nor these locals *)
| IMayLeave.                     (* a conditional raise / return of an object found elsewhere: the call may end here *)

Record tstate := MkT { pc : nat; rk : option nat; rh : option nat; self : option nat; res : option (option nat) }.
Record gstate := MkG { table : option nat; owner : option nat; fresh : nat; created : list nat }.

Definition getreg (t : tstate) (r : bool) : option nat := if r then rk t else rh t.
Definition setreg (t : tstate) (r : bool) (v : option nat) : tstate :=
  if r then MkT (pc t) v (rh t) (self t) (res t) else MkT (pc t) (rk t) v (self t) (res t).
Definition next (t : tstate) : tstate := MkT (S (pc t)) (rk t) (rh t) (self t) (res t).

Definition owner_is (g : gstate) (i : nat) : bool := match owner g with Some j => Nat.eqb i j | None => false end.
Definition unlock (g : gstate) (i : nat) : gstate :=
  MkG (table g) (if owner_is g i then None else owner g) (fresh g) (created g).
(* leaving the call (return or raise): a with block releases the lock on the way out *)
Definition finish (g : gstate) (i : nat) (t : tstate) (v : option nat) : gstate * tstate :=
  (unlock g i, MkT (pc t) (rk t) (rh t) (self t) (Some v)).

(* one instruction executed by thread i (state t); [leave] resolves IMayLeave; a thread blocked on the lock does not move *)
Definition istep (ins : instr) (g : gstate) (i : nat) (leave : bool) (t : tstate) : gstate * tstate :=
  match ins with
  | IAcquire => match owner g with
                | None => (MkG (table g) (Some i) (fresh g) (created g), next t)
                | Some _ => (g, t)
                end
  | IRelease => (unlock g i, next t)
  | IGet r => (g, next (setreg t r (table g)))
  | IGetDefault r => (g, next (setreg t r (match table g with Some o => Some o | None => getreg t r end)))
  | IRetIf r => match getreg t r with Some o => finish g i t (Some o) | None => (g, next t) end
  | IRetTabIf r => match getreg t r with Some _ => finish g i t (table g) | None => (g, next t) end
  | IAlloc => (MkG (table g) (owner g) (S (fresh g)) (created g), MkT (S (pc t)) (rk t) (rh t) (Some (fresh g)) (res t))
  | IStore => match self t with
              | Some o => (MkG (Some o) (owner g) (fresh g) (created g ++ [o]), next t)
              | None => finish g i t None
              end
  | ISetDefault ro =>
      match self t with
      | Some o =>
          let g' := match table g with Some _ => g | None => MkG (Some o) (owner g) (fresh g) (created g ++ [o]) end in
          (g', next (match ro with Some r => setreg t r (table g') | None => t end))
      | None => finish g i t None
      end
  | IRetSelf => finish g i t (self t)
  | IRetReg r => finish g i t (getreg t r)
  | ISkip => (g, next t)
  | IMayLeave => if leave then finish g i t None else (g, next t)
  end.

(* one step of thread i: a finished thread does not move; running off the end of the body returns None *)
Definition tstep (p : list instr) (g : gstate) (i : nat) (leave : bool) (t : tstate) : gstate * tstate :=
  match res t with
  | Some _ => (g, t)
  | None => match nth_error p (pc t) with
            | None => finish g i t None
            | Some ins => istep ins g i leave t
            end
  end.

Fixpoint set_nth {A} (i : nat) (x : A) (l : list A) : list A :=
  match l, i with
  | [], _ => []
  | _ :: l', O => x :: l'
  | y :: l', S i' => y :: set_nth i' x l'
  end.

Definition pstate := (gstate * list tstate)%type.
Definition pstep (p : list instr) (s : pstate) (c : nat * bool) : pstate :=
  match nth_error (snd s) (fst c) with
  | None => s
  | Some t => let '(g', t') := tstep p (fst s) (fst c) (snd c) t in (g', set_nth (fst c) t' (snd s))
  end.
Definition t0 : tstate := MkT 0 None None None None.
Definition pinit (n : nat) : pstate := (MkG None None 0 [], repeat t0 n).
Definition prun (p : list instr) (s : pstate) (sched : list (nat * bool)) : pstate := fold_left (pstep p) sched s.
Definition presults (s : pstate) : list nat :=
  flat_map (fun t => match res t with Some (Some o) => [o] | _ => [] end) (snd s).

(* ---- the abstract interpretation of the program text ---- *)
Record astate := MkA { held : bool; tnone : bool; reflk : bool; reflh : bool; selfA : bool; stored : bool; nnk : bool; nnh : bool }.
Definition a0 : astate := MkA false false false false false false false false.
Definition arefl (a : astate) (r : bool) : bool := if r then reflk a else reflh a.
Definition ann (a : astate) (r : bool) : bool := if r then nnk a else nnh a.
Definition set_refl (a : astate) (r : bool) (v : bool) : astate :=
  if r then MkA (held a) (tnone a) v (reflh a) (selfA a) (stored a) (nnk a) (nnh a)
  else MkA (held a) (tnone a) (reflk a) v (selfA a) (stored a) (nnk a) (nnh a).
Definition set_nn (a : astate) (r : bool) (v : bool) : astate :=
  if r then MkA (held a) (tnone a) (reflk a) (reflh a) (selfA a) (stored a) v (nnh a)
  else MkA (held a) (tnone a) (reflk a) (reflh a) (selfA a) (stored a) (nnk a) v.

Definition atrans (ins : instr) (a : astate) : option astate :=
  match ins with
  | IAcquire => if held a then None else Some (MkA true false false false (selfA a) (stored a) (nnk a) (nnh a))
  | IRelease => if held a then Some (MkA false false false false (selfA a) (stored a) (nnk a) (nnh a)) else None
  | IGet r => Some (set_nn (set_refl a r (held a)) r false)
  | IGetDefault r => Some (set_refl a r (held a))
  | IRetIf r | IRetTabIf r =>
      (* falling through, the register is None; when it reflects the table under the lock, the key is absent *)
      Some (if arefl a r then MkA (held a) true (reflk a) (reflh a) (selfA a) (stored a) (nnk a) (nnh a) else a)
  | IAlloc => Some (MkA (held a) (tnone a) (reflk a) (reflh a) true false (nnk a) (nnh a))
  | IStore => if held a && tnone a && selfA a
              then Some (MkA true false false false true true (nnk a) (nnh a)) else None
  | ISetDefault ro =>
      if held a && selfA a then
        let a' := MkA true false false false true (stored a) (nnk a) (nnh a) in
        Some (match ro with Some r => set_nn a' r true | None => a' end)
      else None
  | IRetSelf => if stored a then Some a else None
  | IRetReg r => if ann a r then Some a else None
  | ISkip | IMayLeave => Some a
  end.

Fixpoint absrun (p : list instr) (a : astate) : option astate :=
  match p with
  | [] => Some a
  | ins :: p' => match atrans ins a with Some a' => absrun p' a' | None => None end
  end.

Definition prog_safe (p : list instr) : bool := match absrun p a0 with Some _ => true | None => false end.

(* ---- replaying a schedule observed on the implementation ----
   The line scheduler of harness/impl/sched_worker.py records which thread executed which source line.  Lines that carry an
   instruction give events (thread, instruction index); instructions without an observable line of their own (entering and leaving
   the with block, conditional returns that fall through, skipped lines) are taken silently on the way to the next event.  The lock
   is taken when the thread's first line inside the block is reached: the interpreter blocks inside the `with` line itself. *)
Definition silent_ok (ins : instr) : bool :=
  match ins with IAcquire | IRelease | ISkip | IMayLeave | IRetIf _ | IRetTabIf _ => true | _ => false end.

Fixpoint advance (fuel : nat) (p : list instr) (g : gstate) (i : nat) (t : tstate) (idx : nat) : option (gstate * tstate) :=
  if Nat.eqb (pc t) idx then Some (g, t) else
  match fuel with
  | O => None
  | S f =>
      match res t, nth_error p (pc t) with
      | None, Some ins =>
          if silent_ok ins then
            let '(g', t') := istep ins g i false t in
            match res t' with
            | Some _ => None
            | None => if Nat.eqb (pc t') (pc t) then None else advance f p g' i t' idx
            end
          else None
      | _, _ => None
      end
  end.

Fixpoint replay (p : list instr) (s : pstate) (evs : list (nat * nat)) : option pstate :=
  match evs with
  | [] => Some s
  | (i, idx) :: r =>
      match nth_error (snd s) i with
      | None => None
      | Some t =>
          match advance (S (length p)) p (fst s) i t idx with
          | None => None
          | Some (g1, t1) =>
              match res t1, nth_error p idx with
              | Some _, _ | _, None => None
              | None, Some ins =>
                  let '(g2, t2) := istep ins g1 i false t1 in
                  if (match res t2 with Some _ => true | None => negb (Nat.eqb (pc t2) (pc t1)) end)
                  then replay p (g2, set_nth i t2 (snd s)) r else None
              end
          end
      end
  end.

(* what each thread got, as the index of the first thread holding the same object (None: no object for this key) *)
Fixpoint first_with (o : nat) (l : list (option (option nat))) (k : nat) : nat :=
  match l with
  | [] => k
  | Some (Some o') :: r => if Nat.eqb o o' then k else first_with o r (S k)
  | _ :: r => first_with o r (S k)
  end.
Definition labels (s : pstate) : list (option nat) :=
  let rs := map res (snd s) in
  map (fun r => match r with Some (Some o) => Some (first_with o rs 0) | _ => None end) rs.

Definition opt_nat_eqb (a b : option nat) : bool :=
  match a, b with Some x, Some y => Nat.eqb x y | None, None => true | _, _ => false end.
Fixpoint labels_eqb (a b : list (option nat)) : bool :=
  match a, b with
  | [], [] => true
  | x :: a', y :: b' => opt_nat_eqb x y && labels_eqb a' b'
  | _, _ => false
  end.

(* one observed run: the program, the number of threads, the events, and which threads ended up with the same object *)
Definition replay_agrees (p : list instr) (n : nat) (evs : list (nat * nat)) (observed : list (option nat)) : bool :=
  match replay p (pinit n) evs with
  | Some s => labels_eqb (labels s) observed
  | None => false
  end.

(* a replayed run is a run of the model: the events and the silent steps in between form a schedule *)
