(* The scanner of the generated parser at character level: Python `re` matching for the regular-expression subset the
   grammar's terminals are compiled to (characters, ranges, sequence, ordered alternation, greedy `?` and `+`), Lark's
   Scanner (one alternation of the candidate terminals in Lark's sort order: the first alternative that matches wins),
   BasicLexer.next_token (ignored terminals are skipped) and ContextualLexer (the candidates are the terminals the
   current parser state accepts, plus the ignored ones).  Together with Model/LR.v this is an executable model of
   measured._parser.Parser().parse(text, start) from the text to the tree.

   Matching is by continuation (backtracking search in the order Python's engine explores): `rm r s k` tries to match r
   at the front of s and hands the rest to k; the first complete success is the match.  `+` iterates at most
   length-of-input times: every iteration must consume at least one character. *)
From Coq Require Import List Arith NArith PArith Bool Lia.
Import ListNotations.
From Measured Require Import Model.LR.

Inductive re :=
| REps
| RChar (c : N)
| RRange (lo hi : N)
| RSeq (a b : re)
| RAlt (a b : re)
| ROpt (a : re)
| RPlus (a : re).

Definition text := list N.

Fixpoint rm (r : re) : text -> (text -> option text) -> option text :=
  match r with
  | REps => fun s k => k s
  | RChar c => fun s k => match s with x :: s' => if N.eqb x c then k s' else None | [] => None end
  | RRange lo hi => fun s k => match s with x :: s' => if N.leb lo x && N.leb x hi then k s' else None | [] => None end
  | RSeq a b => fun s k => rm a s (fun s' => rm b s' k)
  | RAlt a b => fun s k => match rm a s k with Some r => Some r | None => rm b s k end
  | ROpt a => fun s k => match rm a s k with Some r => Some r | None => k s end
  | RPlus a => fun s k =>
      (fix loop (n : nat) (s : text) {struct n} : option text :=
         rm a s (fun s' =>
           match n with
           | O => k s'
           | S n' =>
               if Nat.ltb (length s') (length s)
               then match loop n' s' with Some r => Some r | None => k s' end
               else k s'
           end)) (length s) s
  end.

(* re.match(pattern, text, pos): the rest after the match *)
Definition rmatch (r : re) (s : text) : option text := rm r s (fun rest => Some rest).

(* fullmatch (pattern + "$"), used by Lark to detect string terminals embedded in regular-expression ones *)
Definition rmatch_whole (r : re) (s : text) : bool :=
  match rm r s (fun rest => match rest with [] => Some [] | _ => None end) with Some _ => true | None => false end.

Record terminal := MkTerm { tm_id : positive; tm_re : re; tm_is_str : bool }.

Definition token := (positive * text)%type.

Fixpoint mem (x : positive) (l : list positive) : bool :=
  match l with [] => false | y :: l' => Pos.eqb x y || mem x l' end.

Section Scanner.
  Variable order : list terminal.       (* every terminal, in Lark's sort order (priority, max width, pattern length, name) *)
  Variable ignore : list positive.

  (* Scanner.match: the first candidate, in order, that matches at the front; (type, matched text, rest) *)
  Fixpoint first_match (cands : list terminal) (s : text) : option (positive * text * text) :=
    match cands with
    | [] => None
    | t :: cands' =>
        match rmatch (tm_re t) s with
        | Some rest => Some (tm_id t, firstn (length s - length rest) s, rest)
        | None => first_match cands' s
        end
    end.

  Definition candidates (accepted : list positive) : list terminal :=
    filter (fun t => mem (tm_id t) accepted || mem (tm_id t) ignore) order.

  Inductive scanned :=
  | SEnd                                   (* end of text (EOFError inside the lexer) *)
  | SToken (t : token) (rest : text)
  | SNoMatch (at_ : text)                  (* UnexpectedCharacters *)
  | SZeroWidth.                            (* a terminal matched the empty string: Lark refuses such grammars *)

  (* BasicLexer.next_token over the candidates of one parser state *)
  Fixpoint next_token (n : nat) (cands : list terminal) (s : text) : scanned :=
    match s with
    | [] => SEnd
    | _ =>
        match first_match cands s with
        | None => SNoMatch s
        | Some (ty, txt, rest) =>
            if Nat.leb (length s) (length rest) then SZeroWidth
            else if mem ty ignore then
              match n with O => SZeroWidth | S n' => next_token n' cands rest end
            else SToken (ty, txt) rest
        end
    end.

  (* the scanner the LALR driver of Model/LR.v is instantiated with *)
  Definition scan (accepted : list positive) (s : text) : option (option (token * text)) :=
    match next_token (length s) (candidates accepted) s with
    | SEnd => Some None
    | SToken t rest => Some (Some (t, rest))
    | SNoMatch _ | SZeroWidth => None
    end.

  (* what ContextualLexer.lex reports when the state's lexer finds no match: the root lexer (every terminal) is tried at
     the same place; a token there is an UnexpectedToken, nothing there an UnexpectedCharacters *)
  Inductive lexfail := FUnexpectedToken | FUnexpectedCharacters.
  Definition classify_failure (accepted : list positive) (s : text) : lexfail :=
    match next_token (length s) (candidates accepted) s with
    | SNoMatch at_ =>
        match next_token (length at_) order at_ with
        | SToken _ _ => FUnexpectedToken
        | _ => FUnexpectedCharacters
        end
    | _ => FUnexpectedCharacters
    end.
End Scanner.

(* ---------------------------------------------------------------- trees *)
(* what the tree builder keeps of a reduction: per rule the name the node gets (alias or origin), whether the rule is
   inlined into its parent (origin starting with "_"), whether it is replaced by its only child (?rule), and which
   children are tokens that are filtered out (terminals starting with "_") *)
Inductive tree := TTok (ty : positive) (txt : text) | TNode (name : positive) (children : list tree) | TInline (children : list tree).

Record rinfo := MkRI { ri_name : positive; ri_inline : bool; ri_expand1 : bool }.

Definition keep_token (filtered : list positive) (t : tree) : bool :=
  match t with TTok ty _ => negb (mem ty filtered) | _ => true end.

Definition splice (ts : list tree) : list tree :=
  flat_map (fun t => match t with TInline cs => cs | _ => [t] end) ts.

Definition build (infos : list rinfo) (filtered : list positive) (r : nat) (args : list tree) : tree :=
  let kids := splice (filter (keep_token filtered) args) in
  match nth_error infos r with
  | None => TInline kids
  | Some i =>
      if ri_inline i then TInline kids
      else if ri_expand1 i then match kids with [k] => k | _ => TNode (ri_name i) kids end
      else TNode (ri_name i) kids
  end.

(* ---------------------------------------------------------------- the whole parser *)
Inductive presult := PTree (t : tree) | PUnexpectedCharacters | PUnexpectedToken | PBroken.

Section TextParser.
  Variable order : list terminal.
  Variable ignore : list positive.
  Variable rules : list rule.
  Variable infos : list rinfo.
  Variable filtered : list positive.
  Variable terminals : list positive.
  Variable end_sym : positive.
  Variable T : table.

  Definition tok_type (t : token) : positive := fst t.
  Definition tok_tree (t : token) : tree := TTok (fst t) (snd t).

  (* the driver of LR.v reports a lexer failure as LexError; which of the two exceptions it is needs the place, so the
     run is repeated with a scanner that remembers it *)
  Fixpoint run_text (fuel : nat) (stack : list nat) (vals : list tree) (s : text) : presult :=
    match fuel with
    | O => PBroken
    | S f =>
        match stack with
        | [] => PBroken
        | st :: _ =>
            let acc := accepts terminals T st in
            match scan order ignore acc s with
            | None =>
                match classify_failure order ignore acc s with
                | FUnexpectedToken => PUnexpectedToken
                | FUnexpectedCharacters => PUnexpectedCharacters
                end
            | Some None =>
                match feed tree (build infos filtered) rules T fuel stack vals end_sym (TInline []) true with
                | Accepted _ v => PTree v
                | Rejected _ => PUnexpectedToken
                | _ => PBroken
                end
            | Some (Some (tok, rest)) =>
                match feed tree (build infos filtered) rules T fuel stack vals (tok_type tok) (tok_tree tok) false with
                | Shifted _ stack' vals' => run_text f stack' vals' rest
                | Rejected _ => PUnexpectedToken
                | _ => PBroken
                end
            end
        end
    end.

  (* the values already built (top of the stack first) at the place where run_text fails; [] when it does not fail.
     measured/parsing.py embeds its transformer in the parser, so the callbacks of the reductions made before a syntax
     error have already run: Model/TextParse.v needs to know which terms those were *)
  (* the value stack at the moment feed_token finds no action: the reductions the lookahead triggered before that have
     been made (their callbacks have run) *)
  Fixpoint rejected_vals (fuel : nat) (stack : list nat) (vals : list tree) (ty : positive) : list tree :=
    match fuel with
    | O => []
    | S f =>
        match stack with
        | [] => []
        | st :: _ =>
            match lookup (state_row T st) ty with
            | None => vals
            | Some (Shift _) => []
            | Some (Reduce r) =>
                match nth_error rules r with
                | None => []
                | Some ru =>
                    let n := r_len ru in
                    let args := rev (firstn n vals) in
                    let stack' := skipn n stack in
                    let vals' := skipn n vals in
                    match stack' with
                    | [] => []
                    | top :: _ =>
                        match lookup (state_row T top) (r_origin ru) with
                        | Some (Shift ns) => rejected_vals f (ns :: stack') (build infos filtered r args :: vals') ty
                        | _ => []
                        end
                    end
                end
            end
        end
    end.

  Fixpoint failure_stack (fuel : nat) (stack : list nat) (vals : list tree) (s : text) : list tree :=
    match fuel with
    | O => []
    | S f =>
        match stack with
        | [] => []
        | st :: _ =>
            let acc := accepts terminals T st in
            match scan order ignore acc s with
            | None => vals
            | Some None =>
                match feed tree (build infos filtered) rules T fuel stack vals end_sym (TInline []) true with
                | Rejected _ => rejected_vals fuel stack vals end_sym
                | _ => []
                end
            | Some (Some (tok, rest)) =>
                match feed tree (build infos filtered) rules T fuel stack vals (tok_type tok) (tok_tree tok) false with
                | Shifted _ stack' vals' => failure_stack f stack' vals' rest
                | Rejected _ => rejected_vals fuel stack vals (tok_type tok)
                | _ => []
                end
            end
        end
    end.
End TextParser.

Definition parse_text (order : list terminal) (ignore : list positive) (rules : list rule) (infos : list rinfo)
  (filtered terminals : list positive) (end_sym : positive) (T : table) (s : text) : presult :=
  run_text order ignore rules infos filtered terminals end_sym T (4 * length s + 60) [t_start T] [] s.

Definition parse_failure_stack (order : list terminal) (ignore : list positive) (rules : list rule) (infos : list rinfo)
  (filtered terminals : list positive) (end_sym : positive) (T : table) (s : text) : list tree :=
  failure_stack order ignore rules infos filtered terminals end_sym T (4 * length s + 60) [t_start T] [] s.

Fixpoint text_eqb (a b : text) : bool :=
  match a, b with
  | [], [] => true
  | x :: a', y :: b' => N.eqb x y && text_eqb a' b'
  | _, _ => false
  end.

Fixpoint tree_eqb (a b : tree) {struct a} : bool :=
  let fix go (l m : list tree) : bool :=
    match l, m with
    | [], [] => true
    | x :: l', y :: m' => tree_eqb x y && go l' m'
    | _, _ => false
    end in
  match a, b with
  | TTok t x, TTok u y => Pos.eqb t u && text_eqb x y
  | TNode n l, TNode n' m => Pos.eqb n n' && go l m
  | TInline l, TInline m => go l m
  | _, _ => false
  end.

Definition presult_eqb (a b : presult) : bool :=
  match a, b with
  | PTree x, PTree y => tree_eqb x y
  | PUnexpectedCharacters, PUnexpectedCharacters | PUnexpectedToken, PUnexpectedToken | PBroken, PBroken => true
  | _, _ => false
  end.

(* string terminals that a regular-expression terminal of the same priority matches completely would be taken out of the
   scanner by Lark (_create_unless) and recognised by a callback instead; the grammar has none, checked on every run *)
Definition no_embedded_strings (ts : list terminal) (texts : list (positive * text)) : bool :=
  forallb (fun st : positive * text =>
    forallb (fun t => tm_is_str t || negb (rmatch_whole (tm_re t) (snd st))) ts) texts.
