(* The memoised helpers in front of the interning constructors (functools.lru_cache around Unit._multiply / _divide, Dimension._multiply /
   _divide): a thread looks the arguments up in the cache, returns a hit, otherwise calls the undecorated function -- which ends in an
   interning constructor -- stores what it got and returns it.  The constructor call is abstracted by the list of values the calls may
   return; Proofs/NewProgFacts.v shows that for a safe constructor program all of them are one object. *)
From Coq Require Import List Arith Bool.
Import ListNotations.

Inductive mpc :=
| MStart                    (* before the cache lookup *)
| MMiss                     (* looked up: not cached; about to call the function *)
| MGot (v : nat)            (* the function returned v; about to store it *)
| MDone (v : nat).          (* returned v *)

Record mlstate := MkML { mcache : option nat; mthreads : list mpc; calls : nat }.

Fixpoint upd (l : list mpc) (k : nat) (p' : mpc) : list mpc :=
  match l, k with [], _ => [] | _ :: r, O => p' :: r | x :: r, S k' => x :: upd r k' p' end.

(* [inner k] is what the k-th call of the undecorated function returns *)
Definition mlstep (inner : nat -> nat) (s : mlstate) (i : nat) : mlstate :=
  match nth_error (mthreads s) i with
  | None => s
  | Some MStart => match mcache s with
                   | Some v => MkML (mcache s) (upd (mthreads s) i (MDone v)) (calls s)
                   | None => MkML (mcache s) (upd (mthreads s) i MMiss) (calls s)
                   end
  | Some MMiss => MkML (mcache s) (upd (mthreads s) i (MGot (inner (calls s)))) (S (calls s))
  | Some (MGot v) => MkML (Some v) (upd (mthreads s) i (MDone v)) (calls s)
  | Some (MDone _) => s
  end.

Definition mlinit (n : nat) : mlstate := MkML None (repeat MStart n) 0.
Definition mlrun (inner : nat -> nat) (s : mlstate) (sched : list nat) : mlstate := fold_left (mlstep inner) sched s.
Definition mlresults (s : mlstate) : list nat := flat_map (fun p => match p with MDone v => [v] | _ => [] end) (mthreads s).
