(* Lark's LALR(1) runtime (ParserState.feed_token + the contextual lexer's per-state accept set) as a
   Gallina function over a canonicalised parse table.  The scanner (regex matching) and the tree
   callbacks are section variables: the theorems hold for whatever they do, as long as both parsers
   use the same ones (same terminal definitions and rule list, checked separately). *)
From Coq Require Import List Arith PArith Bool.
Import ListNotations.

Inductive action := Shift (s : nat) | Reduce (r : nat).

Definition action_eqb (a b : action) : bool :=
  match a, b with
  | Shift x, Shift y | Reduce x, Reduce y => Nat.eqb x y
  | _, _ => false
  end.

Definition row := list (positive * action).      (* symbol id (terminal or nonterminal) -> action *)

Record table := MkT { t_states : list row; t_start : nat; t_end : nat }.

Record rule := MkRule { r_origin : positive; r_len : nat }.

Fixpoint lookup (r : row) (sym : positive) : option action :=
  match r with
  | [] => None
  | (k, a) :: r' => if Pos.eqb k sym then Some a else lookup r' sym
  end.

Definition state_row (T : table) (s : nat) : row := nth s (t_states T) [].

(* the terminals acceptable in a state, in the canonical order of the global terminal list *)
Definition accepts (terminals : list positive) (T : table) (s : nat) : list positive :=
  filter (fun t => match lookup (state_row T s) t with Some _ => true | None => false end) terminals.

Section Driver.
  Variables token value input : Type.
  Variable ttype : token -> positive.
  (* scan accepts input: None = no terminal matches (UnexpectedCharacters); Some None = end of input *)
  Variable scan : list positive -> input -> option (option (token * input)).
  Variable tokv : token -> value.
  Variable redv : nat -> list value -> value.
  Variable rules : list rule.
  Variable terminals : list positive.
  Variable end_sym : positive.          (* $END *)
  Variable T : table.

  Inductive fed :=
  | Shifted (stack : list nat) (vals : list value)
  | Accepted (v : value)
  | Rejected                              (* UnexpectedToken *)
  | Stuck.                                (* malformed table / out of fuel: never for a well-formed table *)

  Definition drop {A} (n : nat) (l : list A) : list A := skipn n l.
  Definition take {A} (n : nat) (l : list A) : list A := firstn n l.

  (* stacks are kept with the top at the head *)
  Fixpoint feed (fuel : nat) (stack : list nat) (vals : list value) (ty : positive) (v : value) (is_end : bool) : fed :=
    match fuel with
    | O => Stuck
    | S f =>
        match stack with
        | [] => Stuck
        | st :: _ =>
            match lookup (state_row T st) ty with
            | None => Rejected
            | Some (Shift s') => if is_end then Stuck else Shifted (s' :: stack) (v :: vals)
            | Some (Reduce r) =>
                match nth_error rules r with
                | None => Stuck
                | Some ru =>
                    let n := r_len ru in
                    let args := rev (take n vals) in
                    let stack' := drop n stack in
                    let vals' := drop n vals in
                    match stack' with
                    | [] => Stuck
                    | top :: _ =>
                        match lookup (state_row T top) (r_origin ru) with
                        | Some (Shift ns) =>
                            let stack'' := ns :: stack' in
                            let vals'' := redv r args :: vals' in
                            if andb is_end (Nat.eqb ns (t_end T)) then Accepted (redv r args)
                            else feed f stack'' vals'' ty v is_end
                        | _ => Stuck
                        end
                    end
                end
            end
        end
    end.

  Inductive outcome := Tree (v : value) | LexError | ParseError | Broken.

  Fixpoint run (fuel : nat) (stack : list nat) (vals : list value) (inp : input) (dummy : value) : outcome :=
    match fuel with
    | O => Broken
    | S f =>
        match stack with
        | [] => Broken
        | st :: _ =>
            match scan (accepts terminals T st) inp with
            | None => LexError
            | Some None =>
                match feed fuel stack vals end_sym dummy true with
                | Accepted v => Tree v
                | Rejected => ParseError
                | _ => Broken
                end
            | Some (Some (tok, rest)) =>
                match feed fuel stack vals (ttype tok) (tokv tok) false with
                | Shifted stack' vals' => run f stack' vals' rest dummy
                | Rejected => ParseError
                | _ => Broken
                end
            end
        end
    end.

  Definition parse (fuel : nat) (inp : input) (dummy : value) : outcome :=
    run fuel [t_start T] [] inp dummy.
End Driver.

(* ---------- the relation checked between two tables ---------- *)
Definition map_action (f : nat -> nat) (a : action) : action :=
  match a with Shift s => Shift (f s) | Reduce r => Reduce r end.

Definition opt_action_eqb (x y : option action) : bool :=
  match x, y with
  | Some a, Some b => action_eqb a b
  | None, None => true
  | _, _ => false
  end.

(* every symbol that matters: the union of both rows' keys and the global symbol list *)
Definition rows_related (f : nat -> nat) (symbols : list positive) (ra rb : row) : bool :=
  forallb (fun sym => opt_action_eqb (option_map (map_action f) (lookup ra sym)) (lookup rb sym))
          (symbols ++ map fst ra ++ map fst rb).

Definition fun_of (l : list nat) (a : nat) : nat := nth a l 0.

Definition states_related (fl : list nat) (symbols : list positive) (A B : table) : bool :=
  andb (Nat.eqb (length fl) (length (t_states A)))
  (andb (forallb (fun a => rows_related (fun_of fl) symbols (state_row A a) (state_row B (fun_of fl a))) (seq 0 (length (t_states A))))
  (andb (Nat.eqb (fun_of fl (t_start A)) (t_start B))
        (* the end state is matched exactly: f a = end B  iff  a = end A *)
        (forallb (fun a => Bool.eqb (Nat.eqb (fun_of fl a) (t_end B)) (Nat.eqb a (t_end A))) (seq 0 (length (t_states A)))))).

(* all states mentioned by the table are states of the table (shift targets in range) *)
Definition table_closed (T : table) : bool :=
  andb (Nat.ltb (t_start T) (length (t_states T)))
       (forallb (fun r => forallb (fun ka => match snd ka with Shift s => Nat.ltb s (length (t_states T)) | Reduce _ => true end) r) (t_states T)).

(* ---------- validation of the driver model against the real runtime ---------- *)
(* Feed a sequence of token types (values are irrelevant to the automaton) and record the state stack
   after every token, as ParserState.state_stack shows it; then feed $END. *)
Inductive trace_end := TAccepted | TRejectedAtEnd | TRejectedAt (i : nat) | TBroken.

Fixpoint trace_run (rules : list rule) (T : table) (end_sym : positive) (fuel : nat)
         (stack : list nat) (types : list positive) (i : nat) (acc : list (list nat)) : list (list nat) * trace_end :=
  match types with
  | [] =>
      match feed unit (fun _ _ => tt) rules T fuel stack (map (fun _ => tt) (tl stack)) end_sym tt true with
      | Accepted _ _ => (rev acc, TAccepted)
      | Rejected _ => (rev acc, TRejectedAtEnd)
      | _ => (rev acc, TBroken)
      end
  | ty :: rest =>
      match feed unit (fun _ _ => tt) rules T fuel stack (map (fun _ => tt) (tl stack)) ty tt false with
      | Shifted _ stack' _ => trace_run rules T end_sym fuel stack' rest (S i) (rev stack' :: acc)
      | Rejected _ => (rev acc, TRejectedAt i)
      | _ => (rev acc, TBroken)
      end
  end.

Definition trace_end_eqb (a b : trace_end) : bool :=
  match a, b with
  | TAccepted, TAccepted | TRejectedAtEnd, TRejectedAtEnd | TBroken, TBroken => true
  | TRejectedAt i, TRejectedAt j => Nat.eqb i j
  | _, _ => false
  end.

Fixpoint stacks_eqb (a b : list (list nat)) : bool :=
  match a, b with
  | [], [] => true
  | x :: a', y :: b' => andb (if list_eq_dec Nat.eq_dec x y then true else false) (stacks_eqb a' b')
  | _, _ => false
  end.

(* a case: the token types fed, the state stacks the real ParserState showed after each accepted token
   (bottom first), and how it ended *)
Definition trace_ok (rules : list rule) (T : table) (end_sym : positive) (fuel : nat)
           (c : list positive * list (list nat) * trace_end) : bool :=
  let '(types, stacks, fin) := c in
  let '(s, e) := trace_run rules T end_sym fuel [t_start T] types 0 [] in
  andb (stacks_eqb s stacks) (trace_end_eqb e fin).
