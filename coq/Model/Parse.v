(* Symbol resolution, the printer and the transformer of measured at the level of terms
   (symbol text, integer exponent): Unit.resolve_symbol, formatting.unit_str /
   _unit_to_magnitude_and_terms, and QuantityTransformer.term / unit_sequence / unit.
   Strings are lists of code points.  The registries are association lists exported from the
   implementation. *)
From stdpp Require Import gmap.
From Coq Require Import ZArith List.
From Measured Require Import Model.FMap Model.Units.
Import ListNotations.
Local Open Scope Z_scope.

Definition str := list Z.

Fixpoint str_eqb (a b : str) : bool :=
  match a, b with
  | [], [] => true
  | x :: a', y :: b' => andb (Z.eqb x y) (str_eqb a' b')
  | _, _ => false
  end.

Fixpoint slookup {A} (t : list (str * A)) (s : str) : option A :=
  match t with
  | [] => None
  | (k, v) :: t' => if str_eqb k s then Some v else slookup t' s
  end.

Record symtab := MkSym {
  st_usym : list (str * unit3);       (* Unit._by_symbol *)
  st_uname : list (str * unit3);      (* Unit._by_name *)
  st_psym : list (str * prefix)       (* Prefix._by_symbol *)
}.

(* the loop `for i in range(1, len(symbol))` of Unit.resolve_symbol, first success wins *)
Fixpoint split_from (tab : symtab) (pre rest : str) (fuel : nat) : option (res unit3) :=
  match fuel with
  | O => None
  | S f =>
      match rest with
      | [] => None
      | c :: rest' =>
          let pre' := pre ++ [c] in
          match rest' with
          | [] => None                               (* i ranges to len-1: the unit part is never empty *)
          | _ =>
              match slookup (st_psym tab) pre', slookup (st_usym tab) rest' with
              | Some p, Some u => Some (upre_mul p u)
              | _, _ => split_from tab pre' rest' f
              end
          end
      end
  end.

Inductive lookup_result := Found (u : res unit3) | KeyErr.

(* Unit.resolve_symbol *)
Definition resolve (tab : symtab) (s : str) : lookup_result :=
  match slookup (st_usym tab) s with
  | Some u => Found (Ok u)
  | None =>
      match split_from tab [] s (length s) with
      | Some r => Found r
      | None =>
          match slookup (st_uname tab) s with
          | Some u => Found (Ok u)
          | None => KeyErr
          end
      end
  end.

Inductive pres := POk (u : unit3) | PKeyError | PMixed | PFrac.

(* QuantityTransformer.term:  Unit.resolve_symbol(symbol) ** exponent *)
Definition eval_term (tab : symtab) (t : str * Z) : pres :=
  match resolve tab (fst t) with
  | KeyErr => PKeyError
  | Found (Ok u) => match upow u (snd t) with Ok r => POk r | _ => PMixed end
  | Found _ => PMixed
  end.

(* unit_sequence: reduce(operator.mul, terms) -- terms are evaluated left to right as they are reduced *)
Fixpoint eval_terms_from (tab : symtab) (acc : unit3) (l : list (str * Z)) : pres :=
  match l with
  | [] => POk acc
  | t :: l' =>
      match eval_term tab t with
      | POk u => match umul acc u with Ok r => eval_terms_from tab r l' | _ => PMixed end
      | e => e
      end
  end.

Definition eval_terms (tab : symtab) (l : list (str * Z)) : pres :=
  match l with
  | [] => PFrac                                      (* the grammar has no empty sequence *)
  | t :: l' => match eval_term tab t with POk u => eval_terms_from tab u l' | e => e end
  end.

(* unit: numerator / (denominator or One) *)
Definition eval_unit (tab : symtab) (num : list (str * Z)) (den : option (list (str * Z))) : pres :=
  match eval_terms tab num with
  | POk n =>
      match den with
      | None => match udiv n uone with Ok r => POk r | _ => PMixed end
      | Some d => match eval_terms tab d with
                  | POk dd => match udiv n dd with Ok r => POk r | _ => PMixed end
                  | e => e
                  end
      end
  | e => e
  end.

(* ---------- the printer ---------- *)
(* what the printer needs to know about the registry: the first symbol of a base unit / a unit, and
   the symbol of a prefix *)
Record printab := MkPrint {
  pt_unit_symbol : list (unit3 * str);        (* unit (by key) -> its first symbol, for units that have one *)
  pt_atom_symbol : list (positive * str);     (* base unit id -> its first symbol *)
  pt_prefix_symbol : list (prefix * str)
}.

Fixpoint ulookup {A} (t : list (unit3 * A)) (u : unit3) : option A :=
  match t with [] => None | (k, v) :: t' => if ukey_eqb k u then Some v else ulookup t' u end.
Fixpoint alookup {A} (t : list (positive * A)) (a : positive) : option A :=
  match t with [] => None | (k, v) :: t' => if Pos.eqb k a then Some v else alookup t' a end.
Fixpoint plookup {A} (t : list (prefix * A)) (p : prefix) : option A :=
  match t with [] => None | (k, v) :: t' => if bool_decide (k = p) then Some v else plookup t' p end.

Inductive printed :=
| PTerms (l : list (str * Z))        (* symbol text and exponent of every term, joined by the dot operator *)
| PLeadingMagnitude                  (* "1000 m²": the prefix could not be pushed into the first factor *)
| PNoPrefixSymbol                    (* "10⁴m": the pushed-down prefix has no symbol *)
| PNoSymbol.                         (* a factor without a symbol (cannot happen for registered base units) *)

(* unit_str: a unit that has a symbol prints as that symbol; otherwise the whole prefix is pushed into
   the first factor via prefix.root(exponent) *)
Definition print_terms (pt : printab) (u : unit3) (of : list (positive * Z)) : printed :=
  match ulookup (pt_unit_symbol pt) u with
  | Some s => PTerms [(s, 1)]
  | None =>
      match of with
      | [] => PNoSymbol
      | (a1, e1) :: rest =>
          match proot (upre u) e1 with
          | None => PLeadingMagnitude
          | Some q =>
              let psym := if bool_decide (q = pid) then Some [] else plookup (pt_prefix_symbol pt) q in
              match psym, alookup (pt_atom_symbol pt) a1 with
              | None, _ => PNoPrefixSymbol
              | _, None => PNoSymbol
              | Some ps, Some s1 =>
                  match fold_right (fun '(a, e) acc =>
                           match acc, alookup (pt_atom_symbol pt) a with
                           | Some l, Some s => Some ((s, e) :: l)
                           | _, _ => None
                           end) (Some []) rest with
                  | None => PNoSymbol
                  | Some l => PTerms ((ps ++ s1, e1) :: l)
                  end
              end
          end
      end
  end.
