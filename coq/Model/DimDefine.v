(* Dimension.define: a new fundamental dimension is appended and EVERY known dimension -- the new one included -- gets one more exponent
   slot; the intern table is re-keyed in place, in iteration order.  Exponent tuples are lists; an object is its position in the table. *)
From Coq Require Import List ZArith Bool.
Import ListNotations.
Local Open Scope Z_scope.

Record dstate := MkDS { fundamental : nat; dtable : list (list Z) }.

Definition ext (k : list Z) : list Z := k ++ [0].

(* cls(exponents) with [0]*index + [1] (or (0,) for the very first one, Number), then the re-keying loop over all known dimensions *)
Definition new_key (n : nat) : list Z := match n with O => [0] | _ => repeat 0 n ++ [1] end.
Definition define (s : dstate) : dstate :=
  MkDS (S (fundamental s)) (map ext (dtable s ++ [new_key (fundamental s)])).

(* product / quotient / power of dimensions: exponent-wise, on tuples of one length *)
Fixpoint zipw (f : Z -> Z -> Z) (a b : list Z) : list Z :=
  match a, b with x :: a', y :: b' => f x y :: zipw f a' b' | _, _ => [] end.
Definition dmul := zipw Z.add.
Definition ddiv := zipw Z.sub.
Definition dpow (a : list Z) (n : Z) : list Z := map (fun x => x * n) a.

Fixpoint index_of (k : list Z) (t : list (list Z)) : option nat :=
  match t with
  | [] => None
  | k' :: t' => if list_eq_dec Z.eq_dec k k' then Some O else option_map S (index_of k t')
  end.

(* what the class-level table looks like when only fundamental dimensions have been defined, n times *)
Fixpoint defines (n : nat) (s : dstate) : dstate := match n with O => s | S n' => define (defines n' s) end.
Definition dinit : dstate := MkDS 0 [].
