(* Memoisation of a function of the declarations made so far (functools.lru_cache around
   _find_path / _plan_conversion): queries are answered from the cache when present, computed and
   stored otherwise (only normal returns are stored: [cacheable]); a declaration appends to the
   declarations and -- when [clears] -- forgets the cache. *)
From Coq Require Import List Bool.
Import ListNotations.

Section Memo.
  Context {D K V : Type}.
  Variable keqb : K -> K -> bool.
  Variable f : list D -> K -> V.
  Variable cacheable : V -> bool.

  Record mstate := MkM { decls : list D; cache : list (K * V) }.

  Inductive mop := Declare (d : D) | Query (k : K).

  Fixpoint clookup (k : K) (c : list (K * V)) : option V :=
    match c with [] => None | (k', v) :: c' => if keqb k k' then Some v else clookup k c' end.

  Definition mstep (clears : bool) (s : mstate) (o : mop) : mstate * option V :=
    match o with
    | Declare d => (MkM (decls s ++ [d]) (if clears then [] else cache s), None)
    | Query k =>
        match clookup k (cache s) with
        | Some v => (s, Some v)
        | None => let v := f (decls s) k in
                  (MkM (decls s) (if cacheable v then (k, v) :: cache s else cache s), Some v)
        end
    end.

  Definition minit : mstate := MkM [] [].

  Fixpoint mrun (clears : bool) (s : mstate) (l : list mop) : mstate * list (option V) :=
    match l with
    | [] => (s, [])
    | o :: l' => let '(s', a) := mstep clears s o in
                 let '(s'', r) := mrun clears s' l' in (s'', a :: r)
    end.

  Definition declarations (l : list mop) : list D :=
    flat_map (fun o => match o with Declare d => [d] | Query _ => [] end) l.
End Memo.

Arguments MkM {D K V}.  Arguments Declare {D K}.  Arguments Query {D K}.
