(* kernel-side comparison of the registry machine with the implementation's snapshots *)
From stdpp Require Import gmap.
From Coq Require Import ZArith Lia.
From Measured Require Import Model.Registry.

(* what the implementation's registries looked like after an operation, as a difference from
   the state before it *)
Record rdiff := MkD {
  d_byn : list (key * option nat);          (* name bindings added / changed / removed *)
  d_bys : list (key * option nat);
  d_nm  : list (nat * list key);            (* objects whose names list changed *)
  d_sy  : list (nat * list key);
  d_count : nat                             (* number of objects in the intern table *)
}.

Definition upd {K V} `{Countable K} (m : gmap K V) (l : list (K * option V)) : gmap K V :=
  fold_left (fun m '(k, v) => match v with Some v => <[ k := v ]> m | None => delete k m end) l m.

Definition upd_lists (m : gmap nat (list key)) (l : list (nat * list key)) : gmap nat (list key) :=
  fold_left (fun m '(o, ks) => match ks with [] => delete o m | _ => <[ o := ks ]> m end) l m.

Definition apply_diff (r : reg) (d : rdiff) : reg :=
  MkR (upd (byn r) (d_byn d)) (upd (bys r) (d_bys d)) (upd_lists (nm r) (d_nm d)) (upd_lists (sy r) (d_sy d))
      (d_count d).

Definition reg_eqb (a b : reg) : bool :=
  bool_decide (byn a = byn b) && bool_decide (bys a = bys b) &&
  bool_decide (nm a = nm b) && bool_decide (sy a = sy b) && Nat.eqb (next a) (next b).

Definition out_eqb (a b : rout) : bool :=
  match a, b with
  | Done x, Done y => Nat.eqb x y
  | Raised, Raised => true
  | _, _ => false
  end.

(* run the model along the history; after every operation the model's state must be the
   implementation's state; returns the index of the first disagreement *)
Fixpoint first_mismatch (multi : bool) (r : reg) (i : nat) (l : list (rop * rout * rdiff)) : option nat :=
  match l with
  | [] => None
  | (op, out, d) :: l' =>
      let '(r', o) := rstep multi r op in
      if out_eqb o out && reg_eqb r' (apply_diff r d) then first_mismatch multi r' (S i) l' else Some i
  end.

(* boolean version of the registry invariant *)
Definition faithfulb (m : gmap key nat) (c : gmap nat (list key)) : bool :=
  bool_decide (map_Forall (fun k o => k ∈ default [] (c !! o)) m) &&
  bool_decide (map_Forall (fun o l => Forall (fun k => m !! k = Some o) l) c).

Definition rinvb (r : reg) : bool :=
  faithfulb (byn r) (nm r) && faithfulb (bys r) (sy r) &&
  bool_decide (map_Forall (fun o _ => o < next r) (nm r)) &&
  bool_decide (map_Forall (fun o _ => o < next r) (sy r)).
