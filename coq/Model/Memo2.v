(* Two memo tables in series, as in conversions.py: _find_path memoises the path found among the declared ratios (also "no path"),
   _plan_conversion memoises the plan built from that path.  A declaration is three separate source lines -- store the ratio, forget
   one table, forget the other -- and whole queries of other threads may run between any two of them. *)
From Coq Require Import List Bool.
Import ListNotations.

Section Memo2.
  Context {D K P V : Type}.
  Variable keqb : K -> K -> bool.
  Variable pf : list D -> K -> P.          (* the path search: a function of the declarations *)
  Variable g : P -> K -> V.                 (* the plan built from a path *)
  Variable cacheable : V -> bool.           (* a plan that raises is not stored *)

  Record state2 := MkS2 { decls2 : list D; pathc : list (K * P); planc : list (K * V) }.

  Inductive line := LStore (d : D) | LClearPath | LClearPlan | LQuery (k : K).

  Fixpoint lookup {A} (k : K) (c : list (K * A)) : option A :=
    match c with [] => None | (k', v) :: c' => if keqb k k' then Some v else lookup k c' end.

  Definition do_line (s : state2) (l : line) : state2 * option V :=
    match l with
    | LStore d => (MkS2 (decls2 s ++ [d]) (pathc s) (planc s), None)
    | LClearPath => (MkS2 (decls2 s) [] (planc s), None)
    | LClearPlan => (MkS2 (decls2 s) (pathc s) [], None)
    | LQuery k =>
        match lookup k (planc s) with
        | Some v => (s, Some v)
        | None =>
            let '(p, pc) := match lookup k (pathc s) with
                            | Some p => (p, pathc s)
                            | None => let p := pf (decls2 s) k in (p, (k, p) :: pathc s)
                            end in
            let v := g p k in
            (MkS2 (decls2 s) pc (if cacheable v then (k, v) :: planc s else planc s), Some v)
        end
    end.

  Fixpoint run_lines (s : state2) (ls : list line) : state2 * list (option V) :=
    match ls with
    | [] => (s, [])
    | l :: r => let '(s1, a) := do_line s l in let '(s2, o) := run_lines s1 r in (s2, a :: o)
    end.

  (* one declaration with other threads' queries in between: the ratios are stored line by line (equate stores two, translate four),
     then the two tables are forgotten; [path_first]: which table is forgotten first *)
  Definition store_lines (stores : list (D * list K)) : list line :=
    flat_map (fun dq => LStore (fst dq) :: map LQuery (snd dq)) stores.
  Definition declaration (path_first : bool) (stores : list (D * list K)) (q1 q2 : list K) : list line :=
    store_lines stores ++ [if path_first then LClearPath else LClearPlan] ++ map LQuery q1
    ++ [if path_first then LClearPlan else LClearPath] ++ map LQuery q2.

  (* the shape of a declaration as read from the source: which of its lines store, which forget which table *)
  Inductive dline := DStore | DForgetPath | DForgetPlan | DOther.
  Definition dline_eqb (a b : dline) : bool :=
    match a, b with DStore, DStore | DForgetPath, DForgetPath | DForgetPlan, DForgetPlan | DOther, DOther => true | _, _ => false end.
  (* stores first, then the paths are forgotten, then the plans; nothing is stored or forgotten after that *)
  Fixpoint after_plan (l : list dline) : bool :=
    match l with [] => true | DOther :: r => after_plan r | _ => false end.
  Fixpoint after_path (l : list dline) : bool :=
    match l with DOther :: r => after_path r | DForgetPlan :: r => after_plan r | _ => false end.
  Fixpoint stores_then_path_then_plan (l : list dline) : bool :=
    match l with
    | DStore :: r | DOther :: r => stores_then_path_then_plan r
    | DForgetPath :: r => after_path r
    | _ => false
    end.
End Memo2.

Arguments MkS2 {D K P V}.
Arguments dline : clear implicits.  Arguments LStore {D K}.  Arguments LClearPath {D K}.  Arguments LClearPlan {D K}.  Arguments LQuery {D K}.
