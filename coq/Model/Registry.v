(* Name / symbol registries of units, prefixes and dimensions as one generic machine.
   Objects are numbers; names and symbols are abstract keys.  [multi = true] is the unit
   registry (an object may collect several names, Unit.alias appends even a repeated one);
   [multi = false] is the prefix / dimension registry (one name and one symbol per object).
   Every operation validates first and mutates afterwards, as the code does. *)
From stdpp Require Import gmap.
From Coq Require Import ZArith Lia.

Notation key := positive.

Record reg := MkR {
  byn : gmap key nat;             (* _by_name *)
  bys : gmap key nat;             (* _by_symbol *)
  nm  : gmap nat (list key);      (* obj.names (or [name]) *)
  sy  : gmap nat (list key);      (* obj.symbols (or [symbol]) *)
  next : nat                      (* number of objects created *)
}.

Definition names (r : reg) (o : nat) : list key := default [] (nm r !! o).
Definition symbols (r : reg) (o : nat) : list key := default [] (sy r !! o).

Inductive rop :=
| New (n s : option key) (spaced : bool)              (* define / first declaration *)
| Name (o : nat) (n s : option key) (spaced : bool).  (* alias / derive / later declaration *)

Inductive rout := Done (o : nat) | Raised.

(* is key k bound to an object other than o?  (o = None: the object does not exist yet) *)
Definition taken (m : gmap key nat) (k : option key) (o : option nat) : bool :=
  match k with
  | None => false
  | Some k => match m !! k, o with
              | None, _ => false
              | Some _, None => true
              | Some o', Some o => negb (Nat.eqb o' o)
              end
  end.

(* single mode: the object already has a different name *)
Definition renames (l : list key) (k : option key) : bool :=
  match k, l with
  | Some k, k' :: _ => negb (Pos.eqb k k')
  | _, _ => false
  end.

Definition add_key (multi : bool) (l : list key) (k : key) : list key :=
  if multi then l ++ [k] else match l with [] => [k] | _ => l end.

Definition bind1 (multi : bool) (m : gmap key nat) (c : gmap nat (list key)) (o : nat) (k : option key)
  : gmap key nat * gmap nat (list key) :=
  match k with
  | None => (m, c)
  | Some k => (<[ k := o ]> m, <[ o := add_key multi (default [] (c !! o)) k ]> c)
  end.

Definition rstep (multi : bool) (r : reg) (op : rop) : reg * rout :=
  match op with
  | New n s spaced =>
      if taken (byn r) n None || taken (bys r) s None || (spaced && bool_decide (is_Some s)) then (r, Raised)
      else
        let o := next r in
        let '(bn, cn) := bind1 multi (byn r) (nm r) o n in
        let '(bs, cs) := bind1 multi (bys r) (sy r) o s in
        (MkR bn bs cn cs (S o), Done o)
  | Name o n s spaced =>
      if negb (Nat.ltb o (next r)) then (r, Raised)
      else if taken (byn r) n (Some o) || taken (bys r) s (Some o) || (spaced && bool_decide (is_Some s))
              || (negb multi && (renames (names r o) n || renames (symbols r o) s)) then (r, Raised)
      else
        let '(bn, cn) := bind1 multi (byn r) (nm r) o n in
        let '(bs, cs) := bind1 multi (bys r) (sy r) o s in
        (MkR bn bs cn cs (next r), Done o)
  end.

Definition rempty : reg := MkR ∅ ∅ ∅ ∅ O.

Definition rrun (multi : bool) (r : reg) (l : list rop) : reg := fold_left (fun r o => fst (rstep multi r o)) l r.
