(* Uncertainty formulas of measured.Measurement as expression trees: the radicand under the
   math.sqrt(...) of each operator, over the four scalars x, sigma_x, y, sigma_y (magnitudes in
   compatible units).  evalQ runs them on exact rationals (correspondence on squares), evalR gives
   their meaning over the reals (theorems). *)
From Coq Require Import ZArith QArith Qabs Reals List.
Import ListNotations.

Inductive mvar := VX | VSX | VY | VSY.

Inductive rexpr :=
| RVar (v : mvar)
| RConst (z : Z)
| RAdd (a b : rexpr)
| RSub (a b : rexpr)
| RMul (a b : rexpr)
| RDiv (a b : rexpr)
| RPow (a : rexpr) (n : Z).

Fixpoint rexpr_eqb (a b : rexpr) : bool :=
  match a, b with
  | RVar v, RVar w => match v, w with VX, VX | VSX, VSX | VY, VY | VSY, VSY => true | _, _ => false end
  | RConst x, RConst y => Z.eqb x y
  | RAdd a1 a2, RAdd b1 b2 | RSub a1 a2, RSub b1 b2 | RMul a1 a2, RMul b1 b2 | RDiv a1 a2, RDiv b1 b2 =>
      andb (rexpr_eqb a1 b1) (rexpr_eqb a2 b2)
  | RPow a1 n, RPow b1 m => andb (rexpr_eqb a1 b1) (Z.eqb n m)
  | _, _ => false
  end.

Fixpoint evalQ (env : mvar -> Q) (e : rexpr) : Q :=
  match e with
  | RVar v => env v
  | RConst z => inject_Z z
  | RAdd a b => evalQ env a + evalQ env b
  | RSub a b => evalQ env a - evalQ env b
  | RMul a b => evalQ env a * evalQ env b
  | RDiv a b => evalQ env a / evalQ env b
  | RPow a n => Qpower (evalQ env a) n
  end%Q.

Fixpoint evalR (env : mvar -> R) (e : rexpr) : R :=
  match e with
  | RVar v => env v
  | RConst z => IZR z
  | RAdd a b => evalR env a + evalR env b
  | RSub a b => evalR env a - evalR env b
  | RMul a b => evalR env a * evalR env b
  | RDiv a b => evalR env a / evalR env b
  | RPow a n => powerRZ (evalR env a) n
  end%R.

(* the radicands, as written in Measurement.__add__/__sub__, __mul__, __truediv__ (through
   _join_uncertainties) and __pow__ *)
Definition rad_addsub : rexpr := RAdd (RPow (RVar VSX) 2) (RPow (RVar VSY) 2).
Definition rad_join (this_sens other_sens : rexpr) : rexpr :=
  RAdd (RPow (RMul this_sens (RVar VSX)) 2) (RPow (RMul other_sens (RVar VSY)) 2).
Definition rad_mul : rexpr := rad_join (RVar VY) (RVar VX).
Definition rad_div : rexpr :=
  rad_join (RDiv (RConst 1) (RVar VY)) (RDiv (RDiv (RVar VX) (RVar VY)) (RVar VY)).
Definition rad_pow (n : Z) : rexpr :=
  RPow (RMul (RConst n) (RMul (RPow (RVar VX) (n - 1)) (RVar VSX))) 2.

Definition envQ (x sx y sy : Q) (v : mvar) : Q := match v with VX => x | VSX => sx | VY => y | VSY => sy end.
Definition envR (x sx y sy : R) (v : mvar) : R := match v with VX => x | VSX => sx | VY => y | VSY => sy end.

(* the operators on measurands (plain quantity arithmetic) *)
Inductive mop := MAdd | MSub | MMul | MDiv | MPow (n : Z).

Definition radicand (op : mop) : rexpr :=
  match op with
  | MAdd | MSub => rad_addsub
  | MMul => rad_mul
  | MDiv => rad_div
  | MPow n => if Z.eqb n 0 then RConst 0 else rad_pow n
  end.

Definition measurandQ (op : mop) (x y : Q) : Q :=
  match op with MAdd => x + y | MSub => x - y | MMul => x * y | MDiv => x / y | MPow n => Qpower x n end%Q.

(* one correspondence case: the implementation's measurand and uncertainty (exact rationals of the
   floats); compared on squares, relative tolerance tol *)
Record mcase := MkM { m_op : mop; m_x : Q; m_sx : Q; m_y : Q; m_sy : Q; m_val : Q; m_unc : Q }.

Definition Qclose (tol a b : Q) : bool := Qle_bool (Qabs (a - b)) (tol * Qabs b).

(* sums and differences are judged at the scale of their operands: x - x of two equal readings, one of them converted there and back, is
   a rounding residue of that scale and not exactly 0 *)
Definition val_scale (op : mop) (x y w : Q) : Q :=
  match op with MAdd | MSub => Qabs x + Qabs y + Qabs w | _ => Qabs w end.

Definition mcase_ok (tol : Q) (c : mcase) : bool :=
  andb (let w := measurandQ (m_op c) (m_x c) (m_y c) in Qle_bool (Qabs (m_val c - w)) (tol * val_scale (m_op c) (m_x c) (m_y c) w))
  (andb (Qle_bool 0 (m_unc c))
        (let want := evalQ (envQ (m_x c) (m_sx c) (m_y c) (m_sy c)) (radicand (m_op c)) in
         let got := (m_unc c * m_unc c)%Q in
         (* absolute slack relative to the largest term avoids 0 = 0 * (1 +- tol) problems *)
         Qle_bool (Qabs (got - want)) (tol * (Qabs want + Qabs got)))).
