(* kernel-side comparison of the quantity-dispatch model with the implementation *)
From stdpp Require Import gmap.
From Coq Require Import ZArith QArith Qabs Lia.
From Measured Require Import Model.FMap Model.Units Model.Quantity.
Local Open Scope Z_scope.

(* conversion oracle as a table over unprefixed factor maps: (from, to, size(from)/size(to)) *)
Definition convtbl := list (fmap * fmap * Q).

Fixpoint conv_of (t : convtbl) (a b : unit3) : option Q :=
  match t with
  | [] => None
  | (x, y, r) :: t' => if feqb (ufac a) x && feqb (ufac b) y then Some r else conv_of t' a b
  end.

(* identical unprefixed units always convert with factor 1 *)
Definition conv_tbl (t : convtbl) (a b : unit3) : option Q :=
  if feqb (ufac a) (ufac b) then Some 1%Q else conv_of t a b.

Inductive expected :=
| XQty (k : kind) (m : Q) (u : unit3)
| XQtyNoMag (k : option kind) (u : unit3)      (* magnitude not compared (irrational: roots) *)
| XUnit (u : unit3)
| XPrefix (p : prefix)
| XBool (b : bool)
| XErr (e : err)
| XOtherErr.

Definition kind_eqb (a b : kind) : bool :=
  match a, b with KInt, KInt | KFloat, KFloat | KDec, KDec => true | _, _ => false end.
Definition err_eqb (a b : err) : bool :=
  match a, b with
  | ETypeError, ETypeError | ECNF, ECNF | EFrac, EFrac | EZeroDiv, EZeroDiv | EMixed, EMixed => true
  | _, _ => false
  end.

(* |a - b| <= tol * |b| *)
Definition close (tol a b : Q) : bool := Qle_bool (Qabs (a - b)) (tol * Qabs b).

Definition tol_of (k : kind) : Q :=
  match k with KInt => 0 | KFloat => 1 # 1000000000 | KDec => 1 # 1000000000 end.

(* ref: an absolute reference added to |model value| in the tolerance (the left operand's magnitude for
   + and -, where the result may cancel to zero and only rounding noise of the operands' size is left) *)
Definition close_ref (tol ref a b : Q) : bool := Qle_bool (Qabs (a - b)) (tol * (Qabs b + ref)).

Definition matches_ref (ref : Q) (o : outcome) (x : expected) : bool :=
  match o, x with
  | Val (VQty q), XQty k m u => kind_eqb (qk q) k && close_ref (tol_of k) ref m (qm q) && bool_decide (qu q = u)
  | Val (VQty q), XQtyNoMag k u =>
      match k with Some k => kind_eqb (qk q) k | None => true end && bool_decide (qu q = u)
  | Val (VUnit u), XUnit v => bool_decide (u = v)
  | Val (VPrefix p), XPrefix q => bool_decide (p = q)
  | Bool a, XBool b => Bool.eqb a b
  | Err e, XErr e' => err_eqb e e'
  | _, _ => false
  end.
Definition matches := matches_ref 0.

Definition addsub_ref (op : bop) (l : value) : Q :=
  match op, l with
  | OpAdd, VQty q | OpSub, VQty q => Qabs (qm q)
  | _, _ => 0
  end.

Inductive qcase :=
| CBin (op : bop) (l r : value) (x : expected)
| CCmp (op : cmpop) (l r : value) (x : expected)
| CPow (q : qty) (n : Z) (x : expected)
| CRoot (q : qty) (n : Z) (x : expected)
| CInUnit (q : qty) (t : unit3) (x : expected).

Definition q_root_shape (q : qty) (n : Z) : outcome :=
  if Z.eqb n 0 then Val (VQty (MkQty KInt 1 uone))
  else if is_zero (qm q) && Z.ltb n 0 then Err EZeroDiv     (* the magnitude is raised to 1/n before the unit's root is taken *)
  else of_res (uroot (qu q) n) (fun u => Val (VQty (MkQty (kjoin (qk q) KFloat) 0 u))).

Definition run_case (t : convtbl) (c : qcase) : bool :=
  match c with
  | CBin op l r x => matches_ref (addsub_ref op l) (binop (conv_tbl t) op l r) x
  | CCmp op l r x => matches (compare (conv_tbl t) op l r) x
  | CPow q n x => matches (q_pow q n) x
  | CRoot q n x => matches (q_root_shape q n) x
  | CInUnit q u x => matches (in_unit (conv_tbl t) q u) x
  end.
