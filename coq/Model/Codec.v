(* The library's JSON representation of dimensions, prefixes and units (Dimension/Prefix/Unit.__json__ and
   __from_json__ in measured/__init__.py, the same dictionaries the pydantic schemas use), as documents over a
   small JSON datatype, against the interning registry of Model/Intern.v.

   - a document is what json.dumps sees: objects with the keys the code reads or writes, arrays, integers,
     null, the "__measured__" tag and *names* (strings are only ever compared or looked up, so a name is an
     opaque identifier; the harness numbers the strings of Unit._by_name);
   - fields no decoder reads ("symbol", a dimension's / prefix's "name") are not part of the model document;
     the harness checks that __from_json__ does not read them (struct scan) and drops them when it converts
     the implementation's documents;
   - a unit whose factors are ((self, 1),) -- every unit made by Unit.define / derive -- is written by name and
     read back through Unit._by_name; every other unit is written as prefix + [[factor, exponent] ...] +
     dimension and read back through the Unit constructor, i.e. interned by (prefix, factors);
   - One is the leaf whose factor map is empty in Model/Units.v (Python: {One: 1}). *)
From stdpp Require Import gmap.
From Coq Require Import ZArith Lia.
From Measured Require Import Model.FMap Model.Units Model.Intern.
Local Open Scope Z_scope.

Inductive jkey := KTag | KName | KDim | KPrefix | KFactors | KBase | KExp | KExps.
Inductive jtag := TDimension | TPrefix | TUnit.
Inductive json :=
| JNull
| JInt (z : Z)
| JTag (t : jtag)
| JName (n : positive)
| JArr (l : list json)
| JObj (fs : list (jkey * json)).

Definition jkey_eqb (a b : jkey) : bool :=
  match a, b with
  | KTag, KTag | KName, KName | KDim, KDim | KPrefix, KPrefix | KFactors, KFactors
  | KBase, KBase | KExp, KExp | KExps, KExps => true
  | _, _ => false
  end.
Definition jtag_eqb (a b : jtag) : bool :=
  match a, b with TDimension, TDimension | TPrefix, TPrefix | TUnit, TUnit => true | _, _ => false end.

(* dictionary access json_object[k]: the first binding (documents written by the encoder have no duplicate keys) *)
Fixpoint jget (k : jkey) (fs : list (jkey * json)) : option json :=
  match fs with
  | [] => None
  | (k', v) :: r => if jkey_eqb k k' then Some v else jget k r
  end.

Fixpoint json_eqb (a b : json) {struct a} : bool :=
  match a, b with
  | JNull, JNull => true
  | JInt x, JInt y => Z.eqb x y
  | JTag x, JTag y => jtag_eqb x y
  | JName x, JName y => Pos.eqb x y
  | JArr l, JArr m =>
      (fix go (l m : list json) : bool :=
         match l, m with
         | [], [] => true
         | x :: l', y :: m' => json_eqb x y && go l' m'
         | _, _ => false
         end) l m
  | JObj l, JObj m =>
      (fix go (l m : list (jkey * json)) : bool :=
         match l, m with
         | [], [] => true
         | (k, x) :: l', (k', y) :: m' => jkey_eqb k k' && json_eqb x y && go l' m'
         | _, _ => false
         end) l m
  | _, _ => false
  end.

(* ---------------------------------------------------------------- dimensions: the tuple of exponents *)

(* exponents of the fundamental dimensions i, i+1, ..., i+n-1 *)
Fixpoint exps_from (i : positive) (n : nat) (d : fmap) : list Z :=
  match n with
  | O => []
  | S n' => get d i :: exps_from (Pos.succ i) n' d
  end.

Fixpoint of_exps_from (i : positive) (zs : list Z) : fmap :=
  match zs with
  | [] => ∅
  | z :: r => let m := of_exps_from (Pos.succ i) r in if Z.eqb z 0 then m else <[ i := z ]> m
  end.

Definition enc_dim (nd : nat) (d : fmap) : json :=
  JObj [(KTag, JTag TDimension); (KExps, JArr (map JInt (exps_from 1 nd d)))].

Fixpoint ints (l : list json) : option (list Z) :=
  match l with
  | [] => Some []
  | JInt z :: r => option_map (cons z) (ints r)
  | _ :: _ => None
  end.

Inductive dres (A : Type) := DOk (a : A) | DKeyError | DOutOfModel.
Arguments DOk {A} _. Arguments DKeyError {A}. Arguments DOutOfModel {A}.

Definition dbind {A B} (r : dres A) (f : A -> dres B) : dres B :=
  match r with DOk a => f a | DKeyError => DKeyError | DOutOfModel => DOutOfModel end.

(* Dimension.__from_json__: Dimension(tuple(json_object["exponents"])); a tuple of another length would be a
   different (malformed) Dimension object: outside the model *)
Definition dec_dim (nd : nat) (j : json) : dres fmap :=
  match j with
  | JObj fs =>
      match jget KExps fs with
      | None => DKeyError
      | Some (JArr l) =>
          match ints l with
          | Some zs => if Nat.eqb (length zs) nd then DOk (of_exps_from 1 zs) else DOutOfModel
          | None => DOutOfModel
          end
      | Some _ => DOutOfModel
      end
  | _ => DOutOfModel
  end.

(* ---------------------------------------------------------------- prefixes *)

Definition enc_prefix (p : prefix) : json :=
  JObj [(KTag, JTag TPrefix); (KBase, JInt (pbase p)); (KExp, JInt (pexp p))].

(* Prefix.__from_json__: Prefix(json_object["base"], json_object["exponent"]) *)
Definition dec_prefix (j : json) : dres prefix :=
  match j with
  | JObj fs =>
      match jget KBase fs, jget KExp fs with
      | None, _ | _, None => DKeyError
      | Some (JInt b), Some (JInt e) => DOk (mkp b e)
      | _, _ => DOutOfModel
      end
  | _ => DOutOfModel
  end.

(* ---------------------------------------------------------------- units *)

(* the registry the decoder consults: the intern table, Unit._by_name as name -> handle, each leaf's own name,
   the name under which One is registered, and the number of fundamental dimensions *)
Record creg := MkCR {
  c_tbl : table;
  c_byname : list (positive * nat);
  c_nameof : list (positive * positive);     (* base id -> the name written for it *)
  c_one : positive;
  c_nd : nat;
  c_cnames : list (positive * positive) }.    (* handle + 1 -> name, for named units that are not leaves (Hertz = s^-1) *)

Fixpoint aget {A} (k : positive) (l : list (positive * A)) : option A :=
  match l with
  | [] => None
  | (k', v) :: r => if Pos.eqb k k' then Some v else aget k r
  end.

Inductive leaf := LOne | LBase (i : positive).
Global Instance leaf_eq_dec : EqDecision leaf.
Proof. solve_decision. Defined.

(* which leaf a stored unit is: identity prefix and factor map {i: 1} (a base unit) or empty (One) *)
Definition leaf_of (x : unit3) : option leaf :=
  if bool_decide (upre x = pid) then
    match map_to_list (ufac x) with
    | [] => Some LOne
    | [(i, 1)] => Some (LBase i)
    | _ => None
    end
  else None.

Definition leaf_name (r : creg) (l : leaf) : option positive :=
  match l with LOne => Some (c_one r) | LBase i => aget i (c_nameof r) end.

Definition jname (o : option positive) : json := match o with Some n => JName n | None => JNull end.

Definition enc_leaf (r : creg) (l : leaf) (d : fmap) : json :=
  JObj [(KTag, JTag TUnit); (KName, jname (leaf_name r l)); (KDim, enc_dim (c_nd r) d); (KPrefix, JNull); (KFactors, JNull)].

Definition base_dim (r : creg) (i : positive) : fmap :=
  match find (fun x => bool_decide (leaf_of x = Some (LBase i))) (c_tbl r) with
  | Some x => udim x
  | None => ∅
  end.

(* Unit.__json__ (after 1df1998: every prefix but the identity prefix is written) *)
Definition enc_unit (r : creg) (x : unit3) : json :=
  match leaf_of x with
  | Some l => enc_leaf r l (udim x)
  | None =>
      JObj [(KTag, JTag TUnit);
            (KName, jname (match find_key x (c_tbl r) with Some h => aget (Pos.of_succ_nat h) (c_cnames r) | None => None end));
            (KDim, enc_dim (c_nd r) (udim x));
            (KPrefix, if bool_decide (upre x = pid) then JNull else enc_prefix (upre x));
            (KFactors, JArr (match map_to_list (ufac x) with
                            | [] => [JArr [enc_leaf r LOne ∅; JInt 1]]
                            | l => map (fun '(i, e) => JArr [enc_leaf r (LBase i) (base_dim r i); JInt e]) l
                            end))]
  end.

(* a document written by name: cls._by_name[json_object["name"]] *)
Definition dec_byname (r : creg) (fs : list (jkey * json)) : dres nat :=
  match jget KName fs with
  | Some (JName n) => match aget n (c_byname r) with Some h => DOk h | None => DKeyError end
  | Some JNull => DKeyError
  | None => DKeyError
  | Some _ => DOutOfModel
  end.

Definition falsy (j : json) : bool := match j with JNull | JArr [] => true | _ => false end.

(* one [unit, exponent] entry: the unit document must denote a leaf (the encoder writes nothing else; a nested
   compound factor would make a unit whose factors are not base units: outside the model) *)
Definition dec_factor (r : creg) (j : json) : dres (leaf * Z) :=
  match j with
  | JArr [JObj fs; JInt e] =>
      match jget KFactors fs with
      | None => DKeyError
      | Some f =>
          if falsy f then
            dbind (dec_byname r fs) (fun h =>
              match nth_error (c_tbl r) h with
              | Some x => match leaf_of x with Some l => DOk (l, e) | None => DOutOfModel end
              | None => DOutOfModel
              end)
          else DOutOfModel
      end
  | _ => DOutOfModel
  end.

(* the dict comprehension {unit: exponent for ...}: later entries overwrite earlier ones; zero exponents and a
   One factor next to others are outside the model (never written) *)
Fixpoint dec_factors (r : creg) (items : list json) (acc : fmap) (ones : nat) : dres (fmap * nat) :=
  match items with
  | [] => DOk (acc, ones)
  | j :: rest =>
      dbind (dec_factor r j) (fun le =>
        match le with
        | (LOne, e) => if Z.eqb e 1 then dec_factors r rest acc (S ones) else DOutOfModel
        | (LBase i, e) => if Z.eqb e 0 then DOutOfModel else dec_factors r rest (<[ i := e ]> acc) ones
        end)
  end.

(* Unit.__from_json__; the result is the registry's table after the constructor ran, and the handle returned *)
Definition dec_unit (r : creg) (j : json) : dres (table * nat) :=
  match j with
  | JObj fs =>
      match jget KFactors fs with
      | None => DKeyError
      | Some f =>
          if falsy f then dbind (dec_byname r fs) (fun h => DOk (c_tbl r, h))
          else
            match f with
            | JArr items =>
                match jget KPrefix fs with
                | None => DKeyError
                | Some pj =>
                    dbind (match pj with JNull => DOk pid | _ => dec_prefix pj end) (fun p =>
                    dbind (dec_factors r items ∅ O) (fun fo =>
                    let '(fm, ones) := fo in
                    if negb (Nat.eqb ones O) && negb (bool_decide (fm = ∅) && Nat.eqb ones 1) then DOutOfModel
                    else
                    match jget KDim fs with
                    | None => DKeyError
                    | Some dj =>
                        dbind (dec_dim (c_nd r) dj) (fun d =>
                          let '(t', h) := intern (c_tbl r) (MkU p fm d) in DOk (t', h))
                    end))
                end
            | _ => DOutOfModel
            end
      end
  | _ => DOutOfModel
  end.

(* ---------------------------------------------------------------- what the round trip needs of a registry *)

(* every name the encoder writes leads back to the very unit it was written for *)
Definition names_faithful (r : creg) : Prop :=
  (forall h x l n, nth_error (c_tbl r) h = Some x -> leaf_of x = Some l -> leaf_name r l = Some n ->
                   aget n (c_byname r) = Some h) /\
  (forall h x l, nth_error (c_tbl r) h = Some x -> leaf_of x = Some l -> exists n, leaf_name r l = Some n).

(* every base unit that occurs as a factor of a stored unit is itself stored (factors are Unit objects) *)
Definition factors_stored (r : creg) : Prop :=
  forall h x i e, nth_error (c_tbl r) h = Some x -> ufac x !! i = Some e ->
                  exists hb b, nth_error (c_tbl r) hb = Some b /\ leaf_of b = Some (LBase i).
Definition one_stored (r : creg) : Prop :=
  exists h b, nth_error (c_tbl r) h = Some b /\ leaf_of b = Some LOne.

(* dimensions are tuples of c_nd exponents *)
Definition dim_fits (nd : nat) (d : fmap) : Prop :=
  wf d /\ forall k, is_Some (d !! k) -> (Pos.to_nat k <= nd)%nat.

Definition stored_ok (r : creg) : Prop :=
  forall h x, nth_error (c_tbl r) h = Some x -> wf (ufac x) /\ dim_fits (c_nd r) (udim x) /\ pcanon (upre x).

(* boolean forms, evaluated on the exported registry at every run *)
Definition names_faithfulb (r : creg) : bool :=
  forallb (fun hx : nat * unit3 =>
    match leaf_of (snd hx) with
    | None => true
    | Some l => match leaf_name r l with
                | Some n => match aget n (c_byname r) with Some h' => Nat.eqb h' (fst hx) | None => false end
                | None => false
                end
    end) (combine (seq 0 (length (c_tbl r))) (c_tbl r)).

Definition pcanonb (p : prefix) : bool :=
  if Z.eqb (pbase p) 0 then Z.eqb (pexp p) 0 else negb (Z.eqb (pexp p) 0).

Definition factors_storedb (r : creg) : bool :=
  forallb (fun x => forallb (fun ie : positive * Z =>
     existsb (fun b => bool_decide (leaf_of b = Some (LBase (fst ie)))) (c_tbl r)) (map_to_list (ufac x))) (c_tbl r).
Definition one_storedb (r : creg) : bool :=
  existsb (fun b => bool_decide (leaf_of b = Some LOne)) (c_tbl r).
Definition stored_okb (r : creg) : bool :=
  forallb (fun x =>
     forallb (fun ie : positive * Z => negb (Z.eqb (snd ie) 0)) (map_to_list (ufac x))
     && forallb (fun ie : positive * Z => negb (Z.eqb (snd ie) 0) && Nat.leb (Pos.to_nat (fst ie)) (c_nd r)) (map_to_list (udim x))
     && pcanonb (upre x)) (c_tbl r).
Definition keys_uniqueb (t : table) : bool :=
  (fix go (t : table) : bool :=
     match t with
     | [] => true
     | x :: t' => forallb (fun y => negb (ukey_eqb x y)) t' && go t'
     end) t.

(* documents are compared up to the order of the factor entries (Python orders them by id()) *)
Definition entry_key (j : json) : positive :=
  match j with
  | JArr (JObj fs :: _) => match jget KName fs with Some (JName n) => n | _ => 1%positive end
  | _ => 1%positive
  end.
Fixpoint jinsert (j : json) (l : list json) : list json :=
  match l with
  | [] => [j]
  | x :: r => if Pos.leb (entry_key j) (entry_key x) then j :: l else x :: jinsert j r
  end.
Definition jsort (l : list json) : list json := fold_right jinsert [] l.
Definition jnorm (j : json) : json :=
  match j with
  | JObj fs => JObj (map (fun kv : jkey * json =>
                 match kv with
                 | (KFactors, JArr l) => (KFactors, JArr (jsort l))
                 | _ => kv
                 end) fs)
  | _ => j
  end.

(* ---------------------------------------------------------------- pickle / copy of a unit
   pickle, copy and deepcopy rebuild an object as cls.__new__(cls, *newargs) followed by the application of the pickled
   state (the slots: prefix, factors, dimension, names, symbols).  __new__ interns by (prefix, factors); since 36300c5
   __setstate__ leaves an object that is already initialised alone.  `guarded` is that guard (false = the code before
   the repair, where the pickled names overwrote the live object's). *)
Record preg := MkPR { p_tbl : table; p_names : list (list positive) }.    (* names (and symbols) of each handle *)
Record pdoc := MkPD { pd_args : unit3; pd_names : list positive }.

Definition pdump (r : preg) (h : nat) : option pdoc :=
  match nth_error (p_tbl r) h, nth_error (p_names r) h with
  | Some x, Some ns => Some (MkPD x ns)
  | _, _ => None
  end.

Fixpoint set_nth {A} (l : list A) (n : nat) (x : A) : list A :=
  match l, n with
  | [], _ => []
  | _ :: t, O => x :: t
  | y :: t, S n' => y :: set_nth t n' x
  end.

Definition pload (guarded : bool) (r : preg) (d : pdoc) : preg * nat :=
  match find_key (pd_args d) (p_tbl r) with
  | Some h => if guarded then (r, h) else (MkPR (p_tbl r) (set_nth (p_names r) h (pd_names d)), h)
  | None => (MkPR (p_tbl r ++ [pd_args d]) (p_names r ++ [pd_names d]), length (p_tbl r))
  end.

(* declaring a further name for handle h (Unit.alias / derive) *)
Definition pname (r : preg) (h : nat) (n : positive) : preg :=
  match nth_error (p_names r) h with
  | Some ns => MkPR (p_tbl r) (set_nth (p_names r) h (ns ++ [n]))
  | None => r
  end.
