(* Kernel-side differential check: run the model on the operations the implementation ran and
   compare every outcome (result triple, error class, object identity). *)
From stdpp Require Import gmap.
From Coq Require Import ZArith Lia.
From Measured Require Import Model.FMap Model.Units Model.Intern.
Local Open Scope Z_scope.


(* what the implementation reported for one operation *)
Inductive outcome :=
| OUnit (u : unit3) (oid : nat)     (* result triple and the identity class of the object *)
| OMixedUnit (oid : nat)            (* a unit whose prefix has a non-integer exponent *)
| OFrac                             (* FractionalDimensionError *)
| OOther.                           (* any other exception *)

Definition step_out (s : state) (o : op) : state * sres :=
  match o with
  | Define id d =>
      if bool_decide (id ∈ ids (s_env s)) then (s, FracErr)
      else let '(t, h) := intern (s_tbl s) (MkU pid {[ id := 1 ]} d) in
           (MkS t ((id, d) :: s_env s), Ok h)
  | Eval e => let '(t, r) := seval (s_env s) (s_tbl s) e in (MkS t (s_env s), r)
  end.

Fixpoint assoc (k : nat) (l : list (nat * nat)) : option nat :=
  match l with [] => None | (a, b) :: l' => if Nat.eqb a k then Some b else assoc k l' end.
Fixpoint rassoc (k : nat) (l : list (nat * nat)) : option nat :=
  match l with [] => None | (a, b) :: l' => if Nat.eqb b k then Some a else rassoc k l' end.

(* identity classes: implementation object id <-> model handle must be a bijection *)
Definition bind_id (oid h : nat) (m : list (nat * nat)) : option (list (nat * nat)) :=
  match assoc oid m, rassoc h m with
  | Some h', _ => if Nat.eqb h h' then Some m else None
  | None, Some _ => None
  | None, None => Some ((oid, h) :: m)
  end.

Fixpoint check_ops (s : state) (m : list (nat * nat)) (l : list (op * outcome)) : bool :=
  match l with
  | [] => true
  | (o, exp) :: l' =>
      let '(s', r) := step_out s o in
      match r, exp with
      | Ok h, OUnit u oid =>
          match nth_error (s_tbl s') h with
          | Some v =>
              if bool_decide (v = u) then
                match bind_id oid h m with
                | Some m' => check_ops s' m' l'
                | None => false
                end
              else false
          | None => false
          end
      | MixedBase, OMixedUnit _ => check_ops s' m l'
      | FracErr, OFrac => check_ops s' m l'
      | _, _ => false
      end
  end.

Definition check_history (bd : env) (l : list (op * outcome)) : bool :=
  check_ops (MkS [uone] bd) [] l.

Fixpoint mismatches_from {A} (f : A -> bool) (i : nat) (l : list A) : list nat :=
  match l with
  | [] => []
  | x :: l' => if f x then mismatches_from f (S i) l' else i :: mismatches_from f (S i) l'
  end.

Definition mismatches {A} (f : A -> bool) (l : list A) : list nat := mismatches_from f O l.
