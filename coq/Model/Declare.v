(* The stores of conversions.equate as data: each `_ratios[X.unit][Y.unit] = _div(P.magnitude, Q.magnitude)` of the source is
   one (X, Y, P, Q) with X, Y, P, Q naming the (unprefixed) operands a or b.  The per-run translator (harness/c08.py, Gen_eqshape)
   reads the list off the source; equate_of runs it; Proofs/EquateFacts.v shows the shipped list is Model.Convert.equate. *)
From Coq Require Import QArith List.
From Measured Require Import Model.Units Model.Convert.
Import ListNotations.
Local Open Scope Q_scope.

Inductive side := SA | SB.
Definition store_shape := (side * side * side * side)%type.

Definition pick {A} (s : side) (a b : A) : A := match s with SA => a | SB => b end.

Definition do_store (ma : Q) (a : unit3) (mb : Q) (b : unit3) (t : table) (s : store_shape) : table :=
  let '(x, y, p, q) := s in tset t (pick x a b) (pick y a b) (pick p ma mb / pick q ma mb).

Definition equate_of (stores : list store_shape) (t : table) (ma : Q) (a : unit3) (mb : Q) (b : unit3) : table :=
  fold_left (do_store ma a mb b) stores t.

Definition side_eqb (s s' : side) : bool := match s, s' with SA, SA | SB, SB => true | _, _ => false end.
Definition shape_eqb (s s' : store_shape) : bool :=
  let '(x, y, p, q) := s in let '(x', y', p', q') := s' in
  side_eqb x x' && side_eqb y y' && side_eqb p p' && side_eqb q q'.
Fixpoint shapes_eqb (l l' : list store_shape) : bool :=
  match l, l' with [] , [] => true | s :: l, s' :: l' => shape_eqb s s' && shapes_eqb l l' | _, _ => false end.

(* the shipped shape: _ratios[a][b] = b.m / a.m ; _ratios[b][a] = a.m / b.m *)
Definition shipped_stores : list store_shape := [(SA, SB, SB, SA); (SB, SA, SA, SB)].
