(* The stores of conversions.equate as data: each `_ratios[X.unit][Y.unit] = _div(P.magnitude, Q.magnitude)` of the source is
   one (X, Y, P, Q) with X, Y, P, Q naming the (unprefixed) operands a or b.  The per-run translator (harness/c08.py, Gen_eqshape)
   reads the list off the source; equate_of runs it; Proofs/EquateFacts.v shows the shipped list is Model.Convert.equate. *)
From Coq Require Import QArith Qabs List Bool.
From Measured Require Import Model.Units Model.Convert.
Import ListNotations.
Local Open Scope Q_scope.

Inductive side := SA | SB.
Definition store_shape := (side * side * side * side)%type.

Definition pick {A} (s : side) (a b : A) : A := match s with SA => a | SB => b end.

Definition do_store (ma : Q) (a : unit3) (mb : Q) (b : unit3) (t : table) (s : store_shape) : table :=
  let '(x, y, p, q) := s in tset t (pick x a b) (pick y a b) (pick p ma mb / pick q ma mb).

Definition equate_of (stores : list store_shape) (t : table) (ma : Q) (a : unit3) (mb : Q) (b : unit3) : table :=
  fold_left (do_store ma a mb b) stores t.

Definition side_eqb (s s' : side) : bool := match s, s' with SA, SA | SB, SB => true | _, _ => false end.
Definition shape_eqb (s s' : store_shape) : bool :=
  let '(x, y, p, q) := s in let '(x', y', p', q') := s' in
  side_eqb x x' && side_eqb y y' && side_eqb p p' && side_eqb q q'.
Fixpoint shapes_eqb (l l' : list store_shape) : bool :=
  match l, l' with [] , [] => true | s :: l, s' :: l' => shape_eqb s s' && shapes_eqb l l' | _, _ => false end.

(* the shipped shape: _ratios[a][b] = b.m / a.m ; _ratios[b][a] = a.m / b.m *)
Definition shipped_stores : list store_shape := [(SA, SB, SB, SA); (SB, SA, SA, SB)].

(* ---------- translate(scale, zero): degree = zero.unit, offset = zero.magnitude; four stores ----------
   `_ratios[X][Y] = 1` is (TRatios, X, Y, VOne); `_offsets[X][Y] = -offset` is (TOffsets, X, Y, VNeg); `+offset` is VPos;
   X, Y name `degree` (SA) or `scale` (SB) *)
Inductive which := TRatios | TOffsets.
Inductive tval := VOne | VNeg | VPos.
Definition tstore_shape := (which * side * side * tval)%type.

Definition tval_of (v : tval) (z : Q) : Q := match v with VOne => 1 | VNeg => - z | VPos => z end.
Definition do_tstore (scale degree : unit3) (z : Q) (st : table * table) (s : tstore_shape) : table * table :=
  let '(w, x, y, v) := s in
  match w with
  | TRatios => (tset (fst st) (pick x degree scale) (pick y degree scale) (tval_of v z), snd st)
  | TOffsets => (fst st, tset (snd st) (pick x degree scale) (pick y degree scale) (tval_of v z))
  end.
Definition translate_of (stores : list tstore_shape) (t o : table) (scale degree : unit3) (z : Q) : table * table :=
  fold_left (do_tstore scale degree z) stores (t, o).

Definition which_eqb (a b : which) : bool := match a, b with TRatios, TRatios | TOffsets, TOffsets => true | _, _ => false end.
Definition tval_eqb (a b : tval) : bool := match a, b with VOne, VOne | VNeg, VNeg | VPos, VPos => true | _, _ => false end.
Definition tshape_eqb (s s' : tstore_shape) : bool :=
  let '(w, x, y, v) := s in let '(w', x', y', v') := s' in
  which_eqb w w' && side_eqb x x' && side_eqb y y' && tval_eqb v v'.
Fixpoint tshapes_eqb (l l' : list tstore_shape) : bool :=
  match l, l' with [] , [] => true | s :: l, s' :: l' => tshape_eqb s s' && tshapes_eqb l l' | _, _ => false end.

Definition shipped_tstores : list tstore_shape :=
  [(TRatios, SA, SB, VOne); (TRatios, SB, SA, VOne); (TOffsets, SA, SB, VNeg); (TOffsets, SB, SA, VPos)].

(* ---------- how the source reads the two tables ----------
   every occurrence of `_ratios` / `_offsets` in the package, as the translator classifies it: URow is `_ratios[unit]` (a row: read, iterated
   or assigned into), UDef the module-level definition, UOther anything else (`x in _ratios`, `len(_ratios)`, iteration over the table, passing
   the table on).  only_rows is the hypothesis under which Proofs/TableRows.v applies to the source: rows registered by lookups are invisible *)
Inductive tuse := URow | UDef | UOther.
Definition only_rows (l : list tuse) : bool := forallb (fun u => match u with UOther => false | _ => true end) l.

(* ---------- the invariants of Proofs/EquateFacts.v as executable checks on an exported table ----------
   (the implementation stores floats: _div(b, a) * _div(a, b) is one within rounding, so the check takes a tolerance) *)
Definition reciprocalb (eps : Q) (t : table) : bool :=
  forallb (fun ar : unit3 * row => forallb (fun br : unit3 * Q =>
    match tget t (fst br) (fst ar) with
    | Some r' => Qle_bool (Qabs (snd br * r' - 1)) eps
    | None => false
    end) (snd ar)) t.
Definition oppositeb (o : table) : bool :=
  forallb (fun ar : unit3 * row => forallb (fun br : unit3 * Q =>
    match tget o (fst br) (fst ar) with
    | Some z' => Qeq_bool (snd br + z') 0
    | None => false
    end) (snd ar)) o.
(* every stored offset belongs to a pair whose stored ratio is one, both ways (translate's shape) *)
Definition offsets_on_unit_ratiosb (t o : table) : bool :=
  forallb (fun ar : unit3 * row => forallb (fun br : unit3 * Q =>
    match tget t (fst ar) (fst br), tget t (fst br) (fst ar) with
    | Some r, Some r' => Qeq_bool r 1 && Qeq_bool r' 1
    | _, _ => false
    end) (snd ar)) o.
