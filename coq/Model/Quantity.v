(* Quantities: magnitude kinds (int / float / Decimal), the dunder methods of Quantity, Unit and
   Prefix as partial functions that may return NotImplemented, and Python's binary-operator
   protocol (method of the left operand, then the reflected method of the right operand, then
   TypeError; == falls back to identity).  Magnitudes are exact rationals: a float is the rational
   it denotes, rounding is outside the model.  Conversion between units is a parameter [conv]. *)
From stdpp Require Import gmap.
From Coq Require Import ZArith QArith Lia.
From Measured Require Import Model.FMap Model.Units.
Local Open Scope Z_scope.

Inductive kind := KInt | KFloat | KDec.

Definition kjoin (a b : kind) : kind :=
  match a, b with
  | KDec, _ | _, KDec => KDec
  | KInt, KInt => KInt
  | _, _ => KFloat
  end.

(* true division: int / int is a float *)
Definition kdivk (a b : kind) : kind := match kjoin a b with KInt => KFloat | k => k end.

(* magnitude ** int power: int ** negative is a float *)
Definition kpowk (a : kind) (n : Z) : kind :=
  match a with KInt => if Z.ltb n 0 then KFloat else KInt | k => k end.

Record qty := MkQty { qk : kind; qm : Q; qu : unit3 }.

Inductive value :=
| VNum (k : kind) (m : Q)
| VUnit (u : unit3)
| VQty (q : qty)
| VPrefix (p : prefix)
| VOther.                      (* anything else: str, None, list, ... *)

Inductive err := ETypeError | ECNF | EFrac | EZeroDiv | EMixed.

Inductive outcome :=
| NotImpl
| Val (v : value)
| Bool (b : bool)
| Err (e : err).

Definition of_res (r : res unit3) (f : unit3 -> outcome) : outcome :=
  match r with Ok u => f u | FracErr => Err EFrac | MixedBase => Err EMixed end.

Definition mkq (k : kind) (m : Q) (u : unit3) : outcome := Val (VQty (MkQty k m u)).

(* exact value of a same-base prefix *)
Definition pvalQ (p : prefix) : Q :=
  if Z.eqb (pbase p) 0 then 1%Q else Qpower (inject_Z (pbase p)) (pexp p).

(* Prefix.quantify(): base ** exponent is an int for a non-negative exponent, else a float *)
Definition pkind (p : prefix) : kind := if Z.ltb (pexp p) 0 then KFloat else KInt.

Definition Qltb (a b : Q) : bool := negb (Qle_bool b a).

Section Dispatch.
  (* conv a b = Some r: converting from unit a to unit b multiplies the (unprefixed) magnitude
     by r and divides by b's prefix; None: ConversionNotFound.  Offset-free. *)
  Variable conv : unit3 -> unit3 -> option Q.

  Definition dim_eqb (a b : unit3) : bool := feqb (udim a) (udim b).

  (* Quantity.unprefixed(): magnitude * unit.quantify() *)
  Definition unprefixed (q : qty) : qty :=
    MkQty (kjoin (qk q) (pkind (upre (qu q)))) (qm q * pvalQ (upre (qu q))) (MkU pid (ufac (qu q)) (udim (qu q))).

  (* conversions.convert: every plan starts from the unprefixed magnitude, multiplies by floats *)
  Definition in_unit (q : qty) (t : unit3) : outcome :=
    if negb (dim_eqb (qu q) t) then Err ECNF else
    match conv (qu q) t with
    | None => Err ECNF
    | Some r => mkq (kjoin (qk q) KFloat) (qm q * pvalQ (upre (qu q)) * r / pvalQ (upre t)) t
    end.

  Definition is_zero (m : Q) : bool := Qeq_bool m 0.

  (* ---- Quantity methods ---- *)
  Definition q_mul (s : qty) (o : value) : outcome :=
    match o with
    | VUnit u => of_res (umul (qu s) u) (mkq (qk s) (qm s))
    | VQty t => of_res (umul (qu s) (qu t)) (mkq (kjoin (qk s) (qk t)) (qm s * qm t))
    | VNum k m => mkq (kjoin (qk s) k) (qm s * m) (qu s)
    | _ => NotImpl
    end.

  Definition q_truediv (s : qty) (o : value) : outcome :=
    match o with
    | VUnit u => of_res (udiv (qu s) u) (mkq (qk s) (qm s))
    | VQty t => if is_zero (qm t) then Err EZeroDiv
                else of_res (udiv (qu s) (qu t)) (mkq (kdivk (qk s) (qk t)) (qm s / qm t))
    | VNum k m => if is_zero m then Err EZeroDiv else mkq (kdivk (qk s) k) (qm s / m) (qu s)
    | _ => NotImpl
    end.

  (* number / quantity keeps the unit (the implementation's behaviour, pinned by its tests) *)
  Definition q_rtruediv (s : qty) (o : value) : outcome :=
    match o with
    | VNum k m => if is_zero (qm s) then Err EZeroDiv else mkq (kdivk k (qk s)) (m / qm s) (qu s)
    | _ => NotImpl
    end.

  Definition q_addsub (sub : bool) (s : qty) (o : value) : outcome :=
    match o with
    | VQty t =>
        match in_unit t (qu s) with
        | Val (VQty t') => mkq (kjoin (qk s) (qk t')) (if sub then qm s - qm t' else qm s + qm t') (qu s)
        | r => r
        end
    | _ => NotImpl
    end.

  Definition q_pow (s : qty) (n : Z) : outcome :=
    if is_zero (qm s) && Z.ltb n 0 then Err EZeroDiv
    else of_res (upow (qu s) n) (mkq (kpowk (qk s) n) (Qpower (qm s) n)).

  (* __eq__ / __lt__: NotImplemented on dimension mismatch or ConversionNotFound *)
  Definition q_cmp (lt : bool) (s : qty) (o : value) : outcome :=
    match o with
    | VQty t =>
        if negb (dim_eqb (qu s) (qu t)) then NotImpl else
        let a := unprefixed s in let b := unprefixed t in
        if ukey_eqb (qu a) (qu b) then Bool (if lt then Qltb (qm a) (qm b) else Qeq_bool (qm a) (qm b))
        else match in_unit a (qu b) with
             | Val (VQty a') => Bool (if lt then Qltb (qm a') (qm b) else Qeq_bool (qm a') (qm b))
             | Err ECNF => NotImpl
             | r => r
             end
    | _ => NotImpl
    end.

  (* ---- Unit methods ---- *)
  Definition u_mul (s : unit3) (o : value) : outcome :=
    match o with
    | VNum k m => mkq k m s
    | VUnit u => of_res (umul s u) (fun r => Val (VUnit r))
    | _ => NotImpl
    end.

  Definition u_truediv (s : unit3) (o : value) : outcome :=
    match o with
    | VUnit u => of_res (udiv s u) (fun r => Val (VUnit r))
    | _ => NotImpl
    end.

  (* ---- Prefix methods ---- *)
  Definition p_mul (s : prefix) (o : value) : outcome :=
    match o with
    | VPrefix p => match pmul s p with Some r => Val (VPrefix r) | None => Err EMixed end
    | VUnit u => of_res (upre_mul s u) (fun r => Val (VUnit r))
    | VNum k m => mkq (kjoin k (pkind s)) (m * pvalQ s) uone
    | _ => NotImpl
    end.

  Inductive bop := OpMul | OpDiv | OpAdd | OpSub | OpEq | OpLt.

  (* the left operand's method *)
  Definition lmethod (op : bop) (l r : value) : outcome :=
    match l with
    | VQty s =>
        match op with
        | OpMul => q_mul s r | OpDiv => q_truediv s r
        | OpAdd => q_addsub false s r | OpSub => q_addsub true s r
        | OpEq => q_cmp false s r | OpLt => q_cmp true s r
        end
    | VUnit s =>
        match op with
        | OpMul => u_mul s r | OpDiv => u_truediv s r
        | OpAdd | OpSub => match r with VUnit u => if bool_decide (s = u) then Val (VUnit s) else NotImpl | _ => NotImpl end
        | OpEq => NotImpl           (* object.__eq__: identity, handled by the fallback *)
        | OpLt => NotImpl
        end
    | VPrefix s =>
        match op with
        | OpMul => p_mul s r
        | OpDiv => match r with VPrefix p => match pdiv s p with Some x => Val (VPrefix x) | None => Err EMixed end | _ => NotImpl end
        | _ => NotImpl
        end
    | VNum _ _ | VOther => NotImpl      (* int/float/Decimal/str know nothing about measured objects *)
    end.

  (* the right operand's reflected method *)
  Definition rmethod (op : bop) (l r : value) : outcome :=
    match r with
    | VQty s =>
        match op with
        | OpMul => q_mul s l                 (* __rmul__ = __mul__ *)
        | OpDiv => q_rtruediv s l
        | OpEq => q_cmp false s l            (* reflected == is == *)
        | OpLt => NotImpl                    (* reflected < is >, derived by total_ordering from __lt__: see lt_dispatch *)
        | _ => NotImpl                       (* no __radd__ / __rsub__ *)
        end
    | VUnit s => match op with OpMul => u_mul s l | _ => NotImpl end
    | VPrefix s => match op with OpMul => p_mul s l | _ => NotImpl end
    | _ => NotImpl
    end.

  Definition same_object (l r : value) : bool :=
    match l, r with
    | VUnit a, VUnit b => bool_decide (a = b)
    | VPrefix a, VPrefix b => bool_decide (a = b)
    | _, _ => false                          (* two quantities are distinct objects *)
    end.

  Definition binop (op : bop) (l r : value) : outcome :=
    match lmethod op l r with
    | NotImpl =>
        match rmethod op l r with
        | NotImpl => match op with OpEq => Bool (same_object l r) | _ => Err ETypeError end
        | x => x
        end
    | x => x
    end.

  (* functools.total_ordering on Quantity: __gt__(a, b) = not (a < b) and a != b, etc.; a < b with
     NotImplemented falls to the reflected b > a, which total_ordering computes from b.__lt__(a) *)
  Definition q_lt (a : qty) (b : value) : outcome := q_cmp true a b.
  Definition q_eq (a : qty) (b : value) : outcome := q_cmp false a b.

  Definition q_gt_derived (a : qty) (b : value) : outcome :=
    match q_lt a b with
    | Bool r => if r then Bool false else
                  match binop OpEq (VQty a) b with Bool e => Bool (negb e) | x => x end
    | x => x
    end.
  Definition q_le_derived (a : qty) (b : value) : outcome :=
    match q_lt a b with
    | Bool r => if r then Bool true else binop OpEq (VQty a) b
    | x => x
    end.
  Definition q_ge_derived (a : qty) (b : value) : outcome :=
    match q_lt a b with Bool r => Bool (negb r) | x => x end.

  Inductive cmpop := CLt | CLe | CGt | CGe.

  Definition cmp_method (op : cmpop) (a : qty) (b : value) : outcome :=
    match op with CLt => q_lt a b | CLe => q_le_derived a b | CGt => q_gt_derived a b | CGe => q_ge_derived a b end.
  Definition reflected (op : cmpop) : cmpop := match op with CLt => CGt | CLe => CGe | CGt => CLt | CGe => CLe end.

  Definition compare (op : cmpop) (l r : value) : outcome :=
    let first := match l with VQty a => cmp_method op a r | _ => NotImpl end in
    match first with
    | NotImpl =>
        match (match r with VQty b => cmp_method (reflected op) b l | _ => NotImpl end) with
        | NotImpl => Err ETypeError
        | x => x
        end
    | x => x
    end.
End Dispatch.
