(* Concurrent first-time construction of one interned object (one key) by n threads, at the
   granularity of the source lines of __new__: look the key up, allocate, insert, return.
   [locked = true]: lookup/allocate/insert happen while holding one (re-entrant) lock, as the code
   does with `with _interning:`.  A schedule is the list of thread numbers given the next step. *)
From Coq Require Import List Arith Lia Bool.
Import ListNotations.

Inductive pc :=
| PStart                 (* about to enter __new__ *)
| PInside                (* inside the critical region (holding the lock when locked), before the lookup *)
| PMiss                  (* looked up: key absent *)
| PHit                   (* looked up: key present; next line returns cls._known[key] *)
| PAlloc (o : nat)       (* allocated object o, not yet inserted *)
| PInserted (o : nat)    (* cls._known[key] = self done *)
| PDone (o : nat).       (* returned o to the caller *)

Record cstate := MkC {
  created : list nat;          (* every object stored under the key, in order; the table holds the last *)
  owner : option nat;          (* thread holding the lock *)
  pcs : list pc;
  fresh : nat                  (* next object number *)
}.

Definition table_lookup (s : cstate) : option nat := last (map Some (created s)) None.

Fixpoint set_nth {A} (i : nat) (x : A) (l : list A) : list A :=
  match l, i with
  | [], _ => []
  | _ :: l', O => x :: l'
  | y :: l', S i' => y :: set_nth i' x l'
  end.

Definition setpc (s : cstate) (i : nat) (p : pc) : cstate :=
  MkC (created s) (owner s) (set_nth i p (pcs s)) (fresh s).

(* one step of thread i; a blocked or finished thread does not move *)
Definition cstep (locked : bool) (s : cstate) (i : nat) : cstate :=
  match nth_error (pcs s) i with
  | None => s
  | Some p =>
      match p with
      | PStart =>
          if locked then
            match owner s with
            | None => MkC (created s) (Some i) (set_nth i PInside (pcs s)) (fresh s)
            | Some _ => s                                   (* blocked on the lock *)
            end
          else setpc s i PInside
      | PInside =>
          match table_lookup s with
          | Some _ => setpc s i PHit
          | None => setpc s i PMiss
          end
      | PHit =>
          (* return cls._known[key]: reads the table again, then leaves the region *)
          match table_lookup s with
          | Some o => MkC (created s) (if locked then None else owner s) (set_nth i (PDone o) (pcs s)) (fresh s)
          | None => s
          end
      | PMiss => MkC (created s) (owner s) (set_nth i (PAlloc (fresh s)) (pcs s)) (S (fresh s))
      | PAlloc o => MkC (created s ++ [o]) (owner s) (set_nth i (PInserted o) (pcs s)) (fresh s)
      | PInserted o => MkC (created s) (if locked then None else owner s) (set_nth i (PDone o) (pcs s)) (fresh s)
      | PDone _ => s
      end
  end.

Definition cinit (n : nat) : cstate := MkC [] None (repeat PStart n) 0.

Definition crun (locked : bool) (s : cstate) (sched : list nat) : cstate := fold_left (cstep locked) sched s.

Definition results (s : cstate) : list nat :=
  flat_map (fun p => match p with PDone o => [o] | _ => [] end) (pcs s).

(* ---- the shape of __new__ as read from the source (Gen/Struct) and its abstraction ---- *)
Inductive skind := KLookup | KAlloc | KInsert | KReturn | KOther.
(* a statement: its kind and the lock region (with-block) it is in, if any *)
Definition stmt := (skind * option nat)%type.

Definition skind_eqb (a b : skind) : bool :=
  match a, b with
  | KLookup, KLookup | KAlloc, KAlloc | KInsert, KInsert | KReturn, KReturn | KOther, KOther => true
  | _, _ => false
  end.

(* the constructor is "locked" when every insertion into the table happens in a lock region that
   also contains a lookup before it and the allocation, i.e. check-then-insert is one critical
   section, and nothing is inserted outside a region *)
Definition region_ok (body : list stmt) (r : nat) : bool :=
  let inr := filter (fun st : stmt => match snd st with Some r' => Nat.eqb r r' | None => false end) body in
  let kinds := map fst inr in
  (* lookup ... alloc ... insert in this order inside the region *)
  let fix after (k : skind) (l : list skind) : list skind :=
    match l with [] => [] | x :: l' => if skind_eqb x k then l' else after k l' end in
  existsb (skind_eqb KInsert) (after KAlloc (after KLookup kinds)).

Definition constructor_locked (body : list stmt) : bool :=
  forallb (fun st : stmt => match st with
                            | (KInsert, Some r) => region_ok body r
                            | (KInsert, None) => false
                            | _ => true
                            end) body
  && existsb (fun st : stmt => skind_eqb (fst st) KInsert) body.
