(* From the parse tree of Model/Lex.v to the term sequences of Model/Parse.v: what measured/parsing.py's transformer
   reads off the tree (symbol text and exponent of every term, numerator and optional denominator), so that the text
   level and the term level of the parse model can be composed:  text -> tree -> terms -> unit. *)
From stdpp Require Import gmap.
From Coq Require Import ZArith NArith List Bool.
From Measured Require Import Model.FMap Model.Units Model.Parse Model.ParseCheck Model.LR Model.Lex.
Import ListNotations.
Local Open Scope Z_scope.

(* the ids the per-run translation gives to the node names and token types the transformer dispatches on *)
Record names := MkNames {
  n_unit : positive; n_sequence : positive; n_term : positive; n_carat : positive; n_super : positive;
  t_symbol : positive; t_carat : positive; t_super : positive }.

Definition to_str (t : text) : str := map Z.of_N t.
Definition to_text (s : str) : text := map Z.to_N s.

(* decimal digits, most significant first *)
Fixpoint dec_value (acc : Z) (l : list Z) : option Z :=
  match l with
  | [] => Some acc
  | c :: r => if (48 <=? c) && (c <=? 57) then dec_value (acc * 10 + (c - 48)) r else None
  end.

(* "^" SIGNED_INT *)
Definition carat_value (s : str) : option Z :=
  match s with
  | 94 :: 45 :: (_ :: _) as ds => option_map Z.opp (dec_value 0 ds)
  | 94 :: 43 :: (_ :: _) as ds => dec_value 0 ds
  | 94 :: (_ :: _) as ds => dec_value 0 ds
  | _ => None
  end.

Definition unsup (c : Z) : option Z :=
  if c =? 8304 then Some 0 else if c =? 185 then Some 1 else if c =? 178 then Some 2 else if c =? 179 then Some 3
  else if (8308 <=? c) && (c <=? 8313) then Some (c - 8304) else None.

Fixpoint sup_value (acc : Z) (l : list Z) : option Z :=
  match l with
  | [] => Some acc
  | c :: r => match unsup c with Some d => sup_value (acc * 10 + d) r | None => None end
  end.

(* ["⁻"] SUPERSCRIPT_DIGIT+ *)
Definition super_value (s : str) : option Z :=
  match s with
  | 8315 :: (_ :: _) as ds => option_map Z.opp (sup_value 0 ds)
  | (_ :: _) as ds => sup_value 0 ds
  | [] => None
  end.

Section Transformer.
  Variable nm : names.

  Definition term_of (t : tree) : option (str * Z) :=
    match t with
    | TNode n [TTok ty s] =>
        if Pos.eqb n (n_term nm) && Pos.eqb ty (t_symbol nm) then Some (to_str s, 1) else None
    | TNode n [TTok ty s; TNode en [TTok ety es]] =>
        if Pos.eqb n (n_term nm) && Pos.eqb ty (t_symbol nm) then
          if Pos.eqb en (n_carat nm) && Pos.eqb ety (t_carat nm) then option_map (fun e => (to_str s, e)) (carat_value (to_str es))
          else if Pos.eqb en (n_super nm) && Pos.eqb ety (t_super nm) then option_map (fun e => (to_str s, e)) (super_value (to_str es))
          else None
        else None
    | _ => None
    end.

  Fixpoint terms_of (l : list tree) : option (list (str * Z)) :=
    match l with
    | [] => Some []
    | t :: r => match term_of t, terms_of r with Some x, Some xs => Some (x :: xs) | _, _ => None end
    end.

  Definition sequence_of (t : tree) : option (list (str * Z)) :=
    match t with
    | TNode n kids => if Pos.eqb n (n_sequence nm) then terms_of kids else None
    | _ => None
    end.

  (* unit: unit_sequence (_DIVIDE unit_sequence)? *)
  Definition unit_of (t : tree) : option (list (str * Z) * option (list (str * Z))) :=
    match t with
    | TNode n [a] => if Pos.eqb n (n_unit nm) then option_map (fun x => (x, None)) (sequence_of a) else None
    | TNode n [a; b] =>
        if Pos.eqb n (n_unit nm) then
          match sequence_of a, sequence_of b with Some x, Some y => Some (x, Some y) | _, _ => None end
        else None
    | _ => None
    end.
End Transformer.

(* the term nodes among the values on the parser's stack, left to right: the reductions whose callbacks have already run *)
Fixpoint terms_in (nm : names) (t : tree) : list (str * Z) :=
  let fix go (l : list tree) : list (str * Z) :=
    match l with [] => [] | x :: r => terms_in nm x ++ go r end in
  match t with
  | TTok _ _ => []
  | TInline kids => go kids
  | TNode n kids =>
      if Pos.eqb n (n_term nm) then match term_of nm t with Some x => [x] | None => [] end
      else go kids
  end.

Definition reduced_terms (nm : names) (vals : list tree) : list (str * Z) :=
  flat_map (terms_in nm) (rev vals).

(* the first callback that raised: a KeyError from resolving a reduced term comes before the syntax error further right *)
Fixpoint first_term_error (tab : symtab) (l : list (str * Z)) : option pres :=
  match l with
  | [] => None
  | t :: r => match eval_term tab t with POk _ => first_term_error tab r | e => Some e end
  end.

(* Unit.parse at text level, in the model: scan, parse, read the terms off the tree, evaluate them *)
Inductive text_outcome := TUnit (r : pres) | TSyntaxError | TShapeError.

Definition unit_parse_text (nm : names) (tab : symtab) (order : list terminal) (ignore : list positive) (rules : list rule)
  (infos : list rinfo) (filtered terminals : list positive) (end_sym : positive) (T : table) (s : str) : text_outcome :=
  match parse_text order ignore rules infos filtered terminals end_sym T (to_text s) with
  | PTree t =>
      match unit_of nm t with
      | Some (num, den) => TUnit (eval_unit tab num den)
      | None => TShapeError
      end
  | _ =>
      match first_term_error tab (reduced_terms nm (parse_failure_stack order ignore rules infos filtered terminals end_sym T (to_text s))) with
      | Some PKeyError => TUnit PKeyError
      | _ => TSyntaxError
      end
  end.

(* the text the printer writes for a term list parses back to exactly that term list *)
Definition render_parses_back (nm : names) (order : list terminal) (ignore : list positive) (rules : list rule)
  (infos : list rinfo) (filtered terminals : list positive) (end_sym : positive) (T : table) (l : list (str * Z)) : bool :=
  match parse_text order ignore rules infos filtered terminals end_sym T (to_text (render l)) with
  | PTree t =>
      match unit_of nm t with
      | Some (num, None) =>
          (fix eq (a b : list (str * Z)) : bool :=
             match a, b with
             | [], [] => true
             | (s, e) :: a', (s', e') :: b' => str_eqb s s' && Z.eqb e e' && eq a' b'
             | _, _ => false
             end) num l
      | _ => false
      end
  | _ => false
  end.

(* ---------------------------------------------------------------- quantities: magnitude unit *)
Record qnames := MkQNames { n_quantity : positive; n_int : positive; n_float : positive; t_int : positive; t_float : positive }.

Inductive magnitude := MInt (z : Z) | MFloat (literal : str).

(* int(text): sign and decimal digits; CPython refuses more than 4300 digits (ValueError, reported as ParseError) *)
Inductive int_literal := IValue (z : Z) | ITooLong | INotInt.
Definition int_of (s : str) : int_literal :=
  let body := match s with 45 :: r | 43 :: r => r | _ => s end in
  let neg := match s with 45 :: _ => true | _ => false end in
  if Nat.ltb 4300 (length body) then ITooLong else
  match body with
  | [] => INotInt
  | _ => match dec_value 0 body with Some v => IValue (if neg then - v else v) | None => INotInt end
  end.

Inductive qtext_outcome :=
| QOk (m : magnitude) (u : pres)        (* a quantity, or the unit part's KeyError / evaluation error *)
| QSyntaxError                           (* ParseError: syntax, or a numeral int() refuses *)
| QShapeError.

Definition magnitude_of (qn : qnames) (t : tree) : option (option magnitude) :=    (* Some None: the numeral is refused *)
  match t with
  | TNode k [TTok ty s] =>
      if Pos.eqb k (n_int qn) && Pos.eqb ty (t_int qn) then
        match int_of (to_str s) with IValue z => Some (Some (MInt z)) | ITooLong => Some None | INotInt => None end
      else if Pos.eqb k (n_float qn) && Pos.eqb ty (t_float qn) then Some (Some (MFloat (to_str s)))
      else None
  | _ => None
  end.

(* the magnitude callback runs as soon as the numeral is reduced: before any term of the unit is looked up *)
Definition reduced_magnitude_refused (qn : qnames) (vals : list tree) : bool :=
  existsb (fun t => match magnitude_of qn t with Some None => true | _ => false end) vals.

Definition quantity_parse_text (nm : names) (qn : qnames) (tab : symtab) (order : list terminal) (ignore : list positive)
  (rules : list rule) (infos : list rinfo) (filtered terminals : list positive) (end_sym : positive) (T : table) (s : str) : qtext_outcome :=
  match parse_text order ignore rules infos filtered terminals end_sym T (to_text s) with
  | PTree (TNode q [mt; ut]) =>
      if Pos.eqb q (n_quantity qn) then
        match magnitude_of qn mt, unit_of nm ut with
        | Some None, _ => QSyntaxError
        | Some (Some m), Some (num, den) => QOk m (eval_unit tab num den)
        | _, _ => QShapeError
        end
      else QShapeError
  | PTree _ => QShapeError
  | _ =>
      let vals := parse_failure_stack order ignore rules infos filtered terminals end_sym T (to_text s) in
      if reduced_magnitude_refused qn vals then QSyntaxError else
      match first_term_error tab (reduced_terms nm vals) with
      | Some PKeyError => QOk (MInt 0) PKeyError
      | _ => QSyntaxError
      end
  end.

(* ---- a quantity as the library's JSON document (the pydantic and SQL composite forms hold the same two fields): the magnitude with
   its numeric type, and the unit as the TEXT str(unit) ---- *)
Inductive magkind := KInt | KFloat | KDecimal.
Record qdoc := MkQD { qd_kind : magkind; qd_value : Z * positive; qd_unit : str }.

Section QuantityDocument.
  Variables (nm : names) (tab : symtab) (pt : printab) (order : list terminal) (ignore : list positive) (rules : list rule)
            (infos : list rinfo) (filtered terminals : list positive) (end_sym : positive) (T : table).

  (* Quantity.__json__: None when str(unit) is outside the printable fragment (leading magnitude, symbol-less prefix) *)
  Definition enc_quantity (k : magkind) (v : Z * positive) (u : unit3) (of : list (positive * Z)) : option qdoc :=
    match print_terms pt u of with PTerms l => Some (MkQD k v (render l)) | _ => None end.

  (* Quantity.__from_json__: Quantity(magnitude, Unit.parse(text)) *)
  Definition dec_quantity (d : qdoc) : option (magkind * (Z * positive) * unit3) :=
    match unit_parse_text nm tab order ignore rules infos filtered terminals end_sym T (qd_unit d) with
    | TUnit (POk u) => Some (qd_kind d, qd_value d, u)
    | _ => None
    end.
End QuantityDocument.
