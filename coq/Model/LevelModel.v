(* Levels: the two formulas of measured (LogarithmicUnit.level and Level.quantify) as expression trees
   over the reals.  q: the quantity's magnitude in the reference's unit, r: the reference magnitude,
   b: the logarithm's base, p: the value of the logarithm's prefix, k: the power ratio (1 or 2),
   l: a level's magnitude. *)
From Coq Require Import Reals ZArith.
Open Scope R_scope.

Inductive lvar := LQ | LR | LB | LP | LK | LL.

Inductive lexpr :=
| LVar (v : lvar)
| LConst (z : Z)
| LMul (a b : lexpr)
| LDiv (a b : lexpr)
| LLog (x base : lexpr)        (* math.log(x, base) = ln x / ln base *)
| LPow (base e : lexpr).       (* base ** e for a positive base = exp (e * ln base) *)

Fixpoint levalR (env : lvar -> R) (e : lexpr) : R :=
  match e with
  | LVar v => env v
  | LConst z => IZR z
  | LMul a b => levalR env a * levalR env b
  | LDiv a b => levalR env a / levalR env b
  | LLog x b => ln (levalR env x) / ln (levalR env b)
  | LPow b x => Rpower (levalR env b) (levalR env x)
  end.

(* LogarithmicUnit.level:  power_ratio * ((1 / prefix) * log(q / r, base)) *)
Definition level_expr : lexpr :=
  LMul (LVar LK) (LMul (LDiv (LConst 1) (LVar LP)) (LLog (LDiv (LVar LQ) (LVar LR)) (LVar LB))).
(* Level.quantify:  base ** ((l * prefix) / power_ratio) * r *)
Definition quantify_expr : lexpr :=
  LMul (LPow (LVar LB) (LDiv (LMul (LVar LL) (LVar LP)) (LVar LK))) (LVar LR).

Definition lenv (q r b p k l : R) (v : lvar) : R :=
  match v with LQ => q | LR => r | LB => b | LP => p | LK => k | LL => l end.

Definition level (q r b p k : R) : R := levalR (lenv q r b p k 0) level_expr.
Definition quantify (l r b p k : R) : R := levalR (lenv 0 r b p k l) quantify_expr.
