(* Executable model of measured.conversions: the declared-ratio table, the DFS path finder with
   exponent reduction (_find_path_recursive, _reduce_dimension), the heuristic planner (_splat,
   _replace_factors, _match_factors, _cancel_factors, _inline_paths, _plan_conversion) and plan
   application (convert).  Scalars are exact rationals (a float is the rational it denotes).
   Python dicts are insertion-ordered association lists; every Python exception the code can raise
   is an explicit error value.  The planner additionally records, for every numeric ratio it puts
   into a plan, where the number came from ([prov]), so that a plan can be certified against the
   table independently of the planner ([certify], Proofs/ConvertFacts.v). *)
From stdpp Require Import gmap.
From Coq Require Import ZArith QArith Lia List.
From Measured Require Import Model.FMap Model.Units Model.Quantity.
Import ListNotations.
Local Open Scope Z_scope.

Inductive cerr :=
| CNF          (* ConversionNotFound *)
| EKey         (* KeyError    (_clean_pop / _clean_remove / _ratios[unit][alternative]) *)
| EIndex       (* IndexError  (list.pop(0) of an empty list) *)
| EValue       (* ValueError  (list.remove of a missing item) *)
| EZero        (* ZeroDivisionError (1 / ratio, scale ** negative) *)
| EFuel        (* recursion / iteration budget exhausted: RecursionError or a non-terminating loop *)
| EMissing.    (* the harness did not supply the ordered factors of a unit (never a Python outcome) *)

Inductive cres (A : Type) := COk (a : A) | CErr (e : cerr).
Arguments COk {A} a.  Arguments CErr {A} e.

Definition cbind {A B} (r : cres A) (f : A -> cres B) : cres B :=
  match r with COk a => f a | CErr e => CErr e end.
Notation "'do' x <~ r ; k" := (cbind r (fun x => k)) (at level 200, x name, r at level 100, k at level 200, right associativity).

(* ---------- atoms: the keys of Unit.factors.  0 is One (One.factors = {One: 1}) ---------- *)
Definition atom := N.
Definition atom_unit (bd : env) (a : atom) : unit3 :=
  match a with
  | N0 => uone
  | Npos k => MkU pid {[ k := 1 ]} (dimOf bd {[ k := 1 ]})
  end.
Definition atom_dim (bd : env) (a : atom) : fmap := udim (atom_unit bd a).

(* ---------- the declared tables ---------- *)
Definition row := list (unit3 * Q).
Definition table := list (unit3 * row).

Fixpoint trow (t : table) (u : unit3) : row :=
  match t with
  | [] => []
  | (k, r) :: t' => if ukey_eqb k u then r else trow t' u
  end.
Fixpoint rget (r : row) (u : unit3) : option Q :=
  match r with
  | [] => None
  | (k, x) :: r' => if ukey_eqb k u then Some x else rget r' u
  end.
Definition tget (t : table) (a b : unit3) : option Q := rget (trow t a) b.

(* dict assignment d[a][b] = x: overwrite in place, or append *)
Fixpoint rset (r : row) (u : unit3) (x : Q) : row :=
  match r with
  | [] => [(u, x)]
  | (k, y) :: r' => if ukey_eqb k u then (k, x) :: r' else (k, y) :: rset r' u x
  end.
Fixpoint tset (t : table) (a b : unit3) (x : Q) : table :=
  match t with
  | [] => [(a, [(b, x)])]
  | (k, r) :: t' => if ukey_eqb k a then (k, rset r b x) :: t' else (k, r) :: tset t' a b x
  end.

(* ordered factors (Unit.factors.items()) of the units whose factors the planner iterates *)
Definition ordtab := list (unit3 * list (atom * Z)).
Fixpoint ordered (o : ordtab) (u : unit3) : option (list (atom * Z)) :=
  match o with
  | [] => None
  | (k, l) :: o' => if ukey_eqb k u then Some l else ordered o' u
  end.

(* ---------- dimensions ---------- *)
Definition dabs (d : fmap) : Z := map_fold (fun _ e acc => Z.abs e + acc) 0 d.
Definition dany_neg (d : fmap) : bool := map_fold (fun _ e acc => orb (Z.ltb e 0) acc) false d.
Definition dgcd (d : fmap) : Z := map_fold (fun _ e acc => Z.gcd e acc) 0 d.

(* Dimension.is_factor *)
Definition is_factor (self other : fmap) : bool :=
  if feqb self other then true else if feqb self fone then true else
  map_fold (fun i mine acc =>
    let theirs := get other i in
    orb (andb (negb (Z.eqb theirs 0)) (andb (negb (Z.eqb mine 0)) (Z.geb theirs mine))) acc) false self.

(* ---------- Dict[Dimension, List[Unit]] ---------- *)
Definition fdict := list (fmap * list atom).

Fixpoint fd_get (d : fdict) (k : fmap) : option (list atom) :=
  match d with
  | [] => None
  | (k', l) :: d' => if feqb k' k then Some l else fd_get d' k
  end.
Definition fd_mem (d : fdict) (k : fmap) : bool := match fd_get d k with Some _ => true | None => false end.
Fixpoint fd_del (d : fdict) (k : fmap) : fdict :=
  match d with
  | [] => []
  | (k', l) :: d' => if feqb k' k then d' else (k', l) :: fd_del d' k
  end.
Fixpoint fd_set (d : fdict) (k : fmap) (l : list atom) : fdict :=
  match d with
  | [] => [(k, l)]
  | (k', l') :: d' => if feqb k' k then (k', l) :: d' else (k', l') :: fd_set d' k l
  end.
(* d[k].extend(l), creating the key at the end when missing *)
Definition fd_extend (d : fdict) (k : fmap) (l : list atom) : fdict :=
  match fd_get d k with
  | Some l0 => fd_set d k (l0 ++ l)
  | None => d ++ [(k, l)]
  end.

(* _clean_pop *)
Definition clean_pop (d : fdict) (k : fmap) : cres (atom * fdict) :=
  match fd_get d k with
  | None => CErr EKey
  | Some [] => CErr EIndex
  | Some (x :: rest) =>
      COk (x, match rest with [] => fd_del d k | _ => fd_set d k rest end)
  end.

Fixpoint remove_first (a : atom) (l : list atom) : option (list atom) :=
  match l with
  | [] => None
  | x :: l' => if N.eqb x a then Some l'
               else match remove_first a l' with Some r => Some (x :: r) | None => None end
  end.

(* _clean_remove *)
Definition clean_remove (d : fdict) (k : fmap) (a : atom) : cres fdict :=
  match fd_get d k with
  | None => CErr EKey
  | Some l =>
      match remove_first a l with
      | None => CErr EValue
      | Some [] => COk (fd_del d k)
      | Some r => COk (fd_set d k r)
      end
  end.

Definition repeat_atom (a : atom) (n : Z) : list atom := repeat a (Z.to_nat n).

(* _splat *)
Definition splat (bd : env) (of : list (atom * Z)) : fdict :=
  fold_left (fun acc '(a, e) =>
    if Z.ltb e 0 then fd_extend acc (fpow (atom_dim bd a) (-1)) (repeat_atom a (Z.abs e))
    else fd_extend acc (atom_dim bd a) (repeat_atom a e)) of [].

(* expand: dimension for dimension, factors in d.items() for _ in factors *)
Definition fd_expand (d : fdict) : list fmap :=
  flat_map (fun '(k, l) => map (fun _ => k) l) d.

(* stable insertion sort, descending by key: sorted(..., key=..., reverse=True) keeps the original
   order among equal keys *)
Fixpoint insert_desc_l {A} (key : A -> Z) (x : A) (l : list A) : list A :=
  match l with
  | [] => [x]
  | y :: l' => if Z.leb (key y) (key x) then x :: y :: l' else y :: insert_desc_l key x l'
  end.
Definition stable_sort_desc {A} (key : A -> Z) (l : list A) : list A :=
  fold_right (fun x acc => insert_desc_l key x acc) [] l.

Definition by_complex_first (l : list fmap) : list fmap := stable_sort_desc dabs l.

(* ---------- rough plans ---------- *)
(* where a plan step's numeric ratio came from *)
Inductive prov :=
| PUnit                                   (* the literal 1 *)
| PTbl (u a : unit3) (z : Z)              (* (_ratios[u][a]) ** z *)
| PEndPrefix.                             (* 1 / end.quantify().magnitude *)

Record rstep := MkR { r_ratio : Q; r_prov : prov; r_start : unit3; r_end : unit3; r_exp : Z }.

(* Unit.factors of a unit as the code sees it: One has {One: 1} *)
Definition nfactors (of : list (atom * Z)) : Z := Z.of_nat (length of).
Definition sumfactors (of : list (atom * Z)) : Z := fold_right (fun '(_, e) acc => e + acc) 0 of.

Section Planner.
  Variable bd : env.
  Variable tbl : table.
  Variable ord : ordtab.

  Definition atom_of (a : atom) : list (atom * Z) := [(a, 1)].

  (* the first alternative in sorted order that has more factors or larger total exponent *)
  Definition pick_alternative (a : atom) : cres (option (unit3 * list (atom * Z))) :=
    let u := atom_unit bd a in
    do alts <~ (fold_right (fun '(k, _) acc =>
               do acc <~ acc ;
               match ordered ord k with
               | Some of => COk ((k, of) :: acc)
               | None => CErr EMissing
               end) (COk []) (trow tbl u)) ;
    let sorted := stable_sort_desc (fun '(_, of) => nfactors of + sumfactors of) alts in
    COk (find (fun '(_, of) => orb (Z.ltb 1 (nfactors of)) (Z.ltb 1 (sumfactors of))) sorted).

  (* one pass of the while loop: collect replacements, then apply them *)
  Definition collect_replacements (factors : fdict) : cres (list (fmap * atom * (unit3 * list (atom * Z)))) :=
    fold_left (fun acc '(dimension, units) =>
      do acc <~ acc ;
      if Z.leb (dabs dimension) 1 then COk acc else
      fold_left (fun acc a =>
        do acc <~ acc ;
        do alt <~ pick_alternative a ;
        match alt with
        | Some x => COk (acc ++ [(dimension, a, x)])
        | None => COk acc
        end) units (COk acc)) factors (COk []).

  Definition apply_replacement (st : fdict * list rstep) (r : fmap * atom * (unit3 * list (atom * Z)))
    : cres (fdict * list rstep) :=
    let '(factors, plan) := st in
    let '(dimension, a, (alt, altof)) := r in
    let u := atom_unit bd a in
    do sign <~ (if is_factor (udim u) dimension then COk 1
             else if is_factor (fpow (udim u) (-1)) dimension then COk (-1)
             else CErr CNF) ;
    do ratio <~ match tget tbl u alt with Some x => COk x | None => CErr EKey end ;
    do factors <~ clean_remove factors dimension a ;
    let factors := fold_left (fun acc '(b, e) =>
                     let usign := if Z.ltb e 0 then -1 else 1 in
                     fd_extend acc (fpow (atom_dim bd b) (usign * sign)) (repeat_atom b (Z.abs e)))
                   altof factors in
    if andb (Qeq_bool ratio 0) (Z.ltb sign 0) then CErr EZero else
    COk (factors, plan ++ [MkR (Qpower ratio sign) (PTbl u alt sign) uone uone 1]).

  Fixpoint replace_loop (fuel : nat) (factors : fdict) (plan : list rstep) : cres (fdict * list rstep) :=
    match fuel with
    | O => CErr EFuel
    | S f =>
        do reps <~ collect_replacements factors ;
        do st <~ fold_left (fun acc r => do st <~ acc ; apply_replacement st r) reps (COk (factors, plan)) ;
        let '(factors', plan') := st in
        if Nat.eqb (length plan') (length plan) then COk (factors', plan') else replace_loop f factors' plan'
    end.

  Definition replace_factors (fuel : nat) (factors : fdict) : cres (fdict * list rstep) :=
    replace_loop fuel factors [].

  (* the inner while loop of _match_factors *)
  Fixpoint match_scan (to_check : list fmap) (remaining : fmap) (found : list fmap) : list fmap :=
    match to_check with
    | [] => found
    | sd :: rest =>
        let '(found', remaining') :=
          if is_factor sd remaining then (found ++ [sd], fdiv remaining sd) else (found, remaining) in
        if feqb remaining' fone then found' else match_scan rest remaining' found'
    end.

  Fixpoint pop_all (sf : fdict) (ds : list fmap) : cres (list atom * fdict) :=
    match ds with
    | [] => COk ([], sf)
    | d :: ds' =>
        do x <~ clean_pop sf d ;
        let '(a, sf') := x in
        do y <~ pop_all sf' ds' ;
        let '(l, sf'') := y in
        COk (a :: l, sf'')
    end.

  Definition umul_ok (a b : unit3) : unit3 :=
    match umul a b with Ok u => u | _ => uone end.      (* atoms are unprefixed: never MixedBase *)

  Definition product_of (l : list atom) : unit3 :=
    match l with
    | [] => uone
    | a :: l' => fold_left (fun acc b => umul_ok acc (atom_unit bd b)) l' (atom_unit bd a)
    end.

  Definition match_factors (start_factors end_factors : fdict) : cres (fdict * fdict * list rstep) :=
    fold_left (fun acc end_dimension =>
      do acc <~ acc ;
      let '(sf, ef, plan) := acc in
      let dimension_factors := match_scan (by_complex_first (fd_expand sf)) end_dimension [] in
      match dimension_factors with
      | [] => COk (sf, ef, plan)
      | d0 :: ds =>
          let discovered := fold_left fmul ds d0 in
          if negb (feqb discovered end_dimension) then COk (sf, ef, plan) else
          do x <~ pop_all sf dimension_factors ;
          let '(atoms, sf') := x in
          do y <~ clean_pop ef end_dimension ;
          let '(e, ef') := y in
          let exponent := if dany_neg end_dimension then -1 else 1 in
          COk (sf', ef', plan ++ [MkR 1 PUnit (product_of atoms) (atom_unit bd e) exponent])
      end) (by_complex_first (fd_expand end_factors)) (COk (start_factors, end_factors, [])).

  (* the while loop of _cancel_factors for one dimension *)
  Fixpoint cancel_loop (fuel : nat) (invert : bool) (dimension inverse : fmap) (exponent : Z)
           (factors : fdict) (plan : list rstep) : cres (fdict * list rstep) :=
    match fuel with
    | O => CErr EFuel
    | S f =>
        if andb (fd_mem factors dimension) (fd_mem factors inverse) then
          do x <~ clean_pop factors dimension ;
          let '(e, factors1) := x in
          if feqb dimension inverse then cancel_loop f invert dimension inverse exponent factors1 plan else
          do y <~ clean_pop factors1 inverse ;
          let '(s, factors2) := y in
          let su := atom_unit bd s in let eu := atom_unit bd e in
          let plan' := if invert
                       then plan ++ [MkR 1 PUnit su eu (- exponent); MkR 1 PUnit eu eu exponent]
                       else plan ++ [MkR 1 PUnit su eu exponent; MkR 1 PUnit su su (- exponent)] in
          cancel_loop f invert dimension inverse exponent factors2 plan'
        else COk (factors, plan)
    end.

  Definition fd_size (d : fdict) : nat := length (fd_expand d).

  Definition cancel_factors (factors : fdict) (invert : bool) : cres (fdict * list rstep) :=
    fold_left (fun acc dimension =>
      do acc <~ acc ;
      let '(fs, plan) := acc in
      let exponent := if dany_neg dimension then -1 else 1 in
      cancel_loop (S (fd_size fs)) invert dimension (fpow dimension (-1)) exponent fs plan)
      (map fst factors) (COk (factors, [])).

  (* ---------- the path finder ---------- *)
  Variable offs : table.

  Definition hop := (Q * Q)%type.           (* (scale, offset) *)

  (* _reduce_dimension: None = ConversionNotFound (different dimensions) *)
  Definition reduce_dimension (s e : unit3) : option (Z * unit3 * unit3) :=
    if negb (feqb (udim s) (udim e)) then None else
    if feqb (udim s) fone then Some (1, s, e) else
    let x := dgcd (udim s) in
    (* gcd of a non-zero exponent tuple is positive; a tuple of zeros is Number (previous line) *)
    if Z.eqb x 0 then Some (1, s, e) else
    match uroot s x, uroot e x with
    | Ok s', Ok e' => Some (x, s', e')
    | _, _ => Some (1, s, e)
    end.

  Definition in_visited (u : unit3) (v : list unit3) : bool := existsb (ukey_eqb u) v.

  Definition hop_pow (x : Z) (h : hop) : hop := (Qpower (fst h) x, Qpower (snd h) x).

  Fixpoint find_path (fuel : nat) (s e : unit3) (visited : list unit3) : cres (list hop * list unit3) :=
    match fuel with
    | O => CErr EFuel
    | S f =>
        if ukey_eqb s e then COk ([(1%Q, 0%Q)], visited) else
        if in_visited s visited then COk ([], visited) else
        let visited := s :: visited in
        match reduce_dimension s e with
        | None => CErr CNF
        | Some (x, s', e') =>
            (fix loop (nbrs : row) (best : list hop) (visited : list unit3) {struct nbrs}
               : cres (list hop * list unit3) :=
               match nbrs with
               | [] => COk (best, visited)
               | (inter, scale) :: rest =>
                   let offset := match tget offs s' inter with Some o => o | None => 0%Q end in
                   if ukey_eqb inter e' then COk ([hop_pow x (scale, offset)], visited) else
                   match find_path f inter e' visited with
                   | CErr er => CErr er
                   | COk (p, visited') =>
                       match p with
                       | [] => loop rest best visited'
                       | _ => let p' := map (hop_pow x) ((scale, offset) :: p) in
                              let best' := match best with
                                           | [] => p'
                                           | _ => if Nat.ltb (length p') (length best) then p' else best
                                           end in
                              loop rest best' visited'
                       end
                   end
               end) (trow tbl s') [] visited
        end
    end.

  Definition find_path0 (fuel : nat) (s e : unit3) : cres (list hop) :=
    do r <~ find_path fuel s e [] ; COk (fst r).

  (* ---------- plans ---------- *)
  Record pstep := MkPS { ps_ratio : Q; ps_path : list hop; ps_exp : Z }.

  Fixpoint inline_paths (fuel : nat) (rough : list rstep) : cres (list pstep) :=
    match rough with
    | [] => COk []
    | r :: rest =>
        do p <~ find_path0 fuel (r_start r) (r_end r) ;
        match p with
        | [] => CErr CNF
        | _ => do tl <~ inline_paths fuel rest ; COk (MkPS (r_ratio r) p (r_exp r) :: tl)
        end
    end.

  Definition end_prefix_step (e : unit3) : rstep :=
    MkR (/ pvalQ (upre e)) PEndPrefix uone uone 1.

  (* the part of _plan_conversion after the direct-path attempt: the rough plan *)
  Definition rough_plan (fuel : nat) (sof eof : list (atom * Z)) : cres (list rstep) :=
    let sf := splat bd sof in
    let ef := splat bd eof in
    do x <~ replace_factors fuel sf ;
    let '(sf, plan1) := x in
    do y <~ replace_factors fuel ef ;
    let '(ef, plan2r) := y in
    do plan2 <~ fold_right (fun r acc =>
               do acc <~ acc ;
               if Qeq_bool (r_ratio r) 0 then CErr EZero else
               COk (MkR (/ r_ratio r)
                        (match r_prov r with PTbl u a z => PTbl u a (- z) | p => p end)
                        (r_start r) (r_end r) (r_exp r) :: acc)) (COk []) plan2r ;
    do z <~ match_factors sf ef ;
    let '(sf, ef, plan3) := z in
    do w <~ match_factors ef sf ;
    let '(ef, sf, plan4r) := w in
    let plan4 := map (fun r => MkR 1 PUnit (r_end r) (r_start r) (r_exp r)) plan4r in
    do v <~ cancel_factors ef false ;
    let '(ef, plan5) := v in
    do u <~ cancel_factors sf true ;
    let '(sf, plan6) := u in
    match sf, ef with
    | [], [] => COk (plan1 ++ plan2 ++ plan3 ++ plan4 ++ plan5 ++ plan6)
    | _, _ => CErr CNF
    end.

  Inductive planned := Direct (p : list hop) | Rough (r : list rstep).

  Definition plan_shape (fuel : nat) (s e : unit3) : cres planned :=
    do sof <~ match ordered ord s with Some l => COk l | None => CErr EMissing end ;
    do eof <~ match ordered ord e with Some l => COk l | None => CErr EMissing end ;
    do d <~ find_path0 fuel s e ;
    match d with
    | _ :: _ => COk (Direct d)
    | [] => do r <~ rough_plan fuel sof eof ; COk (Rough r)
    end.

  Definition plan_conversion (fuel : nat) (s e : unit3) : cres (list pstep) :=
    do sh <~ plan_shape fuel s e ;
    match sh with
    | Direct d => do tl <~ inline_paths fuel [end_prefix_step e] ; COk (MkPS 1 d 1 :: tl)
    | Rough r => inline_paths fuel (r ++ [end_prefix_step e])
    end.

  (* convert()'s loop.  scale ** exponent with a zero scale and a negative exponent raises *)
  Definition apply_hop (x : Z) (m : Q) (h : hop) : Q := (m * Qpower (fst h) x + snd h)%Q.
  Definition apply_step (m : Q) (st : pstep) : Q :=
    fold_left (apply_hop (ps_exp st)) (ps_path st) (m * ps_ratio st)%Q.
  Definition apply_plan (plan : list pstep) (m : Q) : Q := fold_left apply_step plan m.

  Definition plan_div0 (plan : list pstep) : bool :=
    existsb (fun st => andb (Z.ltb (ps_exp st) 0) (existsb (fun h => Qeq_bool (fst h) 0) (ps_path st))) plan.

  (* conversions.convert on a quantity (m, s) into e; the result is the new magnitude *)
  Definition convert (fuel : nat) (m : Q) (s e : unit3) : cres Q :=
    if negb (feqb (udim s) (udim e)) then CErr CNF else
    do plan <~ plan_conversion fuel s e ;
    if plan_div0 plan then CErr EZero else
    COk (apply_plan plan (m * pvalQ (upre s))%Q).
End Planner.

(* ---------- declarations ---------- *)
(* equate(a, b) on unprefixed quantities: _ratios[a][b] = mb / ma, _ratios[b][a] = ma / mb *)
Definition equate (t : table) (ma : Q) (a : unit3) (mb : Q) (b : unit3) : table :=
  tset (tset t a b (mb / ma)%Q) b a (ma / mb)%Q.

(* translate(scale, zero): ratio 1 both ways; offsets -/+ zero.magnitude *)
Definition translate_ratios (t : table) (scale degree : unit3) : table :=
  tset (tset t degree scale 1%Q) scale degree 1%Q.
Definition translate_offsets (o : table) (scale degree : unit3) (z : Q) : table :=
  tset (tset o degree scale (- z)%Q) scale degree z.
