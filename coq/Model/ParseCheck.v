(* Executable checkers for the parse / print model: rendering of terms to text (unit_str's string),
   comparison with what the implementation printed / resolved / parsed, and the exhaustive
   prefix x symbol collision sweep. *)
From stdpp Require Import gmap.
From Coq Require Import ZArith List.
From Measured Require Import Model.FMap Model.Units Model.Parse.
Import ListNotations.
Local Open Scope Z_scope.

(* decimal digits of a non-negative integer, most significant first *)
Fixpoint digits_fuel (fuel : nat) (n : Z) (acc : list Z) : list Z :=
  match fuel with
  | O => acc
  | S f => if Z.ltb n 10 then n :: acc else digits_fuel f (n / 10) (n mod 10 :: acc)
  end.
Definition digits (n : Z) : list Z := digits_fuel 400 n [].

(* formatting.superscript: "" for 1, else the superscript spelling of str(exponent) *)
Definition sup_digit (d : Z) : Z :=
  match d with
  | 1 => 185 | 2 => 178 | 3 => 179        (* ¹ ² ³ *)
  | 0 => 8304                              (* ⁰ *)
  | _ => 8304 + d                          (* ⁴ .. ⁹ = U+2074 .. U+2079 *)
  end.
Definition superscript (e : Z) : str :=
  if Z.eqb e 1 then [] else
  (if Z.ltb e 0 then [8315] else []) ++ map sup_digit (digits (Z.abs e)).     (* ⁻ = U+207B *)

Definition dot : Z := 8901.                  (* ⋅ U+22C5 *)

Fixpoint render (l : list (str * Z)) : str :=
  match l with
  | [] => []
  | [(s, e)] => s ++ superscript e
  | (s, e) :: l' => s ++ superscript e ++ [dot] ++ render l'
  end.

Definition unit3_eqb (a b : unit3) : bool := bool_decide (a = b).

Definition res_eqb (a b : res unit3) : bool :=
  match a, b with
  | Ok x, Ok y => unit3_eqb x y
  | FracErr, FracErr | MixedBase, MixedBase => true
  | _, _ => false
  end.

(* what the implementation returned for Unit.resolve_symbol *)
Inductive rexp := RUnit (u : unit3) | RMixedUnit | RKeyError | ROther.

Definition resolve_ok (tab : symtab) (c : str * rexp) : bool :=
  match resolve tab (fst c), snd c with
  | Found (Ok u), RUnit v => unit3_eqb u v
  | Found MixedBase, RMixedUnit => true
  | KeyErr, RKeyError => true
  | _, _ => false
  end.

Definition print_ok (pt : printab) (c : unit3 * list (positive * Z) * str) : bool :=
  let '(u, of, text) := c in
  match print_terms pt u of with
  | PTerms l => str_eqb (render l) text
  | _ => true                      (* leading magnitude / symbol-less prefix: text outside the model (known finding classes) *)
  end.

Definition pres_eqb (a b : pres) : bool :=
  match a, b with
  | POk x, POk y => unit3_eqb x y
  | PKeyError, PKeyError | PMixed, PMixed | PFrac, PFrac => true
  | _, _ => false
  end.

(* parse(print u) in the model *)
Definition roundtrip (tab : symtab) (pt : printab) (u : unit3) (of : list (positive * Z)) : option pres :=
  match print_terms pt u of with
  | PTerms l => Some (eval_terms tab l)
  | _ => None
  end.

(* the implementation's Unit.parse(str(u)) against the model's *)
Definition roundtrip_ok (tab : symtab) (pt : printab) (c : unit3 * list (positive * Z) * pres) : bool :=
  let '(u, of, back) := c in
  match roundtrip tab pt u of with
  | Some r => pres_eqb r back
  | None => true
  end.

(* ---------- the collision sweep: every prefix symbol in front of every unit symbol ---------- *)
Definition prefixed_ok (tab : symtab) (ps : str * prefix) (us : str * unit3) : bool :=
  match resolve tab (fst ps ++ fst us) with
  | Found r => res_eqb r (upre_mul (snd ps) (snd us))
  | KeyErr => false
  end.

Definition collisions (tab : symtab) : list (nat * nat) :=
  flat_map (fun '(i, ps) =>
    flat_map (fun '(j, us) => if prefixed_ok tab ps us then [] else [(i, j)])
             (combine (seq 0 (length (st_usym tab))) (st_usym tab)))
    (combine (seq 0 (length (st_psym tab))) (st_psym tab)).

(* every registered name resolves to its unit (the name fallback), unless a symbol or a prefix split shadows it *)
Definition shadowed_names (tab : symtab) : list nat :=
  flat_map (fun '(i, nu) => match resolve tab (fst nu) with
                            | Found (Ok u) => if unit3_eqb u (snd nu) then [] else [i]
                            | _ => [i]
                            end)
           (combine (seq 0 (length (st_uname tab))) (st_uname tab)).
