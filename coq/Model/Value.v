(* physical value of a quantity: magnitude * prefix factor * size of the unit, where a unit's size is
   the product of its base units' sizes raised to their exponents *)
From stdpp Require Import gmap.
From Coq Require Import ZArith QArith Lia.
From Measured Require Import Model.FMap Model.Units Model.Quantity.

Definition sizes := list (positive * Q).

Definition fsz (se : sizes) (f : fmap) : Q :=
  fold_right (fun '(k, s) acc => (Qpower s (get f k) * acc)%Q) 1%Q se.

Definition usz (se : sizes) (u : unit3) : Q := (pvalQ (upre u) * fsz se (ufac u))%Q.

Definition val (se : sizes) (q : qty) : Q := (qm q * usz se (qu q))%Q.

Definition sizes_pos (se : sizes) : Prop := Forall (fun ks => (0 < snd ks)%Q) se.

(* the conversion oracle is sound for the sizes: conv a b = Some r means r = size a / size b on the
   unprefixed units *)
Definition conv_sound (se : sizes) (conv : unit3 -> unit3 -> option Q) : Prop :=
  forall a b r, conv a b = Some r -> (r * fsz se (ufac b) == fsz se (ufac a))%Q.
