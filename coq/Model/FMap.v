(* Free abelian group on [positive] generators, as finite maps without zero entries.
   Used both for dimensions (generator = fundamental dimension index) and for the
   base-unit factors of a unit (generator = base-unit id). *)
From stdpp Require Import gmap.
From Coq Require Import ZArith Lia.
Local Open Scope Z_scope.

Notation fmap := (gmap positive Z).

Definition nz (z : Z) : option Z := if Z.eqb z 0 then None else Some z.

Definition get (m : fmap) (k : positive) : Z := default 0 (m !! k).

Definition wf (m : fmap) : Prop := forall k, m !! k <> Some 0.

Definition fone : fmap := ∅.

Definition fmul (a b : fmap) : fmap :=
  merge (fun x y => match x, y with
                    | None, None => None
                    | _, _ => nz (default 0 x + default 0 y)
                    end) a b.

Definition fscale (n : Z) (a : fmap) : fmap := omap (fun x => nz (x * n)) a.

Definition finv (a : fmap) : fmap := fscale (-1) a.
Definition fdiv (a b : fmap) : fmap := fmul a (finv b).
Definition fpow (a : fmap) (n : Z) : fmap := fscale n a.

(* Python: all(e // n == e / n), i.e. n divides every exponent; n <> 0 *)
Definition fdivisible (n : Z) (a : fmap) : bool :=
  bool_decide (map_Forall (fun _ e => (e mod n = 0)%Z) a).

Definition froot_raw (n : Z) (a : fmap) : fmap := omap (fun x => nz (x / n)) a.

Definition froot (a : fmap) (n : Z) : option fmap :=
  if Z.eqb n 0 then Some fone
  else if fdivisible n a then Some (froot_raw n a) else None.

(* numerator / denominator parts *)
Definition fposp (a : fmap) : fmap := omap (fun x => if Z.ltb 0 x then Some x else None) a.
Definition fnegp (a : fmap) : fmap := omap (fun x => if Z.ltb x 0 then Some (- x) else None) a.

Definition of_list (l : list (positive * Z)) : fmap :=
  fold_right (fun '(k, e) acc => fmul (if Z.eqb e 0 then ∅ else {[ k := e ]}) acc) fone l.

Definition to_list (m : fmap) : list (positive * Z) := map_to_list m.

Definition feqb (a b : fmap) : bool := bool_decide (a = b).
