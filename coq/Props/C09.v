(* C09 — shipped unit definitions are mutually consistent and connected to SI.
   General theorems here (proofs: Proofs/ChainFacts.v); the declarations themselves are regenerated
   from the unit modules on every run and the reflective obligations edges_ok / slack_ok /
   declarations_in_table / all_named_reach_si are discharged by vm_compute (harness/c09.py). *)
From stdpp Require Import gmap.
From Coq Require Import ZArith QArith List.
From Measured Require Import Model.FMap Model.Units Model.Quantity Model.Value Model.Convert
  Proofs.ConvertFacts Proofs.ChainFacts.
Import ListNotations.
Local Open Scope Q_scope.

(* a chain multiplies to the size ratio of its end points times the product of its edges' errors *)
Theorem C09_chain_telescope : forall se E, sizes_pos se -> forall l a c, linked E l a c ->
  chain_ratio E l * usz se c / usz se a == chain_err se E l.
Proof. exact chain_telescope. Qed.
Print Assumptions C09_chain_telescope.

(* every chain that follows each declared edge at most once is within the table's total slack of the
   size ratio: the size of a unit does not depend on which definitions are followed *)
Theorem C09_chain_bound : forall se E hi l a c,
  sizes_pos se -> bounded se E hi -> (forall i, 1 <= hi i) ->
  List.NoDup l -> (forall i, In i l -> (i < length E)%nat) -> linked E l a c ->
  let dev := chain_ratio E l * usz se c / usz se a in
  / prod_upto hi (length E) <= dev /\ dev <= prod_upto hi (length E).
Proof. exact chain_bound. Qed.
Print Assumptions C09_chain_bound.

(* a declared edge (a chain of length one) against every other such chain between the same units *)
Theorem C09_chains_agree : forall se E hi l1 l2 a c,
  sizes_pos se -> bounded se E hi -> (forall i, 1 <= hi i) ->
  List.NoDup l1 -> (forall i, In i l1 -> (i < length E)%nat) -> linked E l1 a c ->
  List.NoDup l2 -> (forall i, In i l2 -> (i < length E)%nat) -> linked E l2 a c ->
  0 < usz se a -> 0 < usz se c ->
  let S := prod_upto hi (length E) in
  chain_ratio E l1 <= chain_ratio E l2 * (S * S).
Proof. exact chains_agree. Qed.
Print Assumptions C09_chains_agree.

(* the reflective per-run check establishes the hypotheses of the two theorems above *)
Theorem C09_edges_within_bounded : forall se E H, edges_within se E H = true ->
  bounded se E (hi_of H) /\ (forall i, 1 <= hi_of H i).
Proof. exact edges_within_bounded. Qed.
Print Assumptions C09_edges_within_bounded.

Theorem C09_slack_is_product : forall H, prod_upto (hi_of H) (length H) == prod_all H.
Proof. exact prod_upto_hi_of. Qed.
Print Assumptions C09_slack_is_product.

(* non-vacuity: a = 2 b, b = 3 c, a = 6.000006 c: the chain a-b-c against the direct edge *)
Definition nv_u (k : positive) : unit3 := MkU pid {[ k := 1%Z ]} {[ 1%positive := 1%Z ]}.
Definition nv_E : list edge := [(nv_u 1, nv_u 2, 2); (nv_u 2, nv_u 3, 3); (nv_u 1, nv_u 3, 6000006 # 1000000)].
Definition nv_sizes : sizes := [(1%positive, 6); (2%positive, 3); (3%positive, 1)].
Example C09_nonvacuous :
  edges_within nv_sizes nv_E [1; 1; 1000001 # 1000000] = true /\ linked nv_E [0%nat; 1%nat] (nv_u 1) (nv_u 3) /\
  linked nv_E [2%nat] (nv_u 1) (nv_u 3).
Proof.
  split; [vm_compute; reflexivity|]. split.
  - simpl. eexists. split; [reflexivity|]. split; [vm_compute; reflexivity|]. eexists. split; [reflexivity|]. split; vm_compute; reflexivity.
  - simpl. eexists. split; [reflexivity|]. split; vm_compute; reflexivity.
Qed.

(* ---- the declaration invariants on the shipped tables ----
   The per-run obligation Gen_reciprocal.shipped_tables_reciprocal evaluates reciprocalb / oppositeb (Model/Declare.v) on the exported
   _ratios / _offsets; these two theorems say what a `true` means: for every pair the table answers, the other direction answers too,
   with the reciprocal within the tolerance (the implementation stores floats) / with exactly the opposite offset.  They are the
   invariants C08_declarations_keep_table_reciprocal and C10_history_tables prove of every history of declarations. *)
From Coq Require Import Qabs.
From Measured Require Import Model.Declare Proofs.EquateFacts.

Theorem C09_reciprocal_check_sound : forall eps t, reciprocalb eps t = true ->
  forall c d r, tget t c d = Some r -> exists r', tget t d c = Some r' /\ (Qabs (r * r' - 1) <= eps)%Q.
Proof. exact reciprocalb_sound. Qed.
Print Assumptions C09_reciprocal_check_sound.

Theorem C09_opposite_check_sound : forall o, oppositeb o = true ->
  forall c d z, tget o c d = Some z -> exists z', tget o d c = Some z' /\ (z + z' == 0)%Q.
Proof. exact oppositeb_sound. Qed.
Print Assumptions C09_opposite_check_sound.
