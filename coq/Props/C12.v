(* C12 — comparisons are coherent: symmetric ==, physical total order, hash agrees (refuted). *)
From stdpp Require Import gmap.
From Coq Require Import ZArith QArith.
From Measured Require Import Model.FMap Model.Units Model.Quantity Model.Value Proofs.ValueFacts Proofs.OrderFacts.
Local Open Scope Q_scope.

Theorem C12_eq_reflexive : forall conv a, q_cmp conv false a (VQty a) = Bool true.
Proof. exact eq_reflexive. Qed.
Print Assumptions C12_eq_reflexive.

Theorem C12_eq_symmetric : forall se, sizes_pos se -> forall conv, conv_sound se conv -> forall a b e1 e2,
  q_cmp conv false a (VQty b) = Bool e1 -> q_cmp conv false b (VQty a) = Bool e2 -> e1 = e2.
Proof. exact eq_symmetric. Qed.
Print Assumptions C12_eq_symmetric.

Theorem C12_trichotomy : forall se, sizes_pos se -> forall conv, conv_sound se conv -> forall a b l1 l2 e,
  q_cmp conv true a (VQty b) = Bool l1 -> q_cmp conv true b (VQty a) = Bool l2 ->
  q_cmp conv false a (VQty b) = Bool e ->
  (l1 = true /\ e = false /\ l2 = false) \/ (l1 = false /\ e = true /\ l2 = false) \/ (l1 = false /\ e = false /\ l2 = true).
Proof. exact trichotomy. Qed.
Print Assumptions C12_trichotomy.

Theorem C12_le_ge_mirror : forall se, sizes_pos se -> forall conv, conv_sound se conv -> forall a b l1 l2 e,
  q_cmp conv true a (VQty b) = Bool l1 -> q_cmp conv true b (VQty a) = Bool l2 ->
  q_cmp conv false a (VQty b) = Bool e ->
  (q_le_derived conv a (VQty b) = Bool (l1 || e)%bool) /\ (q_ge_derived conv b (VQty a) = Bool (negb l2)) /\
  ((l1 || e)%bool = negb l2).
Proof. exact le_ge_mirror. Qed.
Print Assumptions C12_le_ge_mirror.

Theorem C12_sorted_physically : forall se, sizes_pos se -> forall conv, conv_sound se conv -> forall (l : list qty),
  (forall i j a b, (i < j)%nat -> nth_error l i = Some a -> nth_error l j = Some b ->
     q_cmp conv true b (VQty a) = Bool false) ->
  forall i j a b, (i < j)%nat -> nth_error l i = Some a -> nth_error l j = Some b -> val se a <= val se b.
Proof. exact sorted_physical. Qed.
Print Assumptions C12_sorted_physically.

(* measurements (and approximately(...)): interval overlap is symmetric; the one-sided test was not *)
Theorem C12_measurement_eq_symmetric : forall v1 s1 v2 s2, meq v1 s1 v2 s2 = meq v2 s2 v1 s1.
Proof. exact meq_symmetric. Qed.
Print Assumptions C12_measurement_eq_symmetric.

Theorem C12_refuted_old_measurement_eq : meq_old 5 1 5 3 = false /\ meq_old 5 3 5 1 = true.
Proof. exact meq_old_asymmetric. Qed.
Print Assumptions C12_refuted_old_measurement_eq.

(* the hash clause is false of the code: 1 km == 1000 m but their hash keys differ (known finding);
   what holds is the partial statement for quantities in the same unit object *)
Theorem C12_hash_refuted :
  let m := MkU pid {[ 1%positive := 1%Z ]} {[ 2%positive := 1%Z ]} in
  let km := MkU (MkP 10 3) {[ 1%positive := 1%Z ]} {[ 2%positive := 1%Z ]} in
  q_cmp (fun _ _ => None) false (MkQty KInt 1 km) (VQty (MkQty KInt 1000 m)) = Bool true /\
  hash_key (MkQty KInt 1 km) <> hash_key (MkQty KInt 1000 m).
Proof. exact hash_refuted. Qed.
Print Assumptions C12_hash_refuted.

Theorem C12_hash_partial : forall a b, qu a = qu b -> qm a = qm b -> hash_key a = hash_key b.
Proof. exact hash_partial. Qed.
Print Assumptions C12_hash_partial.
