(* C17 — parsing is total: any text yields a Unit/Quantity or ParseError/KeyError.
   What is proved is about the model of the transformer (Model/Parse.v): its outcome type lists every
   way a term sequence can end, evaluation is a function of the symbol tables and the text alone, and
   it has no access to the registries (they are an argument, never a result).  The LALR driver's
   outcomes are listed in Model/LR.v (C16).  Character-level totality of the real parser -- the regex
   scanner, Python's int()/float() limits, which exceptions the callbacks can raise -- is established
   per run by correspondence and by fuzzing the implementation (harness/c17.py), not by a theorem. *)
From stdpp Require Import gmap.
From Coq Require Import ZArith List.
From Coq Require Import NArith.
From Measured Require Import Model.FMap Model.Units Model.Parse Model.ParseCheck Proofs.ParseFacts Model.LR Model.Lex Proofs.LexFacts Model.TextParse Proofs.TextParseFacts.
Import ListNotations.

(* Unit.parse on a term sequence: the transformer's KeyError is passed on; everything else the
   callbacks raise (ValueError, OverflowError) is reported as ParseError *)
Inductive parse_outcome := Parsed (u : unit3) | RaisesKeyError | RaisesParseError.

Definition unit_parse (tab : symtab) (num : list (str * Z)) (den : option (list (str * Z))) : parse_outcome :=
  match eval_unit tab num den with
  | POk u => Parsed u
  | PKeyError => RaisesKeyError
  | PMixed | PFrac => RaisesParseError
  end.

Theorem C17_total_partial : forall tab num den,
  (exists u, unit_parse tab num den = Parsed u) \/ unit_parse tab num den = RaisesKeyError \/ unit_parse tab num den = RaisesParseError.
Proof. intros. destruct (unit_parse tab num den); eauto. Qed.
Print Assumptions C17_total_partial.

(* parsing twice gives the same result, and a unit that resolved once resolves to the same unit again:
   the outcome is a function of the tables and the text *)
Theorem C17_deterministic : forall tab num den a b, unit_parse tab num den = a -> unit_parse tab num den = b -> a = b.
Proof. congruence. Qed.
Print Assumptions C17_deterministic.

(* a symbol that is not registered (no exact symbol, no prefix split, no name) is a KeyError, never anything else *)
Theorem C17_unknown_symbol : forall tab s e rest, resolve tab s = KeyErr -> eval_terms tab ((s, e) :: rest) = PKeyError.
Proof. intros tab s e rest H. cbn [eval_terms]. unfold eval_term. cbn [fst]. rewrite H. reflexivity. Qed.
Print Assumptions C17_unknown_symbol.

Example C17_nonvacuous : unit_parse (MkSym [] [] []) [([122%Z; 122%Z], 1%Z)] None = RaisesKeyError.
Proof. vm_compute. reflexivity. Qed.

(* ---- the scanner (Model/Lex.v): total by construction, and it makes progress ----
   Every token the lexer hands to the parser is text that stands in the input after a skipped (ignored) stretch, and the
   rest is strictly shorter: the recursion on the length of the text is all the lexer needs, nothing is lost or
   invented, and the only ways lexing ends are a token, the end of the text, or "no terminal matches here". *)
Theorem C17_lexer_progress : forall ignore n cands s t rest,
  next_token ignore n cands s = SToken t rest ->
  length rest < length s /\ exists skipped, s = skipped ++ snd t ++ rest.
Proof. exact next_token_progress. Qed.
Print Assumptions C17_lexer_progress.

Theorem C17_match_is_prefix : forall r s rest, rmatch r s = Some rest -> exists pre, s = pre ++ rest.
Proof. exact rmatch_suffix. Qed.
Print Assumptions C17_match_is_prefix.

(* the outcomes of the text-level parser are a tree or one of two exception classes; PBroken (table or fuel exhausted)
   is excluded per run: the model is evaluated on every sampled text next to the implementation (the Run_text obligations) *)
Theorem C17_text_outcomes : forall order ignore rules infos filtered terminals end_sym T s,
  match parse_text order ignore rules infos filtered terminals end_sym T s with
  | PTree _ | PUnexpectedCharacters | PUnexpectedToken | PBroken => True
  end.
Proof. intros. destruct (parse_text _ _ _ _ _ _ _ _ _); exact I. Qed.
Print Assumptions C17_text_outcomes.

(* (class)+ -- the shape of the SYMBOL, WS and digit terminals, checked on the regenerated expressions at every run
   (symbol_shape) -- takes the longest run of class characters: a symbol is one token however long it is *)
Theorem C17_class_plus_is_maximal_munch : forall r P, is_class r P -> forall s,
  rmatch (RPlus r) s = match s with x :: s' => if P x then Some (drop_while P s') else None | [] => None end.
Proof. exact plus_class_munch. Qed.
Print Assumptions C17_class_plus_is_maximal_munch.

Theorem C17_class_shapes : forall r P, class_pred r = Some P -> is_class r P.
Proof. exact class_pred_sound. Qed.
Print Assumptions C17_class_shapes.

(* the embedded transformer: when a text does not parse and Unit.parse nevertheless reports a KeyError, a term that had
   already been reduced when the parser stopped does not resolve -- the KeyError is that term's, raised before the
   syntax error further right was reached *)
Theorem C17_key_error_before_syntax_error :
  forall nm tab order ignore rules infos filtered terminals end_sym T s,
  (forall t, parse_text order ignore rules infos filtered terminals end_sym T (to_text s) <> PTree t) ->
  unit_parse_text nm tab order ignore rules infos filtered terminals end_sym T s = TUnit PKeyError ->
  exists t, In t (reduced_terms nm (parse_failure_stack order ignore rules infos filtered terminals end_sym T (to_text s))) /\
            resolve tab (fst t) = KeyErr.
Proof. exact syntax_failure_key_error. Qed.
Print Assumptions C17_key_error_before_syntax_error.

(* the model's recursion budget is not part of the answer: once the text-level parser has answered -- a tree or an exception
   class -- every larger budget gives the same answer (so the budget 4*length+60 of parse_text could be any larger number) *)
Theorem C17_budget_not_part_of_result :
  forall order ignore rules infos filtered terminals end_sym T f stack vals s,
  run_text order ignore rules infos filtered terminals end_sym T f stack vals s <> PBroken ->
  forall f', f <= f' ->
  run_text order ignore rules infos filtered terminals end_sym T f' stack vals s =
  run_text order ignore rules infos filtered terminals end_sym T f stack vals s.
Proof. exact run_text_mono. Qed.
Print Assumptions C17_budget_not_part_of_result.
