(* C17 — parsing is total: any text yields a Unit/Quantity or ParseError/KeyError.
   What is proved is about the model of the transformer (Model/Parse.v): its outcome type lists every
   way a term sequence can end, evaluation is a function of the symbol tables and the text alone, and
   it has no access to the registries (they are an argument, never a result).  The LALR driver's
   outcomes are listed in Model/LR.v (C16).  Character-level totality of the real parser -- the regex
   scanner, Python's int()/float() limits, which exceptions the callbacks can raise -- is established
   per run by correspondence and by fuzzing the implementation (harness/c17.py), not by a theorem. *)
From stdpp Require Import gmap.
From Coq Require Import ZArith List.
From Measured Require Import Model.FMap Model.Units Model.Parse Model.ParseCheck Proofs.ParseFacts.
Import ListNotations.

(* Unit.parse on a term sequence: the transformer's KeyError is passed on; everything else the
   callbacks raise (ValueError, OverflowError) is reported as ParseError *)
Inductive parse_outcome := Parsed (u : unit3) | RaisesKeyError | RaisesParseError.

Definition unit_parse (tab : symtab) (num : list (str * Z)) (den : option (list (str * Z))) : parse_outcome :=
  match eval_unit tab num den with
  | POk u => Parsed u
  | PKeyError => RaisesKeyError
  | PMixed | PFrac => RaisesParseError
  end.

Theorem C17_total_partial : forall tab num den,
  (exists u, unit_parse tab num den = Parsed u) \/ unit_parse tab num den = RaisesKeyError \/ unit_parse tab num den = RaisesParseError.
Proof. intros. destruct (unit_parse tab num den); eauto. Qed.
Print Assumptions C17_total_partial.

(* parsing twice gives the same result, and a unit that resolved once resolves to the same unit again:
   the outcome is a function of the tables and the text *)
Theorem C17_deterministic : forall tab num den a b, unit_parse tab num den = a -> unit_parse tab num den = b -> a = b.
Proof. congruence. Qed.
Print Assumptions C17_deterministic.

(* a symbol that is not registered (no exact symbol, no prefix split, no name) is a KeyError, never anything else *)
Theorem C17_unknown_symbol : forall tab s e rest, resolve tab s = KeyErr -> eval_terms tab ((s, e) :: rest) = PKeyError.
Proof. intros tab s e rest H. cbn [eval_terms]. unfold eval_term. cbn [fst]. rewrite H. reflexivity. Qed.
Print Assumptions C17_unknown_symbol.

Example C17_nonvacuous : unit_parse (MkSym [] [] []) [([122%Z; 122%Z], 1%Z)] None = RaisesKeyError.
Proof. vm_compute. reflexivity. Qed.
