(* C18 — levels and quantities interconvert by the logarithmic definition.  Over the reals, for every
   base b > 0 (b <> 1), prefix value p <> 0, power ratio k <> 0, reference r > 0.  The two formulas
   are the expression trees of the source (harness/c18.py re-derives them on every run). *)
From Coq Require Import Reals ZArith Lra.
From Measured Require Import Model.LevelModel Proofs.LevelFacts.
Open Scope R_scope.

Theorem C18_level_definition : forall q r b p k, level q r b p k = k / p * (ln (q / r) / ln b).
Proof. exact level_closed. Qed.
Print Assumptions C18_level_definition.
Theorem C18_quantify_definition : forall l r b p k, quantify l r b p k = Rpower b (l * p / k) * r.
Proof. exact quantify_closed. Qed.
Print Assumptions C18_quantify_definition.
Theorem C18_roundtrip_quantity : forall r b p k, 0 < r -> 0 < b -> b <> 1 -> p <> 0 -> k <> 0 ->
  forall q, 0 < q -> quantify (level q r b p k) r b p k = q.
Proof. exact roundtrip_q. Qed.
Print Assumptions C18_roundtrip_quantity.
Theorem C18_roundtrip_level : forall r b p k, 0 < r -> 0 < b -> b <> 1 -> p <> 0 -> k <> 0 ->
  forall l, level (quantify l r b p k) r b p k = l.
Proof. exact roundtrip_l. Qed.
Print Assumptions C18_roundtrip_level.
Theorem C18_level_equals_quantity : forall r b p k, 0 < r -> 0 < b -> b <> 1 -> p <> 0 -> k <> 0 ->
  forall q l, 0 < q -> (quantify l r b p k = q <-> l = level q r b p k).
Proof. exact level_eq. Qed.
Print Assumptions C18_level_equals_quantity.
Theorem C18_monotone : forall r b p k q1 q2, 0 < r -> 1 < b -> 0 < p -> 0 < k -> 0 < q1 -> q1 < q2 ->
  level q1 r b p k < level q2 r b p k.
Proof. exact level_monotone. Qed.
Print Assumptions C18_monotone.
Theorem C18_reference_unit_independent : forall c q r b p k, c <> 0 -> r <> 0 ->
  level (c * q) (c * r) b p k = level q r b p k.
Proof. exact level_unit_independent. Qed.
Print Assumptions C18_reference_unit_independent.
Theorem C18_root_power : forall q r b p, 0 < q -> 0 < r -> level q r b p 2 = level (q * q) (r * r) b p 1.
Proof. exact root_power_square. Qed.
Print Assumptions C18_root_power.

(* non-vacuity: 100 W against 1 W in decibels (b = 10, p = 1/10, k = 1) is 20 dB *)
Example C18_example : level 100 1 10 (/ 10) 1 = 20.
Proof.
  rewrite level_closed. replace (100 / 1) with (10 * 10) by lra.
  rewrite ln_mult by lra.
  assert (H : ln 10 <> 0) by (apply ln_b_nz; lra). field. exact H.
Qed.
