(* C16 — the checked-in generated parser implements exactly the grammar file.
   General theorem here; the two tables (shipped _parser.DATA/MEMO, and the tables produced by running
   the Makefile's generator on measured.lark) are regenerated on every run and the obligations
   shipped_is_fresh / tables closed / terminals, rules, options equal are discharged by vm_compute
   (harness/c16.py). *)
From Coq Require Import List Arith PArith Bool.
From Coq Require Import NArith.
From Measured Require Import Model.LR Proofs.LRFacts Model.Lex Proofs.LexFacts.
Import ListNotations.

(* For ANY scanner (the regex engine), ANY tree-building callbacks, any token/value/input types: if
   the state map fl relates the two tables (every shift/reduce/goto entry, start state, end state)
   then the two LALR drivers with contextual lexing return identical outcomes on every input. *)
Theorem C16_bisim_sound :
  forall (token value input : Type) (ttype : token -> positive)
         (scan : list positive -> input -> option (option (token * input)))
         (tokv : token -> value) (redv : nat -> list value -> value)
         (rules : list rule) (terminals : list positive) (end_sym : positive)
         (A B : table) (fl : list nat) (symbols : list positive),
  states_related fl symbols A B = true -> table_closed A = true ->
  forall fuel inp dummy,
    parse token value input ttype scan tokv redv rules terminals end_sym A fuel inp dummy =
    parse token value input ttype scan tokv redv rules terminals end_sym B fuel inp dummy.
Proof. exact bisim_sound. Qed.
Print Assumptions C16_bisim_sound.

(* the contextual lexer is offered the same terminals in related states *)
Theorem C16_same_accept_sets :
  forall (terminals : list positive) (A B : table) (fl : list nat) (symbols : list positive),
  states_related fl symbols A B = true -> forall a, a < length (t_states A) ->
  accepts terminals A a = accepts terminals B (fun_of fl a).
Proof. intros. eapply accepts_sim; eauto. Qed.
Print Assumptions C16_same_accept_sets.

(* non-vacuity: a three-state table for  s: X  and a renumbered copy are related; a copy whose shift
   goes elsewhere is not *)
Definition ex_A : table := MkT [[(1%positive, Shift 1); (3%positive, Shift 2)]; [(2%positive, Reduce 0)]; []] 0 2.
Definition ex_B : table := MkT [[]; [(2%positive, Reduce 0)]; [(3%positive, Shift 0); (1%positive, Shift 1)]] 2 0.
Definition ex_C : table := MkT [[]; [(2%positive, Reduce 0)]; [(3%positive, Shift 0); (1%positive, Shift 0)]] 2 0.
Example C16_nonvacuous :
  states_related [2; 1; 0] [1%positive; 2%positive; 3%positive] ex_A ex_B = true /\ table_closed ex_A = true /\
  states_related [2; 1; 0] [1%positive; 2%positive; 3%positive] ex_A ex_C = false.
Proof. repeat split; vm_compute; reflexivity. Qed.

(* ---- at the level of the property's quantifier: every text ----
   With the scanner, the tree builder and the driver of Model/Lex.v (the whole of Parser().parse from the characters to
   the tree or the exception class): two artefacts that have the same terminal definitions in the same order, the same
   ignore list, rules and tree options, and whose LALR tables are related by the state map, return the same result on
   EVERY text.  The side conditions are evaluated on the two regenerated artefacts at every run (Gen_tables,
   Gen_lexdata); the model itself is compared with the shipped parser text by text (the Run_text obligations). *)
Theorem C16_every_text :
  forall (order : list terminal) (ignore : list positive) (rules : list rule) (infos : list rinfo)
         (filtered terminals : list positive) (end_sym : positive) (A B : table) (fl : list nat) (symbols : list positive),
  states_related fl symbols A B = true -> table_closed A = true ->
  forall s : text,
    parse_text order ignore rules infos filtered terminals end_sym A s =
    parse_text order ignore rules infos filtered terminals end_sym B s.
Proof. exact parse_text_bisim. Qed.
Print Assumptions C16_every_text.

(* non-vacuity: the grammar  s: X+  over the alphabet {x, blank}, blanks ignored; "x x" parses to a node with two tokens,
   "x!" fails in the scanner *)
Definition ex_order : list terminal := [MkTerm 1%positive (RChar 120%N) true; MkTerm 9%positive (RPlus (RChar 32%N)) false].
Definition ex_T : table :=
  MkT [[(1%positive, Shift 1); (4%positive, Shift 2); (3%positive, Shift 3)];
       [(1%positive, Reduce 0); (2%positive, Reduce 0)];
       [(1%positive, Shift 4); (2%positive, Reduce 2)];
       [];
       [(1%positive, Reduce 1); (2%positive, Reduce 1)]] 0 3.
Definition ex_rules : list rule := [MkRule 4%positive 1; MkRule 4%positive 2; MkRule 3%positive 1].
Definition ex_infos : list rinfo := [MkRI 7%positive true false; MkRI 7%positive true false; MkRI 3%positive false false].
Example C16_text_nonvacuous :
  parse_text ex_order [9%positive] ex_rules ex_infos [] [1%positive] 2%positive ex_T [120%N; 32%N; 120%N]
    = PTree (TNode 3%positive [TTok 1%positive [120%N]; TTok 1%positive [120%N]]) /\
  parse_text ex_order [9%positive] ex_rules ex_infos [] [1%positive] 2%positive ex_T [120%N; 33%N] = PUnexpectedCharacters.
Proof. split; vm_compute; reflexivity. Qed.
