(* C13 — str() output parses back to the same unit/quantity; spellings are equivalent.
   Term level (symbol text + integer exponent); proofs in Proofs/ParseFacts.v.  The symbol tables are
   regenerated from the implementation on every run; harness/c13.py discharges by vm_compute the
   exhaustive prefix-symbol x unit-symbol collision sweep, the model = implementation lemmas for
   resolution, printing and parse(print), and classifies what cannot be printed. *)
From stdpp Require Import gmap.
From Coq Require Import ZArith List.
From Measured Require Import Model.FMap Model.Units Model.Intern Model.Parse Model.ParseCheck
  Proofs.UnitsFacts Proofs.InternFacts Proofs.ParseFacts Model.LR Model.Lex Model.TextParse Proofs.TextParseFacts Proofs.LexFacts.
Import ListNotations.
Local Open Scope Z_scope.

(* parse (print u) = u.  u: any well-formed unit (C01) with canonical prefix whose ordered factors are
   (a1, e1) :: rest; the printer pushed the prefix down (prefix.root(e1) = q); every printed piece
   resolves to the unit it was printed from. *)
Theorem C13_parse_print : forall bd tab u a1 e1 rest q ps s1 ss,
  uwf bd u -> pcanon (upre u) -> e1 <> 0 -> atom_ok bd a1 ->
  (forall k, get (ufac u) k = cnt k ((a1, e1) :: rest)) ->
  proot (upre u) e1 = Some q ->
  resolve tab (ps ++ s1) = Found (upre_mul q (atomu bd a1)) ->
  rest_resolves bd tab rest ss ->
  eval_terms tab ((ps ++ s1, e1) :: ss) = POk u.
Proof. exact parse_print. Qed.
Print Assumptions C13_parse_print.

(* the pushed-down prefix raised back to the exponent is the unit's prefix (why "km²" means (km)²) *)
Theorem C13_prefix_pushdown : forall p e q, pcanon p -> e <> 0 -> proot p e = Some q -> ppow q e = p.
Proof. exact ppow_proot. Qed.
Print Assumptions C13_prefix_pushdown.

(* superscript digits decode to the digit they encode: "^n" and the superscript spelling carry the same exponent *)
Theorem C13_superscript_digit : forall d, 0 <= d <= 9 -> unsup_digit (sup_digit d) = Some d.
Proof. exact unsup_sup. Qed.
Print Assumptions C13_superscript_digit.

(* spellings: a/b is a * b^-1, juxtaposition and the dot are the same product (laws of C02) *)
Theorem C13_divide_is_negative_exponent : forall a b, fdiv a b = fmul a (fpow b (-1)).
Proof. exact fdiv_as_mul. Qed.
Print Assumptions C13_divide_is_negative_exponent.

(* non-vacuity: symbol table {m -> metre, s -> second, k -> kilo}; km s^-2 prints as "km" "s^-2" and parses back *)
Definition ex_bd : env := [(1%positive, {[ 1%positive := 1 ]}); (2%positive, {[ 2%positive := 1 ]})].
Definition ex_m := atomu ex_bd 1.  Definition ex_s := atomu ex_bd 2.
Definition ex_tab : symtab := MkSym [([109], ex_m); ([115], ex_s)] [] [([107], MkP 10 3)].
Definition ex_u : unit3 := MkU (MkP 10 3) (of_list [(1%positive, 1); (2%positive, -2)]) (dimOf ex_bd (of_list [(1%positive, 1); (2%positive, -2)])).
Example C13_nonvacuous :
  pres_eqb (eval_terms ex_tab [([107; 109], 1); ([115], -2)]) (POk ex_u) = true /\
  roundtrip_ok ex_tab (MkPrint [] [(1%positive, [109]); (2%positive, [115])] [(MkP 10 3, [107])])
               (ex_u, [(1%positive, 1); (2%positive, -2)], POk ex_u) = true /\
  print_ok (MkPrint [] [(1%positive, [109]); (2%positive, [115])] [(MkP 10 3, [107])])
           (ex_u, [(1%positive, 1); (2%positive, -2)], [107; 109; 8901; 115; 8315; 178]) = true.
Proof. repeat split; vm_compute; reflexivity. Qed.

(* ---- text level ----
   unit_parse_text is Unit.parse in the model from the characters on: the scanner and LALR driver of Model/Lex.v on the
   shipped parser's regenerated tables, the transformer of Model/TextParse.v, the evaluation of Model/Parse.v.  Whenever the
   text the printer writes for a term list parses back to that term list -- evaluated in the kernel for every unit of
   the run (Run_print.text_level_agrees) -- Unit.parse of that text is the term-level evaluation C13_parse_print is about. *)
Theorem C13_text_roundtrip_is_term_roundtrip :
  forall nm tab order ignore rules infos filtered terminals end_sym T l,
  render_parses_back nm order ignore rules infos filtered terminals end_sym T l = true ->
  unit_parse_text nm tab order ignore rules infos filtered terminals end_sym T (render l) = TUnit (eval_unit tab l None).
Proof. exact text_roundtrip_is_term_roundtrip. Qed.
Print Assumptions C13_text_roundtrip_is_term_roundtrip.

(* the first step of reading a printed unit back: when the (class)+ terminal -- SYMBOL; the shape is checked on the regenerated
   expression at every run -- is the first candidate that matches, the scanner takes the whole run of class characters as one token:
   a printed symbol is never split, whatever its length, and the rest begins at the first character outside the class
   (a superscript, the dot operator, a blank) *)
Theorem C13_symbol_is_one_token : forall cands_before t cands_after body P x s,
  tm_re t = RPlus body -> is_class body P -> P x = true ->
  (forall u, In u cands_before -> rmatch (tm_re u) (x :: s) = None) ->
  first_match (cands_before ++ t :: cands_after) (x :: s) = Some (tm_id t, x :: take_while P s, drop_while P s).
Proof. exact class_plus_token. Qed.
Print Assumptions C13_symbol_is_one_token.

(* the exponent a unit is printed with reads back as the same integer, for EVERY integer (not digit by digit): superscript
   spelling, optional superscript minus, most significant digit first.  1 is printed as nothing and read by the bare-symbol
   rule.  The bound is the model printer's digit budget (CPython's own int->str limit is 4300 digits). *)
Theorem C13_superscript_reads_back : forall e, e <> 1 -> Z.abs e < 10 ^ 400 -> super_value (superscript e) = Some e.
Proof. exact superscript_reads_back. Qed.
Print Assumptions C13_superscript_reads_back.
