(* C19 — declared names/symbols bind faithfully; failed definitions change nothing. *)
From stdpp Require Import gmap.
From Measured Require Import Model.Registry Proofs.RegistryFacts.

(* In every state reachable by any sequence of definitions, aliases, derivations and (re)declarations
   -- whether or not the object was created anonymously before it was named -- each registry is
   faithful: a name (symbol) is bound to object o exactly when o reports it.  As the table is a
   function, no name or symbol is ever bound to two objects. *)
Theorem C19_bound : forall multi (l : list rop) (r : reg), RInv r -> RInv (rrun multi r l).
Proof. exact rrun_inv. Qed.
Print Assumptions C19_bound.

Theorem C19_never_two_objects : forall (m : gmap key nat) (c : gmap nat (list key)) k o1 o2,
  faithful m c -> k ∈ default [] (c !! o1) -> k ∈ default [] (c !! o2) -> o1 = o2.
Proof. exact faithful_unique. Qed.
Print Assumptions C19_never_two_objects.

(* one step: the invariant is kept; a call that raises leaves every registry exactly as it was; a
   call that succeeds binds the declared name and symbol to the object, the object reports them,
   and no other object's names change *)
Theorem C19_step : forall multi r op, RInv r ->
  let '(r', out) := rstep multi r op in
  RInv r' /\
  match out with
  | Raised => r' = r
  | Done o =>
      let '(n, s) := match op with New n s _ | Name _ n s _ => (n, s) end in
      (match n with Some k => byn r' !! k = Some o /\ k ∈ names r' o | None => True end) /\
      (match s with Some k => bys r' !! k = Some o /\ k ∈ symbols r' o | None => True end) /\
      (forall o', o' <> o -> names r' o' = names r o' /\ symbols r' o' = symbols r o')
  end.
Proof. exact rstep_spec. Qed.
Print Assumptions C19_step.

Example C19_nonvacuous :
  RInv (rrun true rempty [New (Some 1%positive) (Some 2%positive) false; New None None false;
                          Name 1 (Some 3%positive) (Some 2%positive) false; Name 1 (Some 3%positive) None false]).
Proof. apply rrun_inv. exact rempty_inv. Qed.
