(* C01 — a unit's dimension always equals the product of its factors' dimensions.
   Only statements, closed by [exact]; the proofs live in Proofs/. *)
From stdpp Require Import gmap.
From Coq Require Import ZArith.
From Measured Require Import Model.FMap Model.Units Model.Intern
  Proofs.InternFacts Proofs.History Proofs.Decide.
Local Open Scope Z_scope.

(* after ANY finite history of base-unit definitions and unit-expression evaluations
   (products, quotients, powers, roots, prefixing, numerator/denominator splitting as done by
   rendering, unprefixing as done by conversion and comparison), every unit in the process-wide
   intern table stores the product of its base-unit factors' dimensions *)
Theorem C01_all_histories : forall (h : list op) (u : unit3),
  hist_ok init h -> u ∈ s_tbl (run init h) ->
  udim u = dimOf (s_env (run init h)) (ufac u).
Proof. exact all_histories_dimension. Qed.
Print Assumptions C01_all_histories.

(* the invariant is inductive from any well-formed state (e.g. the state after importing the
   shipped unit modules, which the per-run obligation [Run.registry_wf] establishes) *)
Theorem C01_invariant : forall (h : list op) (s : state),
  SWF s -> hist_ok s h -> SWF (run s h).
Proof. exact run_SWF. Qed.
Print Assumptions C01_invariant.

(* the dimension reported for a unit expression never depends on earlier operations: in every
   well-formed state the evaluation returns the stored triple equal to the pure normal form *)
Theorem C01_history_independent : forall (s : state) (e : expr),
  SWF s -> lits_ok (s_env s) e ->
  match snd (seval (s_env s) (s_tbl s) e), nfeval (s_env s) e with
  | Ok h, Ok v => nth_error (fst (seval (s_env s) (s_tbl s) e)) h = Some v
                  /\ udim v = dimOf (s_env s) (ufac v)
  | FracErr, FracErr => True
  | MixedBase, MixedBase => True
  | _, _ => False
  end.
Proof. exact eval_is_pure. Qed.
Print Assumptions C01_history_independent.

(* non-vacuity: a concrete history (define metre L, second T, a "sverdrup" L^3 T^-1; build
   (Sv/m)*Sv, split it into numerator and denominator, take Sv^2) meets the hypotheses and
   the final table has 7 entries *)
Definition L : fmap := {[ 1%positive := 1 ]}.
Definition T : fmap := {[ 2%positive := 1 ]}.
Definition bu (id : positive) (d : fmap) : unit3 := MkU pid {[ id := 1 ]} d.
Definition flow : fmap := fmul (fpow L 3) (fpow T (-1)).
Definition demo : list op :=
  [ Define 10 L; Define 11 T; Define 12 flow;
    Eval (ENum (EMul (EDiv (ELit (bu 12 flow)) (ELit (bu 10 L))) (ELit (bu 12 flow))));
    Eval (EDen (EMul (EDiv (ELit (bu 12 flow)) (ELit (bu 10 L))) (ELit (bu 12 flow))));
    Eval (EPow (ELit (bu 12 flow)) 2) ].

Example demo_table_size : length (s_tbl (run init demo)) = 7%nat.
Proof. vm_compute. reflexivity. Qed.

Example demo_meets_hypotheses : hist_ok init demo.
Proof. apply hist_okb_spec. vm_compute. reflexivity. Qed.
