(* C08 — conversion results depend only on declared equivalences, not on query history. *)
From Coq Require Import List Bool.
Import ListNotations.
From stdpp Require Import gmap.
From Coq Require Import ZArith QArith.
From Measured Require Import Model.Memo Proofs.MemoFacts Model.FMap Model.Units Model.Convert.
Local Close Scope Q_scope.
Local Close Scope Z_scope.

(* For ANY planner f (a function of the declarations and the queried pair), any notion of which
   results lru_cache stores, and ANY interleaving l of declarations and queries: a query issued
   after l is answered with f (declarations of l): queries in between, successful or failed, on the
   same or other pairs, never change a later outcome; a conversion that failed before a
   declaration succeeds after it if f says so. *)
Theorem C08_transparent : forall {D K V : Type} (keqb : K -> K -> bool),
  (forall a b, keqb a b = true -> a = b) ->
  forall (f : list D -> K -> V) (cacheable : V -> bool) (l : list (mop (D:=D) (K:=K))) s k,
  MInv keqb f s ->
  let s' := fst (mrun keqb f cacheable true s l) in
  snd (mstep keqb f cacheable true s' (Query k)) = Some (f (decls s ++ declarations l) k) /\ MInv keqb f s'.
Proof. intros D K V keqb H f c l s k. exact (memo_transparent keqb H f c l s k). Qed.
Print Assumptions C08_transparent.

Theorem C08_every_answer : forall {D K V : Type} (keqb : K -> K -> bool),
  (forall a b, keqb a b = true -> a = b) ->
  forall (f : list D -> K -> V) (cacheable : V -> bool) (l : list (mop (D:=D) (K:=K))) s,
  MInv keqb f s ->
  forall i k pre, firstn i l = pre -> nth_error l i = Some (Query k) ->
  nth_error (snd (mrun keqb f cacheable true s l)) i = Some (Some (f (decls s ++ declarations pre) k)).
Proof. intros D K V keqb H f c l s I. exact (memo_answers_pure keqb H f c l s I). Qed.
Print Assumptions C08_every_answer.

(* the invalidation is necessary: without it the 3-step history query/declare/query is stale *)
Theorem C08_refuted_without_invalidation :
  let f := fun (ds : list nat) (k : nat) => existsb (Nat.eqb k) ds in
  snd (mrun Nat.eqb f (fun _ => true) false minit [Query 5; Declare 5; Query 5]) = [Some false; None; Some false]
  /\ snd (mrun Nat.eqb f (fun _ => true) true minit [Query 5; Declare 5; Query 5]) = [Some false; None; Some true].
Proof. exact memo_stale. Qed.
Print Assumptions C08_refuted_without_invalidation.

(* ---- what the memo theorem does not cover: the planner f itself reads the factor order of the interned operands ----
   A*B and B*A are one interned unit whose factor order is that of its first construction (the `ord` table of
   Model/Convert.v, exported from the implementation).  With two dimensionless units qa, qb and the single declaration
   qb = 8 qa, the conversion of 3 qa^-2*qb into qa^-1 is 24 when the operand was first built as qb*qa^-2 and 3 when it
   was first built as qa^-2*qb: the same declarations, the same query, two outcomes.  The implementation does the same
   (harness/c08.py, scenario "operand-order"; known finding history-dependent:factor-order). *)
Section FactorOrder.
  Local Open Scope Z_scope.
  Let qa : unit3 := MkU (MkP 0 0) (of_list [(1%positive, 1)]) fone.
  Let qb : unit3 := MkU (MkP 0 0) (of_list [(2%positive, 1)]) fone.
  Let src : unit3 := MkU (MkP 0 0) (of_list [(1%positive, (-2)); (2%positive, 1)]) fone.
  Let tgt : unit3 := MkU (MkP 0 0) (of_list [(1%positive, (-1))]) fone.
  Let bd : env := [(1%positive, fone); (2%positive, fone)].
  Let tbl : table := [(uone, [(uone, (1 # 1)%Q)]); (qb, [(qa, (8 # 1)%Q)]); (qa, [(qb, (1 # 8)%Q)])].
  Let ord_common : ordtab := [(uone, [(0%N, 1)]); (qb, [(2%N, 1)]); (qa, [(1%N, 1)]); (tgt, [(1%N, (-1))])].
  Let ord_history : ordtab := ord_common ++ [(src, [(2%N, 1); (1%N, (-2))])].
  Let ord_fresh : ordtab := ord_common ++ [(src, [(1%N, (-2)); (2%N, 1)])].

  Theorem C08_refuted_factor_order :
    (exists v, convert bd tbl ord_history [] 300 (3 # 1) src tgt = COk v /\ Qeq_bool v (24 # 1) = true) /\
    (exists v, convert bd tbl ord_fresh [] 300 (3 # 1) src tgt = COk v /\ Qeq_bool v (3 # 1) = true).
  Proof. split; eexists; split; vm_compute; reflexivity. Qed.
End FactorOrder.
Print Assumptions C08_refuted_factor_order.

(* ---- a declaration in progress: three kinds of source lines, and whole queries of other threads between any two of them ----
   _find_path memoises paths, _plan_conversion memoises the plans built from them (Model/Memo2.v).  When the paths are forgotten
   BEFORE the plans -- the order the per-run obligation Gen_declshape reads off equate / translate / _forget_cached_conversions --
   then for ANY planner (pf, g), any queries made while the ratios are being stored, between the two forgettings and afterwards, the
   state the declaration leaves is the one a fresh process with the same declarations would build, and every later query is answered
   accordingly. *)
From Measured Require Import Model.Memo2 Proofs.Memo2Facts.

Theorem C08_declaration_in_progress : forall {D K P V : Type} (keqb : K -> K -> bool),
  (forall a b, keqb a b = true -> a = b) ->
  forall (pf : list D -> K -> P) (g : P -> K -> V) (cacheable : V -> bool) s stores q1 q2,
  Cons keqb pf g s ->
  let s' := fst (run_lines keqb pf g cacheable s (declaration true stores q1 q2)) in
  decls2 s' = decls2 s ++ map fst stores /\ Cons keqb pf g s' /\
  forall k, snd (do_line keqb pf g cacheable s' (LQuery k)) = Some (g (pf (decls2 s') k) k).
Proof.
  intros D K P V keqb H pf g c s stores q1 q2 Hc. cbv zeta.
  destruct (declaration_path_first_consistent keqb H pf g c s stores q1 q2 Hc) as [E Hc'].
  split; [exact E|]. split; [exact Hc'|]. intros k. apply (consistent_query keqb H pf g c _ k Hc').
Qed.
Print Assumptions C08_declaration_in_progress.

(* the order matters: with the plans forgotten first (the library's order before e2a1d4e) one query of another thread between the
   two forgettings re-plans over the stale memoised path, and the stale plan survives the declaration: a = 2, then a = 2 + 6,
   the pair keeps answering 2 although a fresh process answers 8; with the paths forgotten first the same history answers 8 *)
Theorem C08_refuted_plans_forgotten_first :
  let s0 := fst (run_lines Nat.eqb ex_pf ex_g (fun _ => true) (MkS2 [] [] []) (declaration false [(2, [])] [] [7])) in
  let '(s1, answers) := run_lines Nat.eqb ex_pf ex_g (fun _ => true) s0 (declaration false [(6, [])] [7] [7; 7]) in
  decls2 s1 = [2; 6] /\ answers = [None; None; Some 2; None; Some 2; Some 2] /\ ex_g (ex_pf (decls2 s1) 7) 7 = 8.
Proof. exact plan_first_refuted. Qed.
Print Assumptions C08_refuted_plans_forgotten_first.

Example C08_paths_forgotten_first_same_history :
  let s0 := fst (run_lines Nat.eqb ex_pf ex_g (fun _ => true) (MkS2 [] [] []) (declaration true [(2, [])] [] [7])) in
  snd (run_lines Nat.eqb ex_pf ex_g (fun _ => true) s0 (declaration true [(6, [])] [7] [7; 7])) = [None; None; Some 2; None; Some 8; Some 8].
Proof. exact path_first_same_history. Qed.

(* ---- the table a history of declarations builds ----
   conversions.equate stores BOTH directions of the pair, unconditionally (the per-run obligation Gen_eqshape.equate_stores_shipped reads the
   two assignments off the source and the theorem below identifies them with Model.Convert.equate).  Hence, after ANY history of declarations
   and re-declarations (non-zero magnitudes, two different units): the two directions of every declared pair multiply to one; the figure of the
   latest declaration of a pair is the one in force in both directions; declarations of other pairs leave it alone.  A reverse ratio kept from
   an earlier declaration (dict.setdefault) is refuted on the history a = 1.7 b, a = 1.7018 b. *)
From Measured Require Import Model.Declare Proofs.EquateFacts.
Local Open Scope Q_scope.

Theorem C08_source_stores_are_model_equate : forall stores t ma a mb b,
  shapes_eqb stores shipped_stores = true -> equate_of stores t ma a mb b = equate t ma a mb b.
Proof. exact shipped_stores_are_equate. Qed.
Print Assumptions C08_source_stores_are_model_equate.

Theorem C08_declarations_keep_table_reciprocal : forall ds t,
  Forall decl_ok ds -> Reciprocal t -> Reciprocal (fold_left declare ds t).
Proof. exact declarations_reciprocal. Qed.
Print Assumptions C08_declarations_keep_table_reciprocal.

Theorem C08_latest_declaration_in_force : forall t ma a mb b,
  ukey_eqb a b = false ->
  tget (equate t ma a mb b) a b = Some (mb / ma) /\ tget (equate t ma a mb b) b a = Some (ma / mb).
Proof. exact latest_declaration_in_force. Qed.
Print Assumptions C08_latest_declaration_in_force.

Theorem C08_other_declaration_keeps : forall t ma a mb b c d,
  ukey_eqb a c && ukey_eqb b d = false -> ukey_eqb b c && ukey_eqb a d = false ->
  tget (equate t ma a mb b) c d = tget t c d.
Proof. exact other_declaration_keeps. Qed.
Print Assumptions C08_other_declaration_keeps.

Theorem C08_refuted_reverse_ratio_kept :
  exists r r', let t := equate_keep (equate_keep [] 1 kx_a (17 # 10) kx_b) 1 kx_a (17018 # 10000) kx_b in
    tget t kx_a kx_b = Some r /\ tget t kx_b kx_a = Some r' /\ ~ r * r' == 1.
Proof. exact keep_declared_reverse_refuted. Qed.
Print Assumptions C08_refuted_reverse_ratio_kept.

Example C08_redeclared_pair_reciprocal :
  Reciprocal (fold_left declare [(1, kx_a, 17 # 10, kx_b); (1, kx_a, 17018 # 10000, kx_b)] []).
Proof. exact redeclared_pair_reciprocal. Qed.

(* ---- rows registered by lookups ----
   `_ratios` and `_offsets` are defaultdicts: a lookup of a unit that has no row registers an empty row for it (a refused conversion does).
   The planner reads the tables only through their rows (per-run obligation Gen_rows.tables_read_through_rows: every occurrence of the two
   names in the package is a subscript or the definition), and for such a planner registered rows are invisible: for ANY table, any units
   registered in either table, any fuel and any query, the plan and the converted value (or the error) are those of the table without them.
   `start in _ratios` (seeded change C08-17) is the question that does see them. *)
From Measured Require Import Proofs.TableRows.

Theorem C08_lookups_register_nothing_visible : forall bd t o ord fuel us vs m s e,
  convert bd (register_all t us) ord (register_all o vs) fuel m s e = convert bd t ord o fuel m s e.
Proof. exact lookups_register_nothing_visible_both. Qed.
Print Assumptions C08_lookups_register_nothing_visible.

Theorem C08_lookups_keep_plans : forall bd t ord offs fuel us s e,
  plan_conversion bd (register_all t us) ord offs fuel s e = plan_conversion bd t ord offs fuel s e.
Proof. exact lookups_keep_plans. Qed.
Print Assumptions C08_lookups_keep_plans.

Theorem C08_refuted_key_membership : exists t u, has_row (register_all t [u]) u <> has_row t u.
Proof. exact key_membership_refuted. Qed.
Print Assumptions C08_refuted_key_membership.

(* non-vacuity: the two-unit table of C04's example with rows registered for two more units converts as before, to a value *)
Example C08_registered_rows_nonvacuous :
  exists v, convert [(1%positive, fone); (2%positive, fone)] (register_all (equate [] 1 kx_a 2 kx_b) [uone; kx_a])
                    [(kx_a, [(1%N, 1%Z)]); (kx_b, [(2%N, 1%Z)])] [] 20 3 kx_a kx_b = COk v /\ v == 6.
Proof. eexists. split; vm_compute; reflexivity. Qed.
