(* C08 — conversion results depend only on declared equivalences, not on query history. *)
From Coq Require Import List Bool.
Import ListNotations.
From Measured Require Import Model.Memo Proofs.MemoFacts.

(* For ANY planner f (a function of the declarations and the queried pair), any notion of which
   results lru_cache stores, and ANY interleaving l of declarations and queries: a query issued
   after l is answered with f (declarations of l): queries in between, successful or failed, on the
   same or other pairs, never change a later outcome; a conversion that failed before a
   declaration succeeds after it if f says so. *)
Theorem C08_transparent : forall {D K V : Type} (keqb : K -> K -> bool),
  (forall a b, keqb a b = true -> a = b) ->
  forall (f : list D -> K -> V) (cacheable : V -> bool) (l : list (mop (D:=D) (K:=K))) s k,
  MInv keqb f s ->
  let s' := fst (mrun keqb f cacheable true s l) in
  snd (mstep keqb f cacheable true s' (Query k)) = Some (f (decls s ++ declarations l) k) /\ MInv keqb f s'.
Proof. intros D K V keqb H f c l s k. exact (memo_transparent keqb H f c l s k). Qed.
Print Assumptions C08_transparent.

Theorem C08_every_answer : forall {D K V : Type} (keqb : K -> K -> bool),
  (forall a b, keqb a b = true -> a = b) ->
  forall (f : list D -> K -> V) (cacheable : V -> bool) (l : list (mop (D:=D) (K:=K))) s,
  MInv keqb f s ->
  forall i k pre, firstn i l = pre -> nth_error l i = Some (Query k) ->
  nth_error (snd (mrun keqb f cacheable true s l)) i = Some (Some (f (decls s ++ declarations pre) k)).
Proof. intros D K V keqb H f c l s I. exact (memo_answers_pure keqb H f c l s I). Qed.
Print Assumptions C08_every_answer.

(* the invalidation is necessary: without it the 3-step history query/declare/query is stale *)
Theorem C08_refuted_without_invalidation :
  let f := fun (ds : list nat) (k : nat) => existsb (Nat.eqb k) ds in
  snd (mrun Nat.eqb f (fun _ => true) false minit [Query 5; Declare 5; Query 5]) = [Some false; None; Some false]
  /\ snd (mrun Nat.eqb f (fun _ => true) true minit [Query 5; Declare 5; Query 5]) = [Some false; None; Some true].
Proof. exact memo_stale. Qed.
Print Assumptions C08_refuted_without_invalidation.
