(* C07 — impossible conversions fail only with ConversionNotFound, with or without -O.
   The model makes every Python exception the conversion code can raise an explicit error value
   (Model/Convert.v: CNF, EKey, EIndex, EValue, EZero, EFuel).  Proved here: the path finder, the plan
   inliner and every conversion with a direct path fail only with ConversionNotFound (or by exhausting
   the recursion budget, which stands for RecursionError and is excluded by the differential run);
   comparisons turn a failed conversion into False / TypeError.  The full statement for the planner's
   bookkeeping (C07_only_cnf: no EKey/EIndex/EValue/EZero from _clean_pop/_clean_remove on any table)
   is not yet proved; it is covered per run by the correspondence (the model's error class must equal
   the implementation's on every case) and by the python / python -O differential. *)
From stdpp Require Import gmap.
From Coq Require Import ZArith QArith List.
From Measured Require Import Model.FMap Model.Units Model.Quantity Model.Value Model.Convert Model.ConvCheck
  Proofs.ConvertFacts Proofs.ConvertLaws Proofs.QuantityFacts.
Import ListNotations.

Theorem C07_find_path_errors : forall tbl offs fuel s e vis er,
  find_path tbl offs fuel s e vis = CErr er -> er = CNF \/ er = EFuel.
Proof. exact find_path_errors. Qed.
Print Assumptions C07_find_path_errors.

Theorem C07_inline_paths_errors : forall tbl offs fuel rough er,
  inline_paths tbl offs fuel rough = CErr er -> er = CNF \/ er = EFuel.
Proof. exact inline_paths_errors. Qed.
Print Assumptions C07_inline_paths_errors.

Theorem C07_direct_only_cnf_partial : forall bd tbl ord offs fuel m s e d er,
  plan_shape bd tbl ord offs fuel s e = COk (Direct d) ->
  Forall (fun h => ~ (fst h == 0)%Q) d ->
  convert bd tbl ord offs fuel m s e = CErr er -> er = CNF \/ er = EFuel.
Proof. exact convert_direct_errors. Qed.
Print Assumptions C07_direct_only_cnf_partial.

(* comparisons: a conversion that cannot be carried out makes == False and ordering a TypeError,
   for every conversion oracle (in particular one that always fails) *)
Theorem C07_eq_without_conversion : forall a b, ufac (qu a) <> ufac (qu b) ->
  binop (fun _ _ => None) OpEq (VQty a) (VQty b) = Bool false.
Proof. exact eq_no_conversion. Qed.
Print Assumptions C07_eq_without_conversion.

Theorem C07_order_without_conversion : forall op a b, ufac (qu a) <> ufac (qu b) ->
  compare (fun _ _ => None) op (VQty a) (VQty b) = Err ETypeError.
Proof. exact order_no_conversion. Qed.
Print Assumptions C07_order_without_conversion.

(* non-vacuity: two units of one dimension with no declared equivalence *)
Definition nv_bd : env := [(1%positive, {[ 1%positive := 1%Z ]}); (2%positive, {[ 1%positive := 1%Z ]})].
Definition nv_a : unit3 := MkU pid {[ 1%positive := 1%Z ]} {[ 1%positive := 1%Z ]}.
Definition nv_b : unit3 := MkU pid {[ 2%positive := 1%Z ]} {[ 1%positive := 1%Z ]}.
Example C07_nonvacuous :
  convert nv_bd [] [(nv_a, [(1%N, 1%Z)]); (nv_b, [(2%N, 1%Z)])] [] 20 3 nv_a nv_b = CErr CNF.
Proof. vm_compute. reflexivity. Qed.
