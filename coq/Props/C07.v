(* C07 — impossible conversions fail only with ConversionNotFound, with or without -O.
   The model makes every Python exception the conversion code can raise an explicit error value
   (Model/Convert.v: CNF, EKey, EIndex, EValue, EZero, EFuel, EMissing).  C07_only_cnf: for every table
   whose ratios are non-zero (what equate() can build) and every magnitude and pair of units, converting
   either succeeds or fails with ConversionNotFound -- never KeyError (_clean_pop, _clean_remove,
   _ratios[unit][alternative]), IndexError (pop from an empty list), ValueError (list.remove) or
   ZeroDivisionError (1 / ratio, scale ** negative).  The two remaining error values are not Python
   outcomes of a conversion: EFuel stands for RecursionError / a non-terminating loop (the budget the
   differential run gives is never exhausted) and EMissing for an incomplete harness export.
   Comparisons turn a failed conversion into False / TypeError. *)
From stdpp Require Import gmap.
From Coq Require Import ZArith QArith List.
From Measured Require Import Model.FMap Model.Units Model.Quantity Model.Value Model.Convert Model.ConvCheck
  Proofs.ConvertFacts Proofs.ConvertLaws Proofs.QuantityFacts Proofs.FDictFacts Proofs.PlannerErrors.
Import ListNotations.

(* the full statement *)
Theorem C07_only_cnf : forall bd tbl offs ord, table_nzb tbl = true -> ord_nzb ord = true ->
  forall fuel m s e er, convert bd tbl ord offs fuel m s e = CErr er -> er = CNF \/ er = EFuel \/ er = EMissing.
Proof. exact convert_only_cnf. Qed.
Print Assumptions C07_only_cnf.

(* its parts: _match_factors never raises, _cancel_factors only exhausts its budget, _replace_factors
   keeps the dictionaries well-formed, on dictionaries with unique keys and no empty lists *)
Theorem C07_match_factors_never_raises : forall bd sf ef, good sf -> good ef ->
  exists sf' ef' plan, match_factors bd sf ef = COk (sf', ef', plan) /\ good sf' /\ good ef'.
Proof. exact match_factors_ok. Qed.
Print Assumptions C07_match_factors_never_raises.

Theorem C07_rough_plan_errors : forall bd tbl ord,
  (forall u a x, tget tbl u a = Some x -> ~ (x == 0)%Q) ->
  (forall k l, ordered ord k = Some l -> Forall (fun ae => snd ae <> 0%Z) l) ->
  forall fuel sof eof e, Forall (fun ae => snd ae <> 0%Z) sof -> Forall (fun ae => snd ae <> 0%Z) eof ->
  rough_plan bd tbl ord fuel sof eof = CErr e -> e = CNF \/ e = EFuel \/ e = EMissing.
Proof. exact rough_plan_errors. Qed.
Print Assumptions C07_rough_plan_errors.

Theorem C07_find_path_errors : forall tbl offs fuel s e vis er,
  find_path tbl offs fuel s e vis = CErr er -> er = CNF \/ er = EFuel.
Proof. exact find_path_errors. Qed.
Print Assumptions C07_find_path_errors.

(* comparisons: a conversion that cannot be carried out makes == False and ordering a TypeError,
   for every conversion oracle (in particular one that always fails) *)
Theorem C07_eq_without_conversion : forall a b, ufac (qu a) <> ufac (qu b) ->
  binop (fun _ _ => None) OpEq (VQty a) (VQty b) = Bool false.
Proof. exact eq_no_conversion. Qed.
Print Assumptions C07_eq_without_conversion.

Theorem C07_order_without_conversion : forall op a b, ufac (qu a) <> ufac (qu b) ->
  compare (fun _ _ => None) op (VQty a) (VQty b) = Err ETypeError.
Proof. exact order_no_conversion. Qed.
Print Assumptions C07_order_without_conversion.

(* non-vacuity: two units of one dimension with no declared equivalence; and a planner run that fails *)
Definition nv_bd : env := [(1%positive, {[ 1%positive := 1%Z ]}); (2%positive, {[ 1%positive := 1%Z ]})].
Definition nv_a : unit3 := MkU pid {[ 1%positive := 1%Z ]} {[ 1%positive := 1%Z ]}.
Definition nv_b : unit3 := MkU pid {[ 2%positive := 1%Z ]} {[ 1%positive := 1%Z ]}.
Example C07_nonvacuous :
  convert nv_bd [] [(nv_a, [(1%N, 1%Z)]); (nv_b, [(2%N, 1%Z)])] [] 20 3 nv_a nv_b = CErr CNF /\
  table_nzb [] = true /\ ord_nzb [(nv_a, [(1%N, 1%Z)]); (nv_b, [(2%N, 1%Z)])] = true.
Proof. repeat split; vm_compute; reflexivity. Qed.
