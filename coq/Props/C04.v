(* C04 — a conversion that returns a value returns the right value, in the asked unit.
   Only statements; proofs are in Proofs/ConvertFacts.v. *)
From stdpp Require Import gmap.
From Coq Require Import ZArith QArith List.
From Measured Require Import Model.FMap Model.Units Model.Quantity Model.Value Model.Convert Model.ConvCheck
  Proofs.ConvertFacts.
Import ListNotations.
Local Open Scope Q_scope.

(* plan application (convert's loop) is affine in the magnitude, for every plan *)
Theorem C04_apply_plan_affine : forall plan m, apply_plan plan m == plan_a plan * m + plan_b plan.
Proof. exact apply_plan_affine. Qed.
Print Assumptions C04_apply_plan_affine.

(* every non-empty path the DFS finder returns multiplies to size(start)/size(end), for every table
   consistent with a size assignment, every offsets table, every fuel, every visited set *)
Theorem C04_find_path_sound : forall se tbl offs, consistent se tbl ->
  forall fuel s e vis p vis', find_path tbl offs fuel s e vis = COk (p, vis') -> p <> [] ->
  path_scale p * usz se e == usz se s.
Proof. exact find_path_sound. Qed.
Print Assumptions C04_find_path_sound.

(* a plan whose numbers are certified against the table converts correctly: the result magnitude is
   the source magnitude times size(start)/size(end), prefixes included, exactly *)
Theorem C04_certified : forall se bd tbl offs ord, sizes_pos se -> consistent se tbl ->
  forall fuel m s e v,
  plan_cert bd tbl ord offs fuel s e = true ->
  convert bd tbl ord offs fuel m s e = COk v ->
  v == m * usz se s / usz se e.
Proof. exact convert_certified. Qed.
Print Assumptions C04_certified.

(* consistency of a concrete table with a concrete size assignment is decidable (used per run on
   the synthetic, exactly-consistent unit systems) *)
Theorem C04_consistentb_sound : forall se t, consistentb se t = true -> consistent se t.
Proof. exact consistentb_sound. Qed.
Print Assumptions C04_consistentb_sound.

(* the full statement without the certificate hypothesis is false of the faithful model: on the
   two-unit table {a = 2 b} (dimensionless a, b) the planner converts 1/a to 1/b by the factor 2,
   where size(1/a)/size(1/b) = 1/2 *)
Definition rf_bd : env := [(1%positive, fone); (2%positive, fone)].
Definition rf_a : unit3 := MkU pid {[ 1%positive := 1%Z ]} fone.
Definition rf_b : unit3 := MkU pid {[ 2%positive := 1%Z ]} fone.
Definition rf_ai : unit3 := MkU pid {[ 1%positive := (-1)%Z ]} fone.
Definition rf_bi : unit3 := MkU pid {[ 2%positive := (-1)%Z ]} fone.
Definition rf_tbl : table := equate [] 1 rf_a 2 rf_b.
Definition rf_ord : ordtab := [(rf_a, [(1%N, 1%Z)]); (rf_b, [(2%N, 1%Z)]); (rf_ai, [(1%N, (-1)%Z)]); (rf_bi, [(2%N, (-1)%Z)])].
Definition rf_sizes : sizes := [(1%positive, 2); (2%positive, 1)].
Theorem C04_refuted_uncertified :
  consistent rf_sizes rf_tbl /\
  exists v, convert rf_bd rf_tbl rf_ord [] 20 1 rf_ai rf_bi = COk v /\
            ~ v == 1 * usz rf_sizes rf_ai / usz rf_sizes rf_bi.
Proof.
  split; [apply consistentb_sound; vm_compute; reflexivity|].
  eexists; split; [vm_compute; reflexivity|]. vm_compute. discriminate.
Qed.
Print Assumptions C04_refuted_uncertified.

(* non-vacuity: on the same table the plain conversion a -> b is certified and right *)
Example C04_certified_nonvacuous :
  plan_cert rf_bd rf_tbl rf_ord [] 20 rf_a rf_b = true /\
  convert rf_bd rf_tbl rf_ord [] 20 3 rf_a rf_b = COk 6.
Proof. split; vm_compute; reflexivity. Qed.

(* ---- where `consistent se tbl` comes from ----
   Declarations that are all true of one assignment of sizes (ma * size a = mb * size b, non-zero magnitudes) build, in any order and
   however often a pair is re-declared, a table consistent with it; so a certified conversion over ANY table built by such a history is
   right (the hypothesis of C04_certified discharged from the declarations themselves). *)
From Measured Require Import Model.Declare Proofs.EquateFacts Proofs.DeclareConsistent.

Theorem C04_true_declarations_consistent : forall se ds t,
  Forall (decl_true se) ds -> consistent se t -> consistent se (fold_left declare ds t).
Proof. exact true_declarations_consistent. Qed.
Print Assumptions C04_true_declarations_consistent.

Theorem C04_certified_over_declared_tables : forall se bd ds offs ord, sizes_pos se -> Forall (decl_true se) ds ->
  forall fuel m s e v,
  plan_cert bd (fold_left declare ds []) ord offs fuel s e = true ->
  convert bd (fold_left declare ds []) ord offs fuel m s e = COk v ->
  v == m * usz se s / usz se e.
Proof.
  intros se bd ds offs ord Hpos Hds fuel m s e v Hc Hv.
  apply (convert_certified se bd (fold_left declare ds []) offs ord Hpos
           (true_declarations_consistent se ds [] Hds (consistent_empty se)) fuel m s e v Hc Hv).
Qed.
Print Assumptions C04_certified_over_declared_tables.

(* non-vacuity: a = 2 b declared twice (first as 3 b: false of the sizes, so only the true history is admitted) *)
Example C04_true_history_nonvacuous :
  Forall (decl_true rf_sizes) [(1, rf_a, 2, rf_b); (2, rf_a, 4, rf_b)] /\
  consistent rf_sizes (fold_left declare [(1, rf_a, 2, rf_b); (2, rf_a, 4, rf_b)] []).
Proof.
  assert (H : Forall (decl_true rf_sizes) [(1, rf_a, 2, rf_b); (2, rf_a, 4, rf_b)]).
  { repeat constructor; try (vm_compute; discriminate); vm_compute; reflexivity. }
  split; [exact H|]. apply true_declarations_consistent; [exact H|apply consistent_empty].
Qed.
