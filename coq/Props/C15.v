(* C15 — pickle, copy and JSON round-trip every value, preserving singleton identity.
   Statements only (proofs: Proofs/ReenterFacts.v, Proofs/CodecFacts.v). *)
From stdpp Require Import gmap.
From Coq Require Import ZArith.
From Measured Require Import Model.FMap Model.Units Model.Intern Proofs.UnitsFacts Proofs.InternFacts Proofs.History Proofs.ReenterFacts Model.Codec Proofs.CodecFacts.

(* any table interned by key (dimensions by exponent tuple, prefixes by (base, exponent)): handing the
   stored key back returns the same entry and changes nothing *)
Theorem C15_reenter_by_key : forall (K : Type) (keqb : K -> K -> bool),
  (forall a b, keqb a b = true <-> a = b) ->
  forall t h k, List.NoDup t -> nth_error t h = Some k -> kintern keqb t k = (t, h).
Proof. intros K keqb H. exact (kintern_reenter keqb H). Qed.
Print Assumptions C15_reenter_by_key.

Theorem C15_intern_keeps_keys_unique : forall (K : Type) (keqb : K -> K -> bool),
  (forall a b, keqb a b = true <-> a = b) ->
  forall t k, List.NoDup t -> List.NoDup (fst (kintern keqb t k)).
Proof. intros K keqb H. exact (kintern_nodup keqb H). Qed.
Print Assumptions C15_intern_keeps_keys_unique.

(* units: Unit(prefix, factors, dimension) with the stored prefix and factors -- whatever dimension the
   serialised form carries -- is the stored object, in every table with unique keys ... *)
Theorem C15_unit_reenter : forall t h x d, NoDupK t -> nth_error t h = Some x ->
  intern t (MkU (upre x) (ufac x) d) = (t, h).
Proof. exact unit_reenter. Qed.
Print Assumptions C15_unit_reenter.

(* ... in particular in every state reachable through the public operations *)
Theorem C15_unit_reenter_reachable : forall ops h x d, hist_ok init ops ->
  nth_error (s_tbl (run init ops)) h = Some x ->
  intern (s_tbl (run init ops)) (MkU (upre x) (ufac x) d) = (s_tbl (run init ops), h).
Proof. exact unit_reenter_reachable. Qed.
Print Assumptions C15_unit_reenter_reachable.

Theorem C15_prefix_reenter : forall p, pcanon p -> mkp (pbase p) (pexp p) = p.
Proof. exact prefix_reenter. Qed.
Print Assumptions C15_prefix_reenter.

(* non-vacuity *)
Example C15_nonvacuous :
  let m := MkU pid {[ 1%positive := 1%Z ]} {[ 2%positive := 1%Z ]} in
  intern [uone; m] (MkU pid {[ 1%positive := 1%Z ]} fone) = ([uone; m], 1%nat).
Proof. vm_compute. reflexivity. Qed.

(* ---- the JSON documents (Model/Codec.v: Dimension/Prefix/Unit.__json__ and __from_json__) ----
   Every stored unit, written as a document and read back against the same registry, is the very same entry
   (same handle) and the registry is unchanged, whenever: keys are unique, every name the encoder writes is
   bound in Unit._by_name to the unit it was written for, the base units occurring as factors (and One) are
   stored, and stored units have canonical prefixes, no zero exponents and dimensions of the registry's width. *)
Theorem C15_json_unit_roundtrip : forall r, names_faithful r -> factors_stored r -> one_stored r ->
  NoDupK (c_tbl r) -> stored_ok r ->
  forall h x, nth_error (c_tbl r) h = Some x -> dec_unit r (enc_unit r x) = DOk (c_tbl r, h).
Proof. exact json_unit_roundtrip. Qed.
Print Assumptions C15_json_unit_roundtrip.

(* the same with the hypotheses as the boolean checks that are evaluated on the exported registry at every run *)
Theorem C15_json_unit_roundtrip_checked : forall r, registry_okb r = true ->
  forall h x, nth_error (c_tbl r) h = Some x -> dec_unit r (enc_unit r x) = DOk (c_tbl r, h).
Proof. exact json_unit_roundtrip_checked. Qed.
Print Assumptions C15_json_unit_roundtrip_checked.

Theorem C15_json_dimension_roundtrip : forall nd d, dim_fits nd d -> dec_dim nd (enc_dim nd d) = DOk d.
Proof. exact dim_roundtrip. Qed.
Print Assumptions C15_json_dimension_roundtrip.

Theorem C15_json_prefix_roundtrip : forall p, pcanon p -> dec_prefix (enc_prefix p) = DOk p.
Proof. exact prefix_roundtrip. Qed.
Print Assumptions C15_json_prefix_roundtrip.

(* before 1df1998 the encoder wrote every prefix of value 1 as null; with that encoder a unit under a base-1
   prefix decodes to another entry: the hypothesis the proof asked for, and the implementation failed there *)
Definition enc_unit_old (r : creg) (x : unit3) : json :=
  match enc_unit r x with
  | JObj fs => JObj (map (fun kv : jkey * json =>
                 match kv with
                 | (KPrefix, _) => if Z.eqb (pbase (upre x)) 1 then (KPrefix, JNull) else kv
                 | _ => kv
                 end) fs)
  | j => j
  end.
Theorem C15_refuted_value_one_prefix :
  let meter := MkU pid {[ 1%positive := 1%Z ]} {[ 2%positive := 1%Z ]} in
  let odd := MkU (MkP 1 3) {[ 1%positive := 1%Z ]} {[ 2%positive := 1%Z ]} in
  let r := MkCR [uone; meter; odd] [(1%positive, 0%nat); (2%positive, 1%nat)] [(1%positive, 2%positive)] 1%positive 10 [] in
  registry_okb r = true /\ dec_unit r (enc_unit_old r odd) = DOk (c_tbl r, 1%nat) /\ dec_unit r (enc_unit r odd) = DOk (c_tbl r, 2%nat).
Proof. vm_compute. repeat split; reflexivity. Qed.
Print Assumptions C15_refuted_value_one_prefix.

(* non-vacuity: a registry with a named base unit, a prefixed compound and a prefixed One satisfies the checks *)
Example C15_json_nonvacuous :
  let meter := MkU pid {[ 1%positive := 1%Z ]} {[ 2%positive := 1%Z ]} in
  let second := MkU pid {[ 2%positive := 1%Z ]} {[ 3%positive := 1%Z ]} in
  let kmps := MkU (MkP 10 3) {[ 1%positive := 1%Z; 2%positive := (-1)%Z ]} {[ 2%positive := 1%Z; 3%positive := (-1)%Z ]} in
  let kone := MkU (MkP 10 3) fone fone in
  let r := MkCR [uone; meter; second; kmps; kone] [(1%positive, 0%nat); (2%positive, 1%nat); (3%positive, 2%nat)]
                [(1%positive, 2%positive); (2%positive, 3%positive)] 1%positive 10 [] in
  registry_okb r = true /\ dec_unit r (enc_unit r kmps) = DOk (c_tbl r, 3%nat) /\ dec_unit r (enc_unit r kone) = DOk (c_tbl r, 4%nat).
Proof. vm_compute. repeat split; reflexivity. Qed.

(* ---- pickle / copy / deepcopy (Model/Codec.v: __new__ on the newargs, then the pickled state) ---- *)
Theorem C15_pickle_roundtrip : forall r h d, NoDupK (p_tbl r) -> pdump r h = Some d -> pload true r d = (r, h).
Proof. exact pload_pdump. Qed.
Print Assumptions C15_pickle_roundtrip.

(* a pickle taken before the object was given a (further) name, loaded afterwards, leaves the names alone *)
Theorem C15_stale_pickle_keeps_names : forall r h d n, NoDupK (p_tbl r) -> pdump r h = Some d ->
  pload true (pname r h n) d = (pname r h n, h).
Proof. exact pload_stale. Qed.
Print Assumptions C15_stale_pickle_keeps_names.

(* before 36300c5 (no guard in __setstate__) the same history lost the name *)
Theorem C15_refuted_stale_pickle :
  let meter := MkU pid {[ 1%positive := 1%Z ]} {[ 2%positive := 1%Z ]} in
  let r := MkPR [uone; meter] [[1%positive]; []] in
  exists d, pdump r 1 = Some d /\
    p_names (fst (pload false (pname r 1 7%positive) d)) = [[1%positive]; []] /\
    p_names (fst (pload true (pname r 1 7%positive) d)) = [[1%positive]; [7%positive]].
Proof. eexists. split; [reflexivity|]. vm_compute. split; reflexivity. Qed.
Print Assumptions C15_refuted_stale_pickle.

(* ---- quantities: the JSON / pydantic / SQL composite document holds the magnitude with its type and the unit as str(unit) ----
   It round-trips exactly when the unit's text parses back to that unit (C13's statement for that unit), whatever the magnitude; and when it
   does not round-trip, the text is the reason.  This is why the recorded finding quantity-json:unit-text-does-not-parse-back is keyed by
   Unit.parse(str(unit)) is not unit. *)
From Measured Require Import Model.Parse Model.ParseCheck Model.LR Model.Lex Model.TextParse Proofs.TextParseFacts.

Theorem C15_quantity_document_roundtrip : forall nm tab pt order ignore rules infos filtered terminals end_sym T k v u of l,
  print_terms pt u of = PTerms l ->
  render_parses_back nm order ignore rules infos filtered terminals end_sym T l = true ->
  eval_unit tab l None = POk u ->
  match enc_quantity pt k v u of with
  | Some d => dec_quantity nm tab order ignore rules infos filtered terminals end_sym T d = Some (k, v, u)
  | None => False
  end.
Proof. exact quantity_document_roundtrip. Qed.
Print Assumptions C15_quantity_document_roundtrip.

Theorem C15_quantity_document_fails_only_through_unit_text : forall nm tab pt order ignore rules infos filtered terminals end_sym T k v u of d,
  enc_quantity pt k v u of = Some d ->
  dec_quantity nm tab order ignore rules infos filtered terminals end_sym T d <> Some (k, v, u) ->
  unit_parse_text nm tab order ignore rules infos filtered terminals end_sym T (qd_unit d) <> TUnit (POk u).
Proof. exact quantity_document_fails_only_through_unit_text. Qed.
Print Assumptions C15_quantity_document_fails_only_through_unit_text.
