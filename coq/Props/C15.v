(* C15 — pickle, copy and JSON round-trip every value, preserving singleton identity.
   Statements only (proofs: Proofs/ReenterFacts.v). *)
From stdpp Require Import gmap.
From Coq Require Import ZArith.
From Measured Require Import Model.FMap Model.Units Model.Intern Proofs.UnitsFacts Proofs.InternFacts Proofs.History Proofs.ReenterFacts.

(* any table interned by key (dimensions by exponent tuple, prefixes by (base, exponent)): handing the
   stored key back returns the same entry and changes nothing *)
Theorem C15_reenter_by_key : forall (K : Type) (keqb : K -> K -> bool),
  (forall a b, keqb a b = true <-> a = b) ->
  forall t h k, List.NoDup t -> nth_error t h = Some k -> kintern keqb t k = (t, h).
Proof. intros K keqb H. exact (kintern_reenter keqb H). Qed.
Print Assumptions C15_reenter_by_key.

Theorem C15_intern_keeps_keys_unique : forall (K : Type) (keqb : K -> K -> bool),
  (forall a b, keqb a b = true <-> a = b) ->
  forall t k, List.NoDup t -> List.NoDup (fst (kintern keqb t k)).
Proof. intros K keqb H. exact (kintern_nodup keqb H). Qed.
Print Assumptions C15_intern_keeps_keys_unique.

(* units: Unit(prefix, factors, dimension) with the stored prefix and factors -- whatever dimension the
   serialised form carries -- is the stored object, in every table with unique keys ... *)
Theorem C15_unit_reenter : forall t h x d, NoDupK t -> nth_error t h = Some x ->
  intern t (MkU (upre x) (ufac x) d) = (t, h).
Proof. exact unit_reenter. Qed.
Print Assumptions C15_unit_reenter.

(* ... in particular in every state reachable through the public operations *)
Theorem C15_unit_reenter_reachable : forall ops h x d, hist_ok init ops ->
  nth_error (s_tbl (run init ops)) h = Some x ->
  intern (s_tbl (run init ops)) (MkU (upre x) (ufac x) d) = (s_tbl (run init ops), h).
Proof. exact unit_reenter_reachable. Qed.
Print Assumptions C15_unit_reenter_reachable.

Theorem C15_prefix_reenter : forall p, pcanon p -> mkp (pbase p) (pexp p) = p.
Proof. exact prefix_reenter. Qed.
Print Assumptions C15_prefix_reenter.

(* non-vacuity *)
Example C15_nonvacuous :
  let m := MkU pid {[ 1%positive := 1%Z ]} {[ 2%positive := 1%Z ]} in
  intern [uone; m] (MkU pid {[ 1%positive := 1%Z ]} fone) = ([uone; m], 1%nat).
Proof. vm_compute. reflexivity. Qed.
