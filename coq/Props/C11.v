(* C11 — a prefixed unit means exactly prefix factor times unit. *)
From stdpp Require Import gmap.
From Coq Require Import ZArith QArith.
From Measured Require Import Model.FMap Model.Units Model.Quantity Model.Value Proofs.UnitsFacts Proofs.ValueFacts.
Local Open Scope Q_scope.

(* same-base prefixes: products, quotients, powers and roots have exactly the product, quotient, power
   and root of the values (exponents add and subtract exactly); the identity is neutral *)
Theorem C11_prefix_mul : forall p q r, pcanon p -> pcanon q -> pmul p q = Some r -> pvalQ r == pvalQ p * pvalQ q.
Proof. exact pval_pmul. Qed.
Print Assumptions C11_prefix_mul.
Theorem C11_prefix_div : forall p q r, pcanon p -> pcanon q -> pdiv p q = Some r -> pvalQ r == pvalQ p / pvalQ q.
Proof. exact pval_pdiv. Qed.
Print Assumptions C11_prefix_div.
Theorem C11_prefix_pow : forall p n, pvalQ (ppow p n) == pvalQ p ^ n.
Proof. exact pval_ppow. Qed.
Print Assumptions C11_prefix_pow.
Theorem C11_prefix_root : forall p n r, n <> 0%Z -> proot p n = Some r -> pvalQ r ^ n == pvalQ p.
Proof. exact pval_proot. Qed.
Print Assumptions C11_prefix_root.

(* m * (p*u) equals (m * value p) * u *)
Theorem C11_prefixed_quantity : forall se p u r m k, pcanon p -> pcanon (upre u) -> upre_mul p u = Ok r ->
  val se (MkQty k m r) == val se (MkQty k (m * pvalQ p) u).
Proof. exact val_prefixed_unit. Qed.
Print Assumptions C11_prefixed_quantity.

(* (p*u)**n is p**n * u**n (the same normal form, hence the same object) *)
Theorem C11_power_distributes : forall b p a n, b <> 0%Z -> inbase b p -> inbase b (upre a) ->
  rbind (upre_mul p a) (fun x => upow x n) = rbind (upow a n) (fun y => upre_mul (ppow p n) y).
Proof. exact upow_upre_mul. Qed.
Print Assumptions C11_power_distributes.

(* dividing by a prefixed unit divides by its factor (and the unit's size) *)
Theorem C11_divide_by_prefixed : forall se, sizes_pos se -> forall a u q, qcanon a -> pcanon (upre u) ->
  q_truediv a (VUnit u) = Val (VQty q) -> val se q == val se a / pvalQ (upre u) / fsz se (ufac u).
Proof. exact val_div_unit. Qed.
Print Assumptions C11_divide_by_prefixed.

(* stripping prefixes never changes the value *)
Theorem C11_unprefixed : forall se q, val se (unprefixed q) == val se q.
Proof. exact val_unprefixed. Qed.
Print Assumptions C11_unprefixed.

Example C11_nonvacuous : pvalQ (MkP 10 3) == 1000 /\ pcanon (MkP 10 3).
Proof. split; [vm_compute; reflexivity|split; simpl; intros; congruence]. Qed.

(* prefixes of different bases, over the reals: the float exponent the code computes denotes exactly the
   product / quotient / power of the two prefix values (the 1e-9 clause is then rounding only) *)
From Coq Require Import Reals.
From Measured Require Import Proofs.MixedBaseFacts.
Theorem C11_mixed_base_mul : forall b1 e1 b2 e2 : R, (0 < b1 -> b1 <> 1 -> 0 < b2 ->
  Rpower b1 (mixed_mul_exponent b1 e1 b2 e2) = Rpower b1 e1 * Rpower b2 e2)%R.
Proof. exact mixed_mul_exact. Qed.
Print Assumptions C11_mixed_base_mul.
Theorem C11_mixed_base_div : forall b1 e1 b2 e2 : R, (0 < b1 -> b1 <> 1 -> 0 < b2 ->
  Rpower b1 (mixed_div_exponent b1 e1 b2 e2) = Rpower b1 e1 / Rpower b2 e2)%R.
Proof. exact mixed_div_exact. Qed.
Print Assumptions C11_mixed_base_div.
Theorem C11_mixed_base_pow : forall b e n : R, (0 < b -> Rpower (Rpower b e) n = Rpower b (e * n))%R.
Proof. exact mixed_pow_exact. Qed.
Print Assumptions C11_mixed_base_pow.
