(* C02 — dimensions, prefixes and units are canonical objects forming abelian groups. *)
From stdpp Require Import gmap.
From Coq Require Import ZArith.
From Measured Require Import Model.FMap Model.Units Model.Intern
  Proofs.UnitsFacts Proofs.InternFacts Proofs.History Proofs.UnitLaws.
Local Open Scope Z_scope.

(* identity: in any well-formed state, two expressions evaluated one after the other return the
   very same table handle exactly when they denote the same (prefix, factors) normal form *)
Theorem C02_identity : forall s e1 e2 h1 h2 v1 v2,
  SWF s -> lits_ok (s_env s) e1 -> lits_ok (s_env s) e2 ->
  let r1 := seval (s_env s) (s_tbl s) e1 in
  let r2 := seval (s_env s) (fst r1) e2 in
  snd r1 = Ok h1 -> snd r2 = Ok h2 ->
  nfeval (s_env s) e1 = Ok v1 -> nfeval (s_env s) e2 = Ok v2 ->
  (h1 = h2 <-> ukey v1 = ukey v2).
Proof. exact identity_iff_key. Qed.
Print Assumptions C02_identity.

(* group laws on the normal forms (units with prefixes of one base b, or the identity) *)
Theorem C02_mul_comm : forall b x y, b <> 0 -> uok b x -> uok b y -> umul x y = umul y x.
Proof. exact umul_comm. Qed.
Print Assumptions C02_mul_comm.

Theorem C02_mul_assoc : forall b x y z, b <> 0 -> uok b x -> uok b y -> uok b z ->
  rbind (umul x y) (fun r => umul r z) = rbind (umul y z) (fun r => umul x r).
Proof. exact umul_assoc. Qed.
Print Assumptions C02_mul_assoc.

Theorem C02_one_neutral : forall b x, b <> 0 -> uok b x -> umul x uone = Ok x.
Proof. exact umul_one_r. Qed.
Print Assumptions C02_one_neutral.

Theorem C02_inverse : forall b x, b <> 0 -> uok b x ->
  rbind (upow x (-1)) (fun i => umul x i) = Ok uone.
Proof. exact umul_inv. Qed.
Print Assumptions C02_inverse.

Theorem C02_div_is_mul_inv : forall b x y, b <> 0 -> uok b x -> uok b y ->
  udiv x y = rbind (upow y (-1)) (fun i => umul x i).
Proof. exact udiv_as_mul. Qed.
Print Assumptions C02_div_is_mul_inv.

Theorem C02_pow_add : forall b x m n, b <> 0 -> uok b x ->
  rbind (upow x m) (fun p => rbind (upow x n) (fun q => umul p q)) = upow x (m + n).
Proof. exact upow_add. Qed.
Print Assumptions C02_pow_add.

Theorem C02_pow_mul : forall b x m n, b <> 0 -> uok b x ->
  rbind (upow x m) (fun p => upow p n) = upow x (m * n).
Proof. exact upow_mul. Qed.
Print Assumptions C02_pow_mul.

Theorem C02_root_pow : forall b x n, b <> 0 -> n <> 0 -> uok b x ->
  rbind (upow x n) (fun p => uroot p n) = Ok x.
Proof. exact uroot_upow. Qed.
Print Assumptions C02_root_pow.

Theorem C02_dimension_laws : forall (a b c : fmap) (m n : Z), wf a ->
  fmul a b = fmul b a /\ fmul a (fmul b c) = fmul (fmul a b) c /\ fmul a fone = a /\
  fmul a (fpow a (-1)) = fone /\ fdiv a b = fmul a (fpow b (-1)) /\
  fmul (fpow a m) (fpow a n) = fpow a (m + n) /\ fpow (fpow a m) n = fpow a (m * n) /\
  (n <> 0 -> froot (fpow a n) n = Some a).
Proof. exact dim_laws. Qed.
Print Assumptions C02_dimension_laws.

Theorem C02_prefix_laws : forall (b : Z) (p q s : prefix) (n : Z),
  b <> 0 -> inbase b p -> inbase b q -> inbase b s ->
  pmul p q = pmul q p /\
  (pmul p q ≫= fun r => pmul r s) = (pmul q s ≫= fun r => pmul p r) /\
  pmul p pid = Some p /\ pmul pid p = Some p /\
  (n <> 0 -> proot (ppow p n) n = Some p).
Proof. exact prefix_laws. Qed.
Print Assumptions C02_prefix_laws.

(* non-vacuity: kilo-metre per second squared satisfies [uok 10] *)
Example uok_example :
  uok 10 (MkU (MkP 10 3) (fmul {[ 5%positive := 1 ]} {[ 6%positive := -2 ]}) fone).
Proof.
  split; [apply FMapFacts.wf_fmul|]. split; [apply FMapFacts.wf_empty|].
  split; [split; simpl; intros; congruence|right; reflexivity].
Qed.

(* prefixes of different bases, over the reals: the float exponent the code computes denotes exactly the
   product / quotient / power of the two prefix values (the 1e-9 clause is then rounding only) *)
From Coq Require Import Reals.
From Measured Require Import Proofs.MixedBaseFacts.
Theorem C02_mixed_base_mul : forall b1 e1 b2 e2 : R, (0 < b1 -> b1 <> 1 -> 0 < b2 ->
  Rpower b1 (mixed_mul_exponent b1 e1 b2 e2) = Rpower b1 e1 * Rpower b2 e2)%R.
Proof. exact mixed_mul_exact. Qed.
Print Assumptions C02_mixed_base_mul.
Theorem C02_mixed_base_div : forall b1 e1 b2 e2 : R, (0 < b1 -> b1 <> 1 -> 0 < b2 ->
  Rpower b1 (mixed_div_exponent b1 e1 b2 e2) = Rpower b1 e1 / Rpower b2 e2)%R.
Proof. exact mixed_div_exact. Qed.
Print Assumptions C02_mixed_base_div.
Theorem C02_mixed_base_pow : forall b e n : R, (0 < b -> Rpower (Rpower b e) n = Rpower b (e * n))%R.
Proof. exact mixed_pow_exact. Qed.
Print Assumptions C02_mixed_base_pow.

(* ---- Dimension.define: a new fundamental dimension re-keys every known dimension (Model/DimDefine.v) ----
   The intern table as the list of its keys (exponent tuples) in dictionary order; an object is its position.  define appends the new
   dimension and gives EVERY key -- the new one included -- one more slot.  The per-run obligation Gen_rekey checks that the table
   exported before a definition, pushed through [define], is the table exported after it. *)
From Measured Require Import Model.DimDefine Proofs.DimDefineFacts.

(* the table stays duplicate-free and uniformly shaped, whatever it held (all derived dimensions of the shipped modules included) *)
Theorem C02_define_keeps_table_canonical : forall s, DInv s -> fundamental s <> O -> DInv (define s).
Proof. exact define_inv. Qed.
Print Assumptions C02_define_keeps_table_canonical.

(* every dimension object keeps its identity: found under k before, it is found under the extended key at the same place *)
Theorem C02_define_keeps_objects : forall s k i, index_of k (dtable s) = Some i -> index_of (ext k) (dtable (define s)) = Some i.
Proof. exact define_keeps_objects. Qed.
Print Assumptions C02_define_keeps_objects.

(* and the group operations commute with the re-keying, so every law that held before holds after, on the same objects *)
Theorem C02_define_commutes_with_arithmetic : forall a b n, length a = length b ->
  dmul (ext a) (ext b) = ext (dmul a b) /\ ddiv (ext a) (ext b) = ext (ddiv a b) /\ dpow (ext a) n = ext (dpow a n).
Proof. intros a b n H. split; [apply dmul_ext, H|]. split; [apply ddiv_ext, H|apply dpow_ext]. Qed.
Print Assumptions C02_define_commutes_with_arithmetic.

Example C02_define_nonvacuous : DInv (defines 9 dinit) /\ dtable (defines 3 dinit) = [[0; 0; 0; 0]%Z; [0; 1; 0; 0]%Z; [0; 0; 1; 0]%Z].
Proof. split; [apply (defines_inv 8)|vm_compute; reflexivity]. Qed.
