(* C10 — temperature scales convert by their exact affine definitions.
   The general part is proved here for all tables and magnitudes; the temperature graph itself is
   regenerated from the source on every run and the finite family (ordered pair of scales x registered
   prefix x registered prefix) is discharged by vm_compute through affine_case_ok (harness/c10.py). *)
From stdpp Require Import gmap.
From Coq Require Import ZArith QArith Qabs List.
From Measured Require Import Model.FMap Model.Units Model.Quantity Model.Value Model.Convert Model.ConvCheck
  Proofs.ConvertFacts Proofs.ConvertLaws.
Import ListNotations.
Local Open Scope Q_scope.

(* convert's loop is affine in the magnitude, offsets included, for every plan *)
Theorem C10_plan_affine : forall plan m, apply_plan plan m == plan_a plan * m + plan_b plan.
Proof. exact apply_plan_affine. Qed.
Print Assumptions C10_plan_affine.

Theorem C10_convert_affine : forall bd tbl ord offs fuel m s e v,
  convert bd tbl ord offs fuel m s e = COk v ->
  exists plan, plan_conversion bd tbl ord offs fuel s e = COk plan /\
               v == (plan_a plan * pvalQ (upre s)) * m + plan_b plan.
Proof. exact convert_affine. Qed.
Print Assumptions C10_convert_affine.

(* the per-run finite check lifts to every magnitude: if affine_case_ok holds for (s, e, A', B') then
   for EVERY magnitude the conversion succeeds and equals A m + B with (A, B) within eps of (A', B') *)
Theorem C10_affine_case : forall bd tbl ord offs fuel eps s e A' B',
  affine_case_ok bd tbl ord offs fuel eps s e A' B' = true ->
  exists A B, Qabs (A - A') <= eps * Qabs A' /\ Qabs (B - B') <= eps * Qabs B' /\
    forall m, exists v, convert bd tbl ord offs fuel m s e = COk v /\ v == A * m + B.
Proof. exact affine_case_sound. Qed.
Print Assumptions C10_affine_case.

(* consequences of the affine form (pure algebra): differences scale by the degree ratio; a round trip
   through exact inverse maps is the identity; order is preserved by a positive degree ratio *)
Theorem C10_differences_scale : forall A B x y, (A * x + B) - (A * y + B) == A * (x - y).
Proof. intros. ring. Qed.
Print Assumptions C10_differences_scale.

Theorem C10_roundtrip_exact : forall A B x, ~ A == 0 -> (1 / A) * (A * x + B) + (- B / A) == x.
Proof. intros. field. assumption. Qed.
Print Assumptions C10_roundtrip_exact.

Theorem C10_order_preserved : forall A B x y, 0 < A -> x < y -> A * x + B < A * y + B.
Proof.
  intros A B x y HA Hxy. apply Qplus_lt_l. rewrite (Qmult_comm A x), (Qmult_comm A y).
  apply Qmult_lt_compat_r; assumption.
Qed.
Print Assumptions C10_order_preserved.

(* the order of two readings on different scales is the order of their images, not of their signs: "a negative reading is below a
   non-negative one" (seeded changes C10-15, C06-17) fails for -5 on the scale K - 273 against 1 K, on the model's own conversion *)
Theorem C10_refuted_sign_shortcut :
  exists x y v, x < 0 /\ 0 <= y /\
    convert [(1%positive, {[ 5%positive := 1%Z ]}); (2%positive, {[ 5%positive := 1%Z ]})]
            (translate_ratios [] (MkU pid {[ 2%positive := 1%Z ]} {[ 5%positive := 1%Z ]}) (MkU pid {[ 1%positive := 1%Z ]} {[ 5%positive := 1%Z ]}))
            [(MkU pid {[ 1%positive := 1%Z ]} {[ 5%positive := 1%Z ]}, [(1%N, 1%Z)]); (MkU pid {[ 2%positive := 1%Z ]} {[ 5%positive := 1%Z ]}, [(2%N, 1%Z)])]
            (translate_offsets [] (MkU pid {[ 2%positive := 1%Z ]} {[ 5%positive := 1%Z ]}) (MkU pid {[ 1%positive := 1%Z ]} {[ 5%positive := 1%Z ]}) 273)
            20 x (MkU pid {[ 2%positive := 1%Z ]} {[ 5%positive := 1%Z ]}) (MkU pid {[ 1%positive := 1%Z ]} {[ 5%positive := 1%Z ]}) = COk v /\
    ~ v < y.
Proof.
  exists (-5), 1. eexists. split; [reflexivity|]. split; [discriminate|]. split; [vm_compute; reflexivity|].
  vm_compute. discriminate.
Qed.
Print Assumptions C10_refuted_sign_shortcut.

(* non-vacuity and the shape of the defect repaired by the fix: commit (target prefix applied last):
   scale K, scale C = K - 273 (declared by translate), convert 300 K into milli-C *)
Definition t_bd : env := [(1%positive, {[ 5%positive := 1%Z ]}); (2%positive, {[ 5%positive := 1%Z ]})].
Definition t_K : unit3 := MkU pid {[ 1%positive := 1%Z ]} {[ 5%positive := 1%Z ]}.
Definition t_C : unit3 := MkU pid {[ 2%positive := 1%Z ]} {[ 5%positive := 1%Z ]}.
Definition t_mC : unit3 := MkU (MkP 10 (-3)) {[ 2%positive := 1%Z ]} {[ 5%positive := 1%Z ]}.
Definition t_tbl : table := translate_ratios [] t_C t_K.
Definition t_offs : table := translate_offsets [] t_C t_K 273.
Definition t_ord : ordtab := [(t_K, [(1%N, 1%Z)]); (t_C, [(2%N, 1%Z)]); (t_mC, [(2%N, 1%Z)])].
Example C10_nonvacuous :
  convert t_bd t_tbl t_ord t_offs 20 300 t_K t_mC = COk 27000 /\
  affine_case_ok t_bd t_tbl t_ord t_offs 20 0 t_K t_mC 1000 (-273000) = true.
Proof. split; vm_compute; reflexivity. Qed.

(* ---- the tables a history of declarations builds ----
   conversions.translate stores ratio 1 in both directions and the zero point with opposite signs (the per-run obligation
   Gen_trshape.translate_stores_shipped reads the four assignments off the source; the first theorem identifies them with the model's
   translate_ratios / translate_offsets).  After ANY history of equate and translate declarations (what they accept: non-zero magnitudes,
   two different units) every stored ratio has its reciprocal stored the other way and every stored offset its opposite; a scale and its
   degree convert there and back to exactly the magnitude started from. *)
From Measured Require Import Model.Declare Proofs.EquateFacts.

Theorem C10_source_stores_are_model_translate : forall stores t o scale degree z,
  tshapes_eqb stores shipped_tstores = true ->
  translate_of stores t o scale degree z = (translate_ratios t scale degree, translate_offsets o scale degree z).
Proof. exact shipped_tstores_are_translate. Qed.
Print Assumptions C10_source_stores_are_model_translate.

Theorem C10_history_tables : forall ds st,
  Forall anydecl_ok ds -> Reciprocal (fst st) -> Opposite (snd st) ->
  Reciprocal (fst (fold_left declare_any ds st)) /\ Opposite (snd (fold_left declare_any ds st)).
Proof. exact history_tables. Qed.
Print Assumptions C10_history_tables.

Theorem C10_translated_pair_roundtrip : forall o scale degree z m,
  ukey_eqb scale degree = false ->
  exists z1 z2, tget (translate_offsets o scale degree z) degree scale = Some z1 /\
                tget (translate_offsets o scale degree z) scale degree = Some z2 /\ (m * 1 + z1) * 1 + z2 == m.
Proof. exact translated_pair_roundtrip. Qed.
Print Assumptions C10_translated_pair_roundtrip.

(* non-vacuity: Celsius-like scale on a kelvin-like degree, then a re-declared equivalence, from empty tables *)
Example C10_history_nonvacuous :
  let st := fold_left declare_any [DTranslate kx_a kx_b (27315 # 100); DEquate (1, kx_a, 17 # 10, kx_b); DTranslate kx_a kx_b (27315 # 100)] ([], []) in
  Reciprocal (fst st) /\ Opposite (snd st) /\ tget (snd st) kx_b kx_a = Some (- (27315 # 100)) /\ tget (fst st) kx_a kx_b = Some 1.
Proof.
  cbv zeta. split; [|split; [|split; vm_compute; reflexivity]];
  apply history_tables; try exact reciprocal_empty; try exact opposite_empty;
  repeat constructor; try (vm_compute; discriminate); vm_compute; reflexivity.
Qed.
