(* C14 — uncertainty propagates by first-order Gaussian rules for independent inputs.
   Statements only (proofs: Proofs/MeasureFacts.v).  The radicands rad_* are the expression trees of
   the source; harness/c14.py re-derives them from /repo on every run and checks they are these. *)
From Coq Require Import Reals ZArith Lra.
From Coquelicot Require Import Coquelicot.
From Measured Require Import Model.Measure Proofs.MeasureFacts.
Open Scope R_scope.

Theorem C14_add : forall x sx y sy, sqrt (evalR (envR x sx y sy) (radicand MAdd)) = prop2 Rplus x sx y sy.
Proof. exact unc_add. Qed.
Print Assumptions C14_add.
Theorem C14_sub : forall x sx y sy, sqrt (evalR (envR x sx y sy) (radicand MSub)) = prop2 Rminus x sx y sy.
Proof. exact unc_sub. Qed.
Print Assumptions C14_sub.
(* zero measurands included *)
Theorem C14_mul : forall x sx y sy, sqrt (evalR (envR x sx y sy) (radicand MMul)) = prop2 Rmult x sx y sy.
Proof. exact unc_mul. Qed.
Print Assumptions C14_mul.
Theorem C14_div : forall x sx y sy, y <> 0 -> sqrt (evalR (envR x sx y sy) (radicand MDiv)) = prop2 Rdiv x sx y sy.
Proof. exact unc_div. Qed.
Print Assumptions C14_div.
(* every non-zero integer exponent; x = 0 allowed for positive exponents *)
Theorem C14_pow : forall x sx y sy n, (n <> 0)%Z -> (x <> 0 \/ (1 <= n)%Z) ->
  sqrt (evalR (envR x sx y sy) (rad_pow n)) = prop1 (fun u => powerRZ u n) x sx.
Proof. exact unc_pow. Qed.
Print Assumptions C14_pow.
Theorem C14_pow_closed_form : forall x sx y sy n, 0 <= sx ->
  sqrt (evalR (envR x sx y sy) (rad_pow n)) = Rabs (IZR n) * Rabs (powerRZ x (n - 1)) * sx.
Proof. exact unc_pow_closed. Qed.
Print Assumptions C14_pow_closed_form.
Theorem C14_nonneg : forall op x sx y sy, 0 <= sqrt (evalR (envR x sx y sy) (radicand op)).
Proof. exact unc_nonneg. Qed.
Print Assumptions C14_nonneg.
Theorem C14_radicand_nonneg : forall op x sx y sy, 0 <= evalR (envR x sx y sy) (radicand op).
Proof. exact radicand_nonneg. Qed.
Print Assumptions C14_radicand_nonneg.
Theorem C14_plain_quantity_add : forall x sx y, 0 <= sx -> sqrt (evalR (envR x sx y 0) (radicand MAdd)) = sx.
Proof. exact unc_plain_add. Qed.
Print Assumptions C14_plain_quantity_add.
Theorem C14_plain_quantity_mul : forall x sx y, 0 <= sx -> sqrt (evalR (envR x sx y 0) (radicand MMul)) = Rabs y * sx.
Proof. exact unc_plain_mul. Qed.
Print Assumptions C14_plain_quantity_mul.

(* non-vacuity: (3 +- 1) ** 2 has uncertainty 6 (the pre-fix formula gave 18) *)
Example C14_pow_example : sqrt (evalR (envR 3 1 0 0) (rad_pow 2)) = 6.
Proof. rewrite unc_pow_closed by lra. simpl. rewrite !Rabs_pos_eq by lra. ring. Qed.
