(* C06 — arithmetic and comparison do not depend on the units operands are written in: the SI value of
   each result is the same operation applied to the SI values of the operands. *)
From stdpp Require Import gmap.
From Coq Require Import ZArith QArith.
From Measured Require Import Model.FMap Model.Units Model.Quantity Model.Value Proofs.ValueFacts.
Local Open Scope Q_scope.

(* [se] assigns a positive size to every base unit; val se q = magnitude * prefix factor * unit size.
   * / ** are unconditional; + - == < hold for every conversion oracle that is sound for the sizes
   (which C04 establishes for the planner's certified plans). *)
Theorem C06_mul : forall se, sizes_pos se -> forall a b q, qcanon a -> qcanon b ->
  q_mul a (VQty b) = Val (VQty q) -> val se q == val se a * val se b.
Proof. exact val_mul. Qed.
Print Assumptions C06_mul.

Theorem C06_div : forall se, sizes_pos se -> forall a b q, qcanon a -> qcanon b ->
  q_truediv a (VQty b) = Val (VQty q) -> val se q == val se a / val se b.
Proof. exact val_div. Qed.
Print Assumptions C06_div.

Theorem C06_pow : forall se a n q, q_pow a n = Val (VQty q) -> val se q == val se a ^ n.
Proof. exact val_pow. Qed.
Print Assumptions C06_pow.

Theorem C06_addsub : forall se, sizes_pos se -> forall conv, conv_sound se conv -> forall (sub : bool) a b q,
  q_addsub conv sub a (VQty b) = Val (VQty q) ->
  val se q == if sub then val se a - val se b else val se a + val se b.
Proof. intros se Hse conv Hc. exact (val_addsub se conv Hc). Qed.
Print Assumptions C06_addsub.

Theorem C06_eq : forall se, sizes_pos se -> forall conv, conv_sound se conv -> forall a b e,
  q_cmp conv false a (VQty b) = Bool e -> (e = true <-> val se a == val se b).
Proof. exact eq_is_value_eq. Qed.
Print Assumptions C06_eq.

Theorem C06_lt : forall se, sizes_pos se -> forall conv, conv_sound se conv -> forall a b e,
  q_cmp conv true a (VQty b) = Bool e -> (e = true <-> val se a < val se b).
Proof. exact lt_is_value_lt. Qed.
Print Assumptions C06_lt.

Theorem C06_conversion_preserves_value : forall se conv, conv_sound se conv -> forall a t q,
  in_unit conv a t = Val (VQty q) -> val se q == val se a /\ qu q = t.
Proof. intros se conv Hc. exact (val_in_unit se conv Hc). Qed.
Print Assumptions C06_conversion_preserves_value.

Example C06_nonvacuous : sizes_pos [(1%positive, 1); (2%positive, 3 # 10)].
Proof. repeat constructor. Qed.
