(* C03 — quantity operations obey dimensional analysis; incommensurables are rejected. *)
From stdpp Require Import gmap.
From Coq Require Import ZArith QArith.
From Measured Require Import Model.FMap Model.Units Model.Quantity Proofs.FMapFacts Proofs.QuantityFacts.
Local Open Scope Z_scope.

(* for every conversion oracle [conv] and every combination of quantity / unit / number / prefix
   operands on either side (through Python's reflected-operator protocol) *)
Theorem C03_mul_dims : forall conv l r q, wf (vdim l) -> wf (vdim r) ->
  binop conv OpMul l r = Val (VQty q) -> udim (qu q) = fmul (vdim l) (vdim r).
Proof. exact mul_dims. Qed.
Print Assumptions C03_mul_dims.

(* division: proved for every operand combination except number / quantity, where the full
   statement is false of the code (C03_refuted_rtruediv: known finding, pinned by the repo's tests) *)
Theorem C03_div_dims_partial : forall conv l r q, wf (vdim l) -> wf (vdim r) ->
  (forall k m, l <> VNum k m) ->
  binop conv OpDiv l r = Val (VQty q) -> udim (qu q) = fdiv (vdim l) (vdim r).
Proof. exact div_dims. Qed.
Print Assumptions C03_div_dims_partial.

Theorem C03_refuted_rtruediv : forall conv k m s q,
  binop conv OpDiv (VNum k m) (VQty s) = Val (VQty q) -> qu q = qu s.
Proof. exact rtruediv_keeps_unit. Qed.
Print Assumptions C03_refuted_rtruediv.

Theorem C03_pow_dims : forall s n q, q_pow s n = Val (VQty q) -> udim (qu q) = fpow (udim (qu s)) n.
Proof. exact pow_dims. Qed.
Print Assumptions C03_pow_dims.

Theorem C03_root_dims : forall a n r, n <> 0 -> uroot a n = Ok r -> froot (udim a) n = Some (udim r).
Proof. exact uroot_dim. Qed.
Print Assumptions C03_root_dims.

Theorem C03_addsub_left_unit : forall conv (sub : bool) a r q,
  lmethod conv (if sub then OpSub else OpAdd) (VQty a) r = Val (VQty q) -> qu q = qu a.
Proof. exact addsub_left_unit. Qed.
Print Assumptions C03_addsub_left_unit.

Theorem C03_decimal_muldiv : forall conv (dv : bool) l r q, is_dec l || is_dec r = true ->
  binop conv (if dv then OpDiv else OpMul) l r = Val (VQty q) -> qk q = KDec.
Proof. exact decimal_muldiv. Qed.
Print Assumptions C03_decimal_muldiv.

Theorem C03_decimal_addsub : forall conv (sub : bool) a b q, is_dec (VQty a) || is_dec (VQty b) = true ->
  binop conv (if sub then OpSub else OpAdd) (VQty a) (VQty b) = Val (VQty q) -> qk q = KDec.
Proof. exact decimal_addsub. Qed.
Print Assumptions C03_decimal_addsub.

Theorem C03_incommensurable_addsub : forall conv (sub : bool) a b, udim (qu a) <> udim (qu b) ->
  binop conv (if sub then OpSub else OpAdd) (VQty a) (VQty b) = Err ECNF.
Proof. exact incommensurable_addsub. Qed.
Print Assumptions C03_incommensurable_addsub.

Theorem C03_incommensurable_convert : forall conv a t, udim (qu a) <> udim t -> in_unit conv a t = Err ECNF.
Proof. exact incommensurable_in_unit. Qed.
Print Assumptions C03_incommensurable_convert.

Theorem C03_incommensurable_eq : forall conv a b, udim (qu a) <> udim (qu b) ->
  binop conv OpEq (VQty a) (VQty b) = Bool false.
Proof. exact incommensurable_eq. Qed.
Print Assumptions C03_incommensurable_eq.

Theorem C03_incommensurable_order : forall conv op a b, udim (qu a) <> udim (qu b) ->
  compare conv op (VQty a) (VQty b) = Err ETypeError.
Proof. exact incommensurable_order. Qed.
Print Assumptions C03_incommensurable_order.

(* non-vacuity: 3 m * 2 s is a quantity of dimension L*T in the model *)
Example C03_nonvacuous :
  let m := MkU pid {[ 1%positive := 1 ]} {[ 2%positive := 1 ]} in
  let s := MkU pid {[ 2%positive := 1 ]} {[ 3%positive := 1 ]} in
  exists q, binop (fun _ _ => None) OpMul (VQty (MkQty KInt 3 m)) (VQty (MkQty KFloat 2 s)) = Val (VQty q)
            /\ qk q = KFloat.
Proof. eexists. split; vm_compute; reflexivity. Qed.
