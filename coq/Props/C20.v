(* C20 — singletons stay singletons when constructed concurrently. *)
From Coq Require Import List Arith.
Import ListNotations.
From Measured Require Import Model.Threads Proofs.ThreadsFacts.

(* any number n of threads constructing the same new object, under EVERY schedule (any list of
   thread numbers, at source-line granularity): all threads that returned hold the same object,
   it is the only object ever stored under the key, and it is what a later lookup returns *)
Theorem C20_locked : forall n sched o1 o2,
  let s := crun true (cinit n) sched in
  In o1 (results s) -> In o2 (results s) ->
  o1 = o2 /\ created s = [o1] /\ table_lookup s = Some o1.
Proof. exact locked_singleton. Qed.
Print Assumptions C20_locked.

Theorem C20_single_entry : forall n sched o,
  let s := crun true (cinit n) sched in
  In o (results s) -> length (created s) <= 1.
Proof. exact locked_later_calls. Qed.
Print Assumptions C20_single_entry.

(* the lock is what makes it true: the same protocol without it hands out two objects *)
Theorem C20_unlocked_refuted :
  exists sched, results (crun false (cinit 2) sched) = [0; 1] /\ length (created (crun false (cinit 2) sched)) = 2.
Proof. exact unlocked_refuted. Qed.
Print Assumptions C20_unlocked_refuted.

(* non-vacuity: three threads under an interleaved schedule all finish with one object *)
Example C20_nonvacuous :
  results (crun true (cinit 3) [0;1;2;0;0;1;0;2;0;0; 1;1;1;1;1; 2;2;2;2;2]) = [0; 0; 0].
Proof. vm_compute. reflexivity. Qed.

(* ---- the constructors as programs (Model/NewProg.v) ----
   Each __new__ is translated at every run, instruction by instruction, into a program over: look the key up into a local, return
   the local / the table entry if present, allocate, store, setdefault, take and leave the lock, lines that may raise or return
   something else.  [prog_safe] is one forward pass of an abstract interpretation over the program text.  For EVERY program it
   accepts, any number of threads and every schedule (with every outcome of the conditional exits): each thread that returned
   holds the object the table holds, and that object is the only one ever stored under the key. *)
From Measured Require Import Model.NewProg Proofs.NewProgFacts.

Theorem C20_program_safe : forall p, prog_safe p = true -> forall n sched o,
  let s := prun p (pinit n) sched in
  In o (presults s) -> table (fst s) = Some o /\ created (fst s) = [o].
Proof. exact safe_program_singleton. Qed.
Print Assumptions C20_program_safe.

Theorem C20_program_results_agree : forall p, prog_safe p = true -> forall n sched o1 o2,
  In o1 (presults (prun p (pinit n) sched)) -> In o2 (presults (prun p (pinit n) sched)) -> o1 = o2.
Proof. exact safe_program_results_agree. Qed.
Print Assumptions C20_program_results_agree.

(* every schedule observed on the implementation and replayed on the program (the per-run obligation traces_replay) is a run of the
   model, so the theorem above speaks about it *)
Theorem C20_replayed_schedules_are_runs : forall p evs s s', replay p s evs = Some s' -> exists sched, prun p s sched = s'.
Proof. exact replay_run. Qed.
Print Assumptions C20_replayed_schedules_are_runs.

(* non-vacuity: the three shapes the shipped constructors have today are accepted (the per-run obligation re-derives them from
   the source), and so are a double-checked variant and one that publishes with setdefault and returns what setdefault returned *)
Example C20_shipped_shapes_accepted :
  prog_safe [ISkip; IAcquire; IGet false; IRetTabIf false; IAlloc; ISkip; IStore; IRetSelf] = true /\
  prog_safe [IMayLeave; ISkip; IGet true; IMayLeave; IMayLeave; IAcquire; IGetDefault true; IRetIf true; IAlloc; ISkip; IStore; IRetSelf] = true /\
  prog_safe [ISkip; IAcquire; IGet false; IRetTabIf false; IMayLeave; IAlloc; ISkip; IMayLeave; IStore; IRetSelf] = true /\
  prog_safe [IGet true; IRetIf true; IAcquire; IGetDefault true; IRetIf true; IAlloc; IStore; IRelease; IRetSelf] = true /\
  prog_safe [IAlloc; IAcquire; ISetDefault (Some true); IRelease; IRetReg true] = true.
Proof. vm_compute. repeat split. Qed.

(* ... and the acceptance is not a formality: "look up, allocate, publish with setdefault under the lock, return self" -- the
   loser of the race returns its own unregistered twin -- is rejected, and two threads do get two objects *)
Theorem C20_setdefault_return_self_refuted :
  let p := [IGet true; IRetIf true; IAlloc; ISkip; IAcquire; ISetDefault None; IRelease; IRetSelf] in
  prog_safe p = false /\
  exists sched, presults (prun p (pinit 2) sched) = [0; 1] /\ created (fst (prun p (pinit 2) sched)) = [0].
Proof.
  split; [vm_compute; reflexivity|].
  exists [(0,false);(0,false);(1,false);(1,false);(0,false);(0,false);(0,false);(0,false);(0,false);(0,false);(1,false);(1,false);(1,false);(1,false);(1,false);(1,false)].
  vm_compute. split; reflexivity.
Qed.
Print Assumptions C20_setdefault_return_self_refuted.

(* ---- the memoised helpers in front of the constructors (Model/MemoLayer.v) ----
   Unit._multiply / _divide and Dimension._multiply / _divide are lru_cache'd functions whose every return is a call of the interning
   constructor (per-run obligation Gen_helpers).  Whatever the constructor calls return is one object (C20_program_safe); then every thread
   gets that object from the helper, under every schedule of cache lookups, calls and cache stores, and the cache holds nothing else. *)
From Measured Require Import Model.MemoLayer Proofs.MemoLayerFacts.

Theorem C20_memoised_helpers : forall (inner : nat -> nat) (o : nat), (forall k, inner k = o) -> forall n sched,
  let s := mlrun inner (mlinit n) sched in
  (forall v, In v (mlresults s) -> v = o) /\ (forall v, mcache s = Some v -> v = o).
Proof. exact memo_layer_singleton. Qed.
Print Assumptions C20_memoised_helpers.

(* the layer adds no protection of its own: in front of a racy function it hands out both objects *)
Example C20_memo_layer_transparent_to_races : mlresults (mlrun (fun k => k) (mlinit 2) [0; 1; 0; 1; 0; 1]) = [0; 1].
Proof. exact memo_layer_transparent_to_races. Qed.
