(* C20 — singletons stay singletons when constructed concurrently. *)
From Coq Require Import List Arith.
Import ListNotations.
From Measured Require Import Model.Threads Proofs.ThreadsFacts.

(* any number n of threads constructing the same new object, under EVERY schedule (any list of
   thread numbers, at source-line granularity): all threads that returned hold the same object,
   it is the only object ever stored under the key, and it is what a later lookup returns *)
Theorem C20_locked : forall n sched o1 o2,
  let s := crun true (cinit n) sched in
  In o1 (results s) -> In o2 (results s) ->
  o1 = o2 /\ created s = [o1] /\ table_lookup s = Some o1.
Proof. exact locked_singleton. Qed.
Print Assumptions C20_locked.

Theorem C20_single_entry : forall n sched o,
  let s := crun true (cinit n) sched in
  In o (results s) -> length (created s) <= 1.
Proof. exact locked_later_calls. Qed.
Print Assumptions C20_single_entry.

(* the lock is what makes it true: the same protocol without it hands out two objects *)
Theorem C20_unlocked_refuted :
  exists sched, results (crun false (cinit 2) sched) = [0; 1] /\ length (created (crun false (cinit 2) sched)) = 2.
Proof. exact unlocked_refuted. Qed.
Print Assumptions C20_unlocked_refuted.

(* non-vacuity: three threads under an interleaved schedule all finish with one object *)
Example C20_nonvacuous :
  results (crun true (cinit 3) [0;1;2;0;0;1;0;2;0;0; 1;1;1;1;1; 2;2;2;2;2]) = [0; 0; 0].
Proof. vm_compute. reflexivity. Qed.
