(* C05 — conversion is an invertible linear scaling, independent of the route taken.
   Only statements; proofs are in Proofs/ConvertFacts.v and Proofs/ConvertLaws.v. *)
From stdpp Require Import gmap.
From Coq Require Import ZArith QArith List.
From Measured Require Import Model.FMap Model.Units Model.Quantity Model.Value Model.Convert Model.ConvCheck
  Proofs.ConvertFacts Proofs.ConvertLaws.
Import ListNotations.
Local Open Scope Q_scope.

(* the plan of a conversion depends on the two units only, never on the magnitude *)
Theorem C05_plan_independent_of_magnitude : forall bd tbl ord offs fuel m s e v,
  convert bd tbl ord offs fuel m s e = COk v ->
  exists plan, plan_conversion bd tbl ord offs fuel s e = COk plan /\
               v = apply_plan plan (m * pvalQ (upre s)) /\
               forall m', convert bd tbl ord offs fuel m' s e = COk (apply_plan plan (m' * pvalQ (upre s))).
Proof. exact convert_plan. Qed.
Print Assumptions C05_plan_independent_of_magnitude.

(* linearity, for EVERY plan without offsets (whatever the planner did) *)
Theorem C05_linear : forall bd tbl offs ord fuel s e plan,
  plan_conversion bd tbl ord offs fuel s e = COk plan -> plan_offsets_zero plan = true ->
  forall k m v vk, convert bd tbl ord offs fuel m s e = COk v ->
  convert bd tbl ord offs fuel (k * m) s e = COk vk -> vk == k * v.
Proof. exact convert_linear. Qed.
Print Assumptions C05_linear.

Theorem C05_additive : forall bd tbl offs ord fuel s e plan,
  plan_conversion bd tbl ord offs fuel s e = COk plan -> plan_offsets_zero plan = true ->
  forall m1 m2 v1 v2 v12, convert bd tbl ord offs fuel m1 s e = COk v1 ->
  convert bd tbl ord offs fuel m2 s e = COk v2 ->
  convert bd tbl ord offs fuel (m1 + m2) s e = COk v12 -> v12 == v1 + v2.
Proof. exact convert_additive. Qed.
Print Assumptions C05_additive.

Theorem C05_zero : forall bd tbl offs ord fuel s e plan,
  plan_conversion bd tbl ord offs fuel s e = COk plan -> plan_offsets_zero plan = true ->
  forall v, convert bd tbl ord offs fuel 0 s e = COk v -> v == 0.
Proof. exact convert_zero. Qed.
Print Assumptions C05_zero.

(* declared ratios are positive: the sign of the magnitude is preserved *)
Theorem C05_sign : forall plan m, plan_offsets_zero plan = true -> plan_positive plan = true ->
  (0 < m -> 0 < apply_plan plan m) /\ (m < 0 -> apply_plan plan m < 0).
Proof. exact apply_plan_sign. Qed.
Print Assumptions C05_sign.

(* converting into the quantity's own unit returns the magnitude (any prefix, any table) *)
Theorem C05_identity : forall bd tbl ord offs fuel m u v,
  convert bd tbl ord offs (S fuel) m u u = COk v -> v == m.
Proof. exact convert_identity. Qed.
Print Assumptions C05_identity.

(* round trips and routes through an intermediate unit, for certified conversions *)
Theorem C05_roundtrip : forall se bd tbl offs ord fuel, sizes_pos se -> consistent se tbl ->
  forall m a b v w,
  plan_cert bd tbl ord offs fuel a b = true -> plan_cert bd tbl ord offs fuel b a = true ->
  convert bd tbl ord offs fuel m a b = COk v -> convert bd tbl ord offs fuel v b a = COk w -> w == m.
Proof. exact convert_roundtrip. Qed.
Print Assumptions C05_roundtrip.

Theorem C05_route_independent : forall se bd tbl offs ord fuel, sizes_pos se -> consistent se tbl ->
  forall m a b c v w d,
  plan_cert bd tbl ord offs fuel a b = true -> plan_cert bd tbl ord offs fuel b c = true ->
  plan_cert bd tbl ord offs fuel a c = true ->
  convert bd tbl ord offs fuel m a b = COk v -> convert bd tbl ord offs fuel v b c = COk w ->
  convert bd tbl ord offs fuel m a c = COk d -> w == d.
Proof. exact convert_route_independent. Qed.
Print Assumptions C05_route_independent.

(* non-vacuity: a two-unit table a = 2 b; 3 a -> 6 b -> 3 a *)
Definition ex_bd : env := [(1%positive, {[ 1%positive := 1%Z ]}); (2%positive, {[ 1%positive := 1%Z ]})].
Definition ex_a : unit3 := MkU pid {[ 1%positive := 1%Z ]} {[ 1%positive := 1%Z ]}.
Definition ex_b : unit3 := MkU pid {[ 2%positive := 1%Z ]} {[ 1%positive := 1%Z ]}.
Definition ex_tbl : table := equate [] 1 ex_a 2 ex_b.
Definition ex_ord : ordtab := [(ex_a, [(1%N, 1%Z)]); (ex_b, [(2%N, 1%Z)])].
Example C05_nonvacuous :
  plan_cert ex_bd ex_tbl ex_ord [] 20 ex_a ex_b = true /\ plan_cert ex_bd ex_tbl ex_ord [] 20 ex_b ex_a = true /\
  convert ex_bd ex_tbl ex_ord [] 20 3 ex_a ex_b = COk 6 /\ convert ex_bd ex_tbl ex_ord [] 20 6 ex_b ex_a = COk (6 # 2) /\
  consistent [(1%positive, 2); (2%positive, 1)] ex_tbl.
Proof.
  split; [vm_compute; reflexivity|]. split; [vm_compute; reflexivity|]. split; [vm_compute; reflexivity|].
  split; [vm_compute; reflexivity|]. apply consistentb_sound. vm_compute. reflexivity.
Qed.

(* ---- the same over every table a history of true declarations builds (with rows registered by lookups, which are invisible) ----
   `consistent se tbl` discharged from the declarations themselves (Proofs/DeclareConsistent.v); any units registered in the table
   by earlier lookups change nothing (Proofs/TableRows.v; functional extensionality). *)
From Measured Require Import Model.Declare Proofs.EquateFacts Proofs.DeclareConsistent Proofs.TableRows.

Theorem C05_roundtrip_over_declared_tables : forall se bd ds us offs ord fuel, sizes_pos se -> Forall (decl_true se) ds ->
  let tbl := register_all (fold_left declare ds []) us in
  forall m a b v w,
  plan_cert bd (fold_left declare ds []) ord offs fuel a b = true -> plan_cert bd (fold_left declare ds []) ord offs fuel b a = true ->
  convert bd tbl ord offs fuel m a b = COk v -> convert bd tbl ord offs fuel v b a = COk w -> w == m.
Proof.
  intros se bd ds us offs ord fuel Hpos Hds tbl m a b v w C1 C2 H1 H2. subst tbl.
  rewrite lookups_register_nothing_visible in H1, H2.
  exact (convert_roundtrip se bd (fold_left declare ds []) offs ord fuel Hpos
           (true_declarations_consistent se ds [] Hds (consistent_empty se)) m a b v w C1 C2 H1 H2).
Qed.
Print Assumptions C05_roundtrip_over_declared_tables.
