#!/bin/bash
# Build the static Coq development (model, proofs, property theorems). Offline; full .vo build.
set -e
cd "$(dirname "$0")/coq"
coq_makefile -f _CoqProject -o Makefile >/dev/null
timeout 3000 make -j16
