"""debug helper: locate the first operation of a history on which model and implementation differ"""
import sys, os
sys.path.insert(0, os.path.dirname(os.path.abspath(__file__)))
from common import *
import unitgen as G
hist = json.load(open(sys.argv[1]))
exp = impl("export_worker.py", {})
prefixes = exp["prefix_by_name"]
r = impl("units_worker.py", {"histories": [hist], "monitor": True})
res = r["results"][0]
items, trunc = G.coq_history(hist, res, prefixes, None)
work = os.path.join(ROOT, ".work", "debug"); os.makedirs(work, exist_ok=True)
cases = clist(clist(items[:k]) for k in range(1, len(items) + 1))
txt = HEADER + f"""
Definition the_env : env := {G.coq_env(exp['env'])}.
Definition cases : list (list (op * outcome)) := {cases}.
Eval vm_compute in mismatches (check_history the_env) cases.
"""
open(os.path.join(work, "dbg.v"), "w").write(txt)
ok, log, dt = coqc(work, "dbg")
print(log[-600:])
m = re.search(r"=\s*\[(.*?)\]", log, re.S)
if m and m.group(1).strip():
    first = int(re.findall(r"\d+", m.group(1))[0])
    print("first failing op index:", first)
    print("op:", json.dumps(hist[first]))
    print("impl:", json.dumps(res[first]))
    print("coq item:", items[first])
    txt2 = HEADER + f"""
Definition the_env : env := {G.coq_env(exp['env'])}.
Definition ops : list (op * outcome) := {clist(items[:first+1])}.
Eval vm_compute in (let s := fold_left (fun s o => fst (step_out s (fst o))) (removelast ops) (MkS [uone] the_env) in
   match last ops (Eval (ELit uone), OOther) with (o, _) =>
     match step_out s o with (s', Ok h) => option_map (fun u => (upre u, to_list (ufac u), to_list (udim u), h)) (nth_error (s_tbl s') h) | _ => None end end).
"""
    open(os.path.join(work, "dbg2.v"), "w").write(txt2)
    ok, log, dt = coqc(work, "dbg2")
    print(log[-1500:])
