#!/usr/bin/env python3
"""Confirm a seeded change (patch + demonstration) and run checks against it, in isolation:
a scratch worktree of /repo with the patch applied and a scratch copy of /verif (so neither /repo nor
the live /verif build is touched).  usage: seedtest.py <Cnn> <k> [--src /tmp/seed/Cnn] [--checks Cxx,Cyy]
 1. demo passes on the unchanged scratch worktree   2. apply the patch
 3. demo fails                                      4. baseline suite still passes
 5. run ./check for the property (and --checks) with VERIF_REPO=<scratch>   6. remove the scratch dirs
Writes /verif/seeded/<Cnn>-<k>/{patch.diff, demo.py, meta.json}."""
import sys, os, json, subprocess, shutil, time
ROOT = os.path.dirname(os.path.dirname(os.path.abspath(__file__)))
pid, k = sys.argv[1], sys.argv[2]
src = f"/tmp/seed/{pid}"
checks = [pid]
if "--src" in sys.argv: src = sys.argv[sys.argv.index("--src") + 1]
if "--checks" in sys.argv: checks = sys.argv[sys.argv.index("--checks") + 1].split(",")
name = sys.argv[sys.argv.index("--as") + 1] if "--as" in sys.argv else k      # keep under another number (second round of seeds)
dst = os.path.join(ROOT, "seeded", f"{pid}-{name}")
os.makedirs(dst, exist_ok=True)
if os.path.exists(f"{src}/patch{k}.diff"):
    shutil.copy(f"{src}/patch{k}.diff", f"{dst}/patch.diff"); shutil.copy(f"{src}/demo{k}.py", f"{dst}/demo.py")
scratch = f"/tmp/seedrun/{pid}-{name}"
shutil.rmtree(scratch, ignore_errors=True); os.makedirs(scratch)
repo, verif = f"{scratch}/repo", f"{scratch}/verif"
def sh(cmd, **kw):
    return subprocess.run(cmd, shell=True, capture_output=True, text=True, **kw)
sh("git -C /repo worktree prune")
a = sh(f"git -C /repo worktree add --detach {repo} HEAD"); assert a.returncode == 0, a.stderr
sh(f"rsync -a --exclude .git --exclude .work --exclude seeded {ROOT}/ {verif}/")
env = dict(os.environ, PYTHONPATH=f"{repo}/src", PYTHONHASHSEED="0", PYTHONDONTWRITEBYTECODE="1", PATH="/venv/bin:" + os.environ.get("PATH", ""))
def demo():
    p = subprocess.run(["/venv/bin/python", f"{dst}/demo.py"], env=env, capture_output=True, text=True, cwd=scratch, timeout=900)
    return p.returncode, (p.stdout + p.stderr)[-600:]
meta = {"property": pid, "seed": f"{pid}-{name}", "ran": []}
old = {}
if os.path.exists(f"{dst}/meta.json"):
    try: old = json.load(open(f"{dst}/meta.json"))
    except Exception: pass
try:
    rc0, out0 = demo(); meta["demo_unpatched_rc"] = rc0
    a = sh(f"git -C {repo} apply {dst}/patch.diff"); assert a.returncode == 0, a.stderr
    rc1, out1 = demo(); meta["demo_patched_rc"] = rc1; meta["demo_patched_output"] = out1
    if "--skip-baseline" in sys.argv and "baseline_passes_with_patch" in old:
        meta["baseline_passes_with_patch"] = old["baseline_passes_with_patch"]; meta["baseline_tail"] = old.get("baseline_tail", "")
    else:
        b = sh(f"VERIF_REPO={repo} python3 {verif}/harness/baseline.py"); meta["baseline_passes_with_patch"] = (b.returncode == 0); meta["baseline_tail"] = b.stdout[-300:]
    meta["detected_by"] = dict(old.get("detected_by", {}))
    for ch in checks:
        t = time.time()
        r = sh(f"cd {verif} && VERIF_REPO={repo} ./check {ch} --tier quick")
        viol = [l for l in r.stdout.splitlines() if l.startswith("VIOLATION")]
        d = {"rc": r.returncode, "violations": [v.replace(verif, "/verif") for v in viol[:3]], "nofail": bool(viol) and all("no-failing-input-found" in l for l in viol),
             "summary": r.stdout.strip().splitlines()[-1][:200] if r.stdout.strip() else r.stderr[-300:], "wall_s": round(time.time() - t, 1)}
        for l in viol[:1]:
            rp = l.split("replay=")[1].split()[0]
            if os.path.exists(rp):
                try:
                    j = json.load(open(rp)); d["replay_key"] = j.get("key"); d["replay_what"] = str(j.get("what"))[:300]
                except Exception: pass
        meta["detected_by"][ch] = d
finally:
    sh(f"git -C /repo worktree remove --force {repo}"); shutil.rmtree(scratch, ignore_errors=True); sh("git -C /repo worktree prune")
meta["confirmed"] = (meta.get("demo_unpatched_rc") == 0 and meta.get("demo_patched_rc", 0) != 0 and meta.get("baseline_passes_with_patch", False))
meta["ran"] = ["scratch worktree of /repo + scratch copy of /verif under /tmp/seedrun (removed afterwards)", "demo.py on the unchanged worktree", "git apply patch.diff", "demo.py",
               "VERIF_REPO=<scratch> python3 harness/baseline.py"] + [f"VERIF_REPO=<scratch> ./check {c} --tier quick" for c in meta["detected_by"]]
for kk in ("needs", "what"):
    if kk in old: meta[kk] = old[kk]
json.dump(meta, open(f"{dst}/meta.json", "w"), indent=1)
print(json.dumps({kk: meta.get(kk) for kk in ("seed", "confirmed", "demo_unpatched_rc", "demo_patched_rc", "baseline_passes_with_patch")}),
      {c: (v["rc"], v["nofail"], v.get("replay_key")) for c, v in meta["detected_by"].items()})
