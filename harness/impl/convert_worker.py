"""Run conversions / arithmetic on the implementation.
input: {"cases": [case...]}   case: {"op": ..., "a": qspec, "b": qspec|uspec, ...}
  uspec: [[prefixname|null, unitname, exponent], ...]      unit = product of (prefix*unit)**exponent, left to right
  qspec: {"m": [kind, num, den], "u": uspec}
ops: in_unit (a: qspec, b: uspec) | add sub mul div eq lt le gt ge ne (a, b: qspec) | pow (a, n) | plan (a.u -> b)
output per case: {"m": num, "u": canon unit} | {"bool": b} | {"err": class, "msg": ...}"""
import sys, os, json, operator
sys.path.insert(0, os.path.dirname(os.path.abspath(__file__)))
import implib
measured = implib.load()
from measured import Unit, Prefix, One, Quantity, conversions
from decimal import Decimal
from fractions import Fraction

C = implib.Canon(measured)

def mk_unit(spec):
    u = None
    for p, n, e in spec:
        f = Unit._by_name[n]
        if p:
            f = Prefix._by_name[p] * f
        f = f ** e if e != 1 else f
        u = f if u is None else u * f
    return One if u is None else u

def mk_num(n):
    kind, a, b = n
    fr = Fraction(int(a), int(b))
    if kind == "int": return int(fr)
    if kind == "float": return int(a) / int(b)
    if kind == "dec": return Decimal(int(a)) / Decimal(int(b))
    raise ValueError(kind)

def mk_q(spec):
    return Quantity(mk_num(spec["m"]), mk_unit(spec["u"]))

OPS = {"add": operator.add, "sub": operator.sub, "mul": operator.mul, "div": operator.truediv,
       "eq": operator.eq, "ne": operator.ne, "lt": operator.lt, "le": operator.le, "gt": operator.gt, "ge": operator.ge}

def out(r):
    if isinstance(r, bool): return {"bool": r}
    if isinstance(r, Quantity): return {"m": implib.num(r.magnitude), "u": C.unit(r.unit)}
    if r is NotImplemented: return {"notimpl": True}
    return {"other": repr(r)[:100]}

def run(data):
    res = []
    for c in data["cases"]:
        try:
            op = c["op"]
            if op == "in_unit":
                q = mk_q(c["a"]); t = mk_unit(c["b"])
                r = q.in_unit(t)
                o = out(r); o["same_unit"] = (r.unit is t); o["target"] = C.unit(t); o["source"] = C.unit(q.unit)
                res.append(o)
            elif op == "pow":
                res.append(out(mk_q(c["a"]) ** c["n"]))
            elif op == "units":
                res.append({"a": C.unit(mk_unit(c["a"])), "b": C.unit(mk_unit(c["b"]))})
            else:
                res.append(out(OPS[op](mk_q(c["a"]), mk_q(c["b"]))))
        except Exception as ex:  # noqa
            res.append({"err": implib.errclass(ex), "msg": str(ex)[:160]})
    return {"results": res, "cache": {"plan": list(conversions._plan_conversion.cache_info()),
                                      "path": list(conversions._find_path.cache_info())}}

implib.main_io(run)
