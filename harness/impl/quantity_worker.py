"""Evaluate operators on quantities / units / numbers / prefixes on the implementation.
case: {"op": mul|div|add|sub|eq|ne|lt|le|gt|ge|pow|root|neg|pos|abs|in_unit|hash_eq|sorted, "l": vspec, "r": vspec | int}
vspec: {"t":"num","m":num} | {"t":"unit","u":uspec} | {"t":"qty","m":num,"u":uspec} | {"t":"prefix","p":name} | {"t":"other"}"""
import sys, os, json, operator
sys.path.insert(0, os.path.dirname(os.path.abspath(__file__)))
import implib
measured = implib.load()
from measured import Unit, Prefix, One, Quantity
from decimal import Decimal
from fractions import Fraction

C = implib.Canon(measured)

def mk_unit(spec):
    u = None
    for p, n, e in spec:
        f = Unit._by_name[n]
        if p: f = Prefix._by_name[p] * f
        f = f ** e if e != 1 else f
        u = f if u is None else u * f
    return One if u is None else u

def mk_num(n):
    kind, a, b = n
    if kind == "int": return int(Fraction(int(a), int(b)))
    if kind == "float": return int(a) / int(b)
    return Decimal(int(a)) / Decimal(int(b))

def mk(v):
    t = v["t"]
    if t == "num": return mk_num(v["m"])
    if t == "unit": return mk_unit(v["u"])
    if t == "qty": return Quantity(mk_num(v["m"]), mk_unit(v["u"]))
    if t == "prefix": return Prefix._by_name[v["p"]]
    return "a string"

def canon(x):
    if isinstance(x, bool): return {"t": "bool", "b": x}
    if isinstance(x, Quantity): return {"t": "qty", "m": implib.num(x.magnitude), "u": C.unit(x.unit)}
    if isinstance(x, Unit): return {"t": "unit", "u": C.unit(x)}
    if isinstance(x, Prefix): return {"t": "prefix", "p": C.prefix(x)}
    if isinstance(x, (int, float, Decimal)): return {"t": "num", "m": implib.num(x)}
    if x is NotImplemented: return {"t": "notimpl"}
    return {"t": "other", "r": repr(x)[:80]}

OPS = {"mul": operator.mul, "div": operator.truediv, "add": operator.add, "sub": operator.sub, "eq": operator.eq,
       "ne": operator.ne, "lt": operator.lt, "le": operator.le, "gt": operator.gt, "ge": operator.ge}

def render_routes(u):
    str(u); repr(u); format(u, ""); format(u, "/")
    try: u._repr_html_()
    except Exception: pass

def product_dim(u):
    d = measured.Number
    for f, e in u.factors.items():
        if f is One: continue
        d = d * f.dimension ** e
    return d

def prelude(pairs):
    """render (in every format the library offers) units and quantities whose numerator / denominator parts are the
    products the later operations will produce, BEFORE those products are first computed by arithmetic"""
    cd = Unit._by_name.get("candela") or One
    for a, b in pairs:
        try:
            ua, ub = mk_unit(a), mk_unit(b)
            w = (cd * ua ** -1) * ub ** -1
            render_routes(w); render_routes(Quantity(2, w)); format(Quantity(2, w), ":/")
            w2 = (cd ** -1 * ua) * ub
            render_routes(w2)
        except Exception:  # noqa
            pass

def bookkeeping(cases):
    """ordinary in-place bookkeeping on public results of the units the cases use (running totals started from unit.quantify() and
    from unprefixed quantities, scaled in place), BEFORE the cases run: none of it may change what those units are worth"""
    seen = set()
    for c in cases:
        for side in ("l", "r"):
            x = c.get(side)
            if not isinstance(x, dict) or "u" not in x: continue
            key = json.dumps(x["u"])
            if key in seen: continue
            seen.add(key)
            try:
                u = mk_unit(x["u"])
                for start in (u.quantify(), Quantity(1, u).unprefixed(), 1 * u):
                    t = start
                    t += Quantity(2, u); t -= Quantity(1, u); t *= 3; t /= 4
                    t = start; t += start
            except Exception:  # noqa
                pass

def cross_declare():
    """an application declares an equivalence between units of DIFFERENT dimensions (c = 1 style: a length unit and a time unit, a
    mass and an energy): conversions.equate does not look at dimensions, but dimensional analysis must keep refusing the pair"""
    from measured import Dimension
    L, T, M = Dimension._by_name["length"], Dimension._by_name["time"], Dimension._by_name["mass"]
    xl, xt, xm = L.unit("vfxlength", "vfxl"), T.unit("vfxtime", "vfxt"), M.unit("vfxmass", "vfxm")
    xl.equals(2 * xt)
    (Prefix._by_name["kilo"] * xm).equals(3 * xl)
    xt.equals(Quantity(Decimal("0.5"), Unit._by_name["second"]))
    C.refresh()

def run(data):
    res = []
    if data.get("cross_declare"): cross_declare()
    prelude(data.get("prelude", []))
    bookkeeping(data["cases"])
    for c in data["cases"]:
        rec = {}
        try:
            op = c["op"]
            l = mk(c["l"])
            rec["l"] = canon(l)
            if op in OPS:
                r = mk(c["r"]); rec["r"] = canon(r)
                rec["res"] = canon(OPS[op](l, r))
            elif op == "pow":
                if c.get("refused_first"):
                    # the same power written as a float and as a Decimal first (both are refused: exponents are integers)
                    for bad in (float(c["r"]), Decimal(c["r"])):
                        try: l ** bad
                        except TypeError: pass
                        try: l.unit ** bad
                        except TypeError: pass
                rec["res"] = canon(l ** c["r"])
            elif op == "root": rec["res"] = canon(l.root(c["r"]))
            elif op == "neg": rec["res"] = canon(-l)
            elif op == "pos": rec["res"] = canon(+l)
            elif op == "abs": rec["res"] = canon(abs(l))
            elif op == "in_unit":
                t = mk_unit(c["r"]["u"]); rec["r"] = canon(t)
                rec["res"] = canon(l.in_unit(t))
            elif op == "hash_eq":
                r = mk(c["r"]); rec["r"] = canon(r)
                rec["res"] = {"t": "hash", "eq": bool(l == r), "hash_eq": hash(l) == hash(r)}
            else:
                raise RuntimeError(op)
        except Exception as ex:  # noqa
            e = implib.errclass(ex)
            if type(ex).__name__ in ("InvalidOperation", "DivisionByZero", "DivisionUndefined"): e = "ZeroDivisionError"
            rec["res"] = {"err": e, "msg": str(ex)[:100]}
        res.append(rec)
    # C03's observable on every unit the run produced: reported dimension = product of the factors' dimensions
    bad = []
    for u in list(Unit._known.values()):
        try:
            if product_dim(u) is not u.dimension: bad.append(C.unit(u))
        except Exception:  # noqa
            pass
    return {"results": res, "inconsistent_units": bad[:5]}

implib.main_io(run)
