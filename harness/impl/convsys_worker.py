"""Conversions on the shipped unit system or on a synthetic one defined in this (fresh) process.
input: {"systems": bool, "define": [[name, [[fundamental index (1-based), exponent], ...]], ...],
        "decls": [[uspecA, [kind,num,den], uspecB], ...]        uA.equals(m * uB), in order
        "cases": [{"op": "in_unit", "a": {"m": [kind,num,den], "u": uspec}, "b": uspec}, ...]}
  uspec: [[prefix|null, unitname, exponent], ...]; prefix: registered name or [base, exponent]
output: {"export": registries and tables after the declarations, "results": [...]}"""
import sys, os, json
sys.path.insert(0, os.path.dirname(os.path.abspath(__file__)))
import implib, exportlib
DATA = json.load(sys.stdin)
COV = None
if DATA.get("coverage"):
    try:
        import coverage
        COV = coverage.Coverage(data_file=None, branch=True, include=["*/measured/conversions.py"])
        COV.start()
    except Exception:  # noqa
        COV = None
measured = implib.load(systems=DATA.get("systems", True))
from measured import Unit, Prefix, One, Quantity, Dimension, conversions
from decimal import Decimal
from fractions import Fraction

C = implib.Canon(measured)

def mk_prefix(p):
    if isinstance(p, str): return Prefix._by_name[p]
    return Prefix(p[0], p[1])

def mk_unit(spec):
    u = None
    for p, n, e in spec:
        f = Unit._by_name[n]
        if p: f = mk_prefix(p) * f
        f = f ** e if e != 1 else f
        u = f if u is None else u * f
    return One if u is None else u

def mk_num(n):
    kind, a, b = n
    if kind == "int": return int(Fraction(int(a), int(b)))
    if kind == "float": return int(a) / int(b)
    if kind == "dec": return Decimal(int(a)) / Decimal(int(b))
    raise ValueError(kind)

def run(data):
    fund = [d for d in Dimension._fundamental if d is not measured.Number]
    for name, dim in data.get("define", []):
        d = measured.Number
        for i, e in dim:
            d = d * fund[i - 1] ** e
        d.unit(name, name)
    if data.get("compare_before"):
        # the application compares (and tries to convert) quantities of the new units BEFORE it declares how they relate: every such
        # attempt fails or says "not equal", and must be without consequence once the declarations are made
        import operator
        names = [n for n, _ in data.get("define", [])]
        for x in names:
            for y in names:
                for op in (operator.eq, operator.lt, operator.ge, lambda a_, b_: a_.in_unit(b_.unit), operator.add):
                    try: op(Quantity(2, Unit._by_name[x]), Quantity(1, Unit._by_name[y]))
                    except Exception: pass  # noqa
    for ua, m, ub in data.get("decls", []):
        mk_unit(ua).equals(Quantity(mk_num(m), mk_unit(ub)))
    # conversions attempted BEFORE the late declarations (outcomes discarded), then the late declarations, then the cases
    for c in data.get("pre_cases", []):
        try: Quantity(mk_num(c["a"]["m"]), mk_unit(c["a"]["u"])).in_unit(mk_unit(c["b"]))
        except Exception: pass  # noqa
    for ua, m, ub in data.get("late_decls", []):
        mk_unit(ua).equals(Quantity(mk_num(m), mk_unit(ub)))
    if data.get("bookkeeping"):
        # ordinary bookkeeping on public results before anything is converted: a running balance started from unit.quantify() (and from an
        # unprefixed quantity) of every unit the cases mention, brought down to nothing with -= and built up again with +=
        seen_ = set()
        for c in data.get("cases", []):
            for spec in [c.get("a", {}).get("u")] + [c["b"] if isinstance(c.get("b"), list) else (c.get("b") or {}).get("u")]:
                if not spec or json.dumps(spec) in seen_: continue
                seen_.add(json.dumps(spec))
                try:
                    u_ = mk_unit(spec)
                    for start in (u_.quantify(), Quantity(1, u_).unprefixed(), 1 * u_):
                        bal = start
                        half = Quantity(bal.magnitude / 2, bal.unit)
                        bal += half; bal -= half; bal -= half; bal -= half; bal *= 3; bal /= 3          # ... and the balance ends at nothing
                except Exception:  # noqa
                    pass
    res = []
    for c in data.get("cases", []):
        if c.get("op") == "chain":
            # convert a through the targets one after the other, feeding each result into the next step
            steps = []
            try:
                q = Quantity(mk_num(c["a"]["m"]), mk_unit(c["a"]["u"]))
                for spec in c["via"]:
                    t = mk_unit(spec)
                    o = {"source": C.unit(q.unit), "target": C.unit(t), "m_in": implib.num(q.magnitude)}
                    try:
                        q = q.in_unit(t)
                        o["m"] = implib.num(q.magnitude); o["same_unit"] = (q.unit is t)
                    except Exception as ex:  # noqa
                        o["err"] = implib.errclass(ex); o["msg"] = str(ex)[:120]
                        steps.append(o); break
                    steps.append(o)
            except Exception as ex:  # noqa
                steps.append({"setup_err": implib.errclass(ex), "msg": str(ex)[:160]})
            res.append({"steps": steps})
            continue
        if c.get("op") == "race":
            # several threads make the first conversion between this pair at once (tiny switch interval); every thread's result and a
            # conversion made afterwards are reported
            import threading
            try:
                q = Quantity(mk_num(c["a"]["m"]), mk_unit(c["a"]["u"])); t = mk_unit(c["b"])
                n = c.get("threads", 8)
                bar = threading.Barrier(n); outs = [None] * n
                def work(i):
                    bar.wait()
                    try: outs[i] = implib.num(q.in_unit(t).magnitude)
                    except Exception as ex:  # noqa
                        outs[i] = ["err", implib.errclass(ex)]
                old = sys.getswitchinterval(); sys.setswitchinterval(1e-6)
                try:
                    ths = [threading.Thread(target=work, args=(i,)) for i in range(n)]
                    for th in ths: th.start()
                    for th in ths: th.join()
                finally:
                    sys.setswitchinterval(old)
                try: after = implib.num(q.in_unit(t).magnitude)
                except Exception as ex:  # noqa
                    after = ["err", implib.errclass(ex)]
                res.append({"threads": outs, "after": after})
            except Exception as ex:  # noqa
                res.append({"setup_err": implib.errclass(ex), "msg": str(ex)[:160]})
            continue
        if c.get("op") in ("eq", "ne", "lt", "le", "gt", "ge", "add", "sub"):
            import operator
            try:
                x = Quantity(mk_num(c["a"]["m"]), mk_unit(c["a"]["u"])); y = Quantity(mk_num(c["b"]["m"]), mk_unit(c["b"]["u"]))
                r = getattr(operator, c["op"])(x, y)
                if isinstance(r, bool): res.append({"bool": r})
                elif isinstance(r, Quantity): res.append({"m": implib.num(r.magnitude), "unit_is_left": r.unit is x.unit})
                else: res.append({"other": repr(r)[:80]})
            except Exception as ex:  # noqa
                res.append({"err": implib.errclass(ex), "msg": str(ex)[:120]})
            continue
        try:
            q = Quantity(mk_num(c["a"]["m"]), mk_unit(c["a"]["u"])); t = mk_unit(c["b"])
            src = C.unit(q.unit); tgt = C.unit(t)
            o = {"source": src, "target": tgt}
            try:
                r = q.in_unit(t)
                o["m"] = implib.num(r.magnitude); o["same_unit"] = (r.unit is t)
            except Exception as ex:  # noqa
                o["err"] = implib.errclass(ex); o["msg"] = str(ex)[:120]
            res.append(o)
        except Exception as ex:  # noqa
            res.append({"setup_err": implib.errclass(ex), "msg": str(ex)[:160]})
    out = {"export": exportlib.export_all(measured, C), "results": res}
    if COV is not None:
        COV.stop()
        try:
            from measured import conversions as _cv
            _, stmts, _, missing, _ = COV.analysis2(_cv.__file__)
            out["coverage"] = {"statements": len(stmts), "missing_lines": missing}
        except Exception as ex:  # noqa
            out["coverage"] = {"error": str(ex)[:100]}
    return out

sys.stdout.write(json.dumps(run(DATA)))
