"""JSON documents of units (C15 codec model): builds the requested units, exports the intern table in order with the
documents Unit.__json__ writes, then decodes the given documents one after the other with the library's decoder.
input: {"build": [uspec], "decode": [raw document (JSON value)]}"""
import sys, os, json
sys.path.insert(0, os.path.dirname(os.path.abspath(__file__)))
import implib
measured = implib.load()
from measured import Unit, Prefix, Dimension, One
from measured.json import MeasuredJSONEncoder, MeasuredJSONDecoder
C = implib.Canon(measured)

def mk_prefix(p):
    return Prefix._by_name[p] if isinstance(p, str) else Prefix(p[0], p[1])

def mk_unit(spec):
    u = None
    for p, n, e in spec:
        f = Unit._by_name[n]
        if p: f = mk_prefix(p) * f
        f = f ** e if e != 1 else f
        u = f if u is None else u * f
    return One if u is None else u

def run(data):
    for spec in data.get("build", []):
        try: mk_unit(spec)
        except Exception:  # noqa  (e.g. a base-1 prefix next to another base: no such unit exists)
            pass
    table = list(Unit._known.values())
    index = {id(u): i for i, u in enumerate(table)}
    rows = []
    for u in table:
        row = C.unit(u)
        row["name"] = u.name
        row["is_one"] = u is One
        row["doc"] = json.loads(json.dumps(u, cls=MeasuredJSONEncoder))      # what a reader of the JSON text sees
        try:
            row["doc_plain"] = json.loads(json.dumps(u.__json__()))              # the dictionary handed to pydantic / SQL: plain JSON values only
        except TypeError as ex:
            row["doc_plain"] = None; row["doc_plain_error"] = str(ex)[:120]
        rows.append(row)
    by_name = {n: index[id(u)] for n, u in Unit._by_name.items() if id(u) in index}
    out = {"table": rows, "by_name": by_name, "nd": len(Dimension._fundamental[0].exponents), "one_name": One.name, "results": []}
    for doc in data.get("decode", []):
        before = len(Unit._known)
        try:
            u = json.loads(json.dumps(doc), cls=MeasuredJSONDecoder)
            if not isinstance(u, Unit):
                out["results"].append({"other": type(u).__name__}); continue
            if id(u) in index: out["results"].append({"h": index[id(u)], "grew": len(Unit._known) - before})
            else:
                index[id(u)] = len(index)
                out["results"].append({"new": C.unit(u), "h": index[id(u)], "grew": len(Unit._known) - before})
        except Exception as ex:  # noqa
            out["results"].append({"err": type(ex).__name__, "msg": str(ex)[:100], "grew": len(Unit._known) - before})
    return out

implib.main_io(run)
