"""Interleavings of unit definitions, equivalence declarations and conversion / comparison queries.
ops: ["unit", dimname] | ["equals", i, ei, [kind,num,den], j, ej] | ["query", what, [kind,num,den], i, e, j, f]
     what: in_unit | eq | lt | add | rev (convert the other way)"""
import sys, os, json
sys.path.insert(0, os.path.dirname(os.path.abspath(__file__)))
import implib
measured = implib.load()
from measured import Dimension, Quantity, conversions
from fractions import Fraction
from decimal import Decimal

def mk_num(n):
    kind, a, b = n
    if kind == "int": return int(Fraction(int(a), int(b)))
    if kind == "float": return int(a) / int(b)
    return Decimal(int(a)) / Decimal(int(b))

def cunit(units, spec):
    u = None
    for i, e in spec:
        f = units[i] ** e if e != 1 else units[i]
        u = f if u is None else u * f
    return u

def run(data):
    import concurrent.futures
    pool = concurrent.futures.ThreadPoolExecutor(max_workers=1)      # one long-lived second thread, used with sequential hand-offs
    units = []
    out = []
    for op in data["ops"]:
        k = op[0]
        try:
            if k == "scale":
                # a scale over unit i with its zero point at `zero` of unit i (like Celsius over kelvin)
                _, i, zero = op
                n = len(units)
                units.append(units[i].dimension.scale(mk_num(zero) * units[i], f"vfm{n}", f"vfm{n}"))
                out.append(None); continue
            if k in ("cquery", "tquery"):
                if k == "cquery":
                    _, m, a_spec, b_spec = op
                    f = lambda: Quantity(mk_num(m), cunit(units, a_spec)).in_unit(cunit(units, b_spec))
                    r = f()
                else:
                    _, m, i, e, j, f_ = op
                    a = units[i] ** e if e != 1 else units[i]; b = units[j] ** f_ if f_ != 1 else units[j]
                    r = pool.submit(lambda: Quantity(mk_num(m), a).in_unit(b)).result()
                out.append({"m": implib.num(r.magnitude)}); continue
            if k == "unit":
                n = len(units)
                units.append(Dimension._by_name[op[1]].unit(f"vfm{n}", f"vfm{n}"))
                out.append(None)
            elif k == "equals":
                _, i, ei, r, j, ej = op[:6]
                ua_, ub_ = (units[i] ** ei if ei != 1 else units[i]), (units[j] ** ej if ej != 1 else units[j])
                if len(op) > 6 and op[6] == "module":
                    conversions.equate(1 * ua_, mk_num(r) * ub_)          # the module-level entry point Unit.equals itself calls
                else:
                    ua_.equals(mk_num(r) * ub_)
                out.append(None)
            else:
                _, what, m, i, e, j, f = op
                a = units[i] ** e if e != 1 else units[i]
                b = units[j] ** f if f != 1 else units[j]
                q = Quantity(mk_num(m), a)
                if what == "in_unit": r = q.in_unit(b)
                elif what == "in_unit_deep":
                    # the same conversion asked from deep inside a recursive computation, with only a few dozen stack frames left
                    import sys as _sys
                    def descend(k):
                        return q.in_unit(b) if k <= 0 else descend(k - 1)
                    depth_now = len(__import__("inspect").stack(0))
                    r = descend(_sys.getrecursionlimit() - depth_now - 60)
                elif what == "rev": r = Quantity(mk_num(m), b).in_unit(a)
                elif what == "eq": r = (q == Quantity(mk_num(m), b))
                elif what == "lt": r = (q < Quantity(mk_num(m), b))
                elif what == "add": r = q + Quantity(1, b)
                if isinstance(r, bool): out.append({"bool": r})
                else: out.append({"m": implib.num(r.magnitude)})
        except Exception as ex:  # noqa
            out.append({"err": implib.errclass(ex)})
    def info(f):
        try: return list(f.cache_info())
        except Exception: return None        # not an lru_cache (any more)
    return {"results": out, "cache": {"plan": info(conversions._plan_conversion), "path": info(conversions._find_path)}}

implib.main_io(run)
