"""Registry / declaration export shared by the workers (runs inside the implementation)."""
import implib

def export_all(measured, C=None):
    from measured import Unit, Prefix, Dimension, One, conversions
    C = C or implib.Canon(measured)
    out = {}
    out["fundamental"] = [[d.name, d.symbol] for d in Dimension._fundamental]
    out["dimensions_by_name"] = {n: C.dim(d) for n, d in Dimension._by_name.items()}
    out["dimension_objects"] = [{"exponents": list(d.exponents), "name": d.name, "symbol": d.symbol}
                                for d in Dimension._known.values()]
    out["prefixes"] = [{"base": p.base, "exp": C.prefix(p), "name": p.name, "symbol": p.symbol,
                        "key": [k[0], repr(k[1])] if isinstance(k, tuple) and len(k) == 2 else ["?", repr(k)]} for k, p in Prefix._known.items()]
    out["prefix_by_name"] = {n: C.prefix(p) for n, p in Prefix._by_name.items()}
    out["prefix_by_symbol"] = {s: C.prefix(p) for s, p in Prefix._by_symbol.items()}
    out["env"] = [[C.base_id(u), C.dim(u.dimension), u.name] for u in C.base_units]
    units = []
    for u in Unit._known.values():
        cu = C.unit(u)
        cu["names"] = list(u.names); cu["symbols"] = list(u.symbols)
        units.append(cu)
    out["units"] = units
    out["unit_by_name"] = {n: C.oid(u) for n, u in Unit._by_name.items()}
    out["unit_by_symbol"] = {s: C.oid(u) for s, u in Unit._by_symbol.items()}
    out["one"] = C.oid(One)
    decls = []
    for kind, a, b in implib.DECLS:
        if kind == "equate":
            decls.append({"kind": "equate", "a": [implib.num(a.magnitude), C.unit(a.unit)],
                          "b": [implib.num(b.magnitude), C.unit(b.unit)]})
        else:
            decls.append({"kind": "translate", "scale": C.unit(a),
                          "zero": [implib.num(b.magnitude), C.unit(b.unit)]})
    out["decls"] = decls
    ratios = []
    for a, row in conversions._ratios.items():
        for b, r in row.items():
            ratios.append([C.unit(a), C.unit(b), implib.num(r)])
    out["ratios"] = ratios
    offsets = []
    for a, row in conversions._offsets.items():
        for b, r in row.items():
            offsets.append([C.unit(a), C.unit(b), implib.num(r)])
    out["offsets"] = offsets
    return out
