"""Dimension laws up to identity, before and after a new fundamental dimension is defined through the public API
(Dimension.define re-keys every known dimension).  Runs in a fresh process; returns the failing identities."""
import sys, os, json, itertools
sys.path.insert(0, os.path.dirname(os.path.abspath(__file__)))
import implib
measured = implib.load()
from measured import Dimension, Number, Unit

def laws(dims, tag):
    fails, n = [], 0
    def safe(w):
        try: return str(w)
        except Exception: return repr(getattr(w, "exponents", "?"))  # noqa
    def chk(name, f, *what):
        nonlocal n
        n += 1
        try:
            ok = f()
        except Exception as ex:  # noqa
            fails.append([tag, name + "-raises"] + [safe(w) for w in what] + [implib.errclass(ex)]); return
        if not ok: fails.append([tag, name] + [safe(w) for w in what])
    for a, b in itertools.product(dims, repeat=2):
        chk("comm", lambda: a * b is b * a, a, b)
        chk("div", lambda: a / b is a * b ** -1, a, b)
        chk("inverse", lambda: a * a ** -1 is Number and a / a is Number, a)
        chk("square", lambda: a * a is a ** 2, a)
        chk("quotient-back", lambda: (a * b) / b is a and (a / b) * b is a, a, b)
        chk("root", lambda: (a ** 3).root(3) is a and (a ** -2).root(-2) is a, a)
        for c in dims[:4]:
            chk("assoc", lambda: (a * b) * c is a * (b * c), a, b, c)
    for name, d in list(Dimension._by_name.items()):
        chk("named", lambda: Dimension(tuple(d.exponents)) is d, name)
        chk("neutral", lambda: d * Number is d and Number * d is d and d / Number is d, name)
    return n, fails

def run(data):
    base = [measured.Length, measured.Time, measured.Mass, measured.Area, measured.Speed, measured.Force, measured.Frequency, measured.Energy,
            measured.Length / measured.Time ** 3, measured.Mass ** -1 * measured.Charge]
    n1, f1 = laws(base, "before")
    out = {"before": n1, "fails": f1}
    for i, (nm, sy) in enumerate(data.get("define", [])):
        try:
            keys_before = [list(k) for k in Dimension._known]
            objs_before = [id(o) for o in Dimension._known.values()]
            nfund = len(Dimension._fundamental)
            new = Dimension.define(nm, sy)
            out.setdefault("rekey", []).append({"fundamental_before": nfund, "keys_before": keys_before, "keys_after": [list(k) for k in Dimension._known],
                                                "same_objects": [id(o) for o in Dimension._known.values()][:len(objs_before)] == objs_before,
                                                "keys_are_exponents": all(tuple(k) == tuple(o.exponents) for k, o in Dimension._known.items())})
            u = new.unit(nm + " unit", sy.lower() + "u")
        except Exception as ex:  # noqa
            out["fails"].append([f"after-define-{i}", "define-raises", implib.errclass(ex), str(ex)[:80]]); continue
        n2, f2 = laws(base + [new, new * measured.Area, new / measured.Speed, measured.Energy / new], f"after-define-{i}")
        # units over the new dimension combine with existing derived units
        ok = True
        try:
            price = (3 * u / measured.Unit._by_name["meter"] ** 2) * (2 * measured.Unit._by_name["foot"] ** 2)
            ok = price.unit.dimension is new and (price + 1 * u).unit is price.unit
        except Exception as ex:  # noqa
            ok = False; f2.append([f"after-define-{i}", "quantity-arithmetic-raises", implib.errclass(ex), str(ex)[:80]])
        if not ok: f2.append([f"after-define-{i}", "quantity-dimension", "($/m^2)*ft^2 is not a quantity of the new dimension"])
        out[f"after_{i}"] = n2; out["fails"] += f2
    return out

implib.main_io(run)
