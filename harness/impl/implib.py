"""Runs INSIDE the implementation process (/venv/bin/python, PYTHONPATH=/repo/src).
Imports measured from /repo's working tree, intercepts equals()/scale() declarations by
wrapping module attributes (no source hook), and canonicalises implementation objects."""
import sys, json, math
from decimal import Decimal
from fractions import Fraction

DECLS = []          # every equate()/translate() call, in order

def load(systems=True):
    import measured
    from measured import conversions
    _equate, _translate = conversions.equate, conversions.translate
    def equate(a, b):
        DECLS.append(("equate", a, b))
        return _equate(a, b)
    def translate(scale, zero):
        DECLS.append(("translate", scale, zero))
        return _translate(scale, zero)
    conversions.equate = equate
    conversions.translate = translate
    if systems:
        import measured.systems  # noqa
        import measured.physics  # noqa
        import measured.geometry  # noqa
    return measured

class Canon:
    """Stable small ids for base units (in Unit._known insertion order) and object identities."""
    def __init__(self, measured):
        self.m = measured
        self.base_ids = {}      # id(unit) -> small int
        self.base_units = []    # index-1 -> unit
        self.oids = {}
        self.refresh()

    def refresh(self):
        U = self.m.Unit
        for u in list(U._known.values()):
            if u is self.m.One:
                continue
            if len(u.factors) == 1 and next(iter(u.factors)) is u and u.factors[u] == 1 \
                    and u.prefix is self.m.IdentityPrefix:
                if id(u) not in self.base_ids:
                    self.base_units.append(u)
                    self.base_ids[id(u)] = len(self.base_units)

    def base_id(self, u):
        if id(u) not in self.base_ids:
            self.refresh()
        if id(u) not in self.base_ids:
            # a factor that is not a registered base unit (should not happen)
            self.base_units.append(u)
            self.base_ids[id(u)] = len(self.base_units)
        return self.base_ids[id(u)]

    def oid(self, obj):
        return self.oids.setdefault(id(obj), len(self.oids))

    def dim(self, d):
        return [[i + 1, e] for i, e in enumerate(d.exponents) if e != 0]

    def prefix(self, p):
        e = p.exponent
        if isinstance(e, float):
            if math.isfinite(e) and e == int(e):
                e = int(e)
            else:
                return {"mixed": True, "base": p.base, "exp": repr(e)}
        elif not isinstance(e, int):
            return {"mixed": True, "base": p.base, "exp": repr(e)}
        return [p.base, e]

    def factors(self, u, ordered=False):
        One = self.m.One
        fs = [[self.base_id(f), e] for f, e in u.factors.items() if f is not One]
        return fs if ordered else sorted(fs)

    def unit(self, u):
        return {"p": self.prefix(u.prefix), "f": self.factors(u), "of": self.factors(u, True),
                "d": self.dim(u.dimension), "o": self.oid(u)}

def num(x):
    """exact canonical form of a magnitude: [kind, numerator, denominator] as strings"""
    if isinstance(x, bool):
        return ["other", repr(x)]
    if isinstance(x, int):
        return ["int", str(x), "1"]
    if isinstance(x, float):
        if math.isnan(x) or math.isinf(x):
            return ["float", repr(x)]
        n, d = x.as_integer_ratio()
        return ["float", str(n), str(d)]
    if isinstance(x, Decimal):
        if not x.is_finite():
            return ["dec", str(x)]
        f = Fraction(x)
        return ["dec", str(f.numerator), str(f.denominator)]
    if isinstance(x, Fraction):
        return ["frac", str(x.numerator), str(x.denominator)]
    return ["other", type(x).__name__ + ":" + repr(x)]

def errclass(e):
    import measured
    from measured import conversions
    from measured.parsing import ParseError
    if isinstance(e, measured.FractionalDimensionError):
        return "FractionalDimensionError"
    if isinstance(e, conversions.ConversionNotFound):
        return "ConversionNotFound"
    if isinstance(e, ParseError):
        return "ParseError"
    for c in (AssertionError, KeyError, IndexError, ZeroDivisionError, RecursionError, TypeError,
              OverflowError, ValueError, AttributeError):
        if isinstance(e, c):
            return c.__name__
    return "Other:" + type(e).__name__

def main_io(fn):
    """read one JSON document from stdin, write one to stdout"""
    data = json.load(sys.stdin)
    out = fn(data)
    sys.stdout.write(json.dumps(out))
    sys.stdout.flush()
