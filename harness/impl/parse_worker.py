"""Printing, symbol resolution and parsing on the implementation.
ops: {"op":"resolve","s":str} | {"op":"parse_unit","s":str} | {"op":"parse_quantity","s":str}
   | {"op":"roundtrip","u":uspec} | {"op":"qroundtrip","m":num,"u":uspec} | {"op":"spellings","texts":[str...]}
output: results + the symbol tables (Unit._by_symbol, Unit._by_name, Prefix._by_symbol, first symbols)"""
import sys, os, json
sys.path.insert(0, os.path.dirname(os.path.abspath(__file__)))
import implib
DATA = json.load(sys.stdin)
if DATA.get("modules"):
    import importlib, measured
    for m in DATA["modules"]: importlib.import_module("measured." + m)
else:
    measured = implib.load()
from measured import Unit, Prefix, One, Quantity, Dimension
from decimal import Decimal
from fractions import Fraction
C = implib.Canon(measured)

def mk_unit(spec):
    u = None
    for p, n, e in spec:
        f = Unit._by_name[n]
        if p: f = (Prefix._by_name[p] if isinstance(p, str) else Prefix(p[0], p[1])) * f
        if e != 1:
            # the power is first asked for with a float exponent, which the library refuses: without consequence for the integer power
            try: f ** float(e)
            except Exception: pass  # noqa
        f = f ** e if e != 1 else f
        u = f if u is None else u * f
    return One if u is None else u

def mk_num(n):
    kind, a, b = n
    if kind == "int": return int(Fraction(int(a), int(b)))
    if kind == "float": return int(a) / int(b)
    return Decimal(int(a)) / Decimal(int(b))

def snapshot():
    return [sorted(Unit._by_name), sorted(Unit._by_symbol), sorted(Prefix._by_name), sorted(Prefix._by_symbol), sorted(Dimension._by_name)]

def guarded(f):
    try:
        return f()
    except Exception as ex:  # noqa
        return {"err": implib.errclass(ex), "msg": str(ex)[:100]}

def run(data):
    out = []
    for c in data.get("cases", []):
        op = c["op"]
        before = snapshot() if c.get("snap") else None
        if op == "resolve":
            r = guarded(lambda: {"u": C.unit(Unit.resolve_symbol(c["s"]))})
        elif op == "parse_unit":
            def f():
                a = Unit.parse(c["s"]); b = Unit.parse(c["s"])
                return {"u": C.unit(a), "again_same": a is b}
            r = guarded(f)
        elif op == "parse_quantity":
            def f():
                a = Quantity.parse(c["s"]); b = Quantity.parse(c["s"])
                return {"m": implib.num(a.magnitude), "u": C.unit(a.unit), "again_same": (a.unit is b.unit and (a.magnitude == b.magnitude or a.magnitude != a.magnitude) and type(a.magnitude) is type(b.magnitude))}
            r = guarded(f)
        elif op == "roundtrip":
            def f():
                u = mk_unit(c["u"]); text = str(u)
                rec = {"unit": C.unit(u), "text": text, "has_symbol": bool(u.symbol)}
                back = guarded(lambda: Unit.parse(text))
                if isinstance(back, dict): rec["back"] = back
                else:
                    rec["back"] = {"u": C.unit(back)}; rec["same"] = back is u
                    rec["same_scale_dim"] = (back.dimension is u.dimension)
                    rec["equal_value"] = guarded(lambda: bool(Quantity(1, back) == Quantity(1, u)))
                return rec
            r = guarded(f)
        elif op == "qroundtrip":
            def f():
                q = Quantity(mk_num(c["m"]), mk_unit(c["u"])); text = str(q)
                rec = {"unit": C.unit(q.unit), "text": text, "unit_text": str(q.unit)}
                back = guarded(lambda: Quantity.parse(text))
                if isinstance(back, dict): rec["back"] = back
                else:
                    rec["back"] = {"m": implib.num(back.magnitude), "u": C.unit(back.unit)}
                    rec["equal"] = guarded(lambda: bool(back == q)); rec["same_type"] = type(back.magnitude) is type(q.magnitude)
                return rec
            r = guarded(f)
        elif op == "collision_check":
            def f():
                pu = Prefix._by_symbol[c["p"]] * Unit._by_symbol[c["s"]]
                got = Unit.resolve_symbol(c["p"] + c["s"])
                rec = {"same": got is pu, "text": str(pu), "got": C.unit(got), "want": C.unit(pu)}
                rec["equal_value"] = guarded(lambda: bool(Quantity(1, got) == Quantity(1, pu)))
                return rec
            r = guarded(f)
        elif op == "late_symbol":
            # a text that already parses (prefix + symbol) is then registered as the exact symbol of a new unit:
            # from then on str(new unit) is that text and it must parse back to the new unit
            def f():
                before_u = Unit.parse(c["text"])
                q0 = Quantity.parse("3 " + c["text"])
                new = Dimension._by_name[c["dim"]].unit(c["name"], c["text"])
                back = Unit.parse(str(new)); backq = Quantity.parse("3 " + str(new)); ratio = Unit.parse(str(new) + "/s")
                return {"parsed_before": C.unit(before_u), "str_new": str(new), "same": back is new, "quantity_same_unit": backq.unit is new,
                        "in_ratio": new in ratio.factors or ratio is new}
            r = guarded(f)
        elif op == "spellings":
            def f():
                res = [guarded(lambda t=t: Unit.parse(t)) for t in c["texts"]]
                return {"all_same": all(not isinstance(x, dict) and x is res[0] for x in res),
                        "results": [x if isinstance(x, dict) else {"u": C.unit(x)} for x in res]}
            r = guarded(f)
        else:
            r = {"err": "bad op"}
        if "err" in r and op in ("parse_unit", "parse_quantity", "resolve"):
            # a rejected text is rejected again, for the same reason, when it is parsed a second time
            f2 = {"parse_unit": lambda: Unit.parse(c["s"]), "parse_quantity": lambda: Quantity.parse(c["s"]), "resolve": lambda: Unit.resolve_symbol(c["s"])}[op]
            r2 = guarded(lambda: (f2(), {"ok": True})[1])
            if r2.get("err") != r["err"]:
                r["again_differs"] = r2.get("err") or "accepted"
        if before is not None:
            r["registry_unchanged"] = (snapshot() == before)
        out.append(r)
    tables = {}
    if data.get("tables"):
        tables["usym"] = [[s, C.unit(u)] for s, u in Unit._by_symbol.items() if isinstance(u, Unit)]
        tables["uname"] = [[n, C.unit(u)] for n, u in Unit._by_name.items() if isinstance(u, Unit)]
        # names / symbols bound to something that is not a Unit: the parser will hand them to unit arithmetic
        tables["non_units"] = [n for n, u in list(Unit._by_name.items()) + list(Unit._by_symbol.items()) if not isinstance(u, Unit)]
        tables["psym"] = [[s, C.prefix(p)] for s, p in Prefix._by_symbol.items()]
        tables["unit_first_symbol"] = [[C.unit(u), u.symbol] for u in Unit._known.values() if u.symbol]
        tables["atom_first_symbol"] = [[C.base_id(u), u.symbol] for u in C.base_units if u.symbol]
        tables["prefix_symbol"] = [[C.prefix(p), p.symbol] for p in Prefix._known.values() if p.symbol]
        tables["env"] = [[C.base_id(u), C.dim(u.dimension), u.name] for u in C.base_units]
    return {"results": out, "tables": tables}

sys.stdout.write(json.dumps(run(DATA)))
