"""Measurements and levels on the implementation.
xspec: {"t":"qty","m":num,"u":uspec} | {"t":"meas","m":num,"s":num,"u":uspec} | {"t":"approx","m":num,"u":uspec,"w":num}
     | {"t":"level","m":num,"log":name,"prefix":prefixname|null,"ref":{"m":num,"u":uspec}}
case: {"op": eq|ne|add|sub|mul|div|pow|level|quantify|roundtrip_q|roundtrip_l, "l": xspec, "r": xspec|int}"""
import sys, os, json, operator, math
sys.path.insert(0, os.path.dirname(os.path.abspath(__file__)))
import implib
measured = implib.load()
import measured as M
from measured import Unit, Prefix, One, Quantity, Measurement, Level, approximately, Logarithm, LogarithmicUnit
from decimal import Decimal
from fractions import Fraction
C = implib.Canon(measured)
LOGS = {"bel": M.Bel, "neper": M.Neper, "octave": M.Octave, "decibel": M.Decibel}

def mk_unit(spec):
    u = None
    for p, n, e in spec:
        f = Unit._by_name[n]
        if p: f = Prefix._by_name[p] * f
        f = f ** e if e != 1 else f
        u = f if u is None else u * f
    return One if u is None else u

def mk_num(n):
    kind, a, b = n
    if kind == "int": return int(Fraction(int(a), int(b)))
    if kind == "float": return int(a) / int(b)
    return Decimal(int(a)) / Decimal(int(b))

def mk(x):
    t = x["t"]
    if t == "qty": return Quantity(mk_num(x["m"]), mk_unit(x["u"]))
    if t == "meas": return Measurement(Quantity(mk_num(x["m"]), mk_unit(x["u"])), mk_num(x["s"]))
    if t == "approx": return approximately(Quantity(mk_num(x["m"]), mk_unit(x["u"])), mk_num(x["w"]))
    if t == "level": return Level(mk_num(x["m"]), mk_lunit(x))
    raise ValueError(t)

def mk_lunit(x):
    log = LOGS[x["log"]] if isinstance(x["log"], str) else Logarithm(x["log"])
    if x.get("prefix"): log = Prefix._by_name[x["prefix"]] * log
    ref = Quantity(mk_num(x["ref"]["m"]), mk_unit(x["ref"]["u"]))
    return log[ref]

def canon(r):
    if isinstance(r, bool): return {"t": "bool", "b": r}
    if isinstance(r, Measurement):
        return {"t": "meas", "m": implib.num(r.measurand.magnitude), "s": implib.num(r.uncertainty.magnitude),
                "u": C.unit(r.measurand.unit), "su": C.unit(r.uncertainty.unit)}
    if isinstance(r, Quantity): return {"t": "qty", "m": implib.num(r.magnitude), "u": C.unit(r.unit)}
    if isinstance(r, Level): return {"t": "level", "m": implib.num(r.magnitude)}
    return {"t": "other", "r": repr(r)[:80]}

OPS = {"eq": operator.eq, "ne": operator.ne, "add": operator.add, "sub": operator.sub, "mul": operator.mul, "div": operator.truediv,
       "lt": operator.lt, "le": operator.le, "gt": operator.gt, "ge": operator.ge}

def run(data):
    out = []
    if data.get("define_dimension"):
        # an application adds a fundamental dimension (every known dimension's exponent tuple grows) before the cases run
        from measured import Dimension
        Dimension.define(*data["define_dimension"])
    for c in data["cases"]:
        rec = {}
        try:
            op = c["op"]
            if op in OPS:
                l, r = mk(c["l"]), mk(c["r"])
                rec["lc"], rec["rc"] = canon(l), canon(r)
                rec["res"] = canon(OPS[op](l, r))
                if op in ("eq", "ne"):
                    rec["rev"] = canon(OPS[op](r, l))
            elif op == "pow":
                l = mk(c["l"]); rec["lc"] = canon(l)
                rec["res"] = canon(l ** c["r"])
            elif op == "level":        # quantity -> level in the logarithmic unit of c["r"]
                q = mk(c["l"]); lu = mk_lunit(c["r"])
                rec["lc"] = canon(q)
                lv = lu.level(q)
                rec["res"] = canon(lv)
                rec["power_ratio"] = lu.power_ratio
                rec["back"] = canon(lv.quantify())
                rec["eq"] = [bool(lv == q), bool(q == lv), bool(approximately(q, 1e-9) == lv), bool(lv == approximately(q, 1e-9))]
                rec["ref"] = canon(lu.reference)
                if c.get("alt"):
                    # the same NUMBER as the quantity the level denotes (in the reference's base unit), written in a convertible unit of another
                    # size: a clearly different physical quantity, which the level does not equal (in either operand order)
                    wrong = Quantity(lv.quantify().unprefixed().magnitude, mk_unit(c["alt"]))
                    rec["neq"] = [bool(lv == wrong), bool(wrong == lv), bool(lv != wrong)]
            elif op == "quantify":     # level -> quantity -> level
                lv = mk(c["l"])
                q = lv.quantify()
                rec["res"] = canon(q)
                rec["power_ratio"] = lv.unit.power_ratio
                rec["back"] = canon(lv.unit.level(q))
                rec["ref"] = canon(lv.unit.reference)
            else:
                raise ValueError(op)
        except Exception as ex:  # noqa
            rec["res"] = {"err": implib.errclass(ex), "msg": str(ex)[:120]}
        out.append(rec)
    return {"results": out}

implib.main_io(run)
