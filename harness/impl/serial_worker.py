"""pickle / copy / deepcopy / JSON (codec classes, installed codecs, pydantic, SQL composite) round trips.
input: {"quantities": [{"m": num, "u": uspec}], "units": [uspec], "extra_prefixes": [[base, exp] | [[p, q, op]]]}
output: counts and the list of failures (each with the codec, the object and what came back)"""
import sys, os, json, pickle, copy
sys.path.insert(0, os.path.dirname(os.path.abspath(__file__)))
import implib
measured = implib.load()
from measured import Unit, Prefix, Dimension, One, Quantity
from measured.json import MeasuredJSONEncoder, MeasuredJSONDecoder, codecs_installed
from decimal import Decimal
from fractions import Fraction
C = implib.Canon(measured)

def mk_unit(spec):
    u = None
    for p, n, e in spec:
        f = Unit._by_name[n]
        if p: f = (Prefix._by_name[p] if isinstance(p, str) else Prefix(p[0], p[1])) * f
        f = f ** e if e != 1 else f
        u = f if u is None else u * f
    return One if u is None else u

def mk_num(n):
    if n[0] == "decs": return Decimal(n[1])          # a Decimal written out (more digits than the context carries)
    kind, a, b = n
    if kind == "int": return int(Fraction(int(a), int(b)))
    if kind == "float": return int(a) / int(b)
    return Decimal(int(a)) / Decimal(int(b))

def via_json_classes(o): return json.loads(json.dumps(o, cls=MeasuredJSONEncoder), cls=MeasuredJSONDecoder)
def via_installed(o):
    with codecs_installed():
        return json.loads(json.dumps(o))
def via_installed_file(o):
    # the file API of the standard library (json.dump / json.load) and a JSONDecoder / JSONEncoder made with no arguments
    import io
    with codecs_installed():
        buf = io.StringIO(); json.dump(o, buf); buf.seek(0)
        return json.load(buf)
def via_install_uninstall(o):
    import io, measured.json as mj
    mj.install()
    try:
        buf = io.StringIO(); json.dump(o, buf); buf.seek(0)
        a = json.load(buf); b = json.loads(json.dumps(o))
    finally:
        mj.uninstall()
    if isinstance(o, (Unit, Prefix, Dimension)) and a is not b: raise RuntimeError("json.load and json.loads disagree under install()")
    return a
def via_pydantic(o):
    from pydantic import TypeAdapter
    ta = TypeAdapter(type(o))
    return ta.validate_json(ta.dump_json(o))
def via_pydantic_python(o):
    from pydantic import TypeAdapter
    ta = TypeAdapter(type(o))
    return ta.validate_python(json.loads(ta.dump_json(o)))

# pickle protocols 2..5: protocols 0 and 1 cannot pickle any class with __slots__ and no __getstate__ (a CPython rule, not the library's)
CODECS = [("pickle", lambda o: pickle.loads(pickle.dumps(o))), ("pickle2", lambda o: pickle.loads(pickle.dumps(o, protocol=2))), ("copy", copy.copy), ("deepcopy", copy.deepcopy),
          ("json", via_json_classes), ("json-installed", via_installed), ("json-installed-file", via_installed_file), ("json-install-fn", via_install_uninstall), ("pydantic", via_pydantic), ("pydantic-dict", via_pydantic_python)]
IDENTITY_CODECS = ("pickle", "pickle2", "copy", "deepcopy")

def describe(o):
    if isinstance(o, Unit): return {"unit": C.unit(o), "names": list(o.names), "symbols": list(o.symbols), "str": str(o)}
    if isinstance(o, Prefix): return {"prefix": [o.base, repr(o.exponent)], "name": o.name, "symbol": o.symbol}
    if isinstance(o, Dimension): return {"dimension": list(o.exponents), "name": o.name, "symbol": o.symbol}
    if isinstance(o, Quantity): return {"quantity": implib.num(o.magnitude), "unit": C.unit(o.unit), "str": str(o)}
    return {"other": repr(o)[:100]}

def meta(o):
    if isinstance(o, Unit): return (tuple(o.names), tuple(o.symbols))
    if isinstance(o, (Prefix, Dimension)): return (o.name, o.symbol)
    return None

def unit_text_ok(u):
    """does str(u) parse back to u (C13)?  Quantity JSON / SQL composite store the unit as that text"""
    try:
        return Unit.parse(str(u)) is u
    except Exception:  # noqa
        return False

def run(data):
    fails, counts, case_ids = [], {}, []
    def singleton(kind, o):
        before = meta(o)
        for name, f in CODECS:
            counts[f"{kind}:{name}"] = counts.get(f"{kind}:{name}", 0) + 1
            case_ids.append(f"{kind}:{name}:{C.oid(o)}")
            try:
                r = f(o)
                if r is not o:
                    fails.append({"codec": name, "kind": kind, "object": describe(o), "got": describe(r), "what": "not the identical object"})
                elif meta(r) != before:
                    fails.append({"codec": name, "kind": kind, "object": describe(o), "got": describe(r), "what": "names/symbols changed"})
            except Exception as ex:  # noqa
                fails.append({"codec": name, "kind": kind, "object": describe(o), "what": "raised " + implib.errclass(ex) + ": " + str(ex)[:120]})
    for d in list(Dimension._known.values()): singleton("dimension", d)
    for p in list(Prefix._known.values()): singleton("prefix", p)
    for ps in data.get("extra_prefixes", []):
        try:
            if len(ps) == 3:
                a, b = Prefix._by_name[ps[0]], Prefix._by_name[ps[1]]
                p = a * b if ps[2] == "mul" else a / b
            else:
                p = Prefix(ps[0], ps[1])
            singleton("prefix", p)
        except Exception as ex:  # noqa
            fails.append({"codec": "setup", "kind": "prefix", "object": ps, "what": str(ex)[:100]})
    for u in list(Unit._known.values()): singleton("unit", u)
    for spec in data.get("units", []):
        try: singleton("unit", mk_unit(spec))
        except Exception as ex:  # noqa
            fails.append({"codec": "setup", "kind": "unit", "object": spec, "what": str(ex)[:100]})
    for qs in data.get("quantities", []):
        try:
            q = Quantity(mk_num(qs["m"]), mk_unit(qs["u"]))
        except Exception as ex:  # noqa
            fails.append({"codec": "setup", "kind": "quantity", "object": qs, "what": str(ex)[:100]}); continue
        codecs = CODECS + [("sql-composite", lambda o: Quantity(*o.__composite_values__()))]
        if qs.get("json_only"): codecs = [cc for cc in codecs if cc[0] == "json"]
        for name, f in codecs:
            counts[f"quantity:{name}"] = counts.get(f"quantity:{name}", 0) + 1
            case_ids.append(f"quantity:{name}:{type(q.magnitude).__name__}:{q.magnitude!r}:{C.oid(q.unit)}")
            try:
                r = f(q)
                bad = None
                if not isinstance(r, Quantity): bad = "not a Quantity"
                elif type(r.magnitude) is not type(q.magnitude): bad = f"magnitude type {type(r.magnitude).__name__} instead of {type(q.magnitude).__name__}"
                elif name in IDENTITY_CODECS and r.unit is not q.unit: bad = "unit is not the identical object"
                elif not (r == q) and not (q.magnitude != q.magnitude):
                    # an int beyond 2**53 that comes back with the same magnitude in an equal-valued unit (kg for Kilo*Gram) compares unequal only
                    # because one side is scaled as an int and the other through a float ratio: a floating-point tie, not a lost value
                    tie = (isinstance(q.magnitude, int) and abs(q.magnitude) >= 2 ** 53 and r.magnitude == q.magnitude
                           and Quantity(1, r.unit) == Quantity(1, q.unit))
                    if tie: counts["float_ties"] = counts.get("float_ties", 0) + 1
                    else: bad = "not equal to the original"
                elif name in IDENTITY_CODECS and r.magnitude != q.magnitude and q.magnitude == q.magnitude: bad = "magnitude changed"
                if bad: fails.append({"codec": name, "kind": "quantity", "object": describe(q), "got": describe(r), "what": bad, "spec": qs, "unit_text_ok": unit_text_ok(q.unit), "unit_text": str(q.unit)})
            except Exception as ex:  # noqa
                fails.append({"codec": name, "kind": "quantity", "object": describe(q), "what": "raised " + implib.errclass(ex) + ": " + str(ex)[:100], "spec": qs, "unit_text_ok": unit_text_ok(q.unit), "unit_text": str(q.unit)})
    # a unit text that was deserialised once (prefix + symbol) and is later registered as the exact symbol of a new unit:
    # quantities of the new unit must still round-trip to the new unit (run last: it registers units)
    for i, (ps, us, dim) in enumerate(data.get("late", [])):
        try:
            text = ps + us
            if text in Unit._by_symbol: continue
            old = Prefix._by_symbol[ps] * Unit._by_symbol[us]
            for name, f in CODECS + [("sql-composite", lambda o: Quantity(*o.__composite_values__()))]:
                f(Quantity(2, old))
            new = Dimension._by_name[dim].unit(f"vf serial late {i}", text)
            q = Quantity(2, new)
            for name, f in CODECS + [("sql-composite", lambda o: Quantity(*o.__composite_values__()))]:
                counts[f"late:{name}"] = counts.get(f"late:{name}", 0) + 1
                case_ids.append(f"late:{name}:{text}")
                r = f(q)
                if not (isinstance(r, Quantity) and r.unit is new and r.magnitude == 2):
                    fails.append({"codec": name, "kind": "quantity", "object": describe(q), "got": describe(r), "unit_text_ok": True,
                                  "what": f"after {text!r} had been deserialised as prefix+symbol and was then registered as a new unit's symbol, the quantity comes back in another unit"})
        except Exception as ex:  # noqa
            fails.append({"codec": "late", "kind": "quantity", "object": [ps, us, dim], "what": "raised " + implib.errclass(ex) + ": " + str(ex)[:100], "unit_text_ok": True})
    # documents taken BEFORE an object was named, read back afterwards: the live object keeps its name and symbol
    from measured.si import Meter, Second
    from measured import Length, Time
    stale = [("unit", lambda: Meter ** 7 / Second ** 5, lambda o: Unit.derive(o, "vf stale unit", "vfsu"), lambda: Unit.named("vf stale unit")),
             ("unit", lambda: Prefix(10, 3) * Meter ** 5 / Second ** 7, lambda o: o.alias(name="vf stale alias", symbol="vfsa"), lambda: Unit.named("vf stale alias")),
             ("dimension", lambda: Length ** 7 / Time ** 5, lambda o: Dimension.derive(o, "vf stale dimension", "VFSD"), lambda: Dimension._by_name["vf stale dimension"]),
             ("prefix", lambda: Prefix(10, 37), lambda o: Prefix(10, 37, name="vfstale", symbol="vfsp"), lambda: Prefix._by_name["vfstale"]),
             # a symbol declared without a name (both signatures allow it; Celsius.alias(symbol="degC") is the shipped example)
             ("prefix", lambda: Prefix(7, 2), lambda o: Prefix(7, 2, symbol="vfSq"), lambda: Prefix._by_symbol["vfSq"]),
             ("unit", lambda: Meter ** 9 / Second ** 4, lambda o: o.alias(symbol="vfso"), lambda: Unit._by_symbol["vfso"]),
             ("unit", lambda: Prefix(10, 3) * Meter ** 4 / Second ** 9, lambda o: o.alias(symbol="vfsk"), lambda: Unit._by_symbol["vfsk"])]
    for kind, make, name_it, lookup in stale:
        try:
            o = make()
            blobs = [("pickle", pickle.dumps(o)), ("pickle-2", pickle.dumps(o, protocol=2)), ("json", json.dumps(o, cls=MeasuredJSONEncoder)),
                     ("pickle-in-quantity", pickle.dumps(3 * o) if kind == "unit" else pickle.dumps(o))]
            name_it(o)
            want = (getattr(o, "name", None), getattr(o, "symbol", None) or (o.symbols[0] if getattr(o, "symbols", None) else None))
            for codec, blob in blobs:
                counts[f"stale:{codec}"] = counts.get(f"stale:{codec}", 0) + 1
                case_ids.append(f"stale:{kind}:{codec}:{want[0]}")
                r = pickle.loads(blob) if codec.startswith("pickle") else json.loads(blob, cls=MeasuredJSONDecoder)
                if codec == "pickle-in-quantity" and kind == "unit": r = r.unit
                got = (getattr(o, "name", None), getattr(o, "symbol", None) or (o.symbols[0] if getattr(o, "symbols", None) else None))
                if r is not o or got != want or lookup() is not o or (want[0] is None and want[1] is None):
                    fails.append({"codec": codec, "kind": kind, "object": describe(o), "got": describe(r), "unit_text_ok": True,
                                  "what": f"a document taken before the {kind} was named {want} was read back afterwards: the live object now reports {got}"})
        except Exception as ex:  # noqa
            fails.append({"codec": "stale", "kind": kind, "object": kind, "what": "raised " + implib.errclass(ex) + ": " + str(ex)[:100], "unit_text_ok": True})
    return {"counts": counts, "fails": fails, "case_ids": case_ids, "registered": {"dimensions": len(Dimension._known), "prefixes": len(Prefix._known), "units": len(Unit._known)}}

implib.main_io(run)
