"""C01 "at every moment": while one thread renders a compound unit (str, format "/", MathML, pretty), paused before each source line
of measured/formatting.py in turn, another thread does arithmetic on that unit and on its prefixed / unprefixed twins; every unit
obtained reports the product of its factors' dimensions.  output: per pause point, the inconsistent units seen (if any)"""
import sys, os, json, threading
sys.path.insert(0, os.path.dirname(os.path.abspath(__file__)))
import implib
measured = implib.load()
from measured import Unit, Prefix, One, Quantity, formatting
from measured.si import Meter, Second, Gram, Kelvin, Kilo, Milli
C = implib.Canon(measured)
FMT_FILE = formatting.__file__

def product_dim(u):
    d = measured.Number
    for f, e in u.factors.items():
        if f is One: continue
        d = d * f.dimension ** e
    return d

def renderings(u):
    return [lambda: str(u), lambda: format(u, "/"), lambda: repr(u), lambda: u._repr_html_(), lambda: str(3 * u), lambda: format(Quantity(2, u), "/")]

def run_point(u, render, k, salt):
    reached, resume, done = threading.Event(), threading.Event(), threading.Event()
    count = [0]
    def local(frame, event, arg):
        if event == "line":
            count[0] += 1
            if count[0] == k: reached.set(); resume.wait(5)
        return local
    def glob(frame, event, arg):
        return local if (event == "call" and frame.f_code.co_filename == FMT_FILE) else None
    def body():
        sys.settrace(glob)
        try: render()
        except Exception: pass  # noqa
        finally:
            sys.settrace(None); done.set(); reached.set()
    t = threading.Thread(target=body, daemon=True); t.start(); reached.wait(10)
    paused = not done.is_set()
    bad = []
    if paused:
        # the other thread: products, quotients and powers the process has not built before (salt), on the unit and its twins
        w = Meter ** (40 + salt)
        for name, f in (("u*w", lambda: u * w), ("u/w", lambda: u / w), ("(kilo u)*w", lambda: (Kilo * u) * w), ("quantify", lambda: u.quantify().unit * w),
                        ("u**2*w", lambda: u ** 2 * w), ("w/u", lambda: w / u), ("milli", lambda: (Milli * u) / w)):
            try:
                r = f()
                if product_dim(r) is not r.dimension: bad.append([name, C.unit(r), C.dim(product_dim(r))])
            except Exception as ex:  # noqa
                bad.append([name, "raised " + implib.errclass(ex)])
    resume.set(); t.join(10)
    return {"k": k, "paused": paused, "lines": count[0], "bad": bad}

def run(data):
    out = []
    units = [Meter * Second ** -1 * Gram ** -1, Kilo * (Meter ** 2 / Second ** 3) / Kelvin, Second ** -2 * Meter, Gram / (Meter * Second)]
    salt = 0
    for ui, u in enumerate(units[: data.get("units", 4)]):
        for ri, render in enumerate(renderings(u)):
            k = 1
            while k < 300:
                salt += 1
                r = run_point(u, render, k, salt)
                r["unit"] = ui; r["rendering"] = ri
                out.append(r)
                if not r["paused"]: break
                k += data.get("stride", 1)
    return {"results": out}

implib.main_io(run)
