"""C08 at source-line granularity: a declaration (Unit.equals / Dimension.scale) is paused before each of its source lines inside
measured/conversions.py while another thread runs whole queries on the pair being declared; once the declaration has returned, the
pair converts (twice, identically), whatever was asked while it was in progress.
input: {"kinds": ["equals", "equals-prefixed", "scale", "redeclare"]}; output: per kind, per pause point, what was observed"""
import sys, os, json, threading
sys.path.insert(0, os.path.dirname(os.path.abspath(__file__)))
import implib
measured = implib.load()
from measured import Unit, Prefix, Quantity, Dimension, conversions
from measured.si import Kelvin

CONV_FILE = conversions.__file__
COUNTER = [0]

def fresh_pair():
    COUNTER[0] += 1
    L = Dimension._by_name["length"]
    return L.unit(f"vfrace{COUNTER[0]}a", f"vfr{COUNTER[0]}a"), L.unit(f"vfrace{COUNTER[0]}b", f"vfr{COUNTER[0]}b")

def attempt(f):
    try: return {"m": implib.num(f().magnitude)}
    except Exception as ex:  # noqa
        return {"err": implib.errclass(ex)}

def run_point(kind, k):
    """pause the declaring thread before its k-th traced line; returns None when the declaration has fewer lines"""
    a, b = fresh_pair()
    if kind == "scale":
        COUNTER[0] += 1
        name = f"vfscale{COUNTER[0]}"
        declare = lambda: Dimension._by_name["temperature"].scale(Quantity(100, Kelvin), name, "°" + name)
        target = [None]
        query = lambda: (Quantity(1, target[0] or Unit._by_name[name]).in_unit(Kelvin) if (target[0] or name in Unit._by_name) else Quantity(1, a).in_unit(b))
        want = 101
    elif kind == "equals-prefixed":
        declare = lambda: (Prefix._by_name["kilo"] * a).equals(4 * b); query = lambda: Quantity(1, a).in_unit(b); want = 0.004
    elif kind == "redeclare":
        a.equals(2 * b); Quantity(1, a).in_unit(b)
        declare = lambda: a.equals(8 * b); query = lambda: Quantity(1, a).in_unit(b); want = 8
    else:
        declare = lambda: a.equals(4 * b); query = lambda: Quantity(1, a).in_unit(b); want = 4
    before = attempt(query)
    reached, resume, done = threading.Event(), threading.Event(), threading.Event()
    count = [0]
    def local(frame, event, arg):
        if event == "line":
            count[0] += 1
            if count[0] == k:
                reached.set(); resume.wait(5)
        return local
    def glob(frame, event, arg):
        return local if (event == "call" and frame.f_code.co_filename == CONV_FILE) else None
    err = [None]
    def body():
        sys.settrace(glob)
        try: declare()
        except Exception as ex: err[0] = implib.errclass(ex)  # noqa
        finally:
            sys.settrace(None); done.set(); reached.set()
    t = threading.Thread(target=body, daemon=True); t.start()
    reached.wait(10)
    paused = not done.is_set()
    during = None
    if paused:
        # the other thread: whole queries while the declaration stands still (in a thread of its own, with a time limit, in case the
        # declaration holds a lock the query needs)
        box = []
        qt = threading.Thread(target=lambda: box.append([attempt(query), attempt(query)]), daemon=True); qt.start(); qt.join(3)
        during = box[0] if box else "blocked"
    resume.set(); t.join(10)
    after = [attempt(query), attempt(query)]
    return {"kind": kind, "k": k, "paused": paused, "lines": count[0], "declare_err": err[0], "before": before, "during": during, "after": after, "want": want}

def run(data):
    out = []
    for kind in data["kinds"]:
        k = 1
        while k < 400:
            r = run_point(kind, k)
            out.append(r)
            if not r["paused"]: break
            k += 1
    return {"results": out}

implib.main_io(run)
