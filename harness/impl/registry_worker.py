"""Drive the name/symbol registries of units, prefixes or dimensions and report, after every call,
the outcome and how the registries changed.
input: {"kind": "unit"|"prefix"|"dimension", "ops": [...], "order": [module names] | null}"""
import sys, os, json, importlib
sys.path.insert(0, os.path.dirname(os.path.abspath(__file__)))
import implib

def run(data):
    order = data.get("order")
    if order:
        import measured
        for m in order:
            importlib.import_module("measured." + m)
    else:
        implib.load()
    import measured
    from measured import Quantity, Unit, Prefix, Dimension
    kind = data["kind"]
    Cls = {"unit": Unit, "prefix": Prefix, "dimension": Dimension}[kind]
    tracked, index = [], {}
    def num(o):
        if id(o) not in index:
            index[id(o)] = len(tracked); tracked.append(o)
        return index[id(o)]
    def snapshot():
        for o in list(Cls._known.values()):
            num(o)
        byn = {n: num(o) for n, o in Cls._by_name.items()}
        bys = {s: num(o) for s, o in getattr(Cls, "_by_symbol", {}).items()} if kind != "dimension" else {}
        nm, sy = {}, {}
        for o in tracked:
            if not getattr(o, "_initialized", False):
                nm[num(o)] = ["<uninitialised>"]; continue
            if kind == "unit":
                if o.names: nm[num(o)] = list(o.names)
                if o.symbols: sy[num(o)] = list(o.symbols)
            else:
                if o.name: nm[num(o)] = [o.name]
                if kind == "prefix" and o.symbol: sy[num(o)] = [o.symbol]
        return {"byn": byn, "bys": bys, "nm": nm, "sy": sy, "count": len(Cls._known)}
    def diff(a, b):
        d = {}
        for f in ("byn", "bys"):
            d[f] = [[k, b[f].get(k)] for k in sorted(set(a[f]) | set(b[f])) if a[f].get(k) != b[f].get(k)]
        for f in ("nm", "sy"):
            d[f] = [[k, b[f].get(k, [])] for k in sorted(set(a[f]) | set(b[f])) if a[f].get(k) != b[f].get(k)]
        d["count"] = b["count"]
        return d
    prev = snapshot()
    initial = prev
    _cl = {}
    for f in ("nm", "sy"):
        for o_, l in prev[f].items():
            for x in l: _cl.setdefault((f, x), set()).add(o_)
    base_dups = sorted(x for (f, x), os_ in _cl.items() if len(os_) > 1)
    out = []
    BLOBS = {}
    for op in data["ops"]:
        rec = {}
        try:
            k = op[0]
            if k == "udefine":
                o = Dimension._by_name[op[1]].unit(op[2], op[3])
            elif k == "ualias":
                o = tracked[op[1]]; o.alias(name=op[2], symbol=op[3])
            elif k == "uderive":
                o = Unit.derive(tracked[op[1]], op[2], op[3])
            elif k == "uscale":
                d_ = Dimension._by_name[op[1]]
                if op[4] == "number": zero = 5
                elif op[4] == "otherdim": zero = Quantity(1, next(u for u in Unit._known.values() if u.dimension is not d_ and u.name))
                else: zero = Quantity(1, next(u for u in Unit._known.values() if u.dimension is d_ and u.name))
                o = d_.scale(zero, op[2], op[3])
            elif k == "uanon":
                a, b = tracked[op[1]], tracked[op[2]]
                o = a * b if op[3] == "mul" else (a / b if op[3] == "div" else a ** op[4])
            elif k == "uresolve":
                o = Unit.resolve_symbol(op[1])
                if (len(op) < 3 or op[2]) and Unit.parse(op[1]) is not o:
                    raise RuntimeError("Unit.parse and Unit.resolve_symbol disagree on " + op[1])
            elif k == "pdecl":
                o = Prefix(op[1], op[2], name=op[3], symbol=op[4]) if (op[3] or op[4]) else Prefix(op[1], op[2])
            elif k == "dderive":
                o = Dimension.derive(tracked[op[1]], op[2], op[3])
            elif k == "djson":
                # a Dimension document (as another process would have written it) decoded here: an anonymous construction, whatever name it carries
                import json as _json
                from measured.json import MeasuredJSONDecoder
                n_ = len(next(iter(Dimension._known.values())).exponents)
                exps = (list(op[1]) + [0] * n_)[:n_]
                o = _json.loads(_json.dumps({"__measured__": "Dimension", "name": op[2], "symbol": op[3], "exponents": exps}), cls=MeasuredJSONDecoder)
            elif k == "ddefine":
                o = Dimension.define(op[1], op[2])
                BLOBS.clear()       # a new fundamental dimension changes the length of every exponent tuple (documented): earlier documents of dimensions do not carry over
            elif k == "danon":
                a, b = tracked[op[1]], tracked[op[2]]
                o = a * b if op[3] == "mul" else (a / b if op[3] == "div" else a ** op[4])
            elif k == "snap":
                import pickle as _pickle
                o = tracked[op[1]]; BLOBS[op[1]] = [_pickle.dumps(o), _pickle.dumps(o, protocol=2)]
            elif k == "load":
                # documents of the object taken earlier in this history, read back now: the same object, and nothing it was given since is lost
                import pickle as _pickle
                o = tracked[op[1]]
                for blob in BLOBS.get(op[1], []):
                    if _pickle.loads(blob) is not o: raise RuntimeError("a pickle of a registered object loaded as another object")
            else:
                raise RuntimeError(k)
            before = len(tracked)
            rec["obj"] = num(o)
            # every way of looking the object up by a name it reports gives that object: the class registry, named(), the string form
            # the pydantic validators accept
            bad_ = []
            for nm_ in (list(getattr(o, "names", ())) if kind == "unit" else ([o.name] if getattr(o, "name", None) else []))[:3]:
                try:
                    routes = {"_by_name": Cls._by_name.get(nm_), "pydantic": Cls._pydantic_validate(nm_)}
                    if hasattr(Cls, "named"): routes["named"] = Cls.named(nm_)
                    for rname, got in routes.items():
                        if got is not o: bad_.append([rname, nm_])
                except Exception as ex_:  # noqa
                    bad_.append(["raises:" + implib.errclass(ex_), nm_])
            if bad_: rec["lookup_disagrees"] = bad_[:4]
            rec["created"] = rec["obj"] >= before
            # lookups by the declared name / symbol and what the object reports
            if kind == "unit":
                rec["reports"] = [list(o.names), list(o.symbols)]
            else:
                rec["reports"] = [[o.name] if o.name else [], [o.symbol] if (kind == "prefix" and o.symbol) else []]
        except Exception as ex:  # noqa
            rec["err"] = implib.errclass(ex); rec["msg"] = str(ex)[:120]
        cur = snapshot()
        # a name or symbol claimed by two objects, or bound to an object that does not report it
        claims = {}
        for f in ("nm", "sy"):
            for o_, l in cur[f].items():
                for x in l: claims.setdefault((f, x), set()).add(o_)
        dups = sorted(x for (f, x), os_ in claims.items() if len(os_) > 1)
        if dups != base_dups: rec["dups"] = [x for x in dups if x not in base_dups][:5]
        unrep = [n for n, o_ in cur["byn"].items() if n not in cur["nm"].get(o_, [])] + [x for x, o_ in cur["bys"].items() if x not in cur["sy"].get(o_, [])]
        if unrep: rec["unreported"] = unrep[:5]
        rec["diff"] = diff(prev, cur)
        prev = cur
        out.append(rec)
    return {"initial": initial, "results": out, "ntracked": len(tracked)}

implib.main_io(run)
