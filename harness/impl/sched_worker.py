"""Controlled thread scheduling of the real interning constructors with a sys.settrace line
scheduler (no source hook).  For each schedule, two or three threads construct the same brand-new
dimension / prefix / unit; the scheduler grants one source line at a time to the thread the
schedule names (a thread that is blocked on the lock is skipped after a short timeout).
input: {"cases": [{"cls": "Dimension"|"Prefix"|"Unit"|"UnitMul", "threads": n, "schedule": [...]}]}
output per case: {"same": bool, "distinct_objects": k, "later_same": bool, "table_entries": k, "steps": [...]}"""
import sys, os, json, threading, time
sys.path.insert(0, os.path.dirname(os.path.abspath(__file__)))
import implib
measured = implib.load()
from measured import Dimension, Prefix, Unit, IdentityPrefix
from measured.si import Meter, Second

TARGET_FILES = (measured.__file__,)
COUNTER = [1000]
BLOCK_TIMEOUT = 0.03

def target_codes():
    codes = set()
    for cls in (Dimension, Prefix, Unit):
        for name in ("__new__", "__init__", "_build_key"):
            f = cls.__dict__.get(name)
            f = getattr(f, "__func__", f)
            if f is not None and hasattr(f, "__code__"):
                codes.add(f.__code__)
    for f in (Unit._multiply, Unit._divide, Dimension._multiply, Dimension._divide):
        w = getattr(f, "__wrapped__", None)
        if w is not None: codes.add(w.__code__)
    codes.add(Unit.__pow__.__code__); codes.add(Dimension.__pow__.__code__); codes.add(Prefix.__pow__.__code__)
    return codes

CODES = target_codes()

class Sched:
    def __init__(self, n):
        self.n = n
        self.cv = threading.Condition()
        self.waiting = [False] * n     # thread is parked at a gate
        self.grant = [0] * n           # number of lines the thread may still execute
        self.done = [False] * n
        self.trace = []

    def gate(self, i, lineno):
        with self.cv:
            self.waiting[i] = True
            self.cv.notify_all()
            while self.grant[i] <= 0:
                self.cv.wait(0.5)
            self.grant[i] -= 1
            self.waiting[i] = False
            self.trace.append((i, lineno))

    def tracer(self, i):
        def local(frame, event, arg):
            if event == "line":
                self.gate(i, frame.f_lineno)
            return local
        def glob(frame, event, arg):
            # every function of measured/__init__.py that runs while the object is being obtained (constructors, the arithmetic
            # helpers and whatever they call), not only the ones known when this harness was written
            if event == "call" and (frame.f_code in CODES or frame.f_code.co_filename in TARGET_FILES):
                return local
            return None
        return glob

    def step(self, i):
        """let thread i execute one line; returns False if it is finished, 'blocked' if it did not reach
        another gate in time"""
        with self.cv:
            if self.done[i]:
                return False
            # wait until it is parked (or blocked / done)
            t0 = time.time()
            while not self.waiting[i] and not self.done[i]:
                self.cv.wait(0.005)
                if time.time() - t0 > BLOCK_TIMEOUT:
                    return "blocked"
            if self.done[i]:
                return False
            self.grant[i] += 1
            self.cv.notify_all()
            # wait until it consumed the grant
            t0 = time.time()
            while self.grant[i] > 0 and not self.done[i]:
                self.cv.wait(0.005)
                if time.time() - t0 > 2:
                    return "stuck"
            # ... and until the line has been executed: the thread is parked at its next line, finished, or blocked inside the line
            # (on the lock); only then may another thread be given a line, so that the recorded order is the order of execution
            t0 = time.time()
            while not self.waiting[i] and not self.done[i]:
                self.cv.wait(0.002)
                if time.time() - t0 > BLOCK_TIMEOUT:
                    break
            return True

def make_call(cls, k):
    if cls == "Dimension":
        n = len(Dimension._fundamental)
        exps = tuple([0, k] + [0] * (n - 2))
        return lambda: Dimension(exps), lambda: len([d for d in Dimension._known.values() if d.exponents == exps])
    if cls == "Prefix":
        return lambda: Prefix(7, k), lambda: len([p for p in Prefix._known.values() if getattr(p, "base", None) == 7 and getattr(p, "exponent", None) == k])
    if cls == "Unit":
        f = {Meter: k}
        return lambda: Unit(IdentityPrefix, dict(f), Meter.dimension ** k), lambda: len([u for u in Unit._known.values() if getattr(u, "factors", None) == f and u.prefix is IdentityPrefix])
    if cls == "UnitMulCompound":
        from measured.si import Gram, Kelvin
        a = Meter ** k * Gram; b = Second ** (k % 7 + 2) * Kelvin
        f = dict(a.factors); f.update(b.factors)
        return lambda: a * b, lambda: len([u for u in Unit._known.values() if getattr(u, "factors", None) == f and u.prefix is IdentityPrefix])
    if cls == "UnitDivCompound":
        from measured.si import Gram, Kelvin
        a = Meter ** k * Gram; b = Second ** (k % 7 + 2) * Kelvin
        f = dict(a.factors); f.update({u: -e for u, e in b.factors.items()})
        return lambda: a / b, lambda: len([u for u in Unit._known.values() if getattr(u, "factors", None) == f and u.prefix is IdentityPrefix])
    if cls == "UnitMul":
        a = Meter ** k
        f = {Meter: k, Second: 1}
        return lambda: a * Second, lambda: len([u for u in Unit._known.values() if getattr(u, "factors", None) == f and u.prefix is IdentityPrefix])
    if cls == "PrefixFloat":
        # a prefix with a non-integral exponent (what products of SI and IEC prefixes are), constructed directly and as such a product
        e = k + 0.5
        return [lambda: Prefix(3, e), lambda: Prefix(3, e), lambda: Prefix(3, e)], lambda: len([p for p in Prefix._known.values() if getattr(p, "base", None) == 3 and getattr(p, "exponent", None) == e])
    if cls == "PrefixDecimal":
        # a Decimal exponent combined with a prefix of another base: the exponent of the product is computed in Decimal arithmetic, whose
        # context (precision) is per thread -- every thread, and the importing thread afterwards, must arrive at the same prefix
        from decimal import Decimal
        from measured.iec import Kibi, Mebi
        half = Prefix(10, Decimal(k) + Decimal("0.5"))
        calls = [lambda: half * Kibi, lambda: half * Kibi, lambda: half * Kibi]
        return calls, lambda: 1
    if cls == "PrefixDecimalUnit":
        from decimal import Decimal
        from measured.iec import Kibi
        from measured.si import Meter as M_
        half = Prefix(10, Decimal(k) + Decimal("0.5"))
        return (lambda: half * (Kibi * M_)), lambda: 1
    if cls in ("UnpicklePrefix", "UnpickleDimension"):
        # one thread reads a pickle of an object this process has not built yet while another builds it: both end with the one object
        import pickle
        if cls == "UnpicklePrefix":
            tmpl = pickle.dumps(Prefix(7, 1234567), protocol=2); kk = 2000000 + k
            blob = tmpl.replace((1234567).to_bytes(4, "little"), kk.to_bytes(4, "little"))
            assert blob != tmpl
            return [lambda: pickle.loads(blob), lambda: Prefix(7, kk), lambda: pickle.loads(blob)], lambda: len([p for p in Prefix._known.values() if getattr(p, "base", None) == 7 and getattr(p, "exponent", None) == kk])
        n = len(Dimension._fundamental)
        tmpl = pickle.dumps(Dimension(tuple([0, 1234567] + [0] * (n - 2))), protocol=2); kk = 2000000 + k
        blob = tmpl.replace((1234567).to_bytes(4, "little"), kk.to_bytes(4, "little"))
        assert blob != tmpl
        exps = tuple([0, kk] + [0] * (n - 2))
        return [lambda: pickle.loads(blob), lambda: Dimension(exps), lambda: pickle.loads(blob)], lambda: len([d for d in Dimension._known.values() if getattr(d, "exponents", None) == exps])
    if cls in ("Logarithm", "LogarithmPrefixed", "LogUnit"):
        # the interned families of logarithmic units: a logarithm of a new base, a prefixed logarithm, a logarithmic unit over a new reference
        from measured import Logarithm, LogarithmicUnit, Decibel, Bel
        from measured.si import Watt, Milli
        if cls == "Logarithm":
            b_ = 100 + k
            return (lambda: Logarithm(b_)), lambda: len([l for l in Logarithm._known.values() if getattr(l, "base", None) == b_])
        if cls == "LogarithmPrefixed":
            lg = Logarithm(1000 + k); pf = Prefix(10, -(k % 50) - 2)
            return (lambda: pf * lg), lambda: len([l for l in Logarithm._known.values() if getattr(l, "base", None) == 1000 + k and getattr(l, "prefix", None) is pf])
        ref = (3000 + k) * Watt
        return (lambda: Decibel[ref]), lambda: len([u for u in LogarithmicUnit._known.values() if getattr(u, "logarithm", None) is Decibel and getattr(u, "reference", None) is not None and u.reference.magnitude == ref.magnitude and u.reference.unit is ref.unit])
    if cls == "PrefixMixed":
        from measured.iec import Kibi
        a = Prefix(10, 1000 + k)
        return (lambda: Kibi * a), lambda: 1          # (a * Kibi is another prefix: the product keeps its left operand's base)
    if cls in ("DimChain", "UnitChain"):
        # a chained expression whose intermediate product is new as well: the second factor is multiplied onto an object another thread may
        # have registered a moment ago
        from measured import Length, Time, Mass
        from measured.si import Kilogram
        n_ = 100 + k
        if cls == "DimChain":
            da, db = Length ** n_, Time ** n_          # operands built beforehand: the threads start at the first new product
            return (lambda: da * db * Mass), lambda: len([d for d in Dimension._known.values() if getattr(d, "exponents", None) == (da * db * Mass).exponents])
        ua, ub = Meter ** n_, Second ** n_
        f = {Meter: n_, Second: n_, Kilogram: 1}
        return (lambda: ua * ub * Kilogram), lambda: len([u for u in Unit._known.values() if getattr(u, "factors", None) == f and u.prefix is IdentityPrefix])
    if cls in ("UnitMulOrders", "UnitDivOrders"):
        # different expressions denoting one new unit, evaluated at the same time: a*b | b*a, a/b | b**-1 * a
        base1 = Dimension._by_name["length"].unit(f"vfo{k}a", f"vfo{k}a"); base2 = Dimension._by_name["time"].unit(f"vfo{k}b", f"vfo{k}b")
        if cls == "UnitMulOrders":
            f = {base1: 1, base2: 1}
            calls = [lambda: base1 * base2, lambda: base2 * base1, lambda: base1 * base2]
        else:
            f = {base1: 1, base2: -1}
            inv = base2 ** -1
            calls = [lambda: base1 / base2, lambda: inv * base1, lambda: base1 * inv]
        return calls, lambda: len([u for u in Unit._known.values() if getattr(u, "factors", None) == f and u.prefix is IdentityPrefix])
    raise ValueError(cls)

def run_case(case):
    n = case["threads"]
    COUNTER[0] += 1
    call, count_entries = make_call(case["cls"], COUNTER[0])
    S = Sched(n)
    results = [None] * n
    errors = [None] * n
    def body(i):
        sys.settrace(S.tracer(i))
        try:
            results[i] = (call[i % len(call)] if isinstance(call, list) else call)()
        except BaseException as ex:  # noqa
            errors[i] = implib.errclass(ex) + ":" + str(ex)[:100]
        finally:
            sys.settrace(None)
            with S.cv:
                S.done[i] = True
                S.cv.notify_all()
    if case.get("raw"):
        # threads the threading module does not know about (started through _thread, as native callbacks are): threading.active_count()
        # stays 1 while they run
        import _thread
        ths = []
        for i in range(n): _thread.start_new_thread(body, (i,))
    else:
        ths = [threading.Thread(target=body, args=(i,), daemon=True) for i in range(n)]
        for t in ths: t.start()
    blocked = 0
    stalled = False
    for i in case["schedule"]:
        r = S.step(i % n)
        if r == "blocked":
            blocked += 1
            if case.get("stall") and not stalled:
                # the thread that holds the lock stays descheduled for a long time (a loaded machine, a debugger) while this one waits for it
                time.sleep(case["stall"]); stalled = True
    # run everything to completion, round robin
    t0 = time.time()
    while not all(S.done) and time.time() - t0 < 10:
        for i in range(n):
            S.step(i)
    for t in ths: t.join(2)
    objs = [r for r in results if r is not None]
    labels = [None if r is None else next(j for j, r2 in enumerate(results) if r2 is r) for r in results]
    later = (call[0] if isinstance(call, list) else call)()
    return {"same": len({id(o) for o in objs}) == 1 and len(objs) == n,
            "distinct_objects": len({id(o) for o in objs}),
            "later_same": bool(objs) and all(later is o for o in objs),
            "table_entries": count_entries(), "errors": [e for e in errors if e],
            "finished": all(S.done), "blocked_switches": blocked, "lines": len(S.trace),
            "trace": S.trace[:60], "labels": labels,
            "trace_full": S.trace[:600] if case["cls"] in ("Dimension", "Prefix", "Unit", "Logarithm", "LogUnit") else None}

def run(data):
    global BLOCK_TIMEOUT
    if data.get("slow"):
        # a second look at schedules whose recorded order did not replay: wait much longer before deciding that a thread is blocked rather
        # than slow, so that the recorded order of lines is the order of execution even on a loaded machine
        BLOCK_TIMEOUT = 0.5
    return {"results": [run_case(c) for c in data["cases"]]}

implib.main_io(run)
