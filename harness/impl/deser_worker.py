"""Deserialization in a fresh process (C01): mode "dump" writes JSON / pickle documents of compound units and quantities;
mode "load" (another process, before any arithmetic) decodes them and checks every unit's dimension against its factors."""
import sys, os, json, pickle, base64
sys.path.insert(0, os.path.dirname(os.path.abspath(__file__)))
import implib
measured = implib.load()
from measured import Unit, Prefix, One, Quantity, Number
from measured.json import MeasuredJSONEncoder, MeasuredJSONDecoder
C = implib.Canon(measured)

def mk_unit(spec):
    u = None
    for p, n, e in spec:
        f = Unit._by_name[n]
        if p: f = Prefix._by_name[p] * f
        f = f ** e if e != 1 else f
        u = f if u is None else u * f
    return One if u is None else u

def product_dim(u):
    d = Number
    for f, e in u.factors.items():
        if f is One: continue
        d = d * f.dimension ** e
    return d

def run(data):
    if data["mode"] == "dump":
        docs = []
        for spec in data["units"]:
            u = mk_unit(spec)
            docs.append({"spec": spec, "json": json.dumps(u, cls=MeasuredJSONEncoder), "pickle": base64.b64encode(pickle.dumps(u)).decode(),
                         "qjson": json.dumps(Quantity(3, u), cls=MeasuredJSONEncoder), "dim": C.dim(u.dimension), "factors": C.factors(u)})
        return {"docs": docs}
    out = []
    for d in data["docs"]:
        rec = {"spec": d["spec"]}
        try:
            how = d["how"]
            if how == "json": u = json.loads(d["json"], cls=MeasuredJSONDecoder)
            elif how == "pickle": u = pickle.loads(base64.b64decode(d["pickle"]))
            else: u = json.loads(d["qjson"], cls=MeasuredJSONDecoder).unit
            rec["dim"] = C.dim(u.dimension); rec["consistent"] = product_dim(u) is u.dimension
            # the same unit obtained afterwards through arithmetic is that object and reports the same dimension
            v = mk_unit(d["spec"]); rec["same_as_arithmetic"] = v is u; rec["arith_dim"] = C.dim(v.dimension)
        except Exception as ex:  # noqa
            rec["err"] = implib.errclass(ex) + ": " + str(ex)[:80]
        out.append(rec)
    bad = [C.unit(u) for u in list(Unit._known.values()) if product_dim(u) is not u.dimension]
    return {"results": out, "inconsistent_units": bad[:5]}

implib.main_io(run)
