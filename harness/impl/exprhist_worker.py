"""C01, second sentence: the dimension reported for a unit expression does not depend on what was done earlier.
input: {"probes": [...], "disturb": bool}; probes: ["quantify", uspec] | ["unprefixed", uspec] | ["parse", text] | ["qparse", text] | ["expr", uspec]
With disturb, ordinary public operations are performed first: augmented assignment on public results, parsing of the compact
spellings of the probe texts, formatting in every style."""
import sys, os, json
sys.path.insert(0, os.path.dirname(os.path.abspath(__file__)))
import implib
measured = implib.load()
from measured import Unit, Prefix, One, Quantity
C = implib.Canon(measured)

def mk_unit(spec):
    u = None
    for p, n, e in spec:
        f = Unit._by_name[n]
        if p: f = Prefix._by_name[p] * f
        f = f ** e if e != 1 else f
        u = f if u is None else u * f
    return One if u is None else u

def product_dim(u):
    d = measured.Number
    for f, e in u.factors.items():
        if f is One: continue
        d = d * f.dimension ** e
    return d

def evaluate(p):
    k = p[0]
    if k == "quantify": return mk_unit(p[1]).quantify().unit
    if k == "unprefixed": return (3 * mk_unit(p[1])).unprefixed().unit
    if k == "parse": return Unit.parse(p[1])
    if k == "qparse": return Quantity(5, p[1]).unit
    if k == "expr": return mk_unit(p[1])
    if k == "qjson":
        import json as _json
        from measured.json import MeasuredJSONDecoder
        return _json.loads(_json.dumps({"__measured__": "Quantity", "magnitude": 3, "unit": p[1]}), cls=MeasuredJSONDecoder).unit
    raise ValueError(k)

def disturb(probes):
    from measured.si import Second, Meter
    for p in probes:
        try:
            if p[0] in ("quantify", "unprefixed", "expr"):
                u = mk_unit(p[1])
                for q in (u.quantify(), (3 * u).unprefixed(), 2 * u):
                    t = q
                    t *= 4 * Second; t /= 2 * Meter; t *= Second; t /= u; t **= 2; t += t; t -= t
                for spec in ("", "/", ":/"):
                    try: format(7 * u, spec); format(u, spec.replace(":", ""))
                    except Exception: pass
                str(u); repr(u)
            else:
                compact = "".join(p[1].split())
                for text in (compact, p[1].replace(" ", "⋅"), p[1].replace(" ", "*")):
                    try: Unit.parse(text)
                    except Exception: pass
                    try: Quantity(1, text)
                    except Exception: pass
        except Exception:
            pass

def serialise_everything():
    """quantities in every registered prefix x every named unit go through every way of writing them out (JSON, SQL composite,
    pickle, copy, str/repr): writing a quantity out may not change what a text or an expression means afterwards"""
    import json as _json, pickle, copy
    from measured.json import MeasuredJSONEncoder
    units = [u for u in dict.fromkeys(Unit._by_name.values()) if isinstance(u, Unit)]
    for pre in [None] + list(dict.fromkeys(Prefix._by_name.values())):
        for u in units:
            try:
                q = 5 * (pre * u if pre is not None else u)
            except Exception: continue
            for f in (lambda: _json.dumps(q, cls=MeasuredJSONEncoder), lambda: q.__json__(), lambda: q.__composite_values__(), lambda: pickle.dumps(q),
                      lambda: copy.deepcopy(q), lambda: str(q), lambda: repr(q)):
                try: f()
                except Exception: pass

def run(data):
    if data.get("disturb"):
        disturb(data["probes"])
        serialise_everything()
    # definitions made in both kinds of process, AFTER the disturbance: a text that parsed through a prefix split (dam = deca-metre) is
    # declared as the exact symbol of a new unit; from then on it means that unit, whether or not it was parsed before
    for text, dim in data.get("late", []):
        if data.get("disturb"):
            for t in (text, text + "²", "5 " + text):
                try: Unit.parse(t)
                except Exception: pass
                try: Quantity(1, t)
                except Exception: pass
        try: measured.Dimension._by_name[dim].unit("vf late " + text, text)
        except Exception: pass
    out = []
    for p in data["probes"]:
        try:
            u = evaluate(p)
            out.append({"dim": C.dim(u.dimension), "consistent": product_dim(u) is u.dimension, "unit": C.unit(u)})
        except Exception as ex:  # noqa
            out.append({"err": implib.errclass(ex)})
    return {"results": out}

implib.main_io(run)
