"""Dump the registries of the implementation (after importing every shipped module):
dimensions, prefixes, base units, every interned unit, names/symbols, declarations."""
import sys, os, json
sys.path.insert(0, os.path.dirname(os.path.abspath(__file__)))
import implib, exportlib
measured = implib.load()

def run(data):
    return exportlib.export_all(measured)

implib.main_io(run)
