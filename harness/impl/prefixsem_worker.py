"""C11 relations evaluated directly on the implementation.
case: {"p": prefixname, "q": prefixname, "u": uspec, "m": num, "n": int}"""
import sys, os, json
sys.path.insert(0, os.path.dirname(os.path.abspath(__file__)))
import implib
measured = implib.load()
from measured import Unit, Prefix, One, Quantity, IdentityPrefix
from decimal import Decimal
from fractions import Fraction
C = implib.Canon(measured)

def mk_unit(spec):
    u = None
    for p, n, e in spec:
        f = Unit._by_name[n]
        if p: f = Prefix._by_name[p] * f
        f = f ** e if e != 1 else f
        u = f if u is None else u * f
    return One if u is None else u

def mk_num(n):
    kind, a, b = n
    if kind == "int": return int(Fraction(int(a), int(b)))
    if kind == "float": return int(a) / int(b)
    return Decimal(int(a)) / Decimal(int(b))

def relclose(a, b, tol=1e-9):
    a, b = float(a), float(b)
    return a == b or abs(a - b) <= tol * max(abs(a), abs(b))

def sweep():
    """every power of two from 2^-200 to 2^200 (what products of the IEC prefixes and of the byte's 2^3 amount to) combined with decimal prefixes from
    either side: the numeric scale is base^exponent of both, to 1e-9, whichever operand comes first"""
    fails = []
    for e in range(-200, 201):
        b = Prefix(2, e)
        for dname in ("kilo", "milli", "mega", "yocto"):
            d = Prefix._by_name[dname]
            want = Fraction(2) ** e * Fraction(10) ** d.exponent
            for name, f in (("d*b", lambda: d * b), ("b*d", lambda: b * d), ("d/b**-1", lambda: d / (b ** -1)), ("(d*b)*b/b", lambda: ((d * b) * b) / b), ("d*(b*b)/b", lambda: (d * (b * b)) / b)):
                try:
                    got = f().quantify()
                    if not relclose(got, want): fails.append([name, e, dname, repr(got), float(want)])
                except Exception as ex:  # noqa
                    fails.append([name, e, dname, "raised " + implib.errclass(ex), float(want)])
    return fails

def run(data):
    out = []
    if data.get("sweep"):
        return {"results": [], "sweep_fails": sweep()[:20], "sweep_n": 401 * 4 * 5}
    for c in data["cases"]:
        rec = {"fails": []}
        try:
            p, q = Prefix._by_name[c["p"]], Prefix._by_name[c["q"]]
            u = mk_unit(c["u"]); m = mk_num(c["m"]); n = c["n"]
            same_base = (p.base == q.base) and not isinstance(u.prefix.exponent, float) and (u.prefix.base in (0, p.base))
            if data.get("render_first"):
                # the prefixed unit first appears inside a larger unit that is rendered in every style (as a ratio, too), and only then
                # on its own: rendering may not decide what the prefixed unit is
                big = p * (u / mk_unit([[None, "second", 1]]))
                for f_ in (lambda: str(big), lambda: format(big, "/"), lambda: repr(big), lambda: big._repr_html_(), lambda: format(3 * big, "/"), lambda: big.as_ratio()):
                    try: f_()
                    except Exception: pass  # noqa
            pv = p.quantify()
            def chk(name, ok):
                if not ok: rec["fails"].append(name)
            # a prefix scales a unit and nothing else: same dimension, same base-unit factors
            chk("prefix-keeps-dimension", (p * u).dimension is u.dimension and dict((p * u).factors) == dict(u.factors))
            mm = m if not isinstance(m, Decimal) else m
            pvm = Decimal(pv) if isinstance(m, Decimal) else pv
            # m*(p*u) equals (m*value(p))*u
            chk("prefixed-quantity", relclose(((m * (p * u)).unprefixed()).magnitude, ((m * pvm) * u).unprefixed().magnitude) and ((m * (p * u)) == ((m * pvm) * u) or isinstance(m, float) or isinstance(pv, float) or isinstance((p * u).prefix.exponent, float)
                                            or (isinstance(m, Decimal) and len(m.as_tuple().digits) > 9)))      # long Decimals: the two sides round at the context's 28 digits in different places; the digit-level relation below judges them
            # ... to the digits a Decimal magnitude carries, against Python's own Decimal arithmetic (an integral prefix factor is exact)
            if isinstance(m, Decimal) and isinstance(pv, int) and u.prefix is IdentityPrefix:
                got = (m * (p * u)).unprefixed().magnitude
                chk("prefixed-quantity-decimal-digits", isinstance(got, Decimal) and abs(got - m * pv) <= abs(m * pv) * Decimal("1e-24"))
                got2 = ((m * p) * u).unprefixed().magnitude
                chk("prefix-times-number-decimal-digits", isinstance(got2, Decimal) and abs(got2 - m * pv) <= abs(m * pv) * Decimal("1e-24"))
            # (p*u)**n is p**n * u**n -- also when the same power was first asked for with a float exponent (refused)
            for bad_ in (float(n), float(n) + 0.5):
                try: (p * u) ** bad_
                except Exception: pass  # noqa
            lhs, rhs = (p * u) ** n, (p ** n) * (u ** n)
            if same_base: chk("power-distributes", lhs is rhs)
            else: chk("power-distributes~", lhs.factors == rhs.factors and relclose(lhs.prefix.quantify(), rhs.prefix.quantify()))
            # same-base products / quotients add / subtract exponents exactly
            if p.base == q.base:
                chk("exponents-add", (p * q) is Prefix(p.base, p.exponent + q.exponent))
                chk("exponents-sub", (p / q) is Prefix(p.base, p.exponent - q.exponent))
                chk("root-of-power", n == 0 or (p ** n).root(n) is p)
            else:
                chk("mixed-mul", relclose((p * q).quantify(), Fraction(p.base) ** p.exponent * Fraction(q.base) ** q.exponent))
                chk("mixed-div", relclose((p / q).quantify(), Fraction(p.base) ** p.exponent / Fraction(q.base) ** q.exponent))
            # products and quotients cancel back: (p*q)/q is p and (p/q)*q is p (same object for one base, 1e-9 across bases)
            if p.base == q.base:
                chk("cancel-back", ((p * q) / q) is p and ((p / q) * q) is p)
            else:
                chk("cancel-back~", relclose(((p * q) / q).quantify(), pv) and relclose(((p / q) * q).quantify(), pv)
                    and relclose(((q * p) / q).quantify(), pv))
            # base units cancelling completely must keep the prefixes: (p*u) * (q*u**-1) is (p*q) * One
            if u is not One and not isinstance(m, Decimal) and u.prefix is IdentityPrefix:
                full = (p * u) * (q * u ** -1)
                chk("full-cancel-keeps-prefix", set(full.factors) == {One} and relclose(full.prefix.quantify(), Fraction(p.base) ** p.exponent * Fraction(q.base) ** q.exponent))
                qa, qb = Quantity(m, p * u), Quantity(2, q * u ** -1)
                chk("full-cancel-quantity", relclose((qa * qb).unprefixed().magnitude, Fraction(m) * 2 * Fraction(p.base) ** p.exponent * Fraction(q.base) ** q.exponent))
                # a prefixed dimensionless ratio used in a second step keeps its value
                ratio = Quantity(m, p * u) / Quantity(2, u)
                other = Quantity(3, q * u)
                chk("ratio-then-multiply", relclose((ratio * other).unprefixed().magnitude, Fraction(m) / 2 * 3 * Fraction(p.base) ** p.exponent * Fraction(q.base) ** q.exponent))
                if m != 0:
                    chk("ratio-then-divide", relclose((other / ratio).unprefixed().magnitude, 3 * Fraction(q.base) ** q.exponent / (Fraction(m) / 2 * Fraction(p.base) ** p.exponent)))
            # powers of compound mixed-base units: ((p*u)/(q*v))**n has the value of its parts
            if n != 0 and u is not One and u.prefix is IdentityPrefix:
                cu = (p * u) / (q * mk_unit([[None, "second", 1]]))
                chk("compound-power", relclose((cu ** n).prefix.quantify(), (Fraction(p.base) ** p.exponent / Fraction(q.base) ** q.exponent) ** n))
            # a root that lands on a prefix nobody has built yet: it is the same object as the power built afterwards, and its factor is exact
            # (an integer for positive SI exponents, however large)
            if p.base == 10 and isinstance(p.exponent, int) and p.exponent > 0 and u.prefix is IdentityPrefix:
                for nn in (5 + abs(n), 9 + abs(n)):
                    r_ = (p ** (2 * nn)).root(2)
                    chk("root-then-power", r_ is p ** nn and isinstance(r_.exponent, int) and isinstance((p ** nn).quantify(), int)
                        and (p ** nn).quantify() == 10 ** (p.exponent * nn)
                        and (1 * ((p ** nn) * u)).unprefixed().magnitude == (10 ** (p.exponent * nn)) * (1 * u).unprefixed().magnitude)
            chk("identity-neutral", (p * IdentityPrefix) is p and (IdentityPrefix * p) is p and (p / IdentityPrefix) is p and (IdentityPrefix * u) is u)
            # dividing by a prefixed unit divides by its factor
            qq = Quantity(m, u * u)
            d1 = (qq / (p * u)).unprefixed(); d2 = (qq / u).unprefixed()
            if not isinstance(m, Decimal):
                chk("divide-by-prefixed", d1.unit is d2.unit and relclose(d1.magnitude * pv, d2.magnitude))
            # ... also when the divisor's prefix combines two bases (kilo-kibi: a non-integral exponent) and the numerator has none
            if p.base != q.base and not isinstance(m, Decimal) and u.prefix is IdentityPrefix:
                pq = p * q
                e1 = (Quantity(m, u * u) / (pq * u)).unprefixed(); e2 = (Quantity(m, u * u) / u).unprefixed()
                chk("divide-by-mixed-prefixed", relclose(float(e1.magnitude) * float(pq.quantify()), float(e2.magnitude)))
                inv = u / (pq * u)          # unit / prefixed unit: the reciprocal prefix
                chk("divide-by-mixed-prefixed", relclose(float(inv.prefix.quantify()) * float(pq.quantify()), 1.0))
            # stripping prefixes never changes the value
            x = Quantity(m, p * u)
            chk("unprefixed", x.unprefixed() == x or m != m)
            # ordinary bookkeeping on public results (running totals with augmented assignment, scaling in place) cannot change what the
            # prefixed unit means: the value relations are evaluated again afterwards
            if not isinstance(m, Decimal):
                worth = float((1 * (p * u)).unprefixed().magnitude)
                for start in ((p * u).quantify(), Quantity(1, p * u).unprefixed(), 1 * (p * u), (p * u).quantify()):
                    t = start
                    t += Quantity(m, u); t -= Quantity(2, p * u); t *= 3; t /= 7
                    t = start; t += start; t -= Quantity(1, u)
                pq = p.quantify(); pq += 1; pq *= 2
                chk("value-after-accumulating", relclose((1 * (p * u)).unprefixed().magnitude, worth) and relclose(p.quantify(), pv)
                    and relclose((p * u).quantify().magnitude, worth) and relclose(((m * (p * u)).unprefixed()).magnitude, ((m * pvm) * u).unprefixed().magnitude)
                    and relclose(Fraction(p.base) ** p.exponent * (Fraction(u.prefix.base) ** u.prefix.exponent if u.prefix.base and not isinstance(u.prefix.exponent, float) else Fraction(worth) / (Fraction(p.base) ** p.exponent)), worth))
            rec["same_base"] = same_base
        except Exception as ex:  # noqa
            rec["err"] = implib.errclass(ex) + ":" + str(ex)[:100]
        out.append(rec)
    return {"results": out}

implib.main_io(run)
