"""C02 in a long-running process: units obtained early are held, the process then computes a large number of other distinct units, and the
same products are evaluated again by other routes -- they are still the very same objects.  input: {"n": how many other units}"""
import sys, os, json
sys.path.insert(0, os.path.dirname(os.path.abspath(__file__)))
import implib
measured = implib.load()
from measured import Unit, Prefix, One, Dimension, Number
from measured.si import Meter, Second, Gram, Kilo, Milli

def run(data):
    held = {"m/s": Meter / Second, "km": Kilo * Meter, "m3/s": Meter ** 3 / Second, "1/m2": One / Meter ** 2, "mg": Milli * Gram, "L/T": (Meter / Second).dimension,
            "kilo*milli": Kilo * Milli, "one": One}
    n = int(data.get("n", 70000))
    made = 0
    for k in range(2, n):
        u = Second ** k if k % 2 else Gram ** k * Meter        # other units, all distinct, nothing to do with the held ones
        made += 1
    again = {"m/s": [Meter * Second ** -1, (Second / Meter) ** -1, (Meter ** 2 / Second ** 2).root(2), Unit.parse("m/s")],
             "km": [Meter * Kilo, (Kilo * Meter ** 2) / Meter, Unit.parse("km")],
             "m3/s": [Meter ** 2 * (Meter / Second), (Meter ** 6 / Second ** 2).root(2)],
             "1/m2": [Meter ** -2, (Meter ** 2) ** -1, One / Meter / Meter],
             "mg": [Gram * Milli, Unit.parse("mg")],
             "L/T": [measured.Length / measured.Time, (Meter * Second ** -1).dimension, measured.Length * measured.Time ** -1],
             "kilo*milli": [Milli * Kilo, Prefix(10, 0)],
             "one": [Meter / Meter, Second ** 0, (Kilo * Meter) / (Kilo * Meter)]}
    fails = []
    for name, alts in again.items():
        for i, a in enumerate(alts):
            if a is not held[name]: fails.append([name, i, repr(a)[:80], repr(held[name])[:80]])
    return {"made": made, "fails": fails, "units_known": len(Unit._known), "dimensions_known": len(Dimension._known)}

implib.main_io(run)
