"""Mixed-base prefix laws, numerically (C02/C11): value(p*q) = value(p)*value(q) etc. within 1e-9."""
import sys, os, json, random, math
sys.path.insert(0, os.path.dirname(os.path.abspath(__file__)))
import implib
measured = implib.load()
from measured import Prefix, IdentityPrefix
from fractions import Fraction

def val(p):
    return float(p.quantify())

def exact(p):
    # exact value of a registered prefix
    return Fraction(p.base) ** p.exponent if p.base else Fraction(1)

def run(data):
    rng = random.Random(data["seed"])
    named = sorted(Prefix._by_name.values(), key=lambda p: (p.base, p.exponent))
    small = [p for p in named if abs(p.exponent) <= 30]
    bad = []; n = 0
    def chk(law, args, got, want):
        nonlocal n
        n += 1
        rel = abs(got - want) / abs(want) if want else abs(got)
        if not rel <= 1e-9:
            bad.append({"law": law, "args": args, "got": got, "want": want, "rel": rel})
    for _ in range(data["n"]):
        p, q, r = rng.choice(small), rng.choice(small), rng.choice(small)
        nm = lambda x: x.name
        ep, eq, er = exact(p), exact(q), exact(r)
        chk("mul", [nm(p), nm(q)], val(p * q), float(ep * eq))
        chk("comm", [nm(p), nm(q)], val(p * q), val(q * p))
        chk("div", [nm(p), nm(q)], val(p / q), float(ep / eq))
        chk("assoc", [nm(p), nm(q), nm(r)], val((p * q) * r), val(p * (q * r)))
        chk("inverse", [nm(p), nm(q)], val((p * q) / q), float(ep))
        chk("neutral", [nm(p)], val(p * IdentityPrefix), float(ep))
        k = rng.choice([-3, -2, -1, 1, 2, 3])
        chk("pow", [nm(p), nm(q), k], val((p * q) ** k), float((ep * eq) ** k))
    return {"n": n, "bad": bad[:20]}

implib.main_io(run)
