"""Evaluate unit-expression histories on the implementation.
input : {"histories": [[op, ...], ...], "monitor": bool}
  op  : ["define", dimexpr]                      -> fresh base unit of that dimension
        ["eval", expr]
  expr: ["u", name] | ["b", k] (k-th fresh base unit of this history) | ["mul",a,b] | ["div",a,b]
        | ["pow",a,n] | ["root",a,n] | ["pre", prefixname, a] | ["num",a] | ["den",a] | ["quant",a]
        | ["via", route, a]   (identity routes through the public API: pickle, copy, json, parse-str ...)
  dimexpr: list of [dimension name, exponent]
output: per history, per op: {"leaves": {...}, "res": canonical unit | {"err": class}}
        and, when monitoring, the first unit of Unit._known whose dimension differs from the
        product of its factors' dimensions after each op."""
import sys, os, json, pickle, copy
sys.path.insert(0, os.path.dirname(os.path.abspath(__file__)))
import implib
measured = implib.load()
from measured import Unit, Prefix, Dimension, Number, One, Quantity
from measured.json import MeasuredJSONEncoder, MeasuredJSONDecoder
from functools import reduce
import operator

C = implib.Canon(measured)
COUNTER = [0]

def product_dim(u):
    d = Number
    for f, e in u.factors.items():
        d = d * (f.dimension ** e)
    return d

def monitor():
    """C01's observable: every interned unit reports the product of its factors' dimensions."""
    for u in list(Unit._known.values()):
        if product_dim(u) is not u.dimension:
            return C.unit(u)
    return None

def render_routes(u):
    # every rendering the property lists; results are ignored, interning side effects are not
    str(u); repr(u); format(u, ""); format(u, "/")
    u._repr_html_()
    class P:
        def group(self, indent=0):
            import contextlib; return contextlib.nullcontext()
        def text(self, s): pass
        def break_(self): pass
        def pretty(self, o):
            if hasattr(o, "_repr_pretty_"): o._repr_pretty_(self, False)
    u._repr_pretty_(P(), False)

def collect(e, fresh, leaves):
    """leaf triples in evaluation order, recorded before anything is evaluated"""
    k = e[0]
    if k == "u": leaves.append(C.unit(Unit.named(e[1])))
    elif k == "b": leaves.append(C.unit(fresh[e[1]]))
    else:
        for x in e[1:]:
            if isinstance(x, list) and x and isinstance(x[0], str) and x[0] in KINDS:
                collect(x, fresh, leaves)

KINDS = {"u", "b", "mul", "div", "pow", "root", "pre", "num", "den", "quant", "via"}

def ev(e, fresh, leaves):
    k = e[0]
    if k == "u":
        return Unit.named(e[1])
    if k == "b":
        return fresh[e[1]]
    if k == "mul": a = ev(e[1], fresh, leaves); b = ev(e[2], fresh, leaves); return a * b
    if k == "div": a = ev(e[1], fresh, leaves); b = ev(e[2], fresh, leaves); return a / b
    if k == "pow":
        a = ev(e[1], fresh, leaves)
        if REFUSED_FIRST[0]:
            # the same power asked for with an exponent the library refuses (a float): refused, and without consequence for the integer power
            for bad in (float(e[2]), float(e[2]) + 0.5):
                try: a ** bad
                except Exception: pass  # noqa
        return a ** e[2]
    if k == "root":
        a = ev(e[1], fresh, leaves)
        if REFUSED_FIRST[0]:
            for bad in (0, float(e[2])):
                try: a.root(bad)
                except Exception: pass  # noqa
        return a.root(e[2])
    if k == "pre":
        a = ev(e[2], fresh, leaves)
        p = Prefix._by_name[e[1]] if isinstance(e[1], str) else Prefix(e[1][0], e[1][1])
        return a * p if (len(e) > 3 and e[3] == "r") else p * a        # the prefix written on the right of the unit
    if k == "num":
        a = ev(e[1], fresh, leaves); render_routes(a); return a.as_ratio()[0]
    if k == "den":
        a = ev(e[1], fresh, leaves); render_routes(a); return a.as_ratio()[1]
    if k == "quant":
        a = ev(e[1], fresh, leaves)
        q = a.quantify()
        assert (5 * a).unprefixed().unit is q.unit
        return q.unit
    if k == "via":
        a = ev(e[2], fresh, leaves); r = e[1]
        if r == "pickle": return pickle.loads(pickle.dumps(a))
        if r == "copy": return copy.copy(a)
        if r == "deepcopy": return copy.deepcopy(a)
        if r == "json": return json.loads(json.dumps(a, cls=MeasuredJSONEncoder), cls=MeasuredJSONDecoder)
        if r == "qmul": return (3 * a * 2).unit
        if r == "qdiv": return ((3 * a) / (2 * One)).unit
        raise ValueError(r)
    raise ValueError(k)

REFUSED_FIRST = [False]

def run(data):
    out = []
    REFUSED_FIRST[0] = bool(data.get("refused_first"))
    for hist in data["histories"]:
        fresh = []
        hres = []
        for op in hist:
            rec = {}
            try:
                if op[0] == "define":
                    d = reduce(operator.mul, [Dimension._by_name[n] ** x for n, x in op[1]], Number)
                    COUNTER[0] += 1
                    u = d.unit(f"vfbase{COUNTER[0]}", f"vfb{COUNTER[0]}")
                    fresh.append(u)
                    C.refresh()
                    rec["res"] = C.unit(u)
                else:
                    leaves = []
                    rec["leaves"] = leaves
                    collect(op[1], fresh, leaves)
                    u = ev(op[1], fresh, leaves)
                    rec["res"] = C.unit(u)
            except Exception as ex:  # noqa
                rec["res"] = {"err": implib.errclass(ex), "msg": str(ex)[:200]}
            if data.get("monitor"):
                bad = monitor()
                if bad is not None:
                    rec["monitor_bad"] = bad
            hres.append(rec)
        out.append(hres)
    env = [[C.base_id(u), C.dim(u.dimension), u.name] for u in C.base_units]
    return {"results": out, "env": env}

implib.main_io(run)
