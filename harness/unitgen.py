"""Random unit-expression histories, an independent free-abelian-group oracle in Python, and the
translation of (expression, implementation leaf triples) into Coq terms."""
from common import *

DIM_POOL = [
    [["length", 1]], [["time", 1]], [["mass", 1]], [["number", 1]],
    [["length", 3], ["time", -1]], [["length", 1], ["time", -2]], [["time", -1]],
    [["length", 2], ["mass", 1], ["time", -2]], [["charge", 1], ["time", -1]],
    [["length", -3], ["mass", 1]], [["length", 2], ["time", -3], ["mass", 1], ["charge", -2]],
]

NAMES = ["meter", "second", "gram", "kilogram", "coulomb", "kelvin", "radian", "hertz", "newton", "joule",
         "watt", "volt", "ohm", "farad", "liter", "foot", "inch", "mile", "acre", "pound", "minute", "hour",
         "bit", "byte", "one", "pascal", "ampere", "siemens", "tesla", "lux", "gray", "katal", "knot",
         "horsepower", "gallon", "hectare", "degree", "steradian", "mole", "candela"]
SI_PREFIXES = ["kilo", "milli", "mega", "micro", "centi", "giga", "nano", "hecto", "deci", "deca"]
IEC_PREFIXES = ["kibi", "mebi"]

def gen_expr(rng, depth, nfresh, names, mixed_ok=True):
    if depth <= 0 or rng.random() < 0.22:
        if nfresh and rng.random() < 0.45:
            return ["b", rng.randrange(nfresh)]
        return ["u", rng.choice(names)]
    r = rng.random()
    if r < 0.26:
        return ["mul", gen_expr(rng, depth - 1, nfresh, names), gen_expr(rng, depth - 1, nfresh, names)]
    if r < 0.46:
        return ["div", gen_expr(rng, depth - 1, nfresh, names), gen_expr(rng, depth - 1, nfresh, names)]
    if r < 0.60:
        return ["pow", gen_expr(rng, depth - 1, nfresh, names), rng.choice([-3, -2, -1, 0, 1, 2, 2, 3])]
    if r < 0.70:
        n = rng.choice([-3, -2, -1, 1, 2, 2, 3, 0])
        inner = gen_expr(rng, depth - 1, nfresh, names)
        if rng.random() < 0.6 and n != 0:
            inner = ["pow", inner, n * rng.choice([1, 1, 2, -1])]
        return ["root", inner, n]
    if r < 0.80:
        pool = SI_PREFIXES + (IEC_PREFIXES if (mixed_ok and rng.random() < 0.15) else [])
        return ["pre", rng.choice(pool), gen_expr(rng, depth - 1, nfresh, names)] + (["r"] if rng.random() < 0.4 else [])
    if r < 0.87:
        return ["num", gen_expr(rng, depth - 1, nfresh, names)]
    if r < 0.94:
        return ["den", gen_expr(rng, depth - 1, nfresh, names)]
    if r < 0.97:
        return ["quant", gen_expr(rng, depth - 1, nfresh, names)]
    return ["via", rng.choice(["pickle", "copy", "deepcopy", "json", "qmul", "qdiv"]),
            gen_expr(rng, depth - 1, nfresh, names)]

def gen_history(rng, nops, depth, names):
    h = []
    nfresh = 0
    for _ in range(nops):
        if nfresh < 3 and rng.random() < (0.5 if nfresh == 0 else 0.12):
            h.append(["define", rng.choice(DIM_POOL)])
            nfresh += 1
        else:
            h.append(["eval", gen_expr(rng, rng.randint(1, depth), nfresh, names)])
    return h

def expr_size(e):
    return 1 + sum(expr_size(x) for x in e[1:] if isinstance(x, list) and x and isinstance(x[0], str))

# ------------------------------------------------ independent oracle (free abelian group in Python)
class Frac(Exception): pass
class Mixed(Exception): pass

def fm_mul(a, b, s=1):
    r = dict(a)
    for k, e in b.items():
        r[k] = r.get(k, 0) + s * e
    return {k: e for k, e in r.items() if e != 0}

def fm_pow(a, n):
    return {k: e * n for k, e in a.items() if e * n != 0}

def fm_root(a, n):
    if any(e % n for e in a.values()):
        raise Frac()
    return {k: e // n for k, e in a.items()}

def p_norm(b, e):
    return (0, 0) if (e == 0 or b == 0) else (b, e)

def p_mul(p, q, s=1):
    if q[0] == 0: return p
    if p[0] == 0: return p_norm(q[0], s * q[1])
    if p[0] != q[0]: raise Mixed()
    return p_norm(p[0], p[1] + s * q[1])

def oracle(e, leaves, prefixes, envdims):
    """normal form (prefix, factors) and dimension of an expression; leaves consumed left to right"""
    it = iter(leaves)
    def dim_of(f):
        d = {}
        for k, x in f.items():
            d = fm_mul(d, fm_pow(envdims[k], x))
        return d
    def go(e):
        k = e[0]
        if k in ("u", "b"):
            l = next(it)
            if isinstance(l["p"], dict): raise Mixed()
            return (tuple(l["p"]), {a: b for a, b in l["f"]})
        if k in ("mul", "div"):
            a = go(e[1]); b = go(e[2]); s = 1 if k == "mul" else -1
            return (p_mul(a[0], b[0], s), fm_mul(a[1], b[1], s))
        if k == "pow":
            a = go(e[1]); return (p_norm(a[0][0], a[0][1] * e[2]), fm_pow(a[1], e[2]))
        if k == "root":
            a = go(e[1]); n = e[2]
            if n == 0: return ((0, 0), {})
            if a[0][1] % n: raise Frac()
            return (p_norm(a[0][0], a[0][1] // n), fm_root(a[1], n))
        if k == "pre":
            a = go(e[2]); p = prefixes[e[1]] if isinstance(e[1], str) else e[1]
            if isinstance(p, dict): raise Mixed()
            return (p_mul(a[0], tuple(p)), a[1])
        if k == "num":
            a = go(e[1]); return (a[0], {x: y for x, y in a[1].items() if y > 0})
        if k == "den":
            a = go(e[1]); return ((0, 0), {x: -y for x, y in a[1].items() if y < 0})
        if k == "quant":
            a = go(e[1]); return ((0, 0), a[1])
        if k == "via":
            return go(e[2])
        raise ValueError(k)
    p, f = go(e)
    return p, f, (dim_of(f) if envdims else None)

# ------------------------------------------------ to Coq
def coq_expr(e, leaves, prefixes):
    it = iter(leaves)
    def go(e):
        k = e[0]
        if k in ("u", "b"):
            l = next(it)
            if isinstance(l["p"], dict):
                raise Mixed()
            return f"(ELit {cunit3(l)})"
        if k == "mul": a = go(e[1]); b = go(e[2]); return f"(EMul {a} {b})"
        if k == "div": a = go(e[1]); b = go(e[2]); return f"(EDiv {a} {b})"
        if k == "pow": return f"(EPow {go(e[1])} {cZ(e[2])})"
        if k == "root": return f"(ERoot {go(e[1])} {cZ(e[2])})"
        if k == "pre":
            p = prefixes[e[1]] if isinstance(e[1], str) else e[1]
            if isinstance(p, dict):
                raise Mixed()
            a = go(e[2]); return f"(EPre {cprefix(p)} {a})"
        if k == "num": return f"(ENum {go(e[1])})"
        if k == "den": return f"(EDen {go(e[1])})"
        if k == "quant": return f"(EQuant {go(e[1])})"
        if k == "via": return go(e[2])
        raise ValueError(k)
    return go(e)

def coq_outcome(res, oidmap):
    if "err" in res:
        return "OFrac" if res["err"] == "FractionalDimensionError" else "OOther"
    o = oidmap.setdefault(res["o"], len(oidmap))
    if isinstance(res["p"], dict):
        return f"(OMixedUnit {cnat(o)})"
    return f"(OUnit {cunit3(res)} {cnat(o)})"

def coq_env(env):
    return clist(f"({cpos(i)}, {cfmap(d)})" for i, d, _ in env)

def coq_history(hist, results, prefixes, dimnames):
    """one history as a Coq list of (op, outcome); None if it leaves the exact model (mixed-base leaves)"""
    items = []
    oidmap = {}
    for op, rec in zip(hist, results):
        res = rec["res"]
        if op[0] == "define":
            if "err" in res:
                return items, True
            bid = res["f"][0][0]
            items.append(f"(Define {cpos(bid)} {cfmap(res['d'])}, {coq_outcome(res, oidmap)})")
        else:
            try:
                ce = coq_expr(op[1], rec.get("leaves", []), prefixes)
            except (Mixed, StopIteration):
                return items, True     # truncated: expression outside the exact model
            try:
                oracle(op[1], rec.get("leaves", []), prefixes, {})
                oc = coq_outcome(res, oidmap)
            except Mixed:
                # a mixed-base (SI x IEC) product occurs inside: outside the exact model, whatever the final shape
                oc = "(OMixedUnit 0%nat)"
            except Frac:
                oc = coq_outcome(res, oidmap)
            items.append(f"(Eval {ce}, {oc})")
    return items, False
