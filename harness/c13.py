"""C13 — str() output parses back to the same unit/quantity; spellings are equivalent."""
import sys, os
sys.path.insert(0, os.path.dirname(os.path.abspath(__file__)))
from common import *

PHEADER = """From stdpp Require Import gmap.
From Coq Require Import ZArith List.
From Measured Require Import Model.FMap Model.Units Model.Parse Model.ParseCheck Model.Check.
Import ListNotations.
Local Open Scope Z_scope.
"""

def cstr(s): return clist(str(ord(ch)) for ch in s)
def exact(u): return not isinstance(u["p"], dict)

def parse_worker(payload):
    p = subprocess.run([IMPL_PY, os.path.join(ROOT, "harness", "impl", "parse_worker.py")], input=json.dumps(payload), capture_output=True, text=True, env=impl_env(), timeout=1500)
    if p.returncode != 0: raise ImplCrash("parse_worker.py", p.returncode, p.stderr[-2000:])
    return json.loads(p.stdout)

def tables_coq(T):
    usym = clist(f"({cstr(s)}, {cunit3(u)})" for s, u in T["usym"] if exact(u))
    uname = clist(f"({cstr(s)}, {cunit3(u)})" for s, u in T["uname"] if exact(u))
    psym = clist(f"({cstr(s)}, {cprefix(p)})" for s, p in T["psym"] if not isinstance(p, dict))
    pus = clist(f"({cunit3(u)}, {cstr(s)})" for u, s in T["unit_first_symbol"] if exact(u))
    pas = clist(f"({cpos(a)}, {cstr(s)})" for a, s in T["atom_first_symbol"])
    pps = clist(f"({cprefix(p)}, {cstr(s)})" for p, s in T["prefix_symbol"] if not isinstance(p, dict))
    env = clist(f"({cpos(i)}, {cfmap(d)})" for i, d, _ in T["env"])
    return (f"Definition bd : env := {env}.\nDefinition tab : symtab := MkSym {usym} {uname} {psym}.\n"
            f"Definition pt : printab := MkPrint {pus} {pas} {pps}.\n")

def pres_term(back):
    if "err" in back:
        return {"KeyError": "PKeyError"}.get(back["err"], "PFrac")
    if not exact(back["u"]): return "PMixed"
    return f"(POk {cunit3(back['u'])})"

def spellings(rng, terms):
    """alternative texts of one unit expression given as [(symbol or name, exponent)]"""
    SUP = {"-": "⁻", "0": "⁰", "1": "¹", "2": "²", "3": "³", "4": "⁴", "5": "⁵", "6": "⁶", "7": "⁷", "8": "⁸", "9": "⁹"}
    def term(s, e, style):
        if e == 1: return s
        if style == "^": return f"{s}^{e}"
        return s + "".join(SUP[ch] for ch in str(e))
    out = []
    for sep in ("⋅", "*", " ", " * ", " ⋅ ", "  "):
        for style in ("^", "sup"):
            out.append(sep.join(term(s, e, style) for s, e in terms))
    num = [(s, e) for s, e in terms if e > 0]; den = [(s, -e) for s, e in terms if e < 0]
    if num and den:
        for sep in ("⋅", "*", " "):
            out.append(sep.join(term(s, e, "^") for s, e in num) + rng.choice(["/", " / "]) + sep.join(term(s, e, "sup") for s, e in den))
    return out

def main():
    c = Check("C13")
    c.static_theorems()
    # tie A: the rendering functions change nothing reachable from their arguments (printing a unit or a quantity leaves it as it was)
    try:
        import struct_scan
        muts = struct_scan.argument_mutations("formatting.py")
        txt_ = ("From Coq Require Import List. Import ListNotations.\n"
                f"(* statements of formatting.py that mutate an argument: {muts} *)\n"
                f"Definition argument_mutations_in_formatting : list nat := {clist('%d%%nat' % min(l_, 4999) for _f, l_, _s in muts)}.\n"
                "Lemma renderers_do_not_mutate_their_arguments : argument_mutations_in_formatting = [].\nProof. reflexivity. Qed.\n")
        ok_, log_ = c.run_coq({"Gen_purity": txt_})["Gen_purity"]
        c.oblige("Gen_purity.renderers_do_not_mutate_their_arguments (no statement of formatting.py assigns to, augments, deletes from or calls a mutating method on an object reachable from a parameter)",
                 ok_, f"mutating statements: {muts}")
    except Exception as ex:
        c.oblige("struct_scan.argument_mutations (translator over formatting.py)", False, str(ex))
    rng = c.rng
    quick = c.tier == "quick"
    exp = impl("export_worker.py", {})
    names = sorted(exp["unit_by_name"]); prefixes = sorted(n for n, p in exp["prefix_by_name"].items() if not isinstance(p, dict))
    # ---------------- cases on the implementation
    cases = []
    for n in names:                                   # exhaustive: every named unit x (no prefix + every prefix) x exponent
        for p in [None] + prefixes:
            for e in ((1, 2, -1) if quick else (1, 2, 3, -1, -2)):
                cases.append({"op": "roundtrip", "u": [[p, n, e]]})
    for _ in range(400 if quick else 6000):           # products
        k = rng.choice([2, 2, 3])
        cases.append({"op": "roundtrip", "u": [[rng.choice([None, None] + prefixes), rng.choice(names), rng.choice([1, 1, 2, -1, -2, 3])] for _ in range(k)]})
    # exponents of more than one digit (most significant digit first, not palindromes), both signs, with and without a prefix
    BIG = (10, 12, -12, 21, -20, 13, 100, 123, -321, 1020)
    for n in (rng.sample(names, 12 if quick else 60) + [x for x in ("meter", "second", "newton", "hertz") if x in names]):
        for p in (None, rng.choice(prefixes)):
            for e in (BIG if not quick else rng.sample(BIG, 5)):
                cases.append({"op": "roundtrip", "u": [[p, n, e]]})
    for _ in range(40 if quick else 500):
        cases.append({"op": "roundtrip", "u": [[rng.choice([None] + prefixes), rng.choice(names), rng.choice(BIG)], [None, rng.choice(names), rng.choice([1, -1, 2] + list(BIG))]]})
    nrt = len(cases)
    MAGS = [["int", "3", "1"], ["int", "-12", "1"], ["float", "5", "2"], ["float", "-1", "8"], ["int", "0", "1"], ["float", "6020000", "1"]]
    for _ in range(300 if quick else 4000):
        k = rng.choice([1, 1, 2, 3])
        cases.append({"op": "qroundtrip", "m": rng.choice(MAGS), "u": [[rng.choice([None, None] + prefixes), rng.choice(names), rng.choice([1, 1, 2, -1, -2])] for _ in range(k)]})
    # quantities whose prefix cannot be written onto the first factor (milli.(m^2)): str() folds the prefix into the magnitude; the folded
    # text must parse back to an equal quantity (magnitudes where m * 10**-k and m / 10**k differ in the last bit included)
    for p in ("milli", "centi", "micro", "kilo", "deci", "mega"):
        if p not in prefixes: continue
        for u, e in (("meter", 2), ("meter", 3), ("second", 2), ("gram", 3)):
            if u not in names: continue
            for m in (["int", "9", "1"], ["int", "13", "1"], ["int", "18", "1"], ["int", "26", "1"], ["int", "36", "1"], ["float", "7", "10"], ["float", "11", "10"], ["int", "7", "1"]):
                cases.append({"op": "qroundtrip", "m": m, "u": [[p, u, 1], [None, u, e - 1]]})
                cases.append({"op": "qroundtrip", "m": m, "u": [[p, u, 1], [None, u, e - 1], [None, "second" if u != "second" else "meter", -1]]})
    r0 = parse_worker({"cases": [], "tables": True})
    T = r0["tables"]
    symbols = [s for s, u in T["usym"]]
    lexable = lambda s: all(ch == "1" or ch.isalpha() and (ch.isascii() or ch in "Å" or "Α" <= ch <= "ω" or "ₐ" <= ch <= "ₜ") or ch in ".°-()☉" for ch in s)
    sp_start = len(cases)
    for _ in range(150 if quick else 2000):
        k = rng.choice([1, 2, 2, 3])
        syms = [rng.choice(symbols) for _ in range(k)]
        if not all(lexable(s) for s in syms) or len(set(syms)) < k: continue
        terms = [(s, rng.choice([1, 2, -1, -2, 3, -3, 12, -21, 10, 130])) for s in syms]
        cases.append({"op": "spellings", "texts": spellings(rng, terms)})
    # every registered dimensionless unit as the denominator of a ratio, under several numerators: the spellings of one expression agree
    dimless = [s_ for s_, u_ in T["usym"] if not u_["d"] and lexable(s_) and s_ not in ("1",)]
    for d_ in dimless:
        for n_ in ("m", "W", "kg"):
            if n_ == d_: continue
            cases.append({"op": "spellings", "texts": [f"{n_}/{d_}", f"{n_} / {d_}", f"{n_}⋅{d_}⁻¹", f"{n_}*{d_}^-1", f"{n_} {d_}^-1"]})
    # resolution: every prefix symbol in front of every unit symbol, every name, every symbol, random strings
    res_start = len(cases)
    psyms = [s for s, p in T["psym"]]
    for ps in psyms:
        for s in symbols:
            cases.append({"op": "resolve", "s": ps + s})
    for s in symbols + [n for n, u in T["uname"]] + ["", "zz", "k", "kk", "mm", "dam", "min", "cd", "mol", "Mm", "µm", "μm", "kkm", " m", "m "]:
        cases.append({"op": "resolve", "s": s})
    r = parse_worker({"cases": cases})
    res = r["results"]
    # late registration: texts that resolve through a prefix split, later declared as exact symbols (separate process: it registers units)
    late = [{"op": "late_symbol", "text": t, "dim": d, "name": f"vf late {i}"} for i, (t, d) in enumerate(
        [(ps + us, d) for ps, us, d in (("G", "m", "length"), ("k", "t", "speed"), ("m", "K", "time"), ("M", "s", "mass"), ("μ", "g", "length")) if ps + us not in symbols])]
    for cs, x in zip(late, parse_worker({"cases": late})["results"]):
        c.count(cs, nontrivial=True)
        if "err" in x:
            c.violation(f"late-symbol-raises:{x['err']}", f"registering {cs['text']!r} as a new unit's symbol after it had been parsed: {x.get('msg')}", {"case": cs, "outcome": x})
        elif not (x["same"] and x["quantity_same_unit"]):
            c.violation("stale-symbol", f"{cs['text']!r} was parsed (prefix + symbol), then declared as the symbol of a new unit; str(new unit) is {x['str_new']!r} but parsing it "
                                        "does not return the new unit", {"case": cs, "outcome": x})
    # ---------------- Coq: the tables, the collision sweep, model = implementation
    td = tables_coq(T)
    known_coll = sorted(k["key"][len("collision:"):] for k in c.known if k["key"].startswith("collision:"))
    usym_exact = [s for s, u in T["usym"] if exact(u)]
    psym_exact = [s for s, p in T["psym"] if not isinstance(p, dict)]
    uname_exact = [n for n, u in T["uname"] if exact(u)]
    files = {"Gen_symtab": PHEADER + td +
             "Definition coll := Eval vm_compute in collisions tab.\nPrint coll.\n"
             "Definition shad := Eval vm_compute in shadowed_names tab.\nPrint shad.\n"}
    # correspondence shards
    ritems, pitems, bitems = [], [], []
    for cs, x in zip(cases[res_start:], res[res_start:]):
        if "u" in x:
            rx = f"(RUnit {cunit3(x['u'])})" if exact(x["u"]) else "RMixedUnit"
        else:
            rx = "RKeyError" if x.get("err") == "KeyError" else "ROther"
        ritems.append(f"({cstr(cs['s'])}, {rx})")
    for cs, x in zip(cases[:nrt], res[:nrt]):
        if "err" in x or not exact(x["unit"]): continue
        u = x["unit"]
        of = clist(f"({cpos(a)}, {cZ(e)})" for a, e in u["of"])
        pitems.append(f"({cunit3(u)}, {of}, {cstr(x['text'])})")
        bitems.append(f"({cunit3(u)}, {of}, {pres_term(x['back'])})")
    sh = 700
    for k in range(0, len(ritems), sh):
        files[f"Run_resolve_{k // sh}"] = PHEADER + td + f"Definition cases : list (str * rexp) := {clist(ritems[k:k + sh])}.\nDefinition mm := Eval vm_compute in mismatches (resolve_ok tab) cases.\nPrint mm.\nLemma run_agrees : mm = [].\nProof. reflexivity. Qed.\n"
    # text level: the text the model's printer writes, scanned and parsed by the character-level model of the shipped parser
    # (Model/Lex.v + LR.v on the regenerated tables), gives back exactly the printed term list
    import lexgen
    try:
        pdefs = lexgen.parser_defs()
        tl = ("Definition text_ok (c : unit3 * list (positive * Z) * str) : bool := let '(u, of, _) := c in\n"
              "  match print_terms pt u of with PTerms l => render_parses_back NM lex_order lex_ignore lr_rules rule_infos filtered lr_terminals end_sym T_unit l | _ => true end.\n"
              "Definition mmt := Eval vm_compute in mismatches text_ok pcases.\nPrint mmt.\nLemma text_level_agrees : mmt = [].\nProof. reflexivity. Qed.\n")
    except lexgen.Untranslatable as ex:
        pdefs, tl = "", ""
        c.oblige("lexgen.parser_defs (translator of the shipped parser for the text-level round trip)", False, f"untranslatable: {ex}")
    for k in range(0, len(pitems), sh):
        files[f"Run_print_{k // sh}"] = (PHEADER + pdefs + td + f"Definition pcases : list (unit3 * list (positive * Z) * str) := {clist(pitems[k:k + sh])}.\n"
            f"Definition bcases : list (unit3 * list (positive * Z) * pres) := {clist(bitems[k:k + sh])}.\n"
            "Definition mmp := Eval vm_compute in mismatches (print_ok pt) pcases.\nPrint mmp.\nDefinition mmb := Eval vm_compute in mismatches (roundtrip_ok tab pt) bcases.\nPrint mmb.\n"
            "Lemma print_agrees : mmp = [].\nProof. reflexivity. Qed.\nLemma roundtrip_agrees : mmb = [].\nProof. reflexivity. Qed.\n" + tl)
    out = c.run_coq(files)
    okg, logg = out["Gen_symtab"]
    def pairs(tag):
        m = re.search(tag + r" =\s*(\[[^\]]*\])", logg, re.S)
        return None if not m else m.group(1)
    coll_txt, shad_txt = pairs("coll"), pairs("shad")
    coll = [(int(a), int(b)) for a, b in re.findall(r"\(\s*(\d+)%nat,\s*(\d+)%nat\s*\)", coll_txt or "")] if coll_txt is not None else None
    shad = [int(x) for x in re.findall(r"(\d+)%nat", shad_txt or "")] if shad_txt is not None else None
    c.oblige("Gen_symtab: the exported symbol tables evaluate in the model (collision sweep over every prefix symbol x unit symbol, every registered name)", okg and coll is not None and shad is not None, logg[-800:])
    model_coll = sorted(psym_exact[i] + "+" + usym_exact[j] for i, j in (coll or []))
    c.cov["prefix_symbol_grid"] = len(psym_exact) * len(usym_exact)
    c.cov["model_collisions"] = model_coll
    c.cov["names_shadowed_or_unresolvable"] = [uname_exact[i] for i in (shad or [])]
    for n, (ok, log) in sorted(out.items()):
        if n == "Gen_symtab": continue
        mm = re.findall(r"mm[pbt]? =\s*(\[[^\]]*\])", log, re.S)
        c.oblige(f"{n}: model = implementation ({'Unit.resolve_symbol' if 'resolve' in n else 'str(unit) text, Unit.parse(str(unit)), and the printed text parsed back by the character-level parser model'})", ok, (str(mm) + log[-500:])[:900])
    # ---------------- the property on the implementation
    stats = {"same_object": 0, "leading_magnitude": 0, "prefix_without_symbol": 0, "collision": 0, "quantities": 0, "spellings": 0}
    seen_coll = set()
    for cs, x in zip(cases[:nrt], res[:nrt]):
        c.count(cs, nontrivial=True)
        if "err" in x: continue
        repl = {"unit": cs["u"], "str": x["text"], "parsed_back": x["back"]}
        text = x["text"]
        if x.get("same"): stats["same_object"] += 1; continue
        if "err" in x["back"]:
            if " " in text and text.split(" ")[0][0] in "0123456789.-+":
                stats["leading_magnitude"] += 1
                # the recorded finding is about units whose prefix CANNOT be written onto the first factor (its exponent does not divide the
                # prefix's, or the prefix mixes bases); a unit whose prefix can be pushed (k1, km², ...) and still prints a leading magnitude is new
                u_ = x.get("unit") or {}
                pushable = (not isinstance(u_.get("p"), dict)) and "of" in u_ and (not u_["of"] or (u_["of"][0][1] != 0 and u_["p"][1] % abs(u_["of"][0][1]) == 0))      # no factor but One: k1
                c.violation("unprintable:leading-magnitude" if not pushable else f"unprintable:leading-magnitude-although-pushable:{text}",
                            f"str() is {text!r}, which does not parse as a unit ({x['back']['err']})", repl)
            elif text[0] in "0123456789":
                stats["prefix_without_symbol"] += 1
                c.violation("unprintable:prefix-without-symbol", f"str() is {text!r}, which does not parse as a unit ({x['back']['err']})", repl)
            else:
                c.violation(f"unparseable:{text}", f"str() is {text!r} and parsing it raises {x['back']['err']}: {x['back'].get('msg')}", repl)
            continue
        # parsed to another object: the deliberate kg-style mapping keeps scale and dimension
        b, u = x["back"]["u"], x["unit"]
        if exact(b) and exact(u) and b["d"] == u["d"] and b["p"] == u["p"] and b["f"] == u["f"]:
            c.violation("same-key-different-object", "parsing str() gave an equal but different object", repl); continue
        if x.get("equal_value") is True:
            stats["equal_mapped"] = stats.get("equal_mapped", 0) + 1      # the deliberate mapping of a prefixed symbol to an equal named unit (kg)
            continue
        stats["collision"] += 1
        sym = "".join(ch for ch in text.split("⋅")[0] if ch not in "⁻⁰¹²³⁴⁵⁶⁷⁸⁹")
        c.violation(f"collision:{sym}", f"str() is {text!r}, which parses to a different unit ({b})", repl)
    for cs, x in zip(cases[nrt:sp_start], res[nrt:sp_start]):
        c.count(cs, nontrivial=True)
        if "err" in x: continue
        stats["quantities"] += 1
        repl = {"quantity": cs, "str": x["text"], "parsed_back": x["back"]}
        if "err" in x["back"]:
            first = x["text"].split(" ", 1)[1] if " " in x["text"] else x["text"]
            key = "unprintable:prefix-without-symbol" if first[:1] in "0123456789" else f"quantity-unparseable:{x['text']}"
            c.violation(key, f"str(quantity) is {x['text']!r}, parsing raises {x['back']['err']}", repl)
        elif x.get("unit_text", "x")[:1] in "0123456789.-" and " " in x.get("unit_text", "") and x.get("equal") is True and x.get("same_type") is not True:
            # the unit prints a leading magnitude, which str(quantity) folds into the quantity's own: the value comes back equal (the fold is the
            # very multiplication == performs) but an int magnitude comes back as a float; an UNEQUAL quantity is not this finding
            c.violation("unprintable:leading-magnitude", f"str(quantity) is {x['text']!r} (the unit alone prints as {x['unit_text']!r})", repl)
        elif x.get("equal") is not True:
            # a folded leading magnitude goes through float rounding; a collision changes the unit
            bu, u = x["back"]["u"], x["unit"]
            if exact(bu) and exact(u) and bu["d"] != u["d"] or (exact(bu) and exact(u) and bu["f"] != u["f"]):
                sym = "".join(ch for ch in x["text"].split(" ", 1)[1].split("⋅")[0] if ch not in "⁻⁰¹²³⁴⁵⁶⁷⁸⁹")
                c.violation(f"collision:{sym}", f"str(quantity) is {x['text']!r}, which parses to a quantity of another unit", repl)
            else:
                c.violation("quantity-not-equal", f"str(quantity) is {x['text']!r}, which parses to an unequal quantity ({x['back']})", repl)
        elif x.get("same_type") is not True:
            c.violation("quantity-type", f"magnitude type changed through str/parse: {x['text']!r}", repl)
    for cs, x in zip(cases[sp_start:res_start], res[sp_start:res_start]):
        c.count(cs, nontrivial=True)
        if "err" in x: continue
        stats["spellings"] += 1
        if not x["all_same"]:
            kinds = {json.dumps(y.get("u", y), sort_keys=True) for y in x["results"]}
            # a prefix that mixes bases (kilo x byte = 10^3 x 2^3) has a float exponent, computed in the order the spelling multiplies;
            # such units are the same up to the numeric scale (1e-9, as for C02's mixed-base laws), not up to identity
            us = [y.get("u") for y in x["results"]]
            if all(u is not None and isinstance(u["p"], dict) and u["p"].get("mixed") for u in us):
                import math
                lv = lambda u: float(u["p"]["exp"]) * math.log(u["p"]["base"])        # log of the prefix's value (the base is the left operand's)
                if all(u["f"] == us[0]["f"] and u["d"] == us[0]["d"] and abs(lv(u) - lv(us[0])) <= 1e-9 for u in us):
                    stats["spellings_mixed_base_same_scale"] = stats.get("spellings_mixed_base_same_scale", 0) + 1
                    continue
            c.violation("spellings-differ", f"alternative spellings of one unit expression parse differently: {cs['texts'][:3]} ...", {"texts": cs["texts"], "results": x["results"][:6]})
    # the model's collision list must be exactly the collisions observed / listed
    listed = set(known_coll)
    chk = parse_worker({"cases": [{"op": "collision_check", "p": mc.split("+", 1)[0], "s": mc.split("+", 1)[1]} for mc in model_coll]})["results"] if model_coll else []
    for mc, ck in zip(model_coll, chk):
        ps, us = mc.split("+", 1)
        key = f"collision:{ps}{us}"
        if ck.get("equal_value") is True and not ck.get("same"):
            stats.setdefault("deliberate_equal_mappings", []).append(ps + us)      # e.g. kg: the named kilogram, an equal unit
            continue
        if not any(k["key"] == key for k in c.known):
            c.violation(key, f"the prefix symbol {ps!r} in front of the unit symbol {us!r} resolves to something other than that prefixed unit", {"text": ps + us,
                        "how": f"Unit.parse(str(prefix * unit)) for the prefix with symbol {ps!r} and the unit with symbol {us!r}"})
        else:
            c.known_seen.setdefault(key, next(k["what"] for k in c.known if k["key"] == key))
    c.sample({"unit": cases[3]["u"], "str": res[3].get("text"), "same_object": res[3].get("same")}); c.sample({"spellings": cases[sp_start]["texts"][:4]})
    c.finish(rule="exhaustive: every registered named unit x (no prefix + every registered prefix) x exponents, and in the model every prefix symbol x every unit symbol and every "
                  "registered name; sampled: products of up to 3 prefixed named units, int/float quantities, alternative spellings (^n / superscripts, * / dot / juxtaposition / "
                  "extra whitespace, a/b vs negative exponents) of random symbol products; non-trivial = all; distinct by hash",
             extra=dict(stats, exhaustive=True, traces_validated_against_impl=len(cases)),
             assumptions=["the string <-> term step (lexing) is covered by correspondence and by C16, not by a theorem",
                          "units with a mixed-base (float exponent) prefix are outside the exact model; they print a leading magnitude (known finding class)"])

if __name__ == "__main__":
    guarded(main, "C13")
