"""C11 — a prefixed unit means exactly prefix factor times unit."""
import sys, os
sys.path.insert(0, os.path.dirname(os.path.abspath(__file__)))
from common import *
import qgen, qdriver

UNITS = [[[None, "meter", 1]], [[None, "second", 1]], [[None, "gram", 1]], [[None, "bit", 1]], [[None, "byte", 1]], [[None, "newton", 1]],
         [[None, "meter", 1], [None, "second", -1]], [[None, "meter", 2]], [[None, "hertz", 1]], [[None, "liter", 1]], [[None, "one", 1]],
         [["kilo", "meter", 1], [None, "second", -2]], [[None, "ohm", 1]], [[None, "foot", 1]], [[None, "radian", 1]], [[None, "kilogram", 1]]]
MAGS = [["int", "3", "1"], ["int", "-2", "1"], ["int", "1", "1"], ["float", "5", "2"], ["float", "-1", "8"], ["dec", "5", "4"], ["int", "0", "1"],
        ["dec", "1234567890123", "1000000"], ["dec", "-98765432109876543", "10000000000"]]      # Decimals of more significant digits than any fixed small context keeps

def main():
    c = Check("C11")
    c.static_theorems()
    rng = c.rng
    O = qdriver.Oracle()
    prefixes = sorted(n for n, p in O.exp["prefix_by_name"].items() if not isinstance(p, dict))
    # ---- the registered SI and IEC prefixes are the ones of the standards (BIPM SI brochure table 7, IEC 80000-13): the check's own table, since a
    # wrong exponent in the prefix module would otherwise be the oracle's as well
    STANDARD = {"yotta": (10, 24), "zetta": (10, 21), "exa": (10, 18), "peta": (10, 15), "tera": (10, 12), "giga": (10, 9), "mega": (10, 6), "kilo": (10, 3), "hecto": (10, 2), "deca": (10, 1),
                "deci": (10, -1), "centi": (10, -2), "milli": (10, -3), "micro": (10, -6), "nano": (10, -9), "pico": (10, -12), "femto": (10, -15), "atto": (10, -18), "zepto": (10, -21), "yocto": (10, -24),
                "kibi": (2, 10), "mebi": (2, 20), "gibi": (2, 30), "tebi": (2, 40), "pebi": (2, 50), "exbi": (2, 60), "zebi": (2, 70), "yobi": (2, 80)}
    for n_, (b_, e_) in STANDARD.items():
        c.count(["standard-prefix", n_], nontrivial=True)
        got_ = O.exp["prefix_by_name"].get(n_)
        if got_ is not None and (isinstance(got_, dict) or tuple(got_) != (b_, e_)):
            c.violation(f"standard-prefix:{n_}", f"the prefix {n_} is registered as {got_}; the standard defines it as {b_}**{e_}", {"prefix": n_, "registered": got_, "standard": [b_, e_],
                        "how": f"(1 * ({n_} * Meter)).unprefixed().magnitude against {b_}**{e_}"})
    # ---- every power of two between 2^-200 and 2^200 against decimal prefixes, from either side
    sw = impl("prefixsem_worker.py", {"cases": [], "sweep": True})
    for i_ in range(sw["sweep_n"] // 100): c.count(["prefix-sweep", i_], nontrivial=True)
    for f_ in sw["sweep_fails"]:
        c.violation(f"relation:mixed-scale:{f_[0]}", f"with b = 2**{f_[1]} and d = {f_[2]}, {f_[0]} has the numeric scale {f_[3]}; 2**{f_[1]} * {f_[2]} is {f_[4]:.12g}", {"expression": f_[0], "binary_exponent": f_[1], "decimal_prefix": f_[2], "got": f_[3], "want": f_[4]})
    # ---- relations on the implementation: prefix x prefix x exponent grid exhaustive, units/magnitudes sampled
    rel = []
    for p in prefixes:
        for q in (prefixes if c.tier == "thorough" else rng.sample(prefixes, 9)):
            for n in range(-4, 5):
                rel.append({"p": p, "q": q, "u": rng.choice(UNITS), "m": rng.choice(MAGS), "n": n})
    # every ordered pair of registered prefixes once more (n = 1): the cancellation relations are exhaustive over pairs
    for p in prefixes:
        for q in prefixes:
            rel.append({"p": p, "q": q, "u": UNITS[(len(rel)) % len(UNITS)], "m": MAGS[len(rel) % 5], "n": rng.choice([1, 2, -1, 3])})
    rr = impl("prefixsem_worker.py", {"cases": rel})["results"]
    # the same relations in a process where every prefixed unit is first met inside a rendered compound unit (named units of derived
    # dimensions included: their prefixed forms are new to the process)
    DERIVED = [[[None, n_, 1]] for n_ in ("electronvolt", "joule", "newton", "watt", "pascal", "volt", "hertz", "liter", "acre", "calorie", "ohm", "gallon") if n_ in O.exp["unit_by_name"]]
    rel2 = [{"p": p, "q": rng.choice(prefixes), "u": u, "m": rng.choice(MAGS[:5]), "n": rng.choice([1, 2, -1])} for u in DERIVED for p in (prefixes if c.tier == "thorough" else rng.sample(prefixes, 6))]
    rr2 = impl("prefixsem_worker.py", {"cases": rel2, "render_first": True})["results"]
    rel, rr = rel + [dict(x, render_first=True) for x in rel2], rr + rr2
    for case, rec in zip(rel, rr):
        c.count(case, nontrivial=True)
        if "err" in rec:
            if True:
                c.violation(f"raises:{rec['err'].split(':')[0]}", f"prefix relations raised {rec['err']}", {"case": case})
            continue
        for f in rec["fails"]:
            c.violation(f"relation:{f}", f"relation {f} fails for prefixes {case['p']},{case['q']}, unit {case['u']}, magnitude {case['m']}, n={case['n']}", {"case": case})
    # ---- dispatch model vs implementation on prefix-heavy cases
    cases = []
    for p in prefixes:
        for _ in range(3 if c.tier == "quick" else 20):
            u = rng.choice(UNITS); m = rng.choice(MAGS)
            pu = [[p, u[0][1], u[0][2]]] + u[1:] if u[0][0] is None else u
            cases.append({"op": "mul", "l": {"t": "num", "m": m}, "r": {"t": "unit", "u": pu}})
            cases.append({"op": "mul", "l": {"t": "prefix", "p": p}, "r": {"t": "unit", "u": u}})
            cases.append({"op": "mul", "l": {"t": "prefix", "p": p}, "r": {"t": "num", "m": m}})
            cases.append({"op": "mul", "l": {"t": "prefix", "p": p}, "r": {"t": "prefix", "p": rng.choice(prefixes)}})
            cases.append({"op": "div", "l": {"t": "prefix", "p": p}, "r": {"t": "prefix", "p": rng.choice(prefixes)}})
            cases.append({"op": "div", "l": {"t": "qty", "m": m, "u": rng.choice(UNITS)}, "r": {"t": "unit", "u": pu}})
            cases.append({"op": "pow", "l": {"t": "qty", "m": m, "u": pu}, "r": rng.choice([-4, -3, -2, -1, 0, 1, 2, 3, 4])})
            cases.append({"op": "eq", "l": {"t": "qty", "m": m, "u": pu}, "r": {"t": "qty", "m": m, "u": u}})
            cases.append({"op": "in_unit", "l": {"t": "qty", "m": m, "u": pu}, "r": {"t": "unit", "u": u}})
    recs = qdriver.run(cases)
    # SI value of prefixed quantities (oracle)
    for case, rec in zip(cases, recs):
        c.count(case, nontrivial=True)
        res = rec["res"]
        if case["op"] == "mul" and rec["l"]["t"] == "num" and res.get("t") == "qty":
            v = O.si(res); u0 = O.usize(rec["r"]["u"])
            if v and u0:
                want = Fraction(int(case["l"]["m"][1]), int(case["l"]["m"][2])) * u0[0]
                if not qdriver.rel_close(v[0], want, Fraction(1, 10**12)):
                    c.violation("sivalue:prefixed", f"m*(p*u) has SI value {float(v[0])}, expected {float(want)}", {"case": case})
        if case["op"] == "in_unit" and res.get("t") == "qty":
            vl, vres = O.si(rec["l"]), O.si(res)
            if vl and vres and not qdriver.rel_close(vres[0], vl[0], Fraction(1, 10**9)):
                c.violation("sivalue:unprefix", f"converting {case['l']} to the unprefixed unit changed its value", {"case": case})
    convtbl = O.conv_pairs(recs)
    bad = qgen.run_shards(c, "C11", cases, recs, convtbl)
    for i in bad[:5]:
        c.cov.setdefault("model_impl_mismatches", []).append({"case": cases[i], "impl": recs[i]["res"]})
    c.sample({"relation_case": rel[0]}); c.sample({"case": cases[0], "result": recs[0]["res"]})
    c.finish(rule="every registered SI and IEC prefix x (sampled or all) second prefix x exponent n in [-4,4] (grid exhaustive in prefix and "
                  "exponent; units and magnitudes sampled) for the relations m*(p*u)==(m*value(p))*u, (p*u)**n is p**n*u**n, exact exponent "
                  "addition/subtraction, root of power, identity neutral, division by a prefixed unit, unprefixed(); mixed SI/IEC at 1e-9; "
                  "plus prefix-heavy operator cases compared with the dispatch model; all cases non-trivial; distinct by hash",
             extra={"relation_cases": len(rel), "traces_validated_against_impl": len(cases) + len(rel)},
             assumptions=["mixed-base (SI x IEC) products carry a float exponent and are compared numerically at 1e-9 as the property states"])

guarded(main, "C11")
