"""C15 — pickle, copy and JSON round-trip every value, preserving singleton identity."""
import sys, os
sys.path.insert(0, os.path.dirname(os.path.abspath(__file__)))
from common import *
import qgen, codec

def main():
    c = Check("C15")
    c.static_theorems()
    rng = c.rng
    quick = c.tier == "quick"
    exp = impl("export_worker.py", {})
    # ---------------- tie: the registry left by importing every module satisfies the theorem's hypothesis (unique keys), and every stored unit re-enters
    rows = []
    skipped = 0
    for u in exp["units"]:
        if isinstance(u["p"], dict): skipped += 1; continue
        rows.append(cunit3(u))
    txt = (HEADER + "From Coq Require Import List.\nFrom Measured Require Import Proofs.InternFacts Proofs.History Proofs.ReenterFacts.\nImport ListNotations.\n"
           f"Definition registry : list unit3 := {clist(rows)}.\n"
           "Definition keys_unique : bool := forallb (fun i => forallb (fun j => orb (Nat.eqb i j) (negb (ukey_eqb (nth i registry uone) (nth j registry uone)))) (seq 0 (length registry))) (seq 0 (length registry)).\n"
           "Lemma registry_keys_unique : keys_unique = true.\nProof. vm_compute. reflexivity. Qed.\n"
           "(* every registered unit, handed back as (prefix, factors, any dimension), is found at its own position *)\n"
           "Lemma every_unit_reenters : forallb (fun i => match find_key (MkU (upre (nth i registry uone)) (ufac (nth i registry uone)) fone) registry with Some h => Nat.eqb h i | None => false end) (seq 0 (length registry)) = true.\n"
           "Proof. vm_compute. reflexivity. Qed.\n")
    out = c.run_coq({"Gen_registry": txt})
    ok, log = out["Gen_registry"]
    c.oblige(f"Gen_registry.registry_keys_unique / every_unit_reenters ({len(rows)} registered units: the (prefix, factors) keys are pairwise distinct and each unit's constructor arguments find it)", ok, log[-800:])
    # ---------------- tie for the codec model: registry hypotheses, encoder and decoder correspondence
    cb = []
    bn = sorted(n for n, o in exp["unit_by_name"].items())
    for _ in range(60 if quick else 600):
        k = rng.choice([1, 2, 2, 3])
        cb.append([[rng.choice([None, None, "kilo", "milli", "kibi", [10, 7], [1, 3]]), rng.choice(bn), rng.choice([1, 1, 2, -1, -2, 3])] for _ in range(k)])
    cb += [[["kilo", "one", 1]], [[None, "meter", 1], [None, "meter", -1]], [["kilo", "meter", 1], [None, "meter", -1]]]
    codec.run(c, rng, cb, 60 if quick else 300)
    # ---------------- implementation: every registered object through every codec, plus compound / prefixed units and quantities
    names = sorted(n for n, o in exp["unit_by_name"].items())
    prefixes = sorted(n for n, p in exp["prefix_by_name"].items() if not isinstance(p, dict))
    units, quantities = [], []
    def rand_spec():
        k = rng.choice([1, 1, 2, 2, 3])
        return [[rng.choice([None, None] + prefixes), rng.choice(names), rng.choice([1, 1, 2, -1, -2, 3])] for _ in range(k)]
    for _ in range(150 if quick else 2500):
        units.append(rand_spec())
    MAGS = [["int", "3", "1"], ["int", "-12", "1"], ["int", "0", "1"], ["float", "5", "2"], ["float", "-1", "8"], ["float", "6020000", "1"], ["dec", "5", "4"], ["dec", "-7", "1000"],
            ["dec", "0", "1"], ["int", "100000000000000000000000", "1"], ["float", "1", "1267650600228229401496703205376"],
            # floats that need all 17 significant digits to be written down: 0.1 + 0.2, 1/3, 2/3, pi
            ["float", "1351079888211149", "4503599627370496"], ["float", "6004799503160661", "18014398509481984"], ["float", "6004799503160661", "9007199254740992"], ["float", "884279719003555", "281474976710656"]]
    for _ in range(250 if quick else 4000):
        quantities.append({"m": rng.choice(MAGS), "u": rand_spec() if rng.random() < 0.7 else [[rng.choice([None] + prefixes), rng.choice(names), 1]]})
    # numerically equal magnitudes of different types, one after the other in one process: each keeps its own type and text
    seqs = []
    for un in ("meter", "second", "gram"):
        for trio in ((["int", "3", "1"], ["float", "3", "1"], ["dec", "3", "1"]), (["dec", "1000", "1"], ["int", "1000", "1"], ["float", "1000", "1"]),
                     (["float", "0", "1"], ["int", "0", "1"], ["dec", "0", "1"]), (["dec", "5", "2"], ["float", "5", "2"])):
            for m in trio: seqs.append({"m": m, "u": [[None, un, 1]]})
    # Decimal magnitudes with more digits than the decimal context's 28 (sqrt 2, e, 0.123...), on sub-multiple prefixes whose factor is a float
    for lit in ("1.41421356237309504880168872420969808", "2.71828182845904523536028747135266250", "0.123456789012345678901234567890123456", "1234567890.12345678901234567890123456789"):
        for us in ([["milli", "meter", 1]], [["kilo", "second", -1]], [["nano", "meter", 1], [None, "second", -1]], [[None, "meter", 1]], [["micro", "gram", 1]]):
            seqs.append({"m": ["decs", lit], "u": us})
    quantities = seqs + quantities
    extra_prefixes = [[a, b, op] for a in ("kilo", "mebi", "milli", "kibi") for b in ("kibi", "mega", "kilo", "pebi") for op in ("mul", "div") if (a in prefixes and b in prefixes)] + [[10, 7], [2, 5], [10, -5], [7, 3], [1, 3], [1, -2]]
    # units under anonymous prefixes, including prefixes of value 1 that are not the identity prefix (base 1)
    for ap in ([10, 7], [2, 5], [7, 3], [1, 3], [1, -2], [10, -5]):
        for n, e in (("meter", 1), ("second", -2), ("gram", 2), ("one", 1)):
            if n in names: units.append([[ap, n, e]])
    # exhaustive: every named unit x every prefix once, as a quantity (its JSON stores the unit as text)
    for n in names:
        for p in prefixes:
            quantities.append({"m": ["int", "2", "1"], "u": [[p, n, 1]], "json_only": True})
    late = [["G", "m", "length"], ["k", "t", "speed"], ["m", "K", "time"], ["M", "s", "mass"], ["h", "h", "length"]]
    r = impl("serial_worker.py", {"units": units, "quantities": quantities, "extra_prefixes": extra_prefixes, "late": late}, timeout=1500)
    total = sum(r["counts"].values())
    for cid in r["case_ids"]:
        c.count(cid, nontrivial=True)      # one case per (object, codec); duplicates (the same unit drawn twice) collapse in the distinct count
    c.cov["codec_runs"] = r["counts"]
    c.cov["registered"] = r["registered"]
    JSONISH = ("json", "json-installed", "json-installed-file", "json-install-fn", "pydantic", "pydantic-dict", "sql-composite")
    for f in r["fails"]:
        if f["codec"] == "setup": continue
        repl = {"codec": f["codec"], "object": f["object"], "came_back": f.get("got"), "spec": f.get("spec"),
                "how": "harness/impl/serial_worker.py: pickle.loads(pickle.dumps(o)) / copy / deepcopy / json with MeasuredJSONEncoder+Decoder / codecs_installed / pydantic TypeAdapter / Quantity(*q.__composite_values__())"}
        if f["kind"] == "quantity" and f["codec"] in JSONISH and f.get("unit_text_ok") is False:
            # which C13 class does the unit's text fall into?  (a collision that C13 does not list is a new violation)
            ut = f.get("unit_text") or ""
            if ut[:1] in "0123456789.-+" and " " in ut: key = "quantity-json:unit-text-does-not-parse-back"
            elif ut[:1] in "0123456789": key = "quantity-json:unit-text-does-not-parse-back"
            else:
                sym = "".join(ch for ch in ut.split("\u22c5")[0] if ch not in "\u207b\u2070\u00b9\u00b2\u00b3\u2074\u2075\u2076\u2077\u2078\u2079")
                known13 = {k["key"] for k in load_known() if k["property"] == "C13" and k.get("status") == "known"}
                key = "quantity-json:unit-text-does-not-parse-back" if f"collision:{sym}" in known13 else f"quantity-json:collision:{sym}"
            c.violation(key, f"{f['codec']}: {f['what']} (the unit is stored as the text {ut!r})", repl)
        else:
            c.violation(f"{f['kind']}:{f['codec']}:{f['what'][:40]}", f"{f['kind']} through {f['codec']}: {f['what']}", repl)
    c.sample({"unit": units[0], "quantity": quantities[0]}); c.sample({"codecs": sorted(set(k.split(':')[1] for k in r["counts"] if ':' in k))})
    c.finish(rule="exhaustive over every registered dimension, prefix and unit (after importing all shipped modules) x {pickle (default and protocol 2), copy, deepcopy, JSON codec classes, "
                  "installed codecs, pydantic TypeAdapter via JSON text and via plain dict}; plus random prefixed/compound units, mixed-base and anonymous prefixes, and int/float/Decimal "
                  "quantities (also through the SQL composite form): identity and unchanged names/symbols for singletons; equality, magnitude type and (pickle/copy) identical unit for "
                  "quantities",
             extra={"exhaustive": True, "traces_validated_against_impl": total, "mixed_base_units_outside_the_exact_model": skipped},
             assumptions=["pickle protocols 0 and 1 are out of scope: CPython cannot pickle any __slots__ class without __getstate__ under them",
                          "quantity JSON / SQL composite store the unit as str(unit): they inherit C13's findings for units whose text does not parse back"])

guarded(main, "C15")
