"""C18 — levels and quantities interconvert by the logarithmic definition."""
import sys, os
sys.path.insert(0, os.path.dirname(os.path.abspath(__file__)))
from common import *
import sizes, formulas
from decimal import Decimal, getcontext
getcontext().prec = 60

# (family of convertible units, is it a root-power quantity by the property's convention)
FAMS = {"power": ([[[None, "watt", 1]], [["milli", "watt", 1]], [["kilo", "watt", 1]], [[None, "horsepower", 1]]], 1),
        "voltage": ([[[None, "volt", 1]], [["milli", "volt", 1]], [["micro", "volt", 1]]], 2),
        "pressure": ([[[None, "pascal", 1]], [["micro", "pascal", 1]], [["hecto", "pascal", 1]]], 2),
        "current": ([[[None, "ampere", 1]], [["milli", "ampere", 1]]], 2),
        "energy": ([[[None, "joule", 1]], [["kilo", "watt", 1], [None, "hour", 1]]], 1),
        "frequency": ([[[None, "hertz", 1]], [["kilo", "hertz", 1]]], 1),
        "speed": ([[[None, "meter", 1], [None, "second", -1]], [["kilo", "meter", 1], [None, "hour", -1]]], 2),
        "time": ([[[None, "second", 1]], [[None, "minute", 1]]], 1),
        # the remaining root-power (field) quantities of the library's convention, and look-alikes that are power quantities
        "field-strength": ([[[None, "volt", 1], [None, "meter", -1]], [["kilo", "volt", 1], [None, "meter", -1]]], 2),
        "charge-per-length": ([[[None, "coulomb", 1], [None, "meter", -1]], [["micro", "coulomb", 1], [None, "meter", -1]]], 2),
        "charge-per-area": ([[[None, "coulomb", 1], [None, "meter", -2]], [["milli", "coulomb", 1], [None, "meter", -2]]], 2),
        "charge-per-volume": ([[[None, "coulomb", 1], [None, "meter", -3]], [["micro", "coulomb", 1], [None, "meter", -3]]], 2),
        "charge": ([[[None, "coulomb", 1]], [["milli", "coulomb", 1]]], 1),
        "force": ([[[None, "newton", 1]], [["kilo", "newton", 1]]], 1),
        "area": ([[[None, "meter", 2]], [[None, "meter", 1], [None, "meter", 1]]], 1)}
# a convertible unit of clearly another size than the family's coherent unit (not a prefix of it)
ALT = {"power": [[None, "horsepower", 1]], "time": [[None, "minute", 1]], "speed": [[None, "mile", 1], [None, "hour", -1]], "energy": [[None, "calorie", 1]], "force": [[None, "pound-force", 1]]}
LOGS = [("bel", None, Decimal(10), Decimal(1)), ("decibel", None, Decimal(10), Decimal(1) / 10), ("neper", None, None, Decimal(1)), ("octave", None, Decimal(2), Decimal(1)),
        ("bel", "milli", Decimal(10), Decimal(1) / 1000), ("octave", "centi", Decimal(2), Decimal(1) / 100), ("neper", "deci", None, Decimal(1) / 10),
        (12, None, Decimal(12), Decimal(1)), (3, "deci", Decimal(3), Decimal(1) / 10), ("bel", "kilo", Decimal(10), Decimal(1000))]
E = Decimal(1).exp()

def dec(fr): return Decimal(fr.numerator) / Decimal(fr.denominator)
def frac(n): return Fraction(int(n[1]), int(n[2]))
def fl(x):
    n, d = float(x).as_integer_ratio(); return ["float", str(n), str(d)]

def math_log10(x):
    import math
    return math.log10(x)

def main():
    c = Check("C18")
    c.static_theorems()
    rng = c.rng
    quick = c.tier == "quick"
    # ---------------- tie A
    try:
        gen = formulas.coq_level(formulas.translate_level())
        out = c.run_coq({"Gen_level": gen})
        ok, log = out["Gen_level"]
        c.oblige("Gen_level.gen_level_is_model / gen_quantify_is_model (LogarithmicUnit.level, Level.quantify and power_ratio translated from the source are the modelled formulas)", ok, log[-800:])
    except formulas.Untranslatable as ex:
        c.oblige("Gen_level (translator over LogarithmicUnit.level / Level.quantify / power_ratio)", False, f"untranslatable: {ex}")
    exp0 = impl("export_worker.py", {})
    S = sizes.Sizes(exp0)
    pvals = {n: (Fraction(1) if p[0] == 0 else Fraction(p[0]) ** p[1]) for n, p in exp0["prefix_by_name"].items() if not isinstance(p, dict)}
    # ---------------- cases
    cases, meta = [], []
    n = 350 if quick else 5000
    for _ in range(n):
        fam = rng.choice(list(FAMS)); units, k = FAMS[fam]
        log, pre, base, pv = rng.choice(LOGS)
        uq, ur = rng.choice(units), rng.choice(units)
        qm = rng.choice([1.0, 2.0, 0.5, 1e-3, 20e-6, 1e6, 100.0, rng.lognormvariate(0, 4), rng.uniform(0.01, 50)])
        rm = rng.choice([1.0, 1.0, 20.0, 1e-3, 0.775, rng.lognormvariate(0, 2)])
        ref = {"m": fl(rm), "u": ur}
        lu = {"log": log, "prefix": pre, "ref": ref}
        if rng.random() < 0.6:
            cases.append({"op": "level", "l": {"t": "qty", "m": fl(qm), "u": uq}, "r": lu}); meta.append((fam, k, base, pv, uq, ur))
            if fam in ALT and ur == units[0]: cases[-1]["alt"] = ALT[fam]          # (the reference in the coherent unit, so that the other unit is of another size)
        else:
            lm = rng.choice([0.0, 1.0, -3.0, 20.0, 0.5, rng.uniform(-200, 200), rng.uniform(-200, 200), -200.0, 200.0, -160.0])
            # keep base**(l*p/k) within float range
            bb = float(base) if base is not None else float(E)
            import math
            lim = 250 / (float(pv) * math.log10(bb) if bb > 1 else 1)
            lm = max(-lim, min(lim, lm))
            cases.append({"op": "quantify", "l": dict(lu, t="level", m=fl(lm))}); meta.append((fam, k, base, pv, None, ur))
    # several very small references of one unit, declared one after the other (1 pW, 1 fW, 1 aW, ...): each logarithmic unit keeps its own
    for fam, unit, k in (("power", [[None, "watt", 1]], 1), ("pressure", [[None, "pascal", 1]], 2)):
        for log, pre, base, pv in (LOGS[1], LOGS[0]):
            for refm in (1e-12, 1e-15, 1e-18, 5e-13, 2e-5, 2e-9, 3e-10):
                lu = {"log": log, "prefix": pre, "ref": {"m": fl(refm), "u": unit}}
                for qm in (refm, refm * 100, 1.0):
                    cases.append({"op": "level", "l": {"t": "qty", "m": fl(qm), "u": unit}, "r": lu}); meta.append((fam, k, base, pv, unit, unit))
                cases.append({"op": "quantify", "l": dict(lu, t="level", m=fl(0.0))}); meta.append((fam, k, base, pv, None, unit))
    # whole-number magnitudes written as Python ints (levels, quantities and references): the definition does not depend on the numeric type
    for fam in FAMS:
        units, k = FAMS[fam]
        for log, pre, base, pv in LOGS:
            bb = float(base) if base is not None else float(E)
            for lm in (1, 3, -3, 2, 5, 7, -1, 0):
                if abs(lm * float(pv) * (math_log10(bb))) > 200: continue
                ur = units[0]
                lu = {"log": log, "prefix": pre, "ref": {"m": ["int", "1", "1"], "u": ur}}
                cases.append({"op": "quantify", "l": dict(lu, t="level", m=["int", str(lm), "1"])}); meta.append((fam, k, base, pv, None, ur))
            for qm in (1, 3, 10, 1000):
                ur = units[0]; uq = rng.choice(units)
                lu = {"log": log, "prefix": pre, "ref": {"m": ["int", "2", "1"], "u": ur}}
                cases.append({"op": "level", "l": {"t": "qty", "m": ["int", str(qm), "1"], "u": uq}, "r": lu}); meta.append((fam, k, base, pv, uq, ur))
    # Decimal magnitudes (quantity and reference): the definition does not depend on the numeric type, whatever the base
    for fam in FAMS:
        units, k = FAMS[fam]
        for log, pre, base, pv in LOGS:
            for qm, rm in ((Fraction(2), Fraction(1)), (Fraction(5, 4), Fraction(1, 2)), (Fraction(1000), Fraction(1))):
                ur = units[0]
                dm = lambda f: ["dec", str(f.numerator), str(f.denominator)]
                lu = {"log": log, "prefix": pre, "ref": {"m": dm(rm), "u": ur}}
                cases.append({"op": "level", "l": {"t": "qty", "m": dm(qm), "u": rng.choice(units)}, "r": lu}); meta.append((fam, k, base, pv, None, ur))
    # monotonicity pairs
    mono = []
    for _ in range(60 if quick else 600):
        fam = rng.choice(list(FAMS)); units, k = FAMS[fam]
        log, pre, base, pv = rng.choice(LOGS[:9])
        u = rng.choice(units); ref = {"m": fl(rng.choice([1.0, 20.0, 0.001])), "u": rng.choice(units)}
        a = rng.lognormvariate(0, 3); b = a * rng.choice([1.001, 1.5, 10.0])
        for x in (a, b):
            cases.append({"op": "level", "l": {"t": "qty", "m": fl(x), "u": u}, "r": {"log": log, "prefix": pre, "ref": ref}}); meta.append((fam, k, base, pv, u, ref["u"]))
        mono.append(len(cases) - 2)
    recs = impl("meas_worker.py", {"cases": cases})["results"]
    # the same definitions after an application has defined a further fundamental dimension (Dimension.define re-keys every dimension):
    # a sample of the cases run again in such a process and judged by the same oracle
    nbase = len(cases)
    again = [i for i in range(nbase) if i not in set(mono) and i - 1 not in set(mono)]
    rng.shuffle(again); again = again[: (120 if quick else 1500)]
    recs2 = impl("meas_worker.py", {"cases": [cases[i] for i in again], "define_dimension": ["vf currency", "VFC"]})["results"]
    cases = cases + [dict(cases[i], after_define=True) for i in again]; meta = meta + [meta[i] for i in again]; recs = recs + recs2
    stats = {"levels": 0, "quantifies": 0, "monotone_pairs": 0}
    TOL = Decimal("1e-9")
    def close(a, b, scale=None):
        a, b = Decimal(a), Decimal(b)
        return abs(a - b) <= TOL * max(abs(a), abs(b), Decimal(scale) if scale is not None else Decimal(0))
    for cs, rec, (fam, k, base, pv, uq, ur) in zip(cases, recs, meta):
        c.count(cs, nontrivial=True)
        res = rec["res"]
        repl = {"case": cs, "implementation": {kk: rec.get(kk) for kk in ("res", "back", "power_ratio", "eq")}}
        if "err" in res:
            c.violation(f"raises:{cs['op']}:{res['err']}", f"{cs['op']} raised {res['err']}: {res.get('msg')}", repl); continue
        b = base if base is not None else E
        if rec.get("power_ratio") != k:
            c.violation(f"power-ratio:{fam}", f"power_ratio is {rec.get('power_ratio')} for a {fam} reference (expected {k})", repl); continue
        # the logarithmic unit keeps its reference in unprefixed units; it must be the reference that was given
        ref_m = dec(frac(rec["ref"]["m"]))
        rspec = cs["r"]["ref"] if cs["op"] == "level" else cs["l"]["ref"]
        given = frac(rspec["m"])
        for p_, n_, e_ in rspec["u"]:
            if p_: given *= pvals[p_] ** e_
        if abs(frac(rec["ref"]["m"]) - given) > Fraction(1, 10**9) * abs(given):
            c.violation("reference-changed", f"the logarithmic unit built for the reference {float(given)} (unprefixed) reports the reference {float(frac(rec['ref']['m']))}", repl); continue
        if cs["op"] == "level":
            stats["levels"] += 1
            ratio = S.ratio({"p": rec["lc"]["u"]["p"], "f": rec["lc"]["u"]["f"]}, {"p": rec["ref"]["u"]["p"], "f": rec["ref"]["u"]["f"]})
            if ratio is None: continue
            q_in_ref = dec(frac(cs["l"]["m"]) * ratio)
            want = Decimal(k) / pv * ((q_in_ref / ref_m).ln() / b.ln())
            got = dec(frac(res["m"]))
            if not close(got, want, scale=Decimal(k) / pv / b.ln() * Decimal("1e-3")):
                c.violation(f"level-value:{fam}", f"level is {float(got)}, the definition (k/p) log_b(q/ref) gives {float(want)}", repl)
            back = rec["back"]
            bq = dec(frac(back["m"]) * S.ratio({"p": back["u"]["p"], "f": back["u"]["f"]}, {"p": rec["ref"]["u"]["p"], "f": rec["ref"]["u"]["f"]}))
            if not close(bq, q_in_ref):
                c.violation("roundtrip-quantity", f"quantity -> level -> quantity gives {float(bq)} for {float(q_in_ref)} (in the reference's unit)", repl)
            # exact == sits on a rounding tie here (the two directions convert different operands): the property says "within rounding", so only the approximate comparison is required
            if rec.get("neq") and (rec["neq"][0] or rec["neq"][1] or not rec["neq"][2]):
                c.violation("level-eq-other-quantity", f"a level compares equal to a quantity of the same number in a unit of another size ({cs.get('alt')}): {rec['neq']} (level==q', q'==level, level!=q')", repl)
            if not (rec["eq"][2] and rec["eq"][3]):
                c.violation("level-eq-quantity", f"a level and the quantity it denotes do not compare equal: {rec['eq']} (level==q, q==level, approx(q)==level, level==approx(q))", repl)
        else:
            stats["quantifies"] += 1
            lm = dec(frac(cs["l"]["m"]))
            want = ((lm * pv / k) * b.ln()).exp() * ref_m
            got = dec(frac(res["m"]) * S.ratio({"p": res["u"]["p"], "f": res["u"]["f"]}, {"p": rec["ref"]["u"]["p"], "f": rec["ref"]["u"]["f"]}))
            if not close(got, want):
                c.violation(f"quantify-value:{fam}", f"level {float(lm)} quantifies to {float(got)}, the definition gives {float(want)}", repl)
            bl = dec(frac(rec["back"]["m"]))
            if not close(bl, lm, scale=Decimal(k) / pv / b.ln() * Decimal("1e-3")):
                c.violation("roundtrip-level", f"level -> quantity -> level gives {float(bl)} for {float(lm)}", repl)
    for i in mono:
        a, b = recs[i]["res"], recs[i + 1]["res"]
        if "err" in a or "err" in b: continue
        stats["monotone_pairs"] += 1
        if not frac(a["m"]) < frac(b["m"]):
            c.violation("monotone", f"a larger quantity has a level that is not larger: {float(frac(a['m']))} vs {float(frac(b['m']))}", {"cases": cases[i:i + 2]})
    c.sample({"case": cases[0], "result": recs[0]["res"], "power_ratio": recs[0].get("power_ratio")}); c.sample({"case": cases[2], "result": recs[2]["res"]})
    c.finish(rule="bel / decibel / neper / octave, prefixed variants (milli-bel, centi-octave, deci-neper, kilo-bel) and custom bases (12, 3); power and root-power "
                  "references (power, energy, frequency, time / voltage, pressure, current, speed) with reference and quantity in different convertible units; "
                  "level value, quantify value, both round trips, level == quantity (four ways) and strict monotonicity against the closed form evaluated in "
                  "60-digit decimal arithmetic at 1e-9; distinct by hash",
             extra=dict(stats, traces_validated_against_impl=len(cases)),
             assumptions=["theorems are over the reals: standard-library real-number axioms ClassicalDedekindReals.sig_not_dec, sig_forall_dec, "
                          "FunctionalExtensionality.functional_extensionality_dep, Classical_Prop.classic", "floating-point rounding of math.log / ** is measured at 1e-9, not proved",
                          "which dimensions are root-power quantities is the library's ROOT_POWER_DIMENSIONS list; the check pins its own list: voltage, pressure, current, speed, field strength, charge per length / area / volume (2) and power, energy, frequency, time, charge, force, area (1)"])

guarded(main, "C18")
