"""C08 — conversion results depend only on declared equivalences, not on query history."""
import sys, os, concurrent.futures
sys.path.insert(0, os.path.dirname(os.path.abspath(__file__)))
from common import *
import struct_scan

QUERY_OPS = ("query", "cquery", "tquery")

def gen_history(rng, n):
    ops = [["unit", "length"], ["unit", "length"]]
    dims = ["length", "length"]
    declared = set()
    for _ in range(n):
        r = rng.random()
        nu = len(dims)
        if r < 0.12 and nu < 7:
            d = rng.choice(["length", "length", "time", "mass"]); ops.append(["unit", d]); dims.append(d)
        elif r < 0.35:
            i, j = rng.randrange(nu), rng.randrange(nu)
            if i == j or dims[i] != dims[j]: continue
            e = rng.choice([1, 1, 1, 2])
            ratio = rng.choice([2, 4, 8, 0.5, 0.25, 3, 12, 1.5, 10])
            nfr = Fraction(ratio)
            kind = "int" if nfr.denominator == 1 else "float"
            # numerically equal ratios of different types (12, 12.0, Decimal(12)) declared for different pairs must not share anything
            if rng.random() < 0.35: kind = rng.choice(["float", "dec"])
            ops.append(["equals", i, e, [kind, str(nfr.numerator), str(nfr.denominator)], j, e] + (["module"] if rng.random() < 0.35 else []))   # conversions.equate called directly
        else:
            i, j = rng.randrange(nu), rng.randrange(nu)
            if dims[i] != dims[j]: continue
            e = rng.choice([1, 1, 1, 2, 3, -1])
            # numerically equal magnitudes of different types (5, 5.0, Decimal(5)) must not share an answer
            m = rng.choice([["int", "3", "1"], ["float", "5", "2"], ["int", "0", "1"], ["dec", "7", "4"], ["dec", "30", "1"], ["int", "1", "1"],
                            ["dec", "12345678901234567890123456789012345678901", "1000"],      # more digits than the decimal context carries
                            ["int", "5", "1"], ["float", "5", "1"], ["dec", "5", "1"], ["int", "5", "1"], ["dec", "5", "1"], ["float", "5", "1"]])
            ops.append(["query", rng.choice(["in_unit", "in_unit", "rev", "eq", "lt", "add"]), m, i, e, j, e])
    return ops

def fresh_replay(ops, t):
    """the declarations before query t, then only that query, in a fresh process"""
    sub = [o for o in ops[:t] if o[0] not in QUERY_OPS] + [ops[t]]
    r = impl("memo_worker.py", {"ops": sub})
    return r["results"][-1]

def main():
    c = Check("C08")
    c.static_theorems()
    # tie A: which functions are memoised and where the caches are cleared, read from the source
    try:
        s = struct_scan.scan()
        cached = sorted(s["cached"])
        cleared_by = {}
        for fn, target in s["clears"]:
            cleared_by.setdefault(fn, set()).add(target)
        import ast
        conv = ast.parse(open(os.path.join(REPO, "src/measured/conversions.py")).read())
        calls = {}
        for fn in conv.body:
            if isinstance(fn, ast.FunctionDef):
                calls[fn.name] = {n.func.id for n in ast.walk(fn) if isinstance(n, ast.Call) and isinstance(n.func, ast.Name)}
        def cleared(fn, seen=()):
            out = set(cleared_by.get(fn, ()))
            for g in calls.get(fn, ()):
                if g in calls and g not in seen:
                    out |= cleared(g, seen + (fn,))
            return out
        names = {n: i + 1 for i, n in enumerate(cached)}
        def cl(fn): return clist(cnat(names[x]) for x in sorted(cleared(fn)) if x in names)
        txt = f"""From Coq Require Import List Arith Bool. Import ListNotations.
(* memoised functions of conversions.py whose result depends on the declarations: {cached} *)
Definition cached : list nat := {clist(cnat(names[x]) for x in cached)}.
Definition cleared_by_equate : list nat := {cl('equate')}.
Definition cleared_by_translate : list nat := {cl('translate')}.
Definition covers (cl : list nat) : bool := forallb (fun c => existsb (Nat.eqb c) cl) cached.
Lemma clears_cover_caches : covers cleared_by_equate && covers cleared_by_translate = true.
Proof. vm_compute. reflexivity. Qed.
"""
        out = c.run_coq({"Gen_caches": txt})
        ok, log = out["Gen_caches"]
        c.oblige("Gen_caches.clears_cover_caches (every lru_cache'd function of conversions.py is cleared by equate and translate)", ok, log[-500:])
        c.cov["cached_functions"] = cached
        # the shape of a declaration, line by line (with _forget_cached_conversions inlined): which lines store a ratio / an offset,
        # which forget the memoised paths and which the memoised plans -- and which of the two memoised functions reads the other
        funcs = {fn.name: fn for fn in conv.body if isinstance(fn, ast.FunctionDef)}
        def dlines(fname, depth=0):
            out = []
            for st in funcs[fname].body:
                src_ = ast.unparse(st)
                if isinstance(st, ast.Expr) and isinstance(st.value, ast.Constant): continue          # docstring
                if isinstance(st, ast.Assign) and len(st.targets) == 1 and isinstance(st.targets[0], ast.Subscript) and ast.unparse(st.targets[0]).split("[")[0] in ("_ratios", "_offsets"):
                    out.append("DStore")
                elif isinstance(st, ast.Expr) and isinstance(st.value, ast.Call) and ast.unparse(st.value) == "_find_path.cache_clear()": out.append("DForgetPath")
                elif isinstance(st, ast.Expr) and isinstance(st.value, ast.Call) and ast.unparse(st.value) == "_plan_conversion.cache_clear()": out.append("DForgetPlan")
                elif isinstance(st, ast.Expr) and isinstance(st.value, ast.Call) and isinstance(st.value.func, ast.Name) and st.value.func.id in funcs and not st.value.args and depth < 3 \
                        and any(t in ast.unparse(funcs[st.value.func.id]) for t in ("cache_clear", "_ratios[", "_offsets[")):
                    out += dlines(st.value.func.id, depth + 1)
                elif any(t in src_ for t in ("cache_clear", "_ratios[", "_offsets[", "_ratios.", "_offsets.")) and not (isinstance(st, ast.If) and not any(
                        isinstance(n, (ast.Assign, ast.AugAssign, ast.Delete)) or (isinstance(n, ast.Call) and "cache_clear" in ast.unparse(n)) for n in ast.walk(st))):
                    raise ValueError(f"{fname}: a line that touches the tables or the caches in a way the declaration model does not have: {src_[:80]}")
                else: out.append("DOther")
            return out
        eq_l, tr_l = dlines("equate"), dlines("translate")
        plan_reads_path = "_find_path" in calls.get("_plan_conversion", ()); path_reads_plan = "_plan_conversion" in calls.get("_find_path", ()) or "_plan_conversion" in calls.get("_find_path_recursive", ())
        txt2 = f"""From Coq Require Import List Bool. Import ListNotations.
From Measured Require Import Model.Memo2.
Definition equate_lines : list dline := {clist(eq_l)}.
Definition translate_lines : list dline := {clist(tr_l)}.
Definition plan_reads_path : bool := {'true' if plan_reads_path else 'false'}.
Definition path_reads_plan : bool := {'true' if path_reads_plan else 'false'}.
(* every declaration stores its ratios, then forgets the memoised paths, then the plans built from them (hypothesis of C08_declaration_in_progress) *)
Lemma declarations_forget_paths_first :
  stores_then_path_then_plan equate_lines && stores_then_path_then_plan translate_lines && plan_reads_path && negb path_reads_plan = true.
Proof. vm_compute. reflexivity. Qed.
"""
        ok, log = c.run_coq({"Gen_declshape": txt2})["Gen_declshape"]
        c.oblige("Gen_declshape.declarations_forget_paths_first (equate and translate, line by line: ratios stored, then memoised paths forgotten, then memoised plans; "
                 "plans are built from paths and not the other way round)", ok, log[-500:])
        c.cov["declaration_lines"] = {"equate": eq_l, "translate": tr_l}
        # the stores of equate as data: _ratios[X.unit][Y.unit] = _div(P.magnitude, Q.magnitude) is (X, Y, P, Q); both operands unprefixed first;
        # any other statement that mentions _ratios is untranslatable.  The kernel compares the list with the model's (Model/Declare.v), the
        # hypothesis of C08_source_stores_are_model_equate -- and so of the reciprocity / latest-declaration theorems of Props/C08.v
        import re as _re
        def equate_shape():
            fn = funcs["equate"]
            if [a.arg for a in fn.args.args] != ["a", "b"]: raise ValueError("equate: parameters are not (a, b)")
            unpref, shapes = set(), []
            for st in fn.body:
                src_ = ast.unparse(st)
                m = _re.fullmatch(r"([ab]) = \1\.unprefixed\(\)", src_)
                if m:
                    if shapes: raise ValueError("equate: an operand is unprefixed after a ratio was stored")
                    unpref.add(m.group(1)); continue
                if "_ratios" in src_:
                    m = _re.fullmatch(r"_ratios\[([ab])\.unit\]\[([ab])\.unit\] = _div\(([ab])\.magnitude, ([ab])\.magnitude\)", src_)
                    if not m: raise ValueError(f"equate: a store the declaration model does not have: {src_[:90]}")
                    if unpref != {"a", "b"}: raise ValueError("equate: a ratio stored before both operands are unprefixed")
                    shapes.append("(" + ", ".join("S" + g.upper() for g in m.groups()) + ")")
            return shapes
        shp = equate_shape()
        txt3 = f"""From Coq Require Import List Bool. Import ListNotations.
From Measured Require Import Model.Declare.
Definition equate_stores : list store_shape := {clist(shp)}.
Lemma equate_stores_shipped : shapes_eqb equate_stores shipped_stores = true.
Proof. vm_compute. reflexivity. Qed.
"""
        ok, log = c.run_coq({"Gen_eqshape": txt3})["Gen_eqshape"]
        c.oblige("Gen_eqshape.equate_stores_shipped (equate's assignments read off the source are the two unconditional stores of Model.Convert.equate: "
                 "both directions of the pair, from the unprefixed operands)", ok, log[-500:])
        c.cov["equate_stores"] = shp
        # how the package reads the two tables: every occurrence of _ratios / _offsets is `table[unit]` (a row) or the module-level definition;
        # anything else (membership, len, iteration over the table itself, handing the table on) would see the empty rows that lookups of
        # a defaultdict register -- hypothesis of C08_lookups_register_nothing_visible
        import glob as _glob
        uses, others = [], []
        for path in sorted(_glob.glob(os.path.join(REPO, "src", "measured", "*.py"))):
            tree_ = ast.parse(open(path).read())
            parent = {}
            for n in ast.walk(tree_):
                for ch in ast.iter_child_nodes(n): parent[ch] = n
            for n in ast.walk(tree_):
                if (isinstance(n, ast.Name) and n.id in ("_ratios", "_offsets")) or (isinstance(n, ast.Attribute) and n.attr in ("_ratios", "_offsets")):
                    pa = parent.get(n)
                    if isinstance(pa, ast.Subscript) and pa.value is n: uses.append("URow")
                    elif isinstance(pa, (ast.AnnAssign, ast.Assign)) and parent.get(pa) is tree_ and (getattr(pa, "target", None) is n or n in getattr(pa, "targets", [])): uses.append("UDef")
                    else: uses.append("UOther"); others.append(f"{os.path.basename(path)}:{n.lineno}: {ast.unparse(pa)[:70]}")
                elif isinstance(n, ast.Constant) and n.value in ("_ratios", "_offsets"):
                    uses.append("UOther"); others.append(f"{os.path.basename(path)}:{n.lineno}: the name as a string")
        txt4 = f"""From Coq Require Import List Bool. Import ListNotations.
From Measured Require Import Model.Declare.
Definition table_uses : list tuse := {clist(uses)}.
Lemma tables_read_through_rows : only_rows table_uses && negb (Nat.eqb (length table_uses) 0) = true.
Proof. vm_compute. reflexivity. Qed.
"""
        ok, log = c.run_coq({"Gen_rows": txt4})["Gen_rows"]
        c.oblige(f"Gen_rows.tables_read_through_rows (all {len(uses)} occurrences of _ratios / _offsets in the package are `table[unit]` or the definition: "
                 "rows registered by lookups are invisible to the planner)", ok, ("; ".join(others) + " " + log[-300:])[:600])
        c.cov["table_uses"] = {k: uses.count(k) for k in ("URow", "UDef", "UOther")}
    except Exception as ex:
        c.oblige("struct_scan of conversions.py (translator)", False, str(ex))
    nh, nops = (60, 28) if c.tier == "quick" else (600, 45)
    hists = [gen_history(c.rng, nops) for _ in range(nh)]
    hists.insert(0, [["unit", "length"], ["unit", "length"], ["query", "in_unit", ["int", "3", "1"], 0, 1, 1, 1],
                     ["equals", 0, 1, ["int", "2", "1"], 1, 1], ["query", "in_unit", ["int", "3", "1"], 0, 1, 1, 1],
                     ["query", "in_unit", ["int", "3", "1"], 0, 1, 1, 1]])
    # comparisons (not only conversions) attempted before the pair is related, the equivalence then declared through the module-level entry
    # point Unit.equals itself calls, the same comparisons again
    for how in (["module"], []):
        hists.insert(1, [["unit", "length"], ["unit", "length"], ["unit", "length"],
                         ["query", "eq", ["int", "2", "1"], 0, 1, 1, 1], ["query", "lt", ["int", "3", "1"], 0, 1, 1, 1], ["query", "eq", ["int", "2", "1"], 1, 1, 0, 1],
                         ["equals", 0, 1, ["int", "2", "1"], 1, 1] + how,
                         ["query", "eq", ["int", "2", "1"], 0, 1, 1, 1], ["query", "lt", ["int", "3", "1"], 0, 1, 1, 1], ["query", "eq", ["int", "2", "1"], 1, 1, 0, 1],
                         ["query", "eq", ["int", "1", "1"], 0, 1, 2, 1], ["equals", 2, 1, ["float", "1", "2"], 1, 1] + how, ["query", "eq", ["int", "1", "1"], 0, 1, 2, 1],
                         ["query", "lt", ["int", "1", "1"], 2, 1, 0, 1], ["query", "in_unit", ["int", "3", "1"], 0, 1, 2, 1]])
    # the same number as int, float and Decimal in the ratios of three unrelated pairs (12, 12.0, Decimal(12)), queried with magnitudes of the three
    # kinds at exponents 1, 2 and -1: nothing computed for one pair may be handed out for another because the numbers compare equal
    sk = [["unit", "length"] for _ in range(6)]
    for (i_, j_), kind_ in (((0, 1), "int"), ((2, 3), "float"), ((4, 5), "dec")):
        sk.append(["equals", i_, 1, [kind_, "12", "1"], j_, 1])
    for e_ in (1, 2, -1, 3):
        for m_ in (["dec", "5", "1"], ["int", "5", "1"], ["float", "5", "1"]):
            for (i_, j_) in ((0, 1), (2, 3), (4, 5), (5, 4), (3, 2), (1, 0)):
                sk.append(["query", "in_unit", m_, i_, e_, j_, e_])
    hists.insert(3, sk)
    # squares and cubes of units related by a ratio that is not a power of two (span = 7 cubit), asked for after the same powers were refused
    # against an unrelated unit of the dimension: digit for digit what a fresh process answers
    pw = [["unit", "length"], ["unit", "length"], ["unit", "length"], ["equals", 1, 1, ["int", "7", "1"], 0, 1]]
    # ... and against base units declared directly in the derived dimensions (an area unit that is no length squared, a volume unit)
    pw += [["unit", "area"], ["unit", "volume"]]
    for (e_, k_) in ((2, 3), (3, 4)):
        pw += [["query", "in_unit", ["int", "49", "1"], 0, e_, k_, 1], ["query", "eq", ["int", "1", "1"], 0, e_, k_, 1], ["query", "in_unit", ["int", "1", "1"], k_, 1, 1, e_],
               ["query", "lt", ["int", "1", "1"], 1, e_, k_, 1]]
    for e_ in (2, 3, -2):
        pw += [["query", "in_unit", ["int", "49", "1"], 0, e_, 2, e_], ["query", "eq", ["int", "49", "1"], 0, e_, 2, e_], ["query", "in_unit", ["int", "49", "1"], 2, e_, 1, e_]]
    for e_ in (2, 3, -2, 1):
        for m_ in (["int", "49", "1"], ["float", "343", "1"], ["int", "3", "1"], ["dec", "49", "1"]):
            pw += [["query", "in_unit", m_, 0, e_, 1, e_], ["query", "in_unit", m_, 1, e_, 0, e_], ["query", "eq", m_, 0, e_, 1, e_]]
    hists.insert(4, pw)
    # graphs with redundant, slightly inconsistent routes (cycles whose arcs multiply to different numbers, non-dyadic ratios whose
    # float products depend on association): the answer to a query must not depend on which other pairs were converted before,
    # nor on unrelated declarations or re-declarations made in between
    def cyc_history(rng):
        n = rng.choice([4, 5, 6])
        ops = [["unit", "length"] for _ in range(n)]
        R = ["0.1", "0.3", "2.002", "1.25", "5", "0.7", "3", "1.1"]
        def eq(i, j, r=None):
            f = Fraction(r or rng.choice(R)); return ["equals", i, 1, ["float", str(f.numerator), str(f.denominator)], j, 1]
        order = list(range(n)); rng.shuffle(order)
        for a, b in zip(order, order[1:]): ops.append(eq(a, b))
        for _ in range(rng.choice([1, 2])):
            a, b = rng.sample(range(n), 2); ops.append(eq(a, b))
        def q():
            a, b = rng.sample(range(n), 2)
            return ["query", rng.choice(["in_unit", "in_unit", "rev", "lt"]), rng.choice([["int", "3", "1"], ["float", "5", "2"], ["int", "1", "1"], ["dec", "3", "2"],
                                                                                      ["dec", "12345678901234567890123456789012345678901", "1000"]]), a, 1, b, 1]
        for _ in range(rng.randint(2, 6)): ops.append(q())
        r = rng.random()
        if r < 0.4: ops += [["unit", "time"], ["unit", "time"], ["equals", n, 1, ["float", "3", "2"], n + 1, 1]]        # unrelated declaration (flushes the caches)
        elif r < 0.8:
            e = rng.choice([o for o in ops if o[0] == "equals"]); ops.append(eq(e[1], e[4]))                             # re-declare an existing pair
        for _ in range(rng.randint(2, 5)): ops.append(q())
        return ops
    check_all = {0, 1, 2, 3, 4}      # the fixed histories at the head: every query replayed in a fresh process
    # a family declared redundantly with a rounded figure (x = 2 m, m = 5 z and x = 4 n, n = 1.25 o, o = 2.002 z: x is 10 z or 10.01 z):
    # which route x -> z takes is the library's choice, but the same choice whatever was converted before (fixed corpus)
    def fam(earlier):
        f5 = lambda a, r, b: ["equals", a, 1, ["float", str(Fraction(r).numerator), str(Fraction(r).denominator)], b, 1]
        ops = [["unit", "length"] for _ in range(6)]     # 0 x, 1 m, 2 n, 3 o, 4 z, 5 lonely
        ops += [f5(0, "2", 1), f5(1, "5", 4), f5(0, "4", 2), f5(2, "1.25", 3), f5(3, "2.002", 4)]
        for a, b in earlier: ops.append(["query", "in_unit", ["int", "1", "1"], a, 1, b, 1])
        ops += [["query", "in_unit", ["int", "1", "1"], 0, 1, 4, 1], ["query", "in_unit", ["int", "1", "1"], 0, 1, 4, 1]]
        return ops
    def overflow_history():
        # Big = 1e160 Mid, Mid = 2 Small: Big^2 -> Small^2 overflows inside the search (in every process); Mid -> Small is 2 whatever came before
        big = ["float", str(10**160), "1"]
        ops = [["unit", "length"], ["unit", "length"], ["unit", "length"], ["equals", 0, 1, big, 1, 1], ["equals", 1, 1, ["int", "2", "1"], 2, 1]]
        return ops + [["query", "in_unit", ["int", "1", "1"], 0, 2, 2, 2], ["query", "in_unit", ["int", "3", "1"], 1, 1, 2, 1], ["query", "in_unit", ["int", "3", "1"], 1, 1, 2, 1],
                      ["query", "in_unit", ["int", "1", "1"], 0, 3, 2, 3], ["query", "in_unit", ["int", "5", "1"], 2, 1, 1, 1]]
    hists.append(overflow_history()); check_all.add(len(hists) - 1)
    # a long ladder of units (each twice the next): the conversion from top to bottom is first asked from deep inside a recursive computation,
    # where the interpreter runs out of stack, and then from the top level, where it is answered -- as in a process that never asked from the depths
    NL = 120
    lad = [["unit", "length"] for _ in range(NL)] + [["equals", k_, 1, ["int", "2", "1"], k_ + 1, 1] for k_ in range(NL - 1)]
    lad += [["query", "in_unit_deep", ["int", "1", "1"], 0, 1, NL - 1, 1], ["query", "in_unit", ["int", "1", "1"], 0, 1, NL - 1, 1], ["query", "in_unit", ["int", "3", "1"], 0, 1, NL - 1, 1],
            ["query", "in_unit_deep", ["int", "1", "1"], NL - 1, 1, 0, 1], ["query", "in_unit", ["int", "1", "1"], NL - 1, 1, 0, 1], ["query", "eq", ["int", "1", "1"], 0, 1, NL - 1, 1]]
    hists.append(lad); check_all.add(len(hists) - 1)
    for earlier in ([], [(0, 4)], [(0, 5), (5, 4)], [(4, 0)], [(1, 4)], [(2, 1), (1, 4), (4, 5), (3, 4)], [(3, 4), (2, 4)], [(0, 3)], [(2, 4), (0, 1)]):
        hists.append(fam(earlier))
    # scales with a zero point (translate) reached through a base unit, converted directly, inside compound units (per-degree) and from
    # a long-lived second thread: the memoised paths and plans are shared objects, and every thread sees the same declarations
    def scale_history(rng, threaded):
        m_ = lambda v: ["float", str(Fraction(v).numerator), str(Fraction(v).denominator)] if Fraction(v).denominator != 1 else ["int", str(v), "1"]
        ops = [["unit", "temperature"], ["unit", "temperature"], ["unit", "length"], ["unit", "length"]]     # 0 base B, 1 third T, 2 metre-like, 3 foot-like
        ops += [["equals", 1, 1, m_(rng.choice([2, 4, 0.5])), 0, 1], ["equals", 3, 1, m_(rng.choice([2, 8])), 2, 1], ["scale", 0, m_(rng.choice([10, 32, 0.5]))]]   # 4 scale S over B
        direct = ["query", "in_unit", m_(rng.choice([36, 5, 100])), 4, 1, 1, 1]
        per = ["cquery", m_(rng.choice([3, 7])), [[2, 1], [4, -1]], [[3, 1], [1, -1]]]
        back = ["query", "in_unit", m_(36), 1, 1, 4, 1]
        seq = [direct, per, direct, back, per, direct] if rng.random() < 0.5 else [per, direct, back, direct]
        if threaded:
            seq = [["tquery", m_(1), 4, 1, 1, 1]] + seq[:2] + [["tquery", m_(36), 4, 1, 1, 1], direct, ["tquery", m_(36), 4, 1, 1, 1]]
            # a conversion tried from the second thread before its equivalence is declared, declared by the main thread, tried again
            ops += [["unit", "length"], ["tquery", m_(1), 5, 1, 2, 1], ["equals", 5, 1, m_(2), 2, 1], ["tquery", m_(1), 5, 1, 2, 1], ["query", "in_unit", m_(1), 5, 1, 2, 1], ["tquery", m_(1), 5, 1, 2, 1]]
        return ops + seq
    for k_ in range(10 if c.tier == "quick" else 80):
        hists.append(scale_history(c.rng, threaded=(k_ % 2 == 1))); check_all.add(len(hists) - 1)
    for _ in range(40 if c.tier == "quick" else 500):
        hists.append(cyc_history(c.rng))
    with concurrent.futures.ThreadPoolExecutor(16) as ex:
        full = list(ex.map(lambda h: impl("memo_worker.py", {"ops": h}), hists))
        jobs = []
        for hi, (h, r) in enumerate(zip(hists, full)):
            qs = [i for i, o in enumerate(h) if o[0] in QUERY_OPS]
            if not qs: continue
            pick = set(qs) if hi in check_all else set([qs[-1]] + c.rng.sample(qs, min(len(qs), 3 if c.tier == "quick" else 6)))
            for t in sorted(pick):
                jobs.append((hi, t))
        fresh = list(ex.map(lambda jt: fresh_replay(hists[jt[0]], jt[1]), jobs))
    # the property's observable + kernel-checked comparison through the memo machine instantiated with the
    # fresh-process answers as the pure function
    answers = {}
    items_by_h = {}
    for (hi, t), fr in zip(jobs, fresh):
        got = full[hi]["results"][t]
        c.count([hists[hi][:t + 1]], nontrivial=True)
        if got != fr:
            c.violation("history-dependent:" + json.dumps(hists[hi][t]),
                        f"query {hists[hi][t]} answered {got} after the interleaved history but {fr} in a fresh process with the same declarations",
                        {"history": hists[hi][:t + 1], "interleaved": got, "fresh": fr})
        answers[(hi, t)] = (got, fr)
    # repeated queries give identical results
    for hi, (h, r) in enumerate(zip(hists, full)):
        last = {}
        ndecl = 0
        for i, (o, a) in enumerate(zip(h, r["results"])):
            if o[0] in ("equals", "scale"): ndecl += 1
            if o[0] in QUERY_OPS:
                key = (json.dumps(o), ndecl)
                if key in last and last[key] != a:
                    c.violation("unrepeatable:" + json.dumps(o), f"repeating {o} with no declaration in between gave {last[key]} then {a}", {"history": h[:i + 1]})
                last[key] = a
    # Coq: Memo machine over (number of declarations so far, query id) with the fresh answers as f
    codes = {}
    def code(a): return codes.setdefault(json.dumps(a, sort_keys=True), len(codes) + 1)
    cases = []
    for hi, h in enumerate(hists):
        ts = sorted(t for (x, t) in answers if x == hi)
        if not ts: continue
        qid = {}
        ops, expect, table = [], [], []
        nd = 0
        for i, o in enumerate(h):
            if o[0] in ("equals", "scale"):
                ops.append(f"Declare {cnat(nd)}"); nd += 1; expect.append("None")
            elif o[0] in QUERY_OPS and i in ts:
                q = qid.setdefault(json.dumps(o), len(qid))
                ops.append(f"Query {cnat(q)}")
                got, fr = answers[(hi, i)]
                expect.append(f"Some {cnat(code(got))}")
                table.append(f"(({cnat(nd)}, {cnat(q)}), {cnat(code(fr))})")
        cases.append(f"({clist(ops)}, {clist(expect)}, {clist(table)})")
    txt = f"""From Coq Require Import List Arith Bool. Import ListNotations.
From Measured Require Import Model.Memo.
(* f: the answers of fresh processes, indexed by (number of declarations made, query) *)
Definition fresh_answer (tbl : list ((nat * nat) * nat)) (ds : list nat) (q : nat) : nat :=
  match find (fun e => Nat.eqb (fst (fst e)) (length ds) && Nat.eqb (snd (fst e)) q) tbl with Some e => snd e | None => 0 end.
Definition agrees (c : list (mop (D:=nat) (K:=nat)) * list (option nat) * list ((nat * nat) * nat)) : bool :=
  let '(ops, expect, tbl) := c in
  let got := snd (mrun Nat.eqb (fresh_answer tbl) (fun _ => true) true minit ops) in
  if list_eq_dec (option_eq_dec Nat.eq_dec) got expect then true else false.
Definition option_eq_dec_nat := option_eq_dec Nat.eq_dec.
Definition cases : list (list (mop (D:=nat) (K:=nat)) * list (option nat) * list ((nat * nat) * nat)) := {clist(cases)}.
Lemma run_agrees : forallb agrees cases = true.
Proof. vm_compute. reflexivity. Qed.
"""
    txt = txt.replace("Definition option_eq_dec_nat := option_eq_dec Nat.eq_dec.\n", "")
    txt = txt.replace("From Measured Require Import Model.Memo.\n", "From Measured Require Import Model.Memo.\nDefinition option_eq_dec {A} (d : forall a b : A, {a = b} + {a <> b}) : forall a b : option A, {a = b} + {a <> b}.\nProof. decide equality. Defined.\n")
    out = c.run_coq({"Run_C08": txt})
    ok, log = out["Run_C08"]
    c.oblige("Run_C08.run_agrees (memo machine with invalidation, instantiated with the fresh-process answers, reproduces the interleaved answers)", ok, log[-600:])
    # ---------------- in-between queries on the same units written in another factor order
    # A*B and B*A are one interned object whose factor order is that of its first construction; the planner walks factors in that order.
    # history: the operands are first used written backwards (a conversion attempted in between), then the final query written forwards;
    # fresh: the final query alone.  A difference is explained by the factor order exactly when the exported orders differ and the planner
    # model, given each process's exported order, reproduces each process's outcome: that is the recorded finding; anything else is new.
    import convlib
    FAM = {"L": ["meter", "foot", "inch", "yard", "mile", "furlong", "fathom"], "T": ["second", "minute", "hour", "day"],
           "M": ["gram", "pound", "ounce", "firkin"], "V": ["liter", "gallon", "pint"], "E": ["joule", "calorie"], "F": ["newton", "pound-force"]}
    opairs = [([[None, "newton", -1], [None, "gram", 1], [None, "mile", 2]], [["milli", "gram", 1], [None, "meter", 2], ["milli", "newton", -1]]),
              ([["milli", "inch", -1], ["milli", "pound-force", 2]], [["kilo", "furlong", -1], [None, "newton", 2]])]
    for _ in range(14 if c.tier == "quick" else 150):
        ds = c.rng.sample(sorted(FAM), c.rng.choice([2, 2, 3])); es = [c.rng.choice([1, 1, -1, 2, -2]) for _ in ds]
        def side():
            items = [[c.rng.choice([None, None, "kilo", "milli"]), c.rng.choice(FAM[d]), e] for d, e in zip(ds, es)]
            c.rng.shuffle(items); return items
        opairs.append((side(), side()))
    m3 = ["int", "3", "1"]
    def final(a, b): return {"op": "in_unit", "a": {"m": m3, "u": a}, "b": b}
    def run_hist(ab):
        a, b = ab
        ra, rb = list(reversed(a)), list(reversed(b))
        return impl("convsys_worker.py", {"systems": True, "cases": [final(ra, rb), final(rb, ra), final(a, b)]})
    def run_fresh(ab):
        return impl("convsys_worker.py", {"systems": True, "cases": [final(*ab)]})
    with concurrent.futures.ThreadPoolExecutor(12) as ex:
        hist_out = list(ex.map(run_hist, opairs)); fresh_out = list(ex.map(run_fresh, opairs))
    nord = 0
    for k, ((a, b), ho, fo) in enumerate(zip(opairs, hist_out, fresh_out)):
        c.count(["operand-order", a, b], nontrivial=True)
        hres, fres = ho["results"][-1], fo["results"][-1]
        if "setup_err" in hres or "setup_err" in fres: continue
        outcome = lambda r: r.get("m") or r.get("err")
        if outcome(hres) == outcome(fres): continue
        repl = {"declarations": "the shipped modules", "in_between": [final(list(reversed(a)), list(reversed(b)))], "final_query": final(a, b),
                "interleaved": outcome(hres), "fresh": outcome(fres), "factor_order_interleaved": [hres["source"]["of"], hres["target"]["of"]],
                "factor_order_fresh": [fres["source"]["of"], fres["target"]["of"]]}
        order_differs = (hres["source"]["of"], hres["target"]["of"]) != (fres["source"]["of"], fres["target"]["of"])
        explained = False
        if order_differs:
            i1 = convlib.run_block(c, f"ordh{k}", ho["export"], [final(a, b)], [hres], Fraction(1, 10**11))
            i2 = convlib.run_block(c, f"ordf{k}", fo["export"], [final(a, b)], [fres], Fraction(1, 10**11))
            explained = bool(i1.get(0, {}).get("model_ok")) and bool(i2.get(0, {}).get("model_ok"))
        what = (f"{final(a, b)} answers {outcome(hres)} after the same operands were used written in the opposite order, {outcome(fres)} in a fresh process")
        if explained:
            nord += 1
            c.violation("history-dependent:factor-order", what, repl)
        else:
            c.violation("history-dependent:operand-order-unexplained", what, repl)
    c.cov["operand_order_pairs"] = len(opairs); c.cov["operand_order_dependent"] = nord
    # ---------------- a REFUSED conversion in between (different dimensions: refused before any planning), then a query whose target is built
    # with its factors in the other order: refusing may not leave anything behind (such as units built to word the error message)
    U_ = lambda *fs: [[None, n_, e_] for n_, e_ in fs]
    def q(a, b, m=("int", "1", "1")): return {"op": "in_unit", "a": {"m": list(m), "u": a}, "b": b}
    rdefine = [["vfpace", [[1, 1]]], ["vfspan", [[1, 1]]], ["vfell", [[1, 1]]], ["vfrod", [[1, 1]]], ["vfbeat", [[2, 1]]], ["vfbar", [[2, 1]]]]
    rdecls = [[U_(("vfell", 1)), ["int", "2", "1"], U_(("vfpace", 1))], [U_(("vfrod", 1)), ["int", "3", "1"], U_(("vfspan", 1))], [U_(("vfbar", 1)), ["int", "4", "1"], U_(("vfbeat", 1))]]
    # (the refused operands are built so that no intermediate product of theirs is an operand of a final query: span, span/beat, (span/beat)*pace ...;
    #  building the SAME unit with its factors in another order is the recorded factor-order finding and is not what this scenario is about)
    refused = [q(U_(("vfspan", 1), ("vfbeat", -1), ("vfpace", 1)), U_(("vfpace", 1), ("vfbeat", 1))),
               q(U_(("vfbeat", -2), ("vfspan", 2), ("vfpace", 1)), U_(("vfbeat", 1))),
               q(U_(("vfbeat", 1), ("vfspan", -1), ("vfpace", -1)), U_(("vfbeat", 2))),
               {"op": "add", "a": {"m": ["int", "1", "1"], "u": U_(("vfspan", 1), ("vfbeat", -1), ("vfpace", 1))}, "b": {"m": ["int", "1", "1"], "u": U_(("vfbeat", 1))}}]
    finals = [q(U_(("vfell", 1), ("vfrod", 1)), U_(("vfpace", 1), ("vfspan", 1))), q(U_(("vfrod", 1), ("vfell", 1)), U_(("vfpace", 1), ("vfspan", 1))),
              q(U_(("vfell", -1), ("vfrod", -1)), U_(("vfpace", -1), ("vfspan", -1))), q(U_(("vfell", 1), ("vfrod", 2)), U_(("vfpace", 1), ("vfspan", 2)))]
    for fq in finals:
        hres = impl("convsys_worker.py", {"systems": False, "define": rdefine, "decls": rdecls, "cases": refused + [fq]})["results"]
        fres = impl("convsys_worker.py", {"systems": False, "define": rdefine, "decls": rdecls, "cases": [fq]})["results"][-1]
        c.count(["refused-then-query", fq], nontrivial=True)
        outcome = lambda r: r.get("m") or r.get("err") or r.get("setup_err")
        if any("err" not in r_ and "setup_err" not in r_ for r_ in hres[:len(refused)]):
            c.violation("refused-conversion-answers", f"a conversion across dimensions returned a value: {[outcome(r_) for r_ in hres[:len(refused)]]}", {"define": rdefine, "decls": rdecls, "queries": refused})
        if outcome(hres[-1]) != outcome(fres):
            c.violation("history-dependent:after-refused-conversion", f"{fq} answers {outcome(hres[-1])} after conversions across dimensions were refused and {outcome(fres)} in a fresh process",
                        {"define": rdefine, "decls": rdecls, "in_between": refused, "final_query": fq, "interleaved": outcome(hres[-1]), "fresh": outcome(fres)})
    # ---------------- a unit of a derived dimension is looked at by the planner (as a factor of a failing, or of a succeeding, conversion)
    # BEFORE it is declared equal to a product of other units: the declaration counts from then on all the same
    ddefine = [["vfpush", [[3, 1], [1, 1], [2, -2]]], ["vflump", [[3, 1]]], ["vfrod2", [[1, 1]]], ["vfpace2", [[1, 1]]], ["vftick", [[2, 1]]]]
    ddecls = [[U_(("vfrod2", 1)), ["int", "2", "1"], U_(("vfpace2", 1))]]
    late = [[U_(("vfpush", 1)), ["int", "5", "1"], U_(("vflump", 1), ("vfrod2", 1), ("vftick", -2))]]
    dfinal = [q(U_(("vfpush", 1), ("vfrod2", -2)), U_(("vflump", 1), ("vfrod2", -1), ("vftick", -2))), q(U_(("vfpush", 1)), U_(("vflump", 1), ("vfpace2", 1), ("vftick", -2))),
              q(U_(("vfpush", 2)), U_(("vflump", 2), ("vfrod2", 2), ("vftick", -4)))]
    for pre in ([q(U_(("vfpush", 1), ("vfrod2", -2)), U_(("vflump", 1), ("vfrod2", -1), ("vftick", -2)))], [q(U_(("vfpush", 1), ("vfpace2", 1)), U_(("vfpush", 1), ("vfrod2", 1)), m=("int", "3", "1"))],
                [q(U_(("vfpush", 1)), U_(("vflump", 1), ("vfpace2", 1), ("vftick", -2))), q(U_(("vfpush", 2)), U_(("vflump", 2), ("vfrod2", 2), ("vftick", -4)))]):
        hres = impl("convsys_worker.py", {"systems": False, "define": ddefine, "decls": ddecls, "pre_cases": pre, "late_decls": late, "cases": dfinal + dfinal})["results"]
        fres = impl("convsys_worker.py", {"systems": False, "define": ddefine, "decls": ddecls, "late_decls": late, "cases": dfinal})["results"]
        outcome = lambda r: r.get("m") or r.get("err") or r.get("setup_err")
        for j_, fq in enumerate(dfinal):
            c.count(["looked-at-then-declared", pre, fq], nontrivial=True)
            for rep_, hr in enumerate((hres[j_], hres[len(dfinal) + j_])):
                if outcome(hr) != outcome(fres[j_]):
                    c.violation("history-dependent:declared-after-planning", f"{fq} answers {outcome(hr)} (attempt {rep_ + 1}) when a conversion involving the unit was attempted before its equivalence was declared, {outcome(fres[j_])} in a fresh process",
                                {"define": ddefine, "decls": ddecls, "attempted_before": pre, "then_declared": late, "final_query": fq, "interleaved": outcome(hr), "fresh": outcome(fres[j_])})
    # ---------------- plain conversions after compound ones through the same units
    # in between: rates, areal and cubic expressions over the volume / area units (conversions that go through the planner's factor
    # replacement and sort the alternatives of each unit); final: every plain conversion among those units.  Repeating a conversion
    # gives the IDENTICAL result, whatever was converted in between: compared digit for digit with a fresh process
    VOL = ["liter", "gallon", "teaspoon", "tablespoon", "fluid ounce", "cup", "pint", "quart", "gill", "barrel", "hogshead", "bushel", "peck", "acre-foot", "cord", "stere", "minim"]
    ARE = ["hectare", "acre", "section", "barn"]
    def q(a, b, m=("int", "1", "1")): return {"op": "in_unit", "a": {"m": list(m), "u": a}, "b": b}
    exp0names = set(impl("export_worker.py", {})["unit_by_name"])
    plain = [q([[None, x, 1]], [[None, y, 1]]) for fam_ in (VOL, ARE) for x in fam_ for y in fam_ if x != y]
    plain += [{"op": "eq", "a": {"m": ["int", "1", "1"], "u": [[None, "gallon", 1]]}, "b": {"m": ["int", "768", "1"], "u": [[None, "teaspoon", 1]]}},
              {"op": "eq", "a": {"m": ["int", "1", "1"], "u": [[None, "barrel", 1]]}, "b": {"m": ["float", "63", "2"], "u": [[None, "gallon", 1]]}}]
    if c.tier == "quick": plain = c.rng.sample(plain[:-2], 150) + plain[-2:]
    between = []
    for x in VOL[:12]:
        for y in c.rng.sample(VOL, 3):
            if x == y: continue
            between.append(q([[None, x, 1], [None, "minute", -1]], [[None, y, 1], [None, "second", -1]]))
            between.append(q([[None, x, 1], [None, "mile", -1]], [[None, y, 1], ["kilo", "meter", -1]]))
            between.append(q([[None, x, 2]], [[None, y, 2]]))
    for x in ARE:
        for y in ARE:
            if x != y: between.append(q([[None, x, 1], [None, "foot", 1]], [[None, y, 1], [None, "meter", 1]]))
    # squares and cubes across the long chains of length units (league ... twip), then the plain conversions between their roots
    LEN = ["league", "mile", "furlong", "chain", "rod", "yard", "foot", "inch", "pica", "point", "twip", "cable", "fathom", "link", "meter", "nautical mile"]
    LEN = [x for x in LEN if x in exp0names]
    for x in LEN:
        for y in c.rng.sample(LEN, 4):
            if x != y:
                between.append(q([[None, x, 3]], [[None, y, 3]])); between.append(q([[None, x, 2]], [[None, y, 2]]))
    lenplain = [q([[None, x, 1]], [[None, y, 1]]) for x in LEN for y in LEN if x != y]
    plain += (c.rng.sample(lenplain, 80) if c.tier == "quick" else lenplain)
    hp = impl("convsys_worker.py", {"systems": True, "cases": between + plain})["results"][len(between):]
    fp = impl("convsys_worker.py", {"systems": True, "cases": plain})["results"]
    ndiff = 0
    for cs, hres, fres in zip(plain, hp, fp):
        c.count(["plain-after-compound", cs], nontrivial=True)
        outcome = lambda r: r.get("m") or r.get("err") or r.get("bool")
        if "setup_err" in hres or "setup_err" in fres or outcome(hres) == outcome(fres): continue
        ndiff += 1
        c.violation("history-dependent:plain-after-compound", f"{cs} answers {outcome(hres)} after compound conversions over the same units and {outcome(fres)} in a fresh process",
                    {"declarations": "the shipped modules", "in_between": between[:6] + ["... %d compound conversions" % len(between)], "final_query": cs, "interleaved": outcome(hres), "fresh": outcome(fres),
                     "how": "harness/impl/convsys_worker.py with systems: true and cases = in_between + [final_query], against cases = [final_query]"})
    c.cov["plain_after_compound"] = len(plain)
    # ---------------- queries made WHILE a declaration is in progress (another thread, the declaring thread paused before each of its
    # source lines in conversions.py): once the declaration has returned, the pair converts by the declared ratio, twice identically
    dr = impl("declrace_worker.py", {"kinds": ["equals", "equals-prefixed", "scale", "redeclare"]})["results"]
    for x in dr:
        c.count(["declaration-in-progress", x["kind"], x["k"]], nontrivial=x["paused"])
        repl = {"declaration": x["kind"], "paused_before_line": x["k"], "of_lines": x["lines"], "answers_before": x["before"], "answers_while_paused": x["during"],
                "answers_after_it_returned": x["after"], "declared_value": x["want"], "how": "harness/impl/declrace_worker.py (sys.settrace pause of the declaring thread, whole queries from a second thread)"}
        if x["declare_err"]:
            c.violation("declaration-raises", f"the declaration raised {x['declare_err']}", repl); continue
        frac = convlib.frac
        vals = [frac(a_["m"]) if "m" in a_ and len(a_["m"]) == 3 else None for a_ in x["after"]]
        if vals[0] is None or vals[0] != vals[1] or abs(vals[0] - Fraction(x["want"]).limit_denominator(10**6)) > Fraction(1, 10**9):
            c.violation("stale-after-concurrent-query", f"after {x['kind']} returned, the pair converts to {x['after']} (declared: {x['want']}); another thread had queried it while the "
                        f"declaration stood before its line {x['k']} of {x['lines']}", repl)
    c.cov["declaration_pause_points"] = len(dr)
    c.sample({"history": hists[1][:8], "answers": full[1]["results"][:8]})
    c.finish(rule="random interleavings of fresh unit definitions, equals() declarations (dyadic ratios, simple and squared) and "
                  "in_unit / reverse / == / < / + queries between possibly unconnected units, in one process, versus the same "
                  "declarations followed by the single query in a fresh process (final query and sampled earlier ones); distinct by hash",
             extra={"histories": len(hists), "fresh_process_replays": len(jobs), "traces_validated_against_impl": len(hists)},
             assumptions=["purity of the planner apart from _ratios/_offsets and the two lru caches is what the fresh-process comparison validates"])

guarded(main, "C08")
