"""C20 — singletons stay singletons when constructed concurrently."""
import sys, os, itertools
sys.path.insert(0, os.path.dirname(os.path.abspath(__file__)))
from common import *
import struct_scan

def schedules_2threads(nlines, max_preempt):
    """all schedules of two threads with at most max_preempt preemptions: thread 0 runs a lines, then
    thread 1 runs b lines, then thread 0 c lines, ... then everything runs to completion"""
    out = []
    for k in range(1, max_preempt + 1):
        for cuts in itertools.combinations(range(1, nlines), k):
            for first in (0, 1):
                sched, t, prev = [], first, 0
                for cpt in cuts:
                    sched += [t] * (cpt - prev); prev = cpt; t = 1 - t
                sched += [t] * 3
                out.append(sched)
    return out

def main():
    c = Check("C20")
    c.static_theorems()
    # tie A: the constructors' structure is read from the source on every run
    try:
        s = struct_scan.scan()
        gen = struct_scan.coq_struct(s)
        scan_ok = True
    except Exception as ex:  # fail closed
        s, gen, scan_ok = None, "", False
        c.oblige("struct_scan of __new__ (translator)", False, str(ex))
    if scan_ok:
        txt = gen + """
(* check-then-insert of each interning constructor is one critical section under the module lock *)
Lemma constructors_locked :
  lock_defined && constructor_locked dimension_new && constructor_locked prefix_new && constructor_locked unit_new = true.
Proof. vm_compute. reflexivity. Qed.
"""
        out = c.run_coq({"Gen_struct": txt})
        ok, log = out["Gen_struct"]
        c.oblige("Gen_struct.constructors_locked (source of Dimension/Prefix/Unit.__new__ abstracts to the locked protocol)", ok, log[-500:])
        c.cov["constructor_structure"] = s["new"]
    # tie A, second form: each __new__ translated into a program of Model/NewProg.v; the abstract interpretation proved sound in
    # Proofs/NewProgFacts.v (Props/C20.v: C20_program_safe) accepts all three
    progs = None
    try:
        progs = struct_scan.programs()
        ptxt = struct_scan.coq_programs(progs) + """
Lemma constructors_safe : prog_safe dimension_prog && prog_safe prefix_prog && prog_safe unit_prog && prog_safe logarithm_prog && prog_safe logarithmicunit_prog = true.
Proof. vm_compute. reflexivity. Qed.
"""
        ok, log = c.run_coq({"Gen_newprog": ptxt})["Gen_newprog"]
        c.oblige("Gen_newprog.constructors_safe (Dimension/Prefix/Unit/Logarithm/LogarithmicUnit.__new__, translated instruction by instruction, are accepted by the proved abstract "
                 "interpretation: one object per key under every schedule, C20_program_safe)", ok, log[-500:])
        c.cov["constructor_programs"] = {k: [i for i, _ in v["prog"]] for k, v in progs.items()}
    except struct_scan.Untranslatable as ex:
        c.oblige("struct_scan.programs (translator of __new__ into Model/NewProg.v instructions)", False, str(ex))
    # the memoised helpers: lru_cache'd, and everything they return (and therefore cache) comes straight from an interning constructor
    try:
        mh = struct_scan.memo_helpers()
        txt_ = ("From Coq Require Import List Bool. Import ListNotations.\n"
                f"(* {mh} *)\nDefinition helpers : list (bool * bool) := {clist('(%s, %s)' % ('true' if d_ else 'false', 'true' if r_ else 'false') for _c, _f, d_, r_ in mh)}.\n"
                "Lemma memoised_helpers_end_in_constructors : length helpers = 4%nat /\\ forallb (fun h => fst h && snd h) helpers = true.\nProof. vm_compute. split; reflexivity. Qed.\n")
        ok_, log_ = c.run_coq({"Gen_helpers": txt_})["Gen_helpers"]
        c.oblige("Gen_helpers.memoised_helpers_end_in_constructors (Dimension/Unit._multiply/_divide are lru_cache'd and return only what an interning constructor returns: hypothesis of C20_memoised_helpers)", ok_, f"{mh} {log_[-300:]}")
    except Exception as ex:
        c.oblige("struct_scan.memo_helpers (translator)", False, str(ex))
    # tie B / search: every preemption-bounded schedule on the real code
    classes = ["Dimension", "Prefix", "Unit", "UnitMul"]
    if c.tier == "quick":
        scheds = schedules_2threads(14, 2)
        scheds = [x for i, x in enumerate(scheds) if i % 2 == c.seed % 2] if len(scheds) > 120 else scheds
        cases = [{"cls": cls, "threads": 2, "schedule": sc} for cls in classes for sc in scheds[:90]]
        for _ in range(40):
            cases.append({"cls": c.rng.choice(classes), "threads": 3, "schedule": [c.rng.randrange(3) for _ in range(36)]})
    else:
        scheds = schedules_2threads(16, 3)
        cases = [{"cls": cls, "threads": 2, "schedule": sc} for cls in classes for sc in scheds]
        for _ in range(600):
            cases.append({"cls": c.rng.choice(classes), "threads": 3, "schedule": [c.rng.randrange(3) for _ in range(45)]})
    # fine-grained alternation through the arithmetic layer (compound operands): thread 0 runs o lines, then blocks of 1..3 lines alternate
    fine = []
    for o in range(0, 14 if c.tier == "quick" else 22):
        for blocks in itertools.product((1, 2, 3), repeat=4):
            sc, t = [0] * o, 1
            for b in blocks:
                sc += [t] * b; t = 1 - t
            fine.append(sc)
    c.rng.shuffle(fine)
    for cls in ("UnitMulCompound", "UnitDivCompound"):
        for sc in fine[:(220 if c.tier == "quick" else len(fine))]:
            cases.append({"cls": cls, "threads": 2, "schedule": sc})
    # different expressions for one new unit evaluated at the same time (a*b | b*a, a/b | b**-1*a): single preemptions and random schedules
    for cls in ("UnitMulOrders", "UnitDivOrders"):
        for sc in (scheds[:70] if c.tier == "quick" else scheds[::2]):
            cases.append({"cls": cls, "threads": 2, "schedule": sc})
        for sc in fine[:(40 if c.tier == "quick" else 400)]:
            cases.append({"cls": cls, "threads": 2, "schedule": sc})
        for _ in range(20 if c.tier == "quick" else 200):
            cases.append({"cls": cls, "threads": 3, "schedule": [c.rng.randrange(3) for _ in range(40)]})
    # non-integral prefix exponents, products of SI and IEC prefixes, and chained expressions with a new intermediate
    for cls in ("PrefixFloat", "PrefixMixed", "PrefixDecimal", "PrefixDecimalUnit", "DimChain", "UnitChain", "UnpicklePrefix", "UnpickleDimension", "Logarithm", "LogarithmPrefixed", "LogUnit"):
        for sc in (scheds[:60] if c.tier == "quick" else scheds[::2]):
            cases.append({"cls": cls, "threads": 2, "schedule": sc})
        for sc in fine[:(60 if c.tier == "quick" else 400)]:
            cases.append({"cls": cls, "threads": 2, "schedule": sc})
        for _ in range(25 if c.tier == "quick" else 200):
            cases.append({"cls": cls, "threads": 3, "schedule": [c.rng.randrange(3) for _ in range(40)]})
    # threads started through _thread (unknown to the threading module), and a lock holder that stays descheduled for more than a second
    # while another thread waits for the lock
    for cls in ("Dimension", "Prefix", "Unit", "UnitMul"):
        for sc in (scheds[5:65:2] if c.tier == "quick" else scheds[::3]):
            cases.append({"cls": cls, "threads": 2, "schedule": sc, "raw": True})
        for a in (range(4, 10) if c.tier == "quick" else range(2, 16)):
            cases.append({"cls": cls, "threads": 2, "schedule": [0] * a + [1] * 8 + [0] * 30, "stall": 1.25})
    # several worker processes in parallel
    import concurrent.futures
    chunks = [cases[i::12] for i in range(12)]
    with concurrent.futures.ThreadPoolExecutor(12) as ex:
        outs = list(ex.map(lambda ch: impl("sched_worker.py", {"cases": ch}, timeout=1500), chunks))
    nlines = 0
    for ch, o in zip(chunks, outs):
        for case, r in zip(ch, o["results"]):
            c.count(case, nontrivial=r["lines"] > 4)
            nlines += r["lines"]
            if not (r["same"] and r["later_same"] and r["table_entries"] == 1 and r["finished"] and not r["errors"]):
                c.violation(f"race:{case['cls']}", f"{case['threads']} threads constructing one new {case['cls']} under schedule "
                            f"{case['schedule']} got {r['distinct_objects']} distinct objects (later_same={r['later_same']}, "
                            f"entries={r['table_entries']}, errors={r['errors']})",
                            {"case": case, "result": r,
                             "how": "echo '{\"cases\":[case]}' | PYTHONPATH=/repo/src /venv/bin/python harness/impl/sched_worker.py"})
    # tie B for the program model: every schedule observed on the direct constructor calls is replayed on the translated program in
    # the kernel (same control flow line by line, same threads end up with the same object)
    if progs is not None:
        files = {}
        file_cases = {}
        nrep = 0
        for cls, case_cls in (("Dimension", "Dimension"), ("Prefix", "Prefix"), ("Unit", "Unit"), ("Logarithm", "Logarithm"), ("LogarithmicUnit", "LogUnit")):
            pr = progs[cls]
            lmap = {}
            second = {}
            for idx, (_ins, ln) in enumerate(pr["prog"]):
                if ln is not None and ln > 0: lmap.setdefault(ln, []).append(idx)
                if ln is not None and ln < 0: second[-ln] = idx
            def events(trace, pr=pr, second=second, lmap=lmap):
                seen, evs = {}, []
                for i, ln in trace:
                    if not (pr["first"] <= ln <= pr["last"]): continue
                    if ln in second:
                        seen[(i, ln)] = seen.get((i, ln), 0) + 1
                        if seen[(i, ln)] == 2: evs.append((i, second[ln]))
                    for idx in lmap.get(ln, []): evs.append((i, idx))
                return evs
            def term_of(case, r, events=events):
                evs = events(r["trace_full"])
                obs = clist(("None" if l is None else f"Some {l}%nat") for l in r["labels"])
                return f"({case['threads']}%nat, {clist(f'({i}%nat, {idx}%nat)' for i, idx in evs)}, {obs})"
            def file_of(ts, cls=cls):
                return (struct_scan.coq_programs(progs) +
                    f"Definition cases : list (nat * list (nat * nat) * list (option nat)) := {clist(ts)}.\n"
                    f"Definition agrees (c : nat * list (nat * nat) * list (option nat)) : bool := let '(n, evs, obs) := c in replay_agrees {cls.lower()}_prog n evs obs.\n"
                    "Definition mm := Eval vm_compute in map fst (filter (fun ic => negb (agrees (snd ic))) (combine (seq 0 (length cases)) cases)).\nPrint mm.\n"
                    "Lemma traces_replay : mm = [].\nProof. vm_compute. reflexivity. Qed.\n")
            terms, tcases = [], []
            for ch, o in zip(chunks, outs):
                for case, r in zip(ch, o["results"]):
                    if case["cls"] != case_cls or not r.get("trace_full") or r["lines"] > 600 or not r["finished"]: continue
                    terms.append(term_of(case, r)); tcases.append(case)
            nrep += len(terms)
            for k in range(0, len(terms), 150):
                files[f"Run_newprog_{cls}_{k // 150}"] = file_of(terms[k:k + 150])
                file_cases[f"Run_newprog_{cls}_{k // 150}"] = (tcases[k:k + 150], term_of, file_of)
        out = c.run_coq(files)
        for n, (ok, log) in out.items():
            if not ok:
                # the scheduler decides after 30 ms that a thread is blocked rather than slow; on a loaded machine a line may then still be running
                # when the next one is recorded.  The schedules that did not replay are executed once more with a much longer wait, and only
                # what still does not replay counts
                mmm = re.search(r"mm =\s*(\[[^\]]*\])", log, re.S)
                idxs = [int(t) for t in re.findall(r"\d+", mmm.group(1))] if mmm else None
                if idxs:
                    fcases, term_of_, file_of_ = file_cases[n]
                    again = impl("sched_worker.py", {"cases": [fcases[j] for j in idxs], "slow": True}, timeout=1500)["results"]
                    ts2 = [term_of_(fcases[j], r2) for j, r2 in zip(idxs, again) if r2.get("trace_full") and r2["finished"]]
                    ok, log = c.run_coq({n + "_again": file_of_(ts2)})[n + "_again"]
                    c.cov["schedules_replayed_a_second_time"] = c.cov.get("schedules_replayed_a_second_time", 0) + len(ts2)
            c.oblige(f"{n}.traces_replay (observed line schedules replay on the translated program: same control flow, same sharing of objects)", ok, log[-600:])
        c.cov["schedules_replayed_on_program_model"] = nrep
    c.sample({"case": cases[0]}); c.sample({"case": cases[-1]})
    c.finish(rule="all schedules of two threads with at most 2 (quick) / 3 (thorough) preemptions at source-line granularity "
                  "through Dimension/Prefix/Unit construction and the memoised multiply helper, plus random 3-thread schedules, "
                  "executed on the real code by a sys.settrace scheduler; non-trivial = more than 4 traced lines; distinct by hash",
             extra={"schedules": len(cases), "traced_lines": nlines, "traces_validated_against_impl": len(cases),
                    "exhaustive": False},
             assumptions=["atomicity is the source line, as the property states; bytecode-level preemption inside a line, the GIL and "
                          "free-threaded builds are runtime behaviour the model does not exhibit",
                          "__init__ may run twice on one object (idempotent attribute stores); not part of the property"])

guarded(main, "C20")
