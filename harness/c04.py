"""C04 — a conversion that returns a value returns the right value, in the asked unit."""
import sys, os
sys.path.insert(0, os.path.dirname(os.path.abspath(__file__)))
from common import *
import convlib, convgen, sizes, synthsys

from convlib import FUEL, frac, tr_ratio, run_block, KNOWN_DIAG

def main():
    c = Check("C04")
    c.static_theorems()
    rng = c.rng
    quick = c.tier == "quick"
    # ---------------- shipped definitions
    exp0 = impl("export_worker.py", {})
    S = sizes.Sizes(exp0); sp = convgen.Space(exp0, S)
    bad_edges = tr_ratio(exp0, S)
    nship = 900 if quick else 12000
    corpus = [([[None, "one", 1], [None, "radian", -1]], [[None, "one", 1], [None, "degree", -1]]),
              ([["kilo", "meter", 1]], [[None, "mile", 1]]), ([[None, "liter", -1]], [[None, "gill", -1]]),
              ([[None, "joule", 1]], [["kilo", "watt", 1], [None, "hour", 1]]), ([[None, "acre", 1]], [[None, "meter", 2]]),
              ([[None, "meter", 1], [None, "second", -1]], [[None, "mile", 1], [None, "hour", -1]])]
    # every declared equivalence of the shipped table, asked directly in both directions (the answer is the declared number only if it agrees
    # with what the other declarations make of the two units: judged against the sizes like every other case)
    env_name = {i: n for i, _d, n in exp0["env"]}
    for d_ in S.decls:
        if d_.get("kind") != "equate": continue
        try:
            sa_, sb_ = ([[None, env_name[k], e] for k, e in d_[side][1]["f"]] for side in ("a", "b"))
        except KeyError: continue
        if sa_ and sb_ and not isinstance(d_["a"][1]["p"], dict) and not isinstance(d_["b"][1]["p"], dict):
            corpus += [(sa_, sb_), (sb_, sa_)]
    nship += len(corpus)
    cases = []
    for a, b in corpus:
        if all(n in sp.units for _, n, _ in a + b):
            cases.append({"op": "in_unit", "a": {"m": ["int", "3", "1"], "u": a}, "b": b})
    while len(cases) < nship:
        a, b = sp.pair(rng)
        cases.append({"op": "in_unit", "a": {"m": convgen.rand_mag(rng, ("int", "float", "dec")), "u": a}, "b": b})
    r = impl("convsys_worker.py", {"systems": True, "cases": cases, "coverage": True})
    if "coverage" in r: c.cov["conversions_py_line_coverage_shipped_run"] = r["coverage"]
    info = run_block(c, "ship", r["export"], cases, r["results"], Fraction(1, 10**11))
    stats = {"ship_right": 0, "ship_cnf": 0, "ship_wrong_known": 0, "ship_certified": 0, "ship_uncertified_right": 0}
    for i, (cs, res) in enumerate(zip(cases, r["results"])):
        if i not in info: continue
        inf = info[i]
        deg = max(sp.degree(cs["a"]["u"]), sp.degree(cs["b"]))
        c.count(cs, nontrivial=(cs["a"]["u"] != cs["b"]))
        repl = {"table": "shipped", "convert": cs, "implementation": {k: res.get(k) for k in ("m", "err", "same_unit")}}
        if "err" in res:
            if res["err"] != "ConversionNotFound":
                c.violation(f"exception:{res['err']}", f"conversion raised {res['err']}", repl)
            stats["ship_cnf"] += 1
            continue
        if not res.get("same_unit"):
            c.violation("result-unit", "the result does not carry the requested unit object", repl); continue
        ratio = sp.size_ratio(cs["a"]["u"], cs["b"])
        if ratio is None or len(res["m"]) != 3: continue
        want = frac(cs["a"]["m"]) * ratio; got = frac(res["m"])
        if want != 0 and not (Fraction(1, 10**200) < abs(want) < Fraction(10**200)):
            stats["outside_float_range"] = stats.get("outside_float_range", 0) + 1; continue      # underflow / overflow of the number format
        tol = Fraction(1, 10**5) * deg
        if inf["diag"] == 0: stats["ship_certified"] += 1
        if abs(got - want) <= tol * abs(want):
            stats["ship_right"] += 1
            if inf["diag"] != 0: stats["ship_uncertified_right"] += 1
            continue
        repl["oracle"] = {"want": float(want), "got": float(got), "relative_error": float(abs(got / want - 1)) if want else None,
                          "model_agrees": inf["model_ok"], "diag": inf["diag"]}
        if inf["model_ok"] is False or inf["model_ok"] is None:
            c.violation("wrong-value", f"converted magnitude {float(got)} but size ratio gives {float(want)}", repl); continue
        # the model of the unchanged code predicts this very value: a defect of the unchanged planner / table
        if inf["diag"] == 0:
            expl = None
            for rho, nm in bad_edges:
                for k in range(-deg, deg + 1):
                    if k and want and abs(got / want - rho ** k) <= tol * abs(rho ** k): expl = nm
            if expl:
                if not c.violation("inconsistent-edge:" + expl, "certified plan through an inconsistent declaration", repl): stats["ship_wrong_known"] += 1
            else:
                c.violation("certified-but-wrong", f"certified plan gives {float(got)}, sizes give {float(want)}: the shipped table is inconsistent on an edge not listed", repl)
        else:
            key, what = KNOWN_DIAG.get(inf["diag"], ("planner-other", "uncertified"))
            if not c.violation(key, what + f": {float(got)} instead of {float(want)}", repl): stats["ship_wrong_known"] += 1
    c.sample({"convert": cases[0], "result": r["results"][0].get("m")}); c.sample({"convert": cases[7], "result": r["results"][7].get("m") or r["results"][7].get("err")})
    # ---------------- conversions the exact model leaves out (a prefix mixing bases: an SI prefix on the byte = 2^3 bit, kilo x kibi):
    # judged against the SAME conversion between the unprefixed base-unit products -- which the model above covers -- scaled by the
    # prefix factors of the oracle; the planner never sees the prefixes, so planner defects cancel and only the prefix handling is compared
    atom_name = {i: n for i, _d, n in exp0["env"]}
    oom = [i for i, (cs, res) in enumerate(zip(cases, r["results"])) if i not in info and "setup_err" not in res]
    fixed_mixed = [([["pico", "byte", 1]], [[None, "bit", 1]]), ([["micro", "joule", 1], ["kibi", "byte", -1]], [[None, "joule", 1], [None, "bit", -1]]),
                   ([["milli", "watt", 1], ["mebi", "bit", -1]], [[None, "watt", 1], [None, "bit", -1]]), ([[None, "watt", 1], [None, "bit", -1]], [["milli", "watt", 1], ["mebi", "bit", -1]]),
                   ([["nano", "joule", 1], ["gibi", "byte", -1]], [["pico", "joule", 1], [None, "bit", -1]]), ([["kilo", "byte", 1]], [["kibi", "bit", 1]]),
                   ([["femto", "byte", 2]], [["atto", "bit", 2]]), ([["kibi", "meter", 1], ["milli", "second", -1]], [["kilo", "foot", 1], [None, "second", -1]])]
    mixed_cases = [cases[i] for i in oom]
    for a_, b_ in fixed_mixed:
        if all(n in sp.units for _, n, _ in a_ + b_) and all(p_ is None or p_ in sp.prefixes for p_, _, _ in a_ + b_):
            for m_ in (["int", "1", "1"], ["float", "7", "2"], ["int", "-3", "1"]):
                mixed_cases.append({"op": "in_unit", "a": {"m": m_, "u": a_}, "b": b_})
    def twin(spec):
        coef, f, _ = sp.spec_unit(spec)
        return coef, [[None, atom_name[k], x] for k, x in sorted(f.items())]
    twins = []
    for cs in mixed_cases:
        (ca, ta), (cb, tb) = twin(cs["a"]["u"]), twin(cs["b"])
        twins.append((ca, cb, {"op": "in_unit", "a": {"m": cs["a"]["m"], "u": ta}, "b": tb}))
    rm = impl("convsys_worker.py", {"systems": True, "cases": mixed_cases + [t for _, _, t in twins]})["results"]
    stats["mixed_prefix"] = 0
    for cs, (ca, cb, tw), res, rt in zip(mixed_cases, twins, rm[:len(mixed_cases)], rm[len(mixed_cases):]):
        if "setup_err" in res or "setup_err" in rt: continue
        c.count({"mixed": cs}, nontrivial=True)
        repl = {"table": "shipped", "convert": cs, "implementation": {k: res.get(k) for k in ("m", "err", "same_unit")},
                "unprefixed_twin": tw, "twin_implementation": {k: rt.get(k) for k in ("m", "err")}, "prefix_factors": [float(ca), float(cb)]}
        if "err" in res or "err" in rt:
            if res.get("err") != rt.get("err"):
                if res.get("err") not in (None, "ConversionNotFound"):
                    c.violation(f"exception:{res['err']}", f"conversion between prefixed units raised {res['err']} (between the unprefixed products: {rt.get('err') or 'a value'})", repl)
                else:
                    c.violation("prefix-handling", f"prefixed conversion gives {res.get('err') or 'a value'}, the unprefixed products give {rt.get('err') or 'a value'}", repl)
            continue
        if len(res["m"]) != 3 or len(rt["m"]) != 3: continue
        if not res.get("same_unit"):
            c.violation("result-unit", "the result does not carry the requested unit object", repl); continue
        want = frac(rt["m"]) * ca / cb; got = frac(res["m"])
        if want != 0 and not (Fraction(1, 10**150) < abs(want) < Fraction(10**150)): continue
        if frac(cs["a"]["m"]) * ca != 0 and not (Fraction(1, 10**150) < abs(frac(cs["a"]["m"]) * ca) < Fraction(10**150)): continue
        stats["mixed_prefix"] += 1
        if abs(got - want) > Fraction(1, 10**9) * abs(want) or (want == 0) != (got == 0):
            repl["oracle"] = {"want": float(want), "got": float(got)}
            c.violation("wrong-value", f"converted magnitude {float(got)}; the unprefixed conversion scaled by the prefix factors gives {float(want)}", repl)
    # ---------------- synthetic exactly-consistent systems
    nsys, nper = (10, 60) if quick else (80, 150)
    jobs = []
    for k in range(nsys):
        sysd = synthsys.gen_system(rng, k)
        sc = []
        for _ in range(nper):
            a, b = synthsys.gen_pair(rng, sysd)
            m = rng.choice([["int", "3", "1"], ["int", "-5", "1"], ["float", "5", "2"], ["float", "-7", "8"], ["int", "0", "1"], ["int", "12", "1"], ["float", "1", "1024"]])
            sc.append({"op": "in_unit", "a": {"m": m, "u": a}, "b": b})
        jobs.append((k, sysd, sc))
    with concurrent.futures.ThreadPoolExecutor(max_workers=12) as ex:
        outs = list(ex.map(lambda j: impl("convsys_worker.py", {"systems": False, "define": j[1]["define"], "decls": j[1]["decls"], "cases": j[2]}), jobs))
    sy = {"synth_right": 0, "synth_cnf": 0, "synth_wrong_known": 0, "synth_certified": 0}
    for (k, sysd, sc), rr in zip(jobs, outs):
        info = run_block(c, f"syn{k}", rr["export"], sc, rr["results"], Fraction(0), sizes_term=synthsys.sizes_coq(rr["export"], sysd))
        for i, (cs, res) in enumerate(zip(sc, rr["results"])):
            if i not in info: continue
            inf = info[i]
            c.count({"sys": k, "case": cs}, nontrivial=(cs["a"]["u"] != cs["b"]))
            repl = {"table": {"define": sysd["define"], "decls": sysd["decls"]}, "convert": cs,
                    "implementation": {kk: res.get(kk) for kk in ("m", "err", "same_unit")}}
            if "err" in res:
                if res["err"] != "ConversionNotFound":
                    c.violation(f"exception:{res['err']}", f"conversion raised {res['err']}", repl)
                sy["synth_cnf"] += 1; continue
            if not res.get("same_unit"):
                c.violation("result-unit", "the result does not carry the requested unit object", repl); continue
            want = frac(cs["a"]["m"]) * Fraction(2) ** (synthsys.spec_log2(sysd, cs["a"]["u"]) - synthsys.spec_log2(sysd, cs["b"]))
            got = frac(res["m"])
            if inf["diag"] == 0: sy["synth_certified"] += 1
            if got == want:
                sy["synth_right"] += 1; continue
            repl["oracle"] = {"want": float(want), "got": float(got), "model_agrees": inf["model_ok"], "diag": inf["diag"]}
            if not inf["model_ok"]:
                c.violation("wrong-value", f"converted magnitude {float(got)} but the exact size ratio gives {float(want)}", repl); continue
            if inf["diag"] == 0:
                c.violation("certified-but-wrong", "a certified plan on an exactly consistent table is wrong: contradicts Theorem C04_certified (model/harness defect)", repl)
            else:
                key, what = KNOWN_DIAG.get(inf["diag"], ("planner-other", "uncertified"))
                if not c.violation(key, what + f": {float(got)} instead of {float(want)}", repl): sy["synth_wrong_known"] += 1
        if k == 0:
            c.sample({"synthetic_system": sysd["decls"][:4], "convert": sc[0], "result": rr["results"][0].get("m")})
    stats.update(sy)
    c.finish(rule="pairs from the C04 space: equal-dimension products of <=3 registered offset-free named units with registered prefixes and "
                  "|exponent|<=3 on the shipped table (oracle: exact rational sizes solved from the intercepted declarations, 1e-5 per degree), "
                  "and on fresh synthetic exactly-consistent power-of-two unit systems with redundant and compound definitions (oracle exact, "
                  "model = implementation bit for bit); non-trivial = start and end differ; distinct by hash",
             extra=dict(stats, traces_validated_against_impl=c.cov["evaluations"],
                        explanation="C04_certified is proved for all tables/sizes/magnitudes; per case the certificate bit is evaluated on the model's plan "
                                    "(diag 0). Wrong values on which the model of the unchanged code agrees with the implementation and whose plan is "
                                    "uncertified are the recorded planner findings; any other wrong value or any model/implementation difference is a violation."),
             assumptions=["the size oracle is solved from the declarations in order; a declaration inconsistent with earlier ones (C09) shows up here only through the listed edge",
                          "floats are compared as exact rationals at 1e-11 relative on the shipped table and exactly on synthetic systems"])

guarded(main, "C04")
