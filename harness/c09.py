"""C09 — shipped unit definitions are mutually consistent and connected to SI."""
import sys, os, math
sys.path.insert(0, os.path.dirname(os.path.abspath(__file__)))
from common import *
import convlib, sizes
from convlib import frac, run_block, FUEL

def best_certificate(exp, rng):
    """size certificate (untrusted; re-checked in Coq): solve the declarations in several orders and keep the
    assignment with the fewest / smallest inconsistent declarations"""
    best = None
    decls = exp["decls"]
    orders = [list(range(len(decls))), list(range(len(decls)))[::-1]]
    for _ in range(6):
        o = list(range(len(decls))); rng.shuffle(o); orders.append(o)
    for o in orders:
        e2 = dict(exp, decls=[decls[i] for i in o])
        S = sizes.Sizes(e2)
        score = 0.0
        for _, r in S.residuals:
            score += 1.0 if isinstance(r, str) else min(1.0, float(r) * 1e3)
        if best is None or score < best[0]:
            best = (score, S)
    return best[1]

TEMP = {"celsius": (Fraction(1), Fraction("273.15")), "Rankine": (Fraction(5, 9), Fraction(0)), "fahrenheit": (Fraction(5, 9), Fraction("459.67") * Fraction(5, 9))}

def main():
    c = Check("C09")
    c.static_theorems()
    quick = c.tier == "quick"
    exp = impl("export_worker.py", {})
    names = {i: n for i, _, n in exp["env"]}
    def us(u): return "*".join(f"{names[k]}^{e}" for k, e in u["f"]) or "one"
    S = best_certificate(exp, random.Random(7))
    known_bad_keys = {k["key"] for k in c.known}
    # ---------------- every declaration (equals / scale), in order, including ones overwritten later
    table = {}
    for a, b, r in exp["ratios"]:
        table[(convlib.ukey(a), convlib.ukey(b))] = frac(r)
    decl_terms = []
    for i, d in enumerate(exp["decls"]):
        c.count({"decl": i})
        if d["kind"] != "equate": continue
        (ma, ua), (mb, ub) = d["a"], d["b"]
        # equate() unprefixes both sides: table[a][b] = (mb*pb)/(ma*pa)
        pa, pb = sizes.pval(ua["p"]), sizes.pval(ub["p"])
        fa, fb = frac(ma) * pa, frac(mb) * pb
        ka = ((0, 0), convlib.ukey(ua)[1]); kb = ((0, 0), convlib.ukey(ub)[1])
        if ka == kb: continue
        have = table.get((ka, kb))
        # the stored float is mb/ma computed in floats: compare at 1e-12
        want = fb / fa
        if have is None or abs(have - want) > Fraction(1, 10**12) * abs(want):
            key = f"overwritten:{us(ua)}={us(ub)}"
            c.violation(key, f"declaration #{i}: {float(fa)} {us(ua)} = {float(fb)} {us(ub)} is not what the table holds ({None if have is None else float(have)}): "
                             "a later declaration of the same pair overwrote it with a different ratio",
                        {"declaration_index": i, "declared_ratio": float(want), "table_ratio": None if have is None else float(have),
                         "how": "two declarations for one pair of units; compare conversions before/after importing the later module"})
    # ---------------- edges of the final table against the certificate
    E, H, bad, Emeta = [], [], [], []
    sizeterms = []
    for k in S.env_ids:
        coef, gens = S.size[k]
        sizeterms.append(f"({cpos(k)}, {cQ(coef)})")
    maxdev = 0.0
    units = []
    for a, b, r in exp["ratios"]:
        sa, sb = S.usize(a), S.usize(b)
        if any(names[k] in ("celsius", "fahrenheit") for k, _ in a["f"] + b["f"]):
            continue    # offset scales: the pair (degree, scale) has ratio 1 and an offset; covered by C10
        rr = frac(r)
        deg = max(1, sum(abs(e) for _, e in a["d"]))          # exponent degree of the dimension the edge lives in
        if sa is None or sb is None or sa[1] != sb[1]:
            c.violation(f"edge-dimension:{us(a)}={us(b)}", "declared equivalence between units whose sizes are not commensurable (different generators)",
                        {"a": us(a), "b": us(b), "ratio": float(rr)}); continue
        err = rr * sb[0] / sa[0]
        dev = abs(err - 1)
        if dev > Fraction(1, 10**5) * deg:
            key = "edge:" + " = ".join(sorted([us(a), us(b)]))
            bad.append((a, b, rr, err))
            c.violation(key, f"declared {us(a)} = {float(rr)} {us(b)} disagrees with the other definitions by {float(dev):.3e} (tolerance 1e-5 x degree {deg})",
                        {"a": us(a), "b": us(b), "declared_ratio": float(rr), "ratio_from_other_definitions": float(sa[0] / sb[0]),
                         "how": f"(1*{us(a)}).in_unit({us(b)}) along the declared edge vs along the chain through SI"})
            continue
        maxdev = max(maxdev, float(dev))
        # h = 1 + dev rounded up on a 1e-12 grid
        hx = max(err, 1 / err)
        h = 1 + Fraction(int((hx - 1) * 10**13) + 1, 10**13) if dev else Fraction(1)
        E.append(f"({cunit3(a)}, {cunit3(b)}, {cQ(rr)})"); H.append(cQ(h)); units += [a, b]
        Emeta.append((convlib.ukey(a), convlib.ukey(b), deg, dev, f"{us(a)} = {us(b)}"))
    # connected components of the declaration graph (nodes = unit normal forms): a chain stays inside one component
    parent = {}
    def find(x):
        while parent.setdefault(x, x) != x:
            parent[x] = parent[parent[x]]; x = parent[x]
        return x
    for (ka, kb, _, _, _) in Emeta:
        parent[find(ka)] = find(kb)
    comps = {}
    for j, (ka, kb, deg, dev, _) in enumerate(Emeta):
        comps.setdefault(find(ka), []).append(j)
    exact = [j for js in comps.values() if all(Emeta[j][3] == 0 for j in js) for j in js]
    groups = [("exact", exact, 1)] + [(f"c{n}", js, min(Emeta[j][2] for j in js)) for n, js in enumerate(sorted(comps.values(), key=len)) if any(Emeta[j][3] for j in js)]
    files = {}
    slacks = {}
    for gname, js, mindeg in groups:
        if not js: continue
        tolq = 1 + Fraction(mindeg, 10**5)
        slack = 1.0
        for j in js: slack *= 1 + float(Emeta[j][3])
        slacks[gname] = {"edges": len(js), "min_degree": mindeg, "slack": slack - 1, "example": Emeta[js[0]][4]}
        files[f"Gen_edges_{gname}"] = (convlib.CHEADER + "From Measured Require Import Model.Value Proofs.ConvertFacts Proofs.ChainFacts.\n"
           f"Definition cert : sizes := {clist(sizeterms)}.\n"
           f"Definition E : list edge := {clist(E[j] for j in js)}.\n"
           f"Definition H : list Q := {clist(H[j] for j in js)}.\n"
           "Lemma sizes_positive : forallb (fun ks => Qle_bool (1 # 1000000000000000000000000000000000000000000000000000000000000) (snd ks)) cert = true.\nProof. vm_compute. reflexivity. Qed.\n"
           "Lemma edges_ok : edges_within cert E H = true.\nProof. vm_compute. reflexivity. Qed.\n"
           "(* total slack of this component: every chain using each declared edge at most once deviates by at most this (C09_chain_bound) *)\n"
           f"Lemma slack_ok : Qle_bool (prod_all H) {cQ(tolq)} = true.\nProof. vm_compute. reflexivity. Qed.\n"
           "Lemma lengths : length E = length H.\nProof. reflexivity. Qed.\n")
    out = c.run_coq(files)
    for gname, (ok, log) in sorted(out.items()):
        g = gname.replace("Gen_edges_", "")
        c.oblige(f"{gname}.sizes_positive/edges_ok/slack_ok ({slacks[g]['edges']} directed declared edges of one component (e.g. {slacks[g]['example']}) within their bounds of the "
                 f"certificate; product of all bounds <= 1+1e-5*{slacks[g]['min_degree']}; with C09_edges_within_bounded + C09_chain_bound every duplicate-free chain agrees with the size ratio)", ok, log[-1200:])
    c.cov["component_slacks"] = slacks
    c.cov["declared_edges_checked"] = len(E); c.cov["max_edge_deviation"] = maxdev
    # ---------------- every named physical unit converts to and from the coherent SI unit of its dimension
    gen_by_dim = {}
    for g in S.generators:
        d = [x for i, dd, n in exp["env"] if i == g for x in dd]
        if len(d) == 1 and d[0][1] == 1 and names[g] not in ("celsius", "fahrenheit"):
            gen_by_dim.setdefault(d[0][0], names[g])
    by_oid = {u["o"]: u for u in exp["units"]}
    reach_cases, reach_names = [], []
    for n, o in sorted(exp["unit_by_name"].items()):
        u = by_oid[o]
        if not u["d"] or isinstance(u["p"], dict): continue
        coh = []
        okc = True
        for i, e in u["d"]:
            g = gen_by_dim.get(i)
            if g is None: okc = False; break
            coh.append(["kilo", "gram", e] if g == "gram" else [None, g, e])
        if not okc:
            c.notes.append(f"no coherent SI base unit found for a dimension of {n}"); continue
        m = ["float", "5", "2"]
        reach_cases.append({"op": "in_unit", "a": {"m": m, "u": [[None, n, 1]]}, "b": coh, "name": n, "dir": "to"})
        reach_cases.append({"op": "in_unit", "a": {"m": m, "u": coh}, "b": [[None, n, 1]], "name": n, "dir": "from"})
    # ... and, in the same process AFTER all of those conversions, both sides of every declared equivalence are taken to the coherent SI unit:
    # 1 a and r b must arrive at the same number (edges already reported as inconsistent above excepted)
    def coherent(dims):
        out_ = []
        for i_, e_ in dims:
            g_ = gen_by_dim.get(i_)
            if g_ is None: return None
            out_.append(["kilo", "gram", e_] if g_ == "gram" else [None, g_, e_])
        return out_
    def spec_of(u_):
        return ([[list(u_["p"]), "one", 1]] if u_["p"] != [0, 0] else []) + [[None, names[k_], e_] for k_, e_ in u_["f"]]
    badkeys = {(convlib.ukey(a_), convlib.ukey(b_)) for a_, b_, _, _ in bad} | {(convlib.ukey(b_), convlib.ukey(a_)) for a_, b_, _, _ in bad}
    edge_cases, edge_meta = [], []
    for a_, b_, r_ in exp["ratios"]:
        if isinstance(a_["p"], dict) or isinstance(b_["p"], dict) or not a_["d"] or (convlib.ukey(a_), convlib.ukey(b_)) in badkeys: continue
        if any(names[k_] in ("celsius", "fahrenheit") for k_, _ in a_["f"] + b_["f"]): continue
        coh_ = coherent(a_["d"])
        if coh_ is None or a_["d"] != b_["d"]: continue
        n_, d_ = (int(r_[1]), int(r_[2])) if len(r_) == 3 else (None, None)
        if n_ is None: continue
        edge_cases.append({"op": "in_unit", "a": {"m": ["int", "1", "1"], "u": spec_of(a_)}, "b": coh_})
        edge_cases.append({"op": "in_unit", "a": {"m": [r_[0], r_[1], r_[2]], "u": spec_of(b_)}, "b": coh_})
        edge_meta.append((a_, b_, max(1, sum(abs(e_) for _, e_ in a_["d"]))))
    r = impl("convsys_worker.py", {"systems": True, "cases": reach_cases + edge_cases})
    er = r["results"][len(reach_cases):]
    r["results"] = r["results"][:len(reach_cases)]
    nedge = 0
    for j_, (a_, b_, deg_) in enumerate(edge_meta):
        ra_, rb_ = er[2 * j_], er[2 * j_ + 1]
        c.count({"edge-through-si": [us(a_), us(b_)]})
        if "err" in ra_ or "err" in rb_ or "setup_err" in ra_ or "setup_err" in rb_ or len(ra_["m"]) != 3 or len(rb_["m"]) != 3: continue
        va_, vb_ = frac(ra_["m"]), frac(rb_["m"])
        nedge += 1
        if abs(va_ - vb_) > Fraction(1, 10**5) * deg_ * max(abs(va_), abs(vb_)):
            c.violation("edge-through-si:" + " = ".join(sorted([us(a_), us(b_)])), f"after every named unit has been converted to SI and back, the declared {us(a_)} = {float(frac(edge_cases[2 * j_ + 1]['a']['m']))} {us(b_)} "
                        f"arrives at {float(va_)} and {float(vb_)} in the coherent SI unit", {"edge": [us(a_), us(b_)], "si_values": [float(va_), float(vb_)], "left": edge_cases[2 * j_], "right": edge_cases[2 * j_ + 1],
                        "how": "harness/impl/convsys_worker.py: the reach cases (every named unit to and from SI, in name order) followed by these two conversions, in one process"})
    c.cov["declared_edges_followed_to_si_after_reach"] = nedge
    info = run_block(c, "reach", r["export"], reach_cases, r["results"], Fraction(1, 10**11), shard=120)
    ex2 = r["export"]; S2 = S
    nreach = 0
    pairs = []
    for i, (cs, res) in enumerate(zip(reach_cases, r["results"])):
        c.count({"reach": cs["name"], "dir": cs["dir"]})
        repl = {"convert": {k: cs[k] for k in ("a", "b")}, "implementation": {k: res.get(k) for k in ("m", "err", "msg")}}
        if "err" in res or "setup_err" in res:
            c.violation(f"unreachable:{cs['name']}", f"{cs['name']} does not convert {cs['dir']} the coherent SI unit of its dimension: {res.get('err') or res.get('setup_err')}", repl); continue
        nreach += 1
        ratio = S.ratio(dict(res["source"], p=[0, 0]), dict(res["target"], p=[0, 0]))
        if ratio is not None and len(res["m"]) == 3:
            ps, pt = sizes.pval(res["source"]["p"]), sizes.pval(res["target"]["p"])
            want = frac(cs["a"]["m"]) * ratio * ps / pt; got = frac(res["m"])
            deg = sum(abs(e) for _, _, e in (cs["b"] if cs["dir"] == "to" else cs["a"]["u"]))
            if abs(got - want) > Fraction(1, 10**5) * max(1, deg) * abs(want):
                expl = any(want and abs(got / want - rho ** kx) <= Fraction(1, 10**5) * max(1, deg) * abs(rho ** kx) for (_, _, _, rho) in bad for kx in (-2, -1, 1, 2))
                key = "si-value:routed-through-inconsistent-edge" if expl and info.get(i, {}).get("model_ok") else f"si-value:{cs['name']}"
                repl["oracle"] = {"want": float(want), "got": float(got)}
                c.violation(key, f"{cs['name']} {cs['dir']} SI: {float(got)} instead of {float(want)}", repl)
        # the temperature scales reach kelvin by their affine definitions (value-level oracle as in C10; the declarations themselves are C10's)
        tn = cs["name"]
        if ratio is None and tn in TEMP and len(res["m"]) == 3:
            a_, b_ = TEMP[tn]
            x = frac(cs["a"]["m"])
            want = a_ * x + b_ if cs["dir"] == "to" else (x - b_) / a_
            got = frac(res["m"])
            if abs(got - want) > Fraction(1, 10**9) * max(abs(want), 1):
                repl["oracle"] = {"want": float(want), "got": float(got)}
                c.violation(f"si-value:{tn}", f"{tn} {cs['dir']} kelvin: {float(got)} instead of {float(want)}", repl)
        if cs["dir"] == "to":
            pairs.append(f"({cunit3(res['source'])}, {cunit3(res['target'])})"); units += [res["source"], res["target"]]
    td = convlib.table_defs(ex2, [x for x in units if "of" in x])
    files = {}
    sh = 60
    for k in range(0, len(pairs), sh):
        files[f"Gen_reach_{k // sh}"] = (convlib.CHEADER + td +
            f"Definition pairs : list (unit3 * unit3) := {clist(pairs[k:k + sh])}.\n"
            f"Definition succeeds (s e : unit3) : bool := match convert bd tbl ord offs {FUEL}%nat 1 s e with COk _ => true | CErr _ => false end.\n"
            "Lemma all_named_reach_si : forallb (fun '(u, s) => andb (succeeds u s) (succeeds s u)) pairs = true.\nProof. vm_compute. reflexivity. Qed.\n")
    # the invariants every history of declarations keeps (C08_declarations_keep_table_reciprocal, C10_history_tables), evaluated on the table the
    # shipped modules actually built: every stored ratio has its reciprocal stored the other way (floats: within 1e-12), every stored offset its
    # opposite, and offsets sit on pairs whose ratio is one both ways
    files["Gen_reciprocal"] = (convlib.CHEADER + "From Coq Require Import Bool.\nFrom Measured Require Import Model.Declare.\n" + td +
        "Lemma shipped_tables_reciprocal : reciprocalb (1 # 1000000000000) tbl && oppositeb offs && offsets_on_unit_ratiosb tbl offs && negb (Nat.eqb (length tbl) 0) = true.\n"
        "Proof. vm_compute. reflexivity. Qed.\n")
    out = c.run_coq(files)
    ok_r, log_r = out.pop("Gen_reciprocal")
    c.oblige("Gen_reciprocal.shipped_tables_reciprocal (the exported _ratios / _offsets of the shipped modules: reciprocal ratios, opposite offsets, offsets only on unit ratios; what `true` means: C09_reciprocal_check_sound, C09_opposite_check_sound)", ok_r, log_r[-600:])
    if not ok_r:
        # locate the entry on the export itself
        kk = lambda u: json.dumps([u["p"], u["f"]])
        R_ = {(kk(a), kk(b)): rr for a, b, rr in ex2["ratios"]}
        names_ = {i: n for i, _d, n in ex2["env"]}
        for a, b, rr in ex2["ratios"]:
            r2 = R_.get((kk(b), kk(a)))
            if r2 is None or (len(rr) == 3 and len(r2) == 3 and abs(frac(rr) * frac(r2) - 1) > Fraction(1, 10**12)):
                nm = " ".join(names_.get(k_, "?") for k_, _ in a["f"]) + " -> " + " ".join(names_.get(k_, "?") for k_, _ in b["f"])
                c.violation(f"not-reciprocal:{nm}", f"_ratios[{nm}] = {rr} but the other direction holds {r2}", {"a": a, "b": b, "ratio": rr, "reverse": r2}); break
    for nme, (ok, log) in sorted(out.items()):
        c.oblige(f"{nme}.all_named_reach_si (the planner model converts every reachable named unit to and from the coherent SI unit, on the regenerated table)", ok, log[-600:])
    c.cov["named_units_reaching_si"] = nreach // 2
    c.cov["exhaustive"] = True
    c.sample({"edge": E[0][:200], "bound": H[0]}); c.sample({"reach": reach_cases[0]["name"], "si": reach_cases[0]["b"], "result": r["results"][0].get("m")})
    c.finish(rule="exhaustive over the shipped modules: every equals()/scale() declaration intercepted at import (in order, overwritten ones included), every directed "
                  "entry of the resulting ratio table against a size certificate re-checked in the kernel, every registered named unit with a physical dimension "
                  "to and from the coherent SI unit (implementation, model, exact oracle); distinct = per declaration / per named unit and direction",
             extra={"traces_validated_against_impl": len(reach_cases)},
             assumptions=["the size certificate is found by an untrusted solver and re-checked edge by edge in Coq", "chains are chains that follow each declared (directed) edge at most once",
                          "dimensionless named units have no coherent SI unit and are excluded from the reach-SI clause; the temperature scales' offsets are covered by C10"])

guarded(main, "C09")
