"""C05 — conversion is an invertible linear scaling, independent of the route taken."""
import sys, os
sys.path.insert(0, os.path.dirname(os.path.abspath(__file__)))
from common import *
import convlib, convgen, sizes, synthsys
from convlib import frac, run_block, KNOWN_DIAG, tr_ratio

KS = [["int", "2", "1"], ["int", "-3", "1"], ["float", "1", "2"], ["float", "5", "4"], ["int", "10", "1"], ["float", "-1", "8"]]

def mul(a, b):
    f = frac(a) * frac(b)
    kind = "dec" if "dec" in (a[0], b[0]) else ("int" if a[0] == "int" and b[0] == "int" else "float")
    return [kind, str(f.numerator), str(f.denominator)]

def bundle(a, b, cc, m, k):
    """the conversions one (a, b, c, m, k) instance needs, as chain ops"""
    q = lambda mm, u: {"m": mm, "u": u}
    return [{"op": "chain", "a": q(m, a), "via": [b, a]},                    # there and back
            {"op": "chain", "a": q(mul(k, m), a), "via": [b]},                 # k * q
            {"op": "chain", "a": q(["int", "0", "1"], a), "via": [b]},         # zero
            {"op": "chain", "a": q(m, a), "via": [a]},                          # own unit
            {"op": "chain", "a": q(m, a), "via": [cc, b]},                      # via c
            {"op": "chain", "a": q(mul(["int", "-1", "1"], m), a), "via": [b]}]  # sign

def flatten(ops, results):
    """chain steps as independent (case, result) pairs for the correspondence"""
    cs, rs, where = [], [], []
    for i, (op, res) in enumerate(zip(ops, results)):
        for j, st in enumerate(res["steps"]):
            if "setup_err" in st: continue
            cs.append({"a": {"m": st["m_in"], "u": None}}); rs.append(st); where.append((i, j))
    return cs, rs, where

def val(st):
    return frac(st["m"]) if "m" in st and len(st["m"]) == 3 else None

def judge(c, tag, table_desc, inst, ops, results, info_at, tol_of, bad_edges, stats, deg, ratios=None):
    """evaluate the five relations of one instance; info_at(i, j) -> dict(model_ok, diag) of step j of op i"""
    a, b, cc, m, k = inst
    # instances whose exact values leave the range of a double (yocto x yobi^-3 ...) underflow to 0.0 / overflow to inf: that is the
    # number format, not the conversion; they are counted and skipped
    if ratios:
        for rt in ratios:
            if rt is not None and rt != 0 and not (Fraction(1, 10**250) < abs(frac(m) * rt) < Fraction(10**250)):
                stats["outside_float_range"] = stats.get("outside_float_range", 0) + 1
                return
    there_back, scaled, zero, own, via, neg = [r["steps"] for r in results]
    repl = {"table": table_desc, "a": a, "b": b, "c": cc, "m": m, "k": k,
            "implementation": [[{kk: st.get(kk) for kk in ("m_in", "m", "err")} for st in r["steps"]] for r in results]}
    def known_or_violation(key, what, steps_idx):
        infos = [info_at(i, j) for i, j in steps_idx]
        if any(x is None or x["model_ok"] is not True for x in infos):
            return c.violation(key, what, repl)
        diags = [x["diag"] for x in infos]
        if any(d in (2, 3) for d in diags):
            d = 2 if 2 in diags else 3
            if not c.violation(KNOWN_DIAG[d][0], KNOWN_DIAG[d][1] + "; " + what, repl): stats["known"] += 1
            return
        return c.violation(key, what, repl)
    for r in results:
        for st in r["steps"]:
            if "err" in st and st["err"] != "ConversionNotFound":
                c.violation(f"exception:{st['err']}", f"conversion raised {st['err']}", repl)
            if "m" in st and not st.get("same_unit", True):
                c.violation("result-unit", "result does not carry the requested unit", repl)
    mm = frac(m); kk = frac(k)
    v = val(there_back[0]) if there_back else None
    # linearity, zero, sign, own unit: hold for every plan, no finding can excuse them
    if v is not None:
        stats["instances"] += 1
        vk = val(scaled[0]) if scaled else None
        if vk is not None and abs(vk - kk * v) > Fraction(1, 10**12) * abs(kk * v):
            c.violation("linear", f"converting k*q gives {float(vk)}, k times the conversion of q is {float(kk * v)}", repl)
        z = val(zero[0]) if zero else None
        if z is not None and z != 0:
            c.violation("zero", f"zero converts to {float(z)}", repl)
        n = val(neg[0]) if neg else None
        if n is not None and (abs(n + v) > Fraction(1, 10**12) * abs(v) or (v > 0) != (mm > 0) and mm != 0):
            c.violation("sign", f"q converts to {float(v)}, -q to {float(n)} (q = {float(mm)})", repl)
    o = val(own[0]) if own else None
    if o is not None:
        if abs(o - mm) > Fraction(1, 10**12) * abs(mm):
            c.violation("own-unit", f"converting {float(mm)} into its own unit gives {float(o)}", repl)
    # round trip
    if len(there_back) == 2 and val(there_back[1]) is not None:
        w = val(there_back[1]); stats["roundtrips"] += 1
        if abs(w - mm) > tol_of(deg) * abs(mm):
            expl = any(mm and abs(w / mm - rho ** kx) <= tol_of(deg) * abs(rho ** kx) for rho, _ in bad_edges for kx in range(-2 * deg, 2 * deg + 1) if kx)
            if expl:
                if not c.violation("inconsistent-edge:" + bad_edges[0][1], f"round trip {float(mm)} -> {float(w)}", repl): stats["known"] += 1
            else:
                known_or_violation("roundtrip", f"there and back gives {float(w)} for {float(mm)}", [(0, 0), (0, 1)])
    # via an intermediate unit
    if len(via) == 2 and val(via[1]) is not None and v is not None:
        w = val(via[1]); stats["routes"] += 1
        if abs(w - v) > tol_of(deg) * abs(v):
            expl = any(v and abs(w / v - rho ** kx) <= tol_of(deg) * abs(rho ** kx) for rho, _ in bad_edges for kx in range(-2 * deg, 2 * deg + 1) if kx)
            if expl:
                if not c.violation("inconsistent-edge:" + bad_edges[0][1], f"via c: {float(w)}, direct: {float(v)}", repl): stats["known"] += 1
            else:
                known_or_violation("route", f"converting via c gives {float(w)}, directly {float(v)}", [(0, 0), (4, 0), (4, 1)])

def main():
    c = Check("C05")
    c.static_theorems()
    rng = c.rng
    quick = c.tier == "quick"
    stats = {"instances": 0, "roundtrips": 0, "routes": 0, "known": 0}
    # ---------------- shipped
    exp0 = impl("export_worker.py", {})
    S = sizes.Sizes(exp0); sp = convgen.Space(exp0, S)
    bad_edges = tr_ratio(exp0, S)
    ninst = 110 if quick else 1500
    insts, ops = [], []
    for _ in range(ninst):
        a, b = sp.pair(rng)
        cc = sp.alt(rng, a)
        m = convgen.rand_mag(rng, ("int", "float", "dec"))
        if frac(m) == 0: m = ["int", "7", "1"]
        inst = (a, b, cc, m, rng.choice(KS)); insts.append(inst); ops += bundle(*inst)
    # Decimal magnitudes across very small and very large ratios (a Decimal times a float ratio of 1e-19 must not lose its value)
    U_ = lambda n, e=1, p=None: [[p, n, e]]
    for a, b, cc in ((U_("electron-volt"), U_("joule"), U_("joule", 1, "milli")), (U_("dalton"), U_("gram", 1, "kilo"), U_("gram")), (U_("barn"), U_("meter", 2), U_("meter", 2, "milli")),
                     (U_("Ångström"), U_("mile"), U_("meter")), (U_("meter", 1, "atto"), U_("meter", 1, "kilo"), U_("foot")), (U_("inch"), U_("astronomical unit"), U_("meter")),
                     (U_("second", 1, "zepto"), U_("hour"), U_("minute")), (U_("gram", 1, "yotta"), U_("dalton"), U_("gram"))):
        if all(n in sp.units for spec in (a, b, cc) for _, n, _ in spec):
            for m in (["dec", "7", "4"], ["dec", "-3", "1"], ["dec", "12345", "1000"]):
                inst = (a, b, cc, m, ["dec", "4", "1"]); insts.append(inst); ops += bundle(*inst)
    # dimensionless units: angle units with and without prefixes, and the registered unit "one" (with a prefix, too) as start, end or
    # intermediate -- whatever converts must agree with converting directly
    for a, b, cc in ((U_("radian"), U_("degree"), U_("one")), (U_("radian", 1, "milli"), U_("degree"), U_("radian")), (U_("radian"), U_("one", 1, "kilo"), U_("degree")),
                     (U_("one"), U_("radian"), U_("degree")), (U_("degree"), U_("arcminute"), U_("radian", 1, "micro")), (U_("arcsecond", 1, "milli"), U_("radian"), U_("degree")),
                     (U_("degree"), U_("radian", 1, "milli"), U_("one", 1, "milli")), (U_("steradian"), U_("one"), U_("degree", 2))):
        if all(n == "one" or n in sp.units for spec in (a, b, cc) for _, n, _ in spec):
            for m in (["int", "3", "1"], ["float", "5", "2"], ["dec", "7", "4"]):
                inst = (a, b, cc, m, ["int", "4", "1"]); insts.append(inst); ops += bundle(*inst)
    r = impl("convsys_worker.py", {"systems": True, "cases": ops})
    cs, rs, where = flatten(ops, r["results"])
    info = run_block(c, "ship", r["export"], cs, rs, Fraction(1, 10**11))
    at = {w: info.get(i) for i, w in enumerate(where)}
    def sr_(x_, y_):
        try: return sp.size_ratio(x_, y_)
        except KeyError: return None          # the unit "one" has no entry in the size oracle's named units
    for n, inst in enumerate(insts):
        deg = max(sp.degree(inst[0]), sp.degree(inst[1]), sp.degree(inst[2]))
        c.count({"inst": inst}, nontrivial=(inst[0] != inst[1]))
        judge(c, "ship", "shipped", inst, ops[6 * n:6 * n + 6], r["results"][6 * n:6 * n + 6],
              lambda i, j, n=n: at.get((6 * n + i, j)), lambda d: Fraction(1, 10**5) * d, bad_edges, stats, deg,
              ratios=[sr_(inst[0], inst[1]), sr_(inst[0], inst[2]), sr_(inst[1], inst[0])])
    c.sample({"a": insts[0][0], "b": insts[0][1], "c": insts[0][2], "m": insts[0][3], "k": insts[0][4],
              "steps": [[st.get("m") or st.get("err") for st in x["steps"]] for x in r["results"][:6]]})
    # ---------------- the first conversion of a pair made by several threads at once gives what a single thread gets
    rpairs = []
    for _ in range(12 if quick else 80):
        a, b = sp.pair(rng); rpairs.append((a, b, convgen.rand_mag(rng, ("int", "float"))))
    seq = impl("convsys_worker.py", {"systems": True, "cases": [{"op": "in_unit", "a": {"m": m, "u": a}, "b": b} for a, b, m in rpairs]})["results"]
    rac = impl("convsys_worker.py", {"systems": True, "cases": [{"op": "race", "a": {"m": m, "u": a}, "b": b, "threads": 8} for a, b, m in rpairs]})["results"]
    for (a, b, m), s1, r1 in zip(rpairs, seq, rac):
        c.count({"race": [a, b, m]}, nontrivial=(a != b))
        if "setup_err" in s1 or "setup_err" in r1: continue
        want = s1.get("m") or ["err", s1.get("err")]
        got = [tuple(x) for x in r1["threads"]] + [tuple(r1["after"])]
        if any(x != tuple(want) for x in got):
            c.violation("concurrent-first-use", f"converting {m} {a} to {b} first from 8 threads at once gives {sorted(set(got))[:4]}, a single thread gets {want}",
                        {"a": a, "b": b, "m": m, "threads": r1["threads"], "after": r1["after"], "sequential": want})
    # ---------------- synthetic
    nsys, nper = (8, 14) if quick else (60, 40)
    jobs = []
    for k in range(nsys):
        sysd = synthsys.gen_system(rng, k)
        insts, ops = [], []
        for _ in range(nper):
            a, b = synthsys.gen_pair(rng, sysd)
            inst = (a, b, synthsys.alt(rng, sysd, a), rng.choice([["int", "3", "1"], ["float", "5", "2"], ["int", "-12", "1"], ["float", "7", "8"],
                                                                          # large magnitudes with a fractional part (exact in binary): nothing may round them to whole numbers
                                                                          ["float", "2469135781", "2"], ["float", "-493827157", "4"], ["float", "2199023255553", "2"], ["float", "123456789012345", "8"]]), rng.choice(KS[:3] + [["int", "4", "1"]]))
            insts.append(inst); ops += bundle(*inst)
        jobs.append((k, sysd, insts, ops))
    with concurrent.futures.ThreadPoolExecutor(max_workers=12) as ex:
        outs = list(ex.map(lambda j: impl("convsys_worker.py", {"systems": False, "define": j[1]["define"], "decls": j[1]["decls"], "cases": j[3]}), jobs))
    for (k, sysd, insts, ops), rr in zip(jobs, outs):
        cs, rs, where = flatten(ops, rr["results"])
        info = run_block(c, f"syn{k}", rr["export"], cs, rs, Fraction(0), sizes_term=synthsys.sizes_coq(rr["export"], sysd))
        at = {w: info.get(i) for i, w in enumerate(where)}
        for n, inst in enumerate(insts):
            c.count({"sys": k, "inst": inst}, nontrivial=(inst[0] != inst[1]))
            judge(c, f"syn{k}", {"define": sysd["define"], "decls": sysd["decls"]}, inst, ops[6 * n:6 * n + 6], rr["results"][6 * n:6 * n + 6],
                  lambda i, j, n=n: at.get((6 * n + i, j)), lambda d: Fraction(1, 10**12), [], stats, 1)
    c.finish(rule="instances (a, b, c, m, k): a, b, c equal-dimension unit expressions from the C04 space (shipped table; fresh synthetic "
                  "exactly-consistent systems), m a non-zero int/float magnitude, k a scale factor; per instance the implementation converts "
                  "q, k*q, -q, 0 to b, q to a, q to b and back, q to c to b; relations: linearity/zero/sign/own-unit at 1e-12 (they hold for every "
                  "plan), round trip and route independence at 1e-5 per degree (shipped) / 1e-12 (synthetic); every single conversion is also "
                  "compared with the Coq model; non-trivial = a and b differ; distinct by hash",
             extra=dict(stats, traces_validated_against_impl=c.cov["evaluations"]),
             assumptions=["round trip / route independence are conditional on the conversions involved being certified (C04); uncertified plans of the "
                          "unchanged planner on which the model agrees with the implementation are the recorded planner findings"])

guarded(main, "C05")
