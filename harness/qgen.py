"""Coq terms for the quantity-dispatch cases."""
from common import *

KIND = {"int": "KInt", "float": "KFloat", "dec": "KDec"}
ERR = {"TypeError": "ETypeError", "ConversionNotFound": "ECNF", "FractionalDimensionError": "EFrac", "ZeroDivisionError": "EZeroDiv"}
QHEADER = """From stdpp Require Import gmap.
From Coq Require Import ZArith QArith List.
From Measured Require Import Model.FMap Model.Units Model.Quantity Model.QCheck Model.Check.
Local Open Scope Z_scope.
"""

class OutOfModel(Exception): pass

def cnum(n):
    if len(n) != 3: raise OutOfModel("non-finite")
    return Fraction(int(n[1]), int(n[2]))

def cvalue(v):
    t = v["t"]
    if t == "num":
        if v["m"][0] not in KIND: raise OutOfModel(v["m"][0])
        return f"(VNum {KIND[v['m'][0]]} {cQ(cnum(v['m']))})"
    if t == "unit":
        if isinstance(v["u"]["p"], dict): raise OutOfModel("mixed")
        return f"(VUnit {cunit3(v['u'])})"
    if t == "qty":
        if isinstance(v["u"]["p"], dict): raise OutOfModel("mixed")
        if v["m"][0] not in KIND: raise OutOfModel(v["m"][0])
        return f"(VQty {cqty(v)})"
    if t == "prefix":
        if isinstance(v["p"], dict): raise OutOfModel("mixed")
        return f"(VPrefix {cprefix(v['p'])})"
    return "VOther"

def cqty(v):
    if isinstance(v["u"]["p"], dict): raise OutOfModel("mixed")
    if v["m"][0] not in KIND: raise OutOfModel(v["m"][0])
    return f"(MkQty {KIND[v['m'][0]]} {cQ(cnum(v['m']))} {cunit3(v['u'])})"

def cexpected(r, nomag=False):
    if "err" in r:
        return f"(XErr {ERR[r['err']]})" if r["err"] in ERR else "XOtherErr"
    t = r["t"]
    if t == "qty":
        if isinstance(r["u"]["p"], dict): raise OutOfModel("mixed")
        if r["m"][0] not in KIND:
            if nomag: return f"(XQtyNoMag None {cunit3(r['u'])})"
            raise OutOfModel(r["m"][0])
        if nomag or len(r["m"]) != 3:
            return f"(XQtyNoMag (Some {KIND[r['m'][0]]}) {cunit3(r['u'])})"
        return f"(XQty {KIND[r['m'][0]]} {cQ(cnum(r['m']))} {cunit3(r['u'])})"
    if t == "unit":
        if isinstance(r["u"]["p"], dict): raise OutOfModel("mixed")
        return f"(XUnit {cunit3(r['u'])})"
    if t == "prefix":
        if isinstance(r["p"], dict): raise OutOfModel("mixed")
        return f"(XPrefix {cprefix(r['p'])})"
    if t == "bool": return f"(XBool {'true' if r['b'] else 'false'})"
    raise OutOfModel(t)

BOP = {"mul": "OpMul", "div": "OpDiv", "add": "OpAdd", "sub": "OpSub", "eq": "OpEq"}
CMP = {"lt": "CLt", "le": "CLe", "gt": "CGt", "ge": "CGe"}

def ccase(case, rec):
    op = case["op"]
    res = rec["res"]
    if op in BOP:
        return f"(CBin {BOP[op]} {cvalue(rec['l'])} {cvalue(rec['r'])} {cexpected(res)})"
    if op == "ne":
        r2 = dict(res)
        if res.get("t") == "bool": r2["b"] = not res["b"]
        return f"(CBin OpEq {cvalue(rec['l'])} {cvalue(rec['r'])} {cexpected(r2)})"
    if op in CMP:
        return f"(CCmp {CMP[op]} {cvalue(rec['l'])} {cvalue(rec['r'])} {cexpected(res)})"
    if op == "pow":
        if rec["l"]["t"] != "qty": raise OutOfModel("pow of non-quantity")
        if rec["l"]["m"][0] == "dec" and int(rec["l"]["m"][1]) == 0 and case["r"] <= 0:
            raise OutOfModel("Decimal(0) ** non-positive: decimal context signals, not modelled")
        return f"(CPow {cqty(rec['l'])} {cZ(case['r'])} {cexpected(res)})"
    if op == "root":
        if rec["l"]["t"] != "qty": raise OutOfModel("root of non-quantity")
        if rec["l"]["m"][0] == "dec" and int(rec["l"]["m"][1]) <= 0 and case["r"] not in (0, 1):
            raise OutOfModel("Decimal power of a non-positive base with a fractional exponent (InvalidOperation)")
        return f"(CRoot {cqty(rec['l'])} {cZ(case['r'])} {cexpected(res, nomag=(case['r'] != 0))})"
    if op == "in_unit":
        if isinstance(rec["r"]["u"]["p"], dict): raise OutOfModel("mixed")
        return f"(CInUnit {cqty(rec['l'])} {cunit3(rec['r']['u'])} {cexpected(res)})"
    raise OutOfModel(op)

def conv_table(pairs):
    """pairs: (canon unit a, canon unit b, Fraction ratio)"""
    return clist(f"({cfmap(a['f'])}, {cfmap(b['f'])}, {cQ(r)})" for a, b, r in pairs)

def qfile(cases_txt, convtbl_txt):
    return QHEADER + f"""
Definition ctbl : convtbl := {convtbl_txt}.
Definition cases : list qcase := {clist(cases_txt)}.
Lemma run_agrees : mismatches (run_case ctbl) cases = [].
Proof. vm_compute. reflexivity. Qed.
"""

def qdiag(cases_txt, convtbl_txt):
    return QHEADER + f"""
Definition ctbl : convtbl := {convtbl_txt}.
Definition cases : list qcase := {clist(cases_txt)}.
Eval vm_compute in mismatches (run_case ctbl) cases.
"""

def run_shards(c, tag, cases, recs, convtbl_txt, shard=400):
    """emit, compile and register run_agrees obligations; returns indices of mismatching cases"""
    texts, idxmap = [], []
    skipped = 0
    for i, (case, rec) in enumerate(zip(cases, recs)):
        try:
            texts.append(ccase(case, rec)); idxmap.append(i)
        except OutOfModel:
            skipped += 1
    files = {f"Run_{tag}_{s // shard}": qfile(texts[s:s + shard], convtbl_txt) for s in range(0, len(texts), shard)}
    outs = c.run_coq(files)
    bad = []
    for n, (ok, log) in sorted(outs.items()):
        c.oblige(f"{n}.run_agrees (dispatch model = implementation: result class, unit, magnitude kind and value, exception class)", ok, log[-500:])
        if not ok:
            s = int(n.split("_")[-1]) * shard
            okd, dlog = c.coq_eval(n + "_diag", qdiag(texts[s:s + shard], convtbl_txt))
            m = re.search(r"=\s*\[(.*?)\]\s*:", dlog, re.S)
            idx = [int(x) for x in re.findall(r"\d+", m.group(1))] if m else []
            bad += [idxmap[s + i] for i in idx]
    c.cov["out_of_exact_model"] = c.cov.get("out_of_exact_model", 0) + skipped
    return bad
