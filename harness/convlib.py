"""Shared by the conversion checks (C04, C05, C07, C09, C10): emit the exported tables and the
conversion cases as Coq terms for Model/Convert.v and read the per-case bits back."""
from common import *

CHEADER = """From stdpp Require Import gmap.
From Coq Require Import ZArith QArith List.
From Measured Require Import Model.FMap Model.Units Model.Quantity Model.Convert Model.ConvCheck Model.Check.
Import ListNotations.
Local Open Scope Z_scope.
"""
CERR = {"ConversionNotFound": "CNF", "KeyError": "EKey", "IndexError": "EIndex", "ValueError": "EValue",
        "ZeroDivisionError": "EZero", "RecursionError": "EFuel"}

class OutOfModel(Exception):
    pass

def ukey(u):
    if isinstance(u["p"], dict):
        raise OutOfModel("mixed-base prefix")
    return (tuple(u["p"]), tuple(tuple(x) for x in u["f"]))

def catoms(of):
    if not of:
        return "[(0%N, 1)]"
    return clist(f"({k}%N, {cZ(e)})" for k, e in of)

def cnumq(n):
    if len(n) != 3:
        raise OutOfModel("non-finite magnitude")
    return cQ(Fraction(int(n[1]), int(n[2])))

def table_defs(exp, extra_units=()):
    """Coq definitions bd, tbl, offs, ord from an export; extra_units: canonical units whose ordered
    factors the planner may need (the start / end units of the cases)"""
    env = clist(f"({cpos(i)}, {cfmap(d)})" for i, d, _ in exp["env"])
    def tab(entries):
        rows = {}
        order = []
        for a, b, r in entries:
            k = ukey(a)
            if k not in rows:
                rows[k] = (a, []); order.append(k)
            rows[k][1].append((b, r))
        return clist("(" + cunit3(rows[k][0]) + ", " + clist(f"({cunit3(b)}, {cnumq(r)})" for b, r in rows[k][1]) + ")"
                     for k in order)
    ords = {}
    for a, b, _ in exp["ratios"]:
        for u in (a, b):
            ords.setdefault(ukey(u), u)
    for u in extra_units:
        try:
            ords.setdefault(ukey(u), u)
        except OutOfModel:
            pass
    ordt = clist(f"({cunit3(u)}, {catoms(u['of'])})" for u in ords.values())
    return (f"Definition bd : env := {env}.\n"
            f"Definition tbl : table := {tab(exp['ratios'])}.\n"
            f"Definition offs : table := {tab(exp['offsets'])}.\n"
            f"Definition ord : ordtab := {ordt}.\n")

def ccase(m, src, tgt, res, ref=0):
    """one ccase term from a worker result"""
    if "err" in res:
        x = f"(XErr {CERR[res['err']]})" if res["err"] in CERR else "XOther"
    elif not res.get("same_unit", True):
        x = "XOther"
    else:
        x = f"(XVal {cnumq(res['m'])})"
    ukey(src); ukey(tgt)
    return f"(MkCase {cnumq(m)} {cunit3(src)} {cunit3(tgt)} {x} {cQ(ref)})"

def parse_bools(log, name):
    """value of `Eval vm_compute in <list bool>` printed after a marker line"""
    m = re.search(r"= (\[[^\]]*\])\s*:\s*list bool", log[log.index(name):] if name in log else log, re.S)
    if not m:
        return None
    return [t == "true" for t in re.findall(r"true|false", m.group(1))]

def parse_nats(log):
    m = re.search(r"= (\[[^\]]*\])\s*:\s*list nat", log, re.S)
    if not m:
        return None
    return [int(t) for t in re.findall(r"\d+", m.group(1))]


FUEL = 300

def frac(n):
    return Fraction(int(n[1]), int(n[2]))

def tr_ratio(exp, S):
    """the known inconsistent declaration (ton of refrigeration: 12000 BTU/h vs 3.51685 kW): ratio of the two sizings"""
    out = []
    for idx, r in S.residuals:
        if not isinstance(r, str) and r > Fraction(1, 10**5):
            d = S.decls[idx]
            sa, sb = S.usize(d["a"][1]), S.usize(d["b"][1])
            rho = (frac(d["a"][0]) * sa[0]) / (frac(d["b"][0]) * sb[0])
            names = {i: n for i, _, n in exp["env"]}
            out.append((rho, " ".join(names[k] for k, _ in d["a"][1]["f"])))
    return out

def run_block(c, tag, exp, cases, results, tol, shard=200, sizes_term=None):
    """Correspondence + certificate bits for one table.  Returns per-case dict(model_ok, diag)."""
    terms, keep = [], []
    for i, (cs, res) in enumerate(zip(cases, results)):
        if "setup_err" in res:
            continue
        # results outside the comfortable range of a double (atto x (tiny unit)^-3 ...): the implementation's intermediate products lose
        # precision to subnormals / overflow, which is the number format and not the conversion; counted, not compared
        underflow = ("m" in res and len(res["m"]) == 3 and frac(res["m"]) == 0 and len(cs["a"]["m"]) == 3 and frac(cs["a"]["m"]) != 0)   # a non-zero input came out as 0.0
        if underflow or "m" in res and len(res["m"]) == 3 and frac(res["m"]) != 0 and not (Fraction(1, 10**200) < abs(frac(res["m"])) < Fraction(10**200)):
            c.cov["outside_float_range"] = c.cov.get("outside_float_range", 0) + 1
            continue
        try:
            terms.append(ccase(cs["a"]["m"], res["source"], res["target"], res, cs.get("ref", 0))); keep.append(i)
        except OutOfModel:
            pass
    units = [results[i][k] for i in keep for k in ("source", "target")]
    td = table_defs(exp, units)
    files = {}
    shards = [list(range(k, min(k + shard, len(terms)))) for k in range(0, len(terms), shard)]
    for si, idxs in enumerate(shards):
        sub = [terms[j] for j in idxs]
        txt = CHEADER + td + f"Definition cases : list ccase := {clist(sub)}.\n"
        txt += f"Definition ok := conv_ok bd tbl ord offs {FUEL}%nat {cQ(tol)}.\n"
        txt += "Definition mm := Eval vm_compute in mismatches ok cases.\nPrint mm.\n"
        txt += f"Definition dg := Eval vm_compute in map (fun c => diag bd tbl ord offs {FUEL}%nat (c_s c) (c_e c)) cases.\nPrint dg.\n"
        txt += "Lemma run_agrees : mm = [].\nProof. vm_compute. reflexivity. Qed.\n"
        files[f"Run_{tag}_{si}"] = txt
    if sizes_term is not None:
        files[f"Gen_{tag}_consistent"] = (CHEADER + "From Measured Require Import Model.Value Proofs.ConvertFacts.\n" + td +
            f"Definition hidden_sizes : sizes := {sizes_term}.\n"
            "Lemma table_consistent : consistentb hidden_sizes tbl = true.\nProof. vm_compute. reflexivity. Qed.\n"
            "Lemma sizes_positive : forallb (fun ks => Qle_bool (1 # 1000000) (snd ks)) hidden_sizes = true.\nProof. vm_compute. reflexivity. Qed.\n")
    # hypotheses of C07_only_cnf on this table: every stored ratio is non-zero, every exported ordered factor has a non-zero exponent
    files[f"Gen_{tag}_wf"] = (CHEADER + "From Measured Require Import Proofs.FDictFacts Proofs.PlannerErrors.\n" + td +
        "Lemma table_ratios_nonzero : table_nzb tbl = true.\nProof. vm_compute. reflexivity. Qed.\n"
        "Lemma ordered_exponents_nonzero : ord_nzb ord = true.\nProof. vm_compute. reflexivity. Qed.\n")
    out = c.run_coq(files)
    okw, logw = out[f"Gen_{tag}_wf"]
    c.oblige(f"Gen_{tag}_wf (hypotheses of C07_only_cnf on the exported table: non-zero ratios, non-zero factor exponents)", okw, logw[-600:])
    info = {i: {"model_ok": True, "diag": None} for i in keep}
    all_ok = True
    for si, idxs in enumerate(shards):
        ok, log = out[f"Run_{tag}_{si}"]
        mm = re.search(r"mm =\s*(\[[^\]]*\])", log, re.S)
        dg = re.search(r"dg =\s*(\[[^\]]*\])", log, re.S)
        bad = [int(t) for t in re.findall(r"\d+", mm.group(1))] if mm else None
        dgl = [int(t) for t in re.findall(r"\d+", dg.group(1))] if dg else None
        if bad is None or dgl is None or len(dgl) != len(idxs):
            c.oblige(f"Run_{tag}_{si} compiles (model evaluates on the cases)", False, log[-1500:])
            all_ok = False
            for j in idxs: info[keep[j]]["model_ok"] = None
            continue
        for j in bad: info[keep[idxs[j]]]["model_ok"] = False
        for j, d in zip(idxs, dgl): info[keep[j]]["diag"] = d
        c.oblige(f"Run_{tag}_{si}.run_agrees (model = implementation on {len(idxs)} conversions, tol {float(tol):g})", ok and not bad,
                 f"mismatching case indices {bad[:10]}" if bad else log[-800:])
    if sizes_term is not None:
        ok, log = out[f"Gen_{tag}_consistent"]
        c.oblige(f"Gen_{tag}_consistent (the exported table is exactly consistent with the hidden sizes: hypotheses of C04_certified)", ok, log[-800:])
    return info

KNOWN_DIAG = {2: ("planner-sign-heuristic", "the planner's exponent-sign heuristic (conversions.py _match_factors/_cancel_factors: `exponent = -1 if any(e < 0 ...)`) inverts a unit-to-unit step"),
              3: ("planner-uncertified", "the planner emits a plan that is not a formal identity of the declared equivalences (_splat/_replace_factors/_match_factors bookkeeping of derived and dimensionless factors)"),
              1: ("direct-prefixed", "direct path between prefixed units")}

