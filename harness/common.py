"""Shared machinery of the checks: running the implementation, emitting and compiling Coq,
known findings, verdict and evidence."""
import os, sys, json, subprocess, time, re, hashlib, random, shutil, fcntl, concurrent.futures
from fractions import Fraction

ROOT = os.path.dirname(os.path.dirname(os.path.abspath(__file__)))
COQ = os.path.join(ROOT, "coq")
REPO = os.environ.get("VERIF_REPO", "/repo")   # VERIF_REPO: scratch copy used only by the seeded-change trials
IMPL_PY = "/venv/bin/python"
COQ_WARN = "-notation-overridden,-deprecated-hint-without-locality,-deprecated-instance-without-locality,-ambiguous-paths,-redundant-canonical-projection"

TRUSTED_BASE = [
    "Coq 8.16.1 kernel and its vm_compute reduction (no native_compute)",
    "std++ 1.8.0 (gmap) and the Coq standard library",
    "harness translators/exporters in /verif/harness (registry, declarations, tables, case generators, canonicalisation)",
    "CPython 3.12 semantics as modelled (operator dispatch, dict order, float -> exact rational embedding)",
]

def impl_env():
    env = dict(os.environ)
    env["PYTHONPATH"] = os.path.join(REPO, "src")
    env["PYTHONHASHSEED"] = "0"
    env["PYTHONDONTWRITEBYTECODE"] = "1"
    env["MEASURED_VERIF"] = "1"
    return env

def impl(script, data, opt=False, timeout=900, cwd=None):
    """Run harness/impl/<script> on the implementation in a fresh process; JSON in, JSON out."""
    cmd = [IMPL_PY] + (["-O"] if opt else []) + [os.path.join(ROOT, "harness", "impl", script)]
    p = subprocess.run(cmd, input=json.dumps(data), capture_output=True, text=True,
                       env=impl_env(), timeout=timeout, cwd=cwd or ROOT)
    if p.returncode != 0:
        raise ImplCrash(script, p.returncode, p.stderr[-3000:])
    try:
        return json.loads(p.stdout)
    except Exception:
        raise ImplCrash(script, 0, "unparsable output: " + p.stdout[-2000:] + p.stderr[-2000:])

class ImplCrash(Exception):
    def __init__(self, script, rc, err):
        super().__init__(f"{script} exited {rc}: {err}")
        self.script, self.rc, self.err = script, rc, err

# ---------------------------------------------------------------- Coq text
def cZ(n):
    n = int(n)
    return f"({n})" if n < 0 else f"{n}"

def cpos(n):
    assert int(n) > 0
    return f"{int(n)}%positive"

def cnat(n):
    assert 0 <= int(n) < 5000
    return f"{int(n)}%nat"

def cQ(fr):
    fr = Fraction(fr)
    return f"({cZ(fr.numerator)} # {fr.denominator})"

def clist(items):
    return "[" + "; ".join(items) + "]"

def cfmap(pairs):
    pairs = [(k, e) for k, e in pairs]
    if not pairs:
        return "fone"
    return "(of_list " + clist(f"({cpos(k)}, {cZ(e)})" for k, e in pairs) + ")"

def cprefix(p):
    return f"(MkP {cZ(p[0])} {cZ(p[1])})"

def cunit3(u):
    return f"(MkU {cprefix(u['p'])} {cfmap(u['f'])} {cfmap(u['d'])})"

def cstring(s):
    """a Python str as a Coq list of code points (Z)"""
    return clist(str(ord(c)) for c in s)

HEADER = """From stdpp Require Import gmap.
From Coq Require Import ZArith QArith List.
From Measured Require Import Model.FMap Model.Units Model.Intern Model.Check.
Local Open Scope Z_scope.
"""

# ---------------------------------------------------------------- Coq build
def ensure_static_build():
    """(Re)build the static development if needed; serialised between concurrent checks."""
    os.makedirs(os.path.join(ROOT, ".work"), exist_ok=True)
    with open(os.path.join(ROOT, ".work", "build.lock"), "w") as lk:
        fcntl.flock(lk, fcntl.LOCK_EX)
        if not os.path.exists(os.path.join(COQ, "Makefile")):
            subprocess.run(["coq_makefile", "-f", "_CoqProject", "-o", "Makefile"], cwd=COQ, check=True,
                           stdout=subprocess.DEVNULL)
        p = subprocess.run(["timeout", "3000", "make", "-j16"], cwd=COQ, capture_output=True, text=True)
        return p.returncode == 0, (p.stdout + p.stderr)[-4000:]

def coqc(workdir, name, timeout=900):
    """compile workdir/name.v with the static library on the load path"""
    cmd = ["timeout", str(timeout), "coqc", "-w", COQ_WARN, "-Q", COQ, "Measured", "-Q", workdir, "Run",
           os.path.join(workdir, name + ".v")]
    t = time.time()
    p = subprocess.run(cmd, capture_output=True, text=True, cwd=workdir)
    out = p.stdout + p.stderr
    # coqc 8.16 occasionally dies with "Fatal error: out of memory" (RSS < 1 GB, plenty free) at a vm_compute, deterministically for some
    # combinations of directory names and not for others (seen in scratch copies under long paths).  That is the tool failing, not a proof:
    # the same file is compiled again from a sub-directory of another name; a proof that really fails fails there too.
    k = 0
    while p.returncode != 0 and "Fatal error: out of memory" in out and k < 3:
        k += 1
        sub = os.path.join(workdir, "_retry" + "x" * (7 * k))
        os.makedirs(sub, exist_ok=True)
        shutil.copy(os.path.join(workdir, name + ".v"), os.path.join(sub, name + ".v"))
        cmd2 = ["timeout", str(timeout), "coqc", "-w", COQ_WARN, "-Q", COQ, "Measured", "-Q", sub, "Run", os.path.join(sub, name + ".v")]
        p = subprocess.run(cmd2, capture_output=True, text=True, cwd=sub)
        out = p.stdout + p.stderr
    return p.returncode == 0, out, time.time() - t

def coqc_many(workdir, names, jobs=16, timeout=900):
    res = {}
    with concurrent.futures.ThreadPoolExecutor(max_workers=jobs) as ex:
        futs = {ex.submit(coqc, workdir, n, timeout): n for n in names}
        for f in concurrent.futures.as_completed(futs):
            res[futs[f]] = f.result()
    return res

def recheck_props(workdir, pid):
    """Re-compile Props/<pid>.v into the work directory: re-checks every property theorem against the
    freshly built library and captures the Print Assumptions output."""
    src = os.path.join(COQ, "Props", pid + ".v")
    text = open(src).read()
    out_v = os.path.join(workdir, f"Props_{pid}.v")
    open(out_v, "w").write(text)
    ok, out, dt = coqc(workdir, f"Props_{pid}")
    theorems = re.findall(r"^\s*Theorem\s+(\w+)", text, re.M)
    # Print Assumptions output: either "Closed under the global context" or "Axioms:" blocks
    blocks = re.split(r"(?=Closed under the global context|Axioms:)", out)
    printed = re.findall(r"^\s*Print Assumptions\s+(\w+)\s*\.", re.sub(r"\(\*.*?\*\)", "", text, flags=re.S), re.M)
    by_name = {}
    for name, b in zip(printed, blocks[1:]):       # the blocks come in the order of the Print Assumptions commands
        if b.startswith("Closed"):
            by_name[name] = "closed"
        else:
            names = re.findall(r"^([A-Za-z_][\w.']*)\s*:", b, re.M)
            by_name[name] = sorted(set(n for n in names if n != "Axioms"))
    assumptions = [by_name.get(t, "not printed") for t in theorems]
    return ok, theorems, assumptions, out

ALLOWED_AXIOMS = {"Coq.Logic.FunctionalExtensionality.functional_extensionality_dep", "Coq.Reals.ClassicalDedekindReals.sig_not_dec",
                  "Coq.Reals.ClassicalDedekindReals.sig_forall_dec", "Coq.Logic.Classical_Prop.classic"}      # the standard library's own (DESIGN.md §6)

def coqchk_props(pid, timeout=1500):
    """coqchk -o over the compiled Props/<pid>.vo and everything it depends on (an independent checker): returns (verdict, detail, axioms);
    verdict None = the checker did not finish in time (recorded, not judged)"""
    try:
        p = subprocess.run(["coqchk", "-o", "-silent", "-Q", COQ, "Measured", f"Measured.Props.{pid}"], capture_output=True, text=True, timeout=timeout)
    except subprocess.TimeoutExpired:
        return None, "coqchk did not finish within the time limit", []
    except OSError as ex:
        return None, f"coqchk could not be started: {ex}", []
    out = p.stdout + p.stderr
    if p.returncode != 0 or "CONTEXT SUMMARY" not in out:
        if "out of memory" in out.lower() or p.returncode < 0: return None, "coqchk was stopped (memory / signal): " + out[-200:], []
        return False, out[-800:], []
    summary = out[out.index("CONTEXT SUMMARY"):]
    m = re.search(r"\* Axioms:(.*?)\n\s*\n", summary, re.S)
    axioms = [a for a in re.findall(r"^\s+([A-Za-z_][\w.']*)\s*$", m.group(1), re.M)] if m and "<none>" not in m.group(1).split("\n")[0] else []
    unsafe = [ln.strip() for ln in summary.split("\n") if ln.strip().startswith("*") and any(k in ln for k in ("type-in-type", "unsafe", "positivity")) and "<none>" not in ln]
    extra = sorted(set(axioms) - ALLOWED_AXIOMS)
    if extra or unsafe:
        return False, f"axioms outside the standard library's: {extra}; {unsafe}", axioms
    return True, "", axioms

FORBIDDEN = re.compile(r"\b(Admitted|admit|Axiom|Axioms|Parameter|Parameters|Conjecture|Admit Obligations|"
                       r"Unset Guard Checking|Unset Positivity Checking|Unset Universe Checking|bypass_check|"
                       r"native_compute|type-in-type|impredicative-set)\b")

def grep_gate():
    """no Admitted/Axiom/... anywhere in the development (comments stripped)"""
    bad = []
    for d, _, fs in os.walk(COQ):
        for f in fs:
            if f.endswith(".v") or f == "_CoqProject":
                txt = open(os.path.join(d, f)).read()
                txt = re.sub(r"\(\*.*?\*\)", "", txt, flags=re.S)
                for m in FORBIDDEN.finditer(txt):
                    bad.append(f"{os.path.join(d, f)}: {m.group(0)}")
    return bad

# ---------------------------------------------------------------- known findings
def load_known():
    p = os.path.join(ROOT, "known_findings.json")
    if not os.path.exists(p):
        return []
    return json.load(open(p))["findings"]

# ---------------------------------------------------------------- verdict
class Check:
    def __init__(self, pid, argv=None):
        self.pid = pid
        self.t0 = time.time()
        self.tier = os.environ.get("VERIF_TIER", "quick")
        argv = argv if argv is not None else sys.argv[1:]
        if "--tier" in argv:
            self.tier = argv[argv.index("--tier") + 1]
        if self.tier not in ("quick", "thorough"):
            self.tier = "quick"
        self.seed = int(os.environ.get("VERIF_SEED", "20260926"))
        self.rng = random.Random(self.seed)
        self.work = os.path.join(ROOT, ".work", pid)
        shutil.rmtree(self.work, ignore_errors=True)
        os.makedirs(self.work, exist_ok=True)
        os.makedirs(os.path.join(ROOT, "evidence"), exist_ok=True)
        self.obligations = []      # (name, ok, detail)
        self.violations = []       # dict(key, what, replay)
        self.known_seen = {}       # id -> what
        self.known = [k for k in load_known() if k["property"] == pid]
        self.cov = {"evaluations": 0, "samples": [], "trusted_base": list(TRUSTED_BASE)}
        self.axioms = {}
        self.distinct = set()
        self.notes = []

    # -- obligations (things the kernel checked on this run)
    def oblige(self, name, ok, detail=""):
        self.obligations.append((name, bool(ok), detail))
        return ok

    def static_theorems(self):
        ok, out = ensure_static_build()
        self.oblige("static development builds (make)", ok, "" if ok else out[-1500:])
        bad = grep_gate()
        self.oblige("no Admitted/Axiom/Parameter/... in the development", not bad, "; ".join(bad[:5]))
        ok2, thms, assumptions, out2 = recheck_props(self.work, self.pid)
        if not ok2:
            self.oblige(f"Props/{self.pid}.v re-checks", False, out2[-1500:])
        for i, t in enumerate(thms):
            a = assumptions[i] if i < len(assumptions) else "unknown"
            self.axioms[t] = a
            self.oblige(f"Theorem {t}", ok2, "")
        if self.tier == "thorough":
            # the independent checker over the compiled property file and its dependencies
            verdict, detail, axioms = coqchk_props(self.pid)
            self.cov["coqchk"] = {"finished": verdict is not None, "axioms": axioms, "note": detail[:200]}
            if verdict is not None:
                self.oblige(f"coqchk -o Measured.Props.{self.pid} (independent re-check of the compiled theorems and everything they depend on; axioms within the standard library's, "
                            "no type-in-type, unsafe fixpoint or assumed positivity)", verdict, detail)
        return ok and ok2

    def run_coq(self, files):
        """files: name -> Coq text; every file is an obligation (its lemmas are closed by vm_compute)"""
        for n, txt in files.items():
            open(os.path.join(self.work, n + ".v"), "w").write(txt)
        res = coqc_many(self.work, list(files))
        out = {}
        for n in files:
            ok, log, dt = res[n]
            out[n] = (ok, log)
        return out

    def coq_eval(self, name, text):
        """compile a diagnostic file and return Coq's output (used only to locate mismatches)"""
        open(os.path.join(self.work, name + ".v"), "w").write(text)
        ok, log, dt = coqc(self.work, name)
        return ok, log

    # -- cases
    def count(self, case, nontrivial=True):
        self.cov["evaluations"] += 1
        if nontrivial:
            self.distinct.add(hashlib.sha1(json.dumps(case, sort_keys=True, default=str).encode()).hexdigest())

    def sample(self, case, limit=6):
        if len(self.cov["samples"]) < limit:
            self.cov["samples"].append(case)

    # -- violations
    def match_known(self, key):
        for k in self.known:
            if k.get("status") == "known" and k["key"] == key:
                return k
        return None

    def violation(self, key, what, replay):
        """key identifies the failing input / call site; matched against known_findings.json"""
        k = self.match_known(key)
        if k is not None:
            self.known_seen.setdefault(k["key"], k["what"])
            return False
        if any(v["key"] == key for v in self.violations):
            return True
        self.violations.append({"key": key, "what": what, "replay": replay})
        return True

    def finish(self, rule, level="proof", extra=None, assumptions=None):
        failed = [(n, d) for n, ok, d in self.obligations if not ok]
        # a broken obligation without a concrete failing input is still a violation
        if failed and not self.violations:
            self.violations.append({
                "key": "obligation:" + failed[0][0],
                "what": "proof obligation / correspondence no longer checks: " + "; ".join(n for n, _ in failed[:5]),
                "replay": {"unchecked": [{"obligation": n, "detail": d[-2000:]} for n, d in failed[:10]]},
                "nofail": True})
        lines = []
        for kid, what in sorted(self.known_seen.items()):
            lines.append(f"KNOWN-FINDING: property={self.pid} {what}")
        rc = 0
        for i, v in enumerate(self.violations[:5]):
            path = os.path.join(self.work, f"replay_{i}.json")
            json.dump({"property": self.pid, "key": v["key"], "what": v["what"], "replay": v["replay"],
                       "failed_obligations": [n for n, _ in failed]}, open(path, "w"), indent=1, default=str)
            tail = " no-failing-input-found" if v.get("nofail") else ""
            lines.append(f"VIOLATION property={self.pid} replay={path}{tail}")
            rc = 1
        cov = self.cov
        cov["obligations"] = len(self.obligations)
        cov["discharged"] = sum(1 for _, ok, _ in self.obligations if ok)
        cov["obligation_names"] = [n for n, _, _ in self.obligations]
        cov["distinct_nontrivial"] = len(self.distinct)
        cov["rule"] = rule
        cov["checker_cmd"] = f"cd /verif && ./check {self.pid} --tier {self.tier}   (make in coq/; coqc on .work/{self.pid}/*.v)"
        cov["axioms_per_theorem"] = self.axioms
        if extra:
            cov.update(extra)
        ev = {"property_id": self.pid, "tier": self.tier, "seed": self.seed, "level": level,
              "coverage": cov,
              "assumptions": (assumptions or []) + self.notes,
              "wall_s": round(time.time() - self.t0, 2),
              "violations": len(self.violations),
              "known_findings_reobserved": sorted(self.known_seen)}
        json.dump(ev, open(os.path.join(ROOT, "evidence", f"{self.pid}.json"), "w"), indent=1, default=str)
        for l in lines:
            print(l)
        print(f"{self.pid}: obligations {cov['discharged']}/{cov['obligations']}, evaluations {cov['evaluations']}, "
              f"distinct {cov['distinct_nontrivial']}, violations {len(self.violations)}, "
              f"known findings {len(self.known_seen)}, {ev['wall_s']} s")
        sys.exit(rc)


def guarded(main, pid):
    """run a check's main(); an implementation that cannot even be imported / driven is reported as a violation
    of the correspondence (no failing input of the property itself was found)"""
    try:
        main()
    except ImplCrash as ex:
        work = os.path.join(ROOT, ".work", pid); os.makedirs(work, exist_ok=True)
        path = os.path.join(work, "replay_crash.json")
        json.dump({"property": pid, "what": "the implementation worker crashed; correspondence cannot be established",
                   "unchecked": f"correspondence {ex.script}", "stderr": ex.err}, open(path, "w"), indent=1)
        ev = {"property_id": pid, "tier": os.environ.get("VERIF_TIER", "quick"), "seed": int(os.environ.get("VERIF_SEED", "20260926")),
              "level": "proof", "coverage": {"obligations": 1, "discharged": 0, "checker_cmd": f"./check {pid}",
              "trusted_base": TRUSTED_BASE, "evaluations": 1, "distinct_nontrivial": 0, "samples": [ex.err[-500:]]},
              "wall_s": 0.0, "violations": 1}
        json.dump(ev, open(os.path.join(ROOT, "evidence", f"{pid}.json"), "w"), indent=1)
        print(f"VIOLATION property={pid} replay={path} no-failing-input-found")
        sys.exit(1)
