"""C03 — quantity operations obey dimensional analysis; incommensurables are rejected."""
import sys, os
sys.path.insert(0, os.path.dirname(os.path.abspath(__file__)))
from common import *
import qgen
from sizes import Sizes

UNITS = [
    [[None, "meter", 1]], [["kilo", "meter", 1]], [[None, "foot", 1]], [[None, "inch", 2]], [[None, "second", 1]],
    [[None, "hour", 1]], [[None, "meter", 1], [None, "second", -1]], [["kilo", "meter", 1], [None, "hour", -1]],
    [[None, "newton", 1]], [[None, "one", 1]], [[None, "radian", 1]], [[None, "gram", 1]], [[None, "pound", 1]],
    [["kilo", "gram", 1], [None, "meter", 2], [None, "second", -2]], [[None, "joule", 1]], [[None, "kelvin", 1]],
    [["milli", "second", -2]], [[None, "meter", 2]], [["centi", "meter", 2]], [[None, "hertz", 1]], [["kibi", "bit", 1]],
    [[None, "volt", 1], [None, "ampere", -1]], [[None, "ohm", 1]],
]
MAGS = {"int": [["int", "3", "1"], ["int", "-2", "1"], ["int", "0", "1"], ["int", "7", "1"]],
        "float": [["float", "5", "2"], ["float", "-1", "2"], ["float", "0", "1"], ["float", "1", "8"]],
        "dec": [["dec", "5", "4"], ["dec", "-3", "1"], ["dec", "0", "1"]]}

def dim_of(v):
    if v["t"] in ("unit", "qty"): return {a: b for a, b in v["u"]["d"]}
    return {}

def dmul(a, b, s=1):
    r = dict(a)
    for k, e in b.items(): r[k] = r.get(k, 0) + s * e
    return {k: e for k, e in r.items() if e}

def main():
    c = Check("C03")
    c.static_theorems()
    rng = c.rng
    def num(kind=None):
        kind = kind or rng.choice(["int", "float", "dec"])
        return {"t": "num", "m": rng.choice(MAGS[kind])}
    def qty(kind=None, unit=None):
        kind = kind or rng.choice(["int", "float", "dec"])
        return {"t": "qty", "m": rng.choice(MAGS[kind]), "u": unit or rng.choice(UNITS)}
    def unit(): return {"t": "unit", "u": rng.choice(UNITS)}
    def prefix(): return {"t": "prefix", "p": rng.choice(["kilo", "milli", "mega", "kibi"])}
    makers = {"num": num, "qty": qty, "unit": unit, "prefix": prefix, "other": lambda: {"t": "other"}}
    cases = []
    reps = 3 if c.tier == "quick" else 25
    # exhaustive operator x operand-class x magnitude-kind matrix, units sampled
    for op in ("mul", "div"):
        for lt in makers:
            for rt in makers:
                if "qty" not in (lt, rt) and "unit" not in (lt, rt) and "prefix" not in (lt, rt): continue
                for lk in (["int", "float", "dec"] if lt in ("num", "qty") else [None]):
                    for rk in (["int", "float", "dec"] if rt in ("num", "qty") else [None]):
                        for _ in range(reps):
                            l = makers[lt](lk) if lk else makers[lt]()
                            r = makers[rt](rk) if rk else makers[rt]()
                            cases.append({"op": op, "l": l, "r": r})
    for op in ("add", "sub", "eq", "ne", "lt", "le", "gt", "ge"):
        for lt in ("qty", "num", "unit", "other"):
            for rt in ("qty", "num", "unit", "other"):
                if "qty" not in (lt, rt): continue
                for lk in (["int", "float", "dec"] if lt in ("num", "qty") else [None]):
                    for rk in (["int", "float", "dec"] if rt in ("num", "qty") else [None]):
                        for _ in range(reps * (3 if lt == rt == "qty" else 1)):
                            l = makers[lt](lk) if lk else makers[lt]()
                            r = makers[rt](rk) if rk else makers[rt]()
                            if lt == rt == "qty" and rng.random() < 0.5:
                                # commensurable pair: same unit or a convertible sibling
                                r["u"] = l["u"] if rng.random() < 0.4 else rng.choice(UNITS)
                            cases.append({"op": op, "l": l, "r": r})
    # a zero of another dimension on either side is still of another dimension (0, 0.0, -0.0, Decimal 0)
    for zk, zm in (("int", ["int", "0", "1"]), ("float", ["float", "0", "1"]), ("float", ["float", "-0", "1"]), ("dec", ["dec", "0", "1"])):
        for ua, ub in (([[None, "meter", 1]], [[None, "second", 1]]), ([["kilo", "gram", 1]], [[None, "meter", 2]]), ([[None, "meter", 1], [None, "second", -1]], [[None, "kelvin", 1]]), ([[None, "one", 1]], [[None, "meter", 1]])):
            for op in ("add", "sub", "lt", "ge", "eq", "ne"):
                cases.append({"op": op, "l": {"t": "qty", "m": ["int", "1", "1"], "u": ua}, "r": {"t": "qty", "m": zm, "u": ub}})
                cases.append({"op": op, "l": {"t": "qty", "m": zm, "u": ub}, "r": {"t": "qty", "m": ["float", "5", "2"], "u": ua}})
            cases.append({"op": "in_unit", "l": {"t": "qty", "m": zm, "u": ua}, "r": {"t": "unit", "u": ub}})
    for n in range(-4, 5):
        for k in ("int", "float", "dec"):
            for _ in range(reps):
                cases.append({"op": "pow", "l": qty(k), "r": n})
                # an integer power that is first asked for as a float and as a Decimal (refused) and then as the integer it is
                cases.append({"op": "pow", "l": qty(k), "r": rng.choice([5, 6, 7, -5, -6, 9]), "refused_first": True})
                q = qty(k)
                if rng.random() < 0.6 and n not in (0,):
                    q["u"] = [[p, nm, e * abs(n)] for p, nm, e in q["u"]]
                cases.append({"op": "root", "l": q, "r": n})
    for op in ("neg", "pos", "abs"):
        for k in ("int", "float", "dec"):
            for _ in range(reps): cases.append({"op": op, "l": qty(k)})
    for _ in range(60 * reps):
        cases.append({"op": "in_unit", "l": qty(), "r": unit()})
    # + and - between the same base units written with different prefixes, in both orders: the result keeps the LEFT operand's unit
    PREF = [([["kilo", "meter", 1]], [[None, "meter", 1]]), ([["milli", "meter", 1]], [["kilo", "meter", 1]]), ([["kilo", "gram", 1]], [[None, "gram", 1]]),
            ([["mega", "hertz", 1]], [["kilo", "hertz", 1]]), ([["kilo", "meter", 1], [None, "second", -1]], [[None, "meter", 1], [None, "second", -1]]),
            ([["kilo", "meter", 2]], [[None, "meter", 2]]), ([["kibi", "bit", 1]], [[None, "bit", 1]]), ([["centi", "meter", 2]], [["milli", "meter", 2]])]
    for op in ("add", "sub"):
        for ua, ub in PREF:
            for k in ("int", "float", "dec"):
                cases.append({"op": op, "l": qty(k, ua), "r": qty(k, ub)})
                cases.append({"op": op, "l": qty(k, ub), "r": qty(k, ua)})
    # the same numeric magnitude as int, then float, then Decimal through the same root / power (type must follow the operand)
    for n in (2, 3, -2):
        for base in (4, 27, 64):
            for k in ("int", "float", "dec", "float", "dec", "int"):
                u = [[None, "meter", abs(n) * 2]]
                cases.append({"op": "root", "l": {"t": "qty", "m": [k, str(base), "1"], "u": u}, "r": n})
                cases.append({"op": "pow", "l": {"t": "qty", "m": [k, str(base), "1"], "u": [[None, "second", 1]]}, "r": n})
    # roots of products of different units of one dimension (metre x foot): the factor exponents are not divisible although the
    # dimension's are, so the root is refused -- or, if anything is returned, it has the dimension's root
    for ua, ub in (("meter", "foot"), ("hour", "second"), ("gram", "pound"), ("meter", "inch")):
        for spec, n in (([[None, ua, 1], [None, ub, 1]], 2), ([[None, ua, 3], [None, ub, 1]], 2), ([[None, ua, 1], [None, ub, 1]], -2), ([[None, ua, 2], [None, ub, 1]], 3)):
            for k in ("int", "float", "dec"):
                cases.append({"op": "root", "l": {"t": "qty", "m": MAGS[k][0] if k != "int" else ["int", "16", "1"], "u": spec}, "r": n})
    # sums and differences on the temperature scales stay on the left operand's scale
    for ua, ub in (("celsius", "celsius"), ("celsius", "kelvin"), ("fahrenheit", "fahrenheit"), ("kelvin", "celsius"), ("fahrenheit", "Rankine"), ("celsius", "fahrenheit")):
        for op in ("add", "sub"):
            for k in ("int", "float", "dec"):
                cases.append({"op": op, "l": {"t": "qty", "m": [k, "30", "1"], "u": [[None, ua, 1]]}, "r": {"t": "qty", "m": [k, "20", "1"], "u": [[None, ub, 1]]}})
    # renderings before arithmetic: every pair of sample units, so that a rendering that interns a wrong unit poisons later results
    prel = [(a, b) for i, a in enumerate(UNITS) for b in UNITS[i:] if len(a) == 1 and len(b) == 1 and a[0][0] is None and b[0][0] is None]
    dl = impl("dimlaws_worker.py", {"define": [["vf currency", "VFC"]]})
    for f in dl["fails"]:
        if f[1].startswith("quantity"):
            c.violation(f"new-dimension:{f[1]}", f"after Dimension.define of a new fundamental dimension, quantity arithmetic over it is wrong: {f[2:]}",
                        {"when": f[0], "how": "harness/impl/dimlaws_worker.py: define a dimension and a unit, then ($/m^2)*(ft^2) and + with another price"})
    c.count(["new-dimension-quantities"], nontrivial=True)
    r = impl("quantity_worker.py", {"cases": cases, "prelude": prel})
    for bu in r.get("inconsistent_units", []):
        c.violation("inconsistent-unit:" + json.dumps(bu["f"]), "a unit produced during the run reports a dimension that is not the product of its factors' dimensions",
                    {"unit": bu, "how": "render units with a compound denominator (str/format '/'/html), then multiply quantities whose unit is that denominator"})
    recs = r["results"]
    exp = impl("export_worker.py", {})
    S = Sizes(exp)
    # ---- the property's observable, evaluated on the implementation
    kinds = {}
    pairs = {}
    for case, rec in zip(cases, recs):
        op, res = case["op"], rec["res"]
        nontrivial = not (op in ("neg", "pos"))
        c.count(case, nontrivial)
        kinds[res.get("err", res.get("t"))] = kinds.get(res.get("err", res.get("t")), 0) + 1
        l = rec.get("l"); rr = rec.get("r")
        repl = {"case": case, "result": res, "how": "echo '{\"cases\":[case]}' | PYTHONPATH=/repo/src /venv/bin/python harness/impl/quantity_worker.py"}
        if res.get("t") == "qty":
            got = {a: b for a, b in res["u"]["d"]}
            want = None
            if op == "mul": want = dmul(dim_of(l), dim_of(rr))
            elif op == "div": want = dmul(dim_of(l), dim_of(rr), -1)
            elif op == "pow": want = {k: e * case["r"] for k, e in dim_of(l).items() if e * case["r"]}
            elif op == "root" and case["r"] != 0: want = {k: e // case["r"] for k, e in dim_of(l).items()}
            elif op in ("neg", "pos", "abs", "add", "sub"): want = dim_of(l)
            if want is not None and got != want:
                key = "rtruediv-keeps-unit" if (op == "div" and l["t"] == "num" and rr["t"] == "qty") else f"dim:{op}:{l['t']}:{(rr or {}).get('t')}"
                c.violation(key, f"{op} of {l['t']} and {(rr or {}).get('t')}: result dimension {got}, expected {want}", repl)
            mk = [v["m"][0] for v in (l, rr) if v and v["t"] in ("num", "qty")]
            positive = l and l["t"] == "qty" and len(l["m"]) == 3 and int(l["m"][1]) > 0
            # degree 0 is not a root: x.root(0) is the constant 1*One by convention (outside the property)
            if "dec" in mk and res["m"][0] != "dec" and (op != "root" or (positive and case["r"] != 0)):
                c.violation(f"decimal:{op}", f"{op} with a Decimal operand returned a {res['m'][0]} magnitude", repl)
            if op in ("add", "sub") and res["u"]["o"] != l["u"]["o"]:
                c.violation(f"leftunit:{op}", f"{op} did not return the left operand's unit", repl)
        if l and rr and l["t"] == "qty" and rr.get("t") == "qty" and dim_of(l) != dim_of(rr):
            if op in ("add", "sub", "lt", "le", "gt", "ge") and res.get("err") not in ("TypeError", "ConversionNotFound"):
                c.violation(f"incommensurable:{op}", f"{op} of quantities of different dimensions gave {res}", repl)
            if op == "eq" and res != {"t": "bool", "b": False}: c.violation("incommensurable:eq", f"== gave {res}", repl)
            if op == "ne" and res != {"t": "bool", "b": True}: c.violation("incommensurable:ne", f"!= gave {res}", repl)
        if op == "in_unit" and l and rr and dim_of(l) != dim_of(rr) and res.get("err") not in ("TypeError", "ConversionNotFound"):
            c.violation("incommensurable:in_unit", f"in_unit across dimensions gave {res}", repl)
        # conversion oracle entries needed by the model
        for a, b in ((l, rr), (rr, l)):
            if a and b and a.get("t") in ("qty",) and b.get("t") in ("qty", "unit") and op in ("add", "sub", "eq", "ne", "lt", "le", "gt", "ge", "in_unit"):
                ua, ub = a["u"], b["u"]
                if isinstance(ua["p"], dict) or isinstance(ub["p"], dict): continue
                k = (json.dumps(ua["f"]), json.dumps(ub["f"]))
                if k not in pairs and ua["f"] != ub["f"] and ua["d"] == ub["d"]:
                    ratio = S.ratio({"p": [0, 0], "f": ua["f"]}, {"p": [0, 0], "f": ub["f"]})
                    if ratio is not None: pairs[k] = (ua, ub, ratio)
    # ---- an application has declared equivalences ACROSS dimensions (length = 2 time, kilo-mass = 3 length, c = 1 style): every
    # operation that needs a conversion between the two still refuses, == stays False, and nothing yields a number
    xcases = []
    XU = ("vfxlength", "vfxtime", "vfxmass")
    for ua in XU:
        for ub in XU + ("second", "meter"):
            if ua == ub or (ua, ub) in (("vfxtime", "second"), ("vfxlength", "meter")): continue
            for pa, pb in ((None, None), ("kilo", None), (None, "milli")):
                for k, m_ in (("int", ["int", "4", "1"]), ("float", ["float", "5", "2"]), ("dec", ["dec", "7", "4"]), ("int", ["int", "0", "1"])):
                    for op in ("add", "sub", "lt", "le", "gt", "ge", "eq", "ne"):
                        xcases.append({"op": op, "l": {"t": "qty", "m": m_, "u": [[pa, ua, 1]]}, "r": {"t": "qty", "m": m_, "u": [[pb, ub, 1]]}})
                    xcases.append({"op": "in_unit", "l": {"t": "qty", "m": m_, "u": [[pa, ua, 1]]}, "r": {"t": "unit", "u": [[pb, ub, 1]]}})
    if c.tier == "quick": xcases = rng.sample(xcases, 500)
    xr = impl("quantity_worker.py", {"cases": xcases, "cross_declare": True})["results"]
    for case, rec in zip(xcases, xr):
        op, res = case["op"], rec["res"]
        c.count(["cross-declared", case], nontrivial=True)
        l, rr = rec.get("l"), rec.get("r")
        if not (l and rr) or dim_of(l) == dim_of(rr): continue
        repl = {"declared": ["vfxlength.equals(2 vfxtime)", "(kilo vfxmass).equals(3 vfxlength)", "vfxtime.equals(Decimal('0.5') second)"], "case": case, "result": res,
                "how": "harness/impl/quantity_worker.py with cross_declare: true"}
        if op in ("add", "sub", "lt", "le", "gt", "ge", "in_unit") and res.get("err") not in ("TypeError", "ConversionNotFound"):
            c.violation(f"incommensurable:{op}", f"{op} of quantities of different dimensions gave {res} after an equivalence between the two units was declared", repl)
        if op == "eq" and res != {"t": "bool", "b": False}: c.violation("incommensurable:eq", f"== gave {res}", repl)
        if op == "ne" and res != {"t": "bool", "b": True}: c.violation("incommensurable:ne", f"!= gave {res}", repl)
    convtbl = qgen.conv_table(pairs.values())
    # offsets between temperature scales are not part of the dispatch model's conversion oracle (ratios only): those cases are judged on the
    # implementation above and left out of the kernel comparison
    OFFSET_SCALES = ("celsius", "fahrenheit")
    def offset_case(cs):
        return any(isinstance(cs.get(k), dict) and any(x[1] in OFFSET_SCALES for x in cs[k].get("u", [])) for k in ("l", "r"))
    mi = [i for i, cs in enumerate(cases) if not (cs["op"] in ("add", "sub") and offset_case(cs) and cs["l"].get("u") != cs["r"].get("u"))]
    bad = qgen.run_shards(c, "C03", [cases[i] for i in mi], [recs[i] for i in mi], convtbl)
    bad = [mi[j] for j in bad]
    for i in bad[:5]:
        c.cov.setdefault("model_impl_mismatches", []).append({"case": cases[i], "impl": recs[i]["res"]})
    # search step: on the cases where model and implementation disagree, evaluate the property directly
    for i in bad:
        case, rec = cases[i], recs[i]
        res = rec["res"]; l = rec.get("l"); rr = rec.get("r")
        valid = l and l["t"] in ("num", "qty", "unit", "prefix") and (rr is None or rr.get("t") in ("num", "qty", "unit", "prefix"))
        if case["op"] in ("mul", "div", "pow", "neg", "pos", "abs") and valid and "err" in res and res["err"] not in ("ZeroDivisionError",) \
                and "qty" in (l["t"], (rr or {}).get("t")) and not (case["op"] == "div" and rr["t"] == "qty" and l["t"] in ("unit", "prefix")):
            c.violation(f"raises:{case['op']}:{l['t']}:{(rr or {}).get('t')}:{res['err']}",
                        f"{case['op']} of {l['t']} and {(rr or {}).get('t')} raised {res['err']} ({res.get('msg')}) instead of yielding a quantity",
                        {"case": case, "result": res})
        if case["op"] in ("add", "sub") and l and rr and l["t"] == rr.get("t") == "qty" and l["u"]["d"] == rr["u"]["d"] and l["u"]["f"] == rr["u"]["f"] and "err" in res:
            c.violation(f"raises:{case['op']}:same-unit", f"{case['op']} of quantities in the same unit raised {res['err']}", {"case": case, "result": res})
    c.sample({"case": cases[0], "result": recs[0]["res"]}); c.sample({"case": cases[len(cases) // 2], "result": recs[len(cases) // 2]["res"]})
    c.finish(rule="exhaustive matrix operator (* / + - == != < <= > >= ** root neg pos abs in_unit) x operand class (number, unit, quantity, "
                  "prefix, foreign object) on either side x magnitude kind (int, float, Decimal) with units sampled from simple, prefixed, "
                  "compound and dimensionless units and exponents/degrees in [-4,4]; non-trivial = everything except unary +/-; distinct by hash",
             extra={"outcome_kinds": kinds, "exhaustive": False, "matrix_exhaustive_over": "operator x operand class x magnitude kind",
                    "traces_validated_against_impl": len(cases)},
             assumptions=["complex results of roots of negative magnitudes are classified as kind Other and only their unit is compared",
                          "the conversion oracle of the model is the exact size ratio solved from the intercepted declarations"])

guarded(main, "C03")
