"""Fail-closed AST scan of /repo/src/measured/__init__.py: the statement structure of the interning
constructors (which statements read / allocate / write the intern table and inside which `with`
block), all `assert` statements and lru_cache'd functions of conversions.py.  Emits Coq text."""
import ast, os, sys, json

SRC = os.path.join(os.environ.get("VERIF_REPO", "/repo"), "src/measured")

def kind_of(node):
    """classify one simple statement of __new__"""
    src = ast.unparse(node)
    writes_table = False
    for n in ast.walk(node):
        if isinstance(n, (ast.Assign, ast.AugAssign)):
            targets = n.targets if isinstance(n, ast.Assign) else [n.target]
            for t in targets:
                if isinstance(t, ast.Subscript) and ast.unparse(t.value).endswith("._known"):
                    writes_table = True
        if isinstance(n, ast.Call) and isinstance(n.func, ast.Attribute) and ast.unparse(n.func.value).endswith("._known") \
                and n.func.attr in ("setdefault", "update", "__setitem__", "pop", "clear"):
            writes_table = True
    if writes_table:
        return "KInsert"
    if "super().__new__" in src or "object.__new__" in src:
        return "KAlloc"
    if "._known" in src:
        return "KLookup"
    if isinstance(node, ast.Return):
        return "KReturn"
    return "KOther"

def flatten(body, region, out, counter):
    for st in body:
        if isinstance(st, ast.With):
            names = [ast.unparse(i.context_expr) for i in st.items]
            if any(n in ("_interning",) or n.endswith("._interning") for n in names):
                counter[0] += 1
                flatten(st.body, counter[0] if region is None else region, out, counter)
            else:
                flatten(st.body, region, out, counter)
        elif isinstance(st, ast.If):
            out.append((kind_of(ast.Expr(st.test)), region))
            flatten(st.body, region, out, counter)
            flatten(st.orelse, region, out, counter)
        elif isinstance(st, (ast.For, ast.While, ast.Try)):
            raise ValueError(f"unsupported statement in __new__: {type(st).__name__}")
        else:
            out.append((kind_of(st), region))

def scan():
    tree = ast.parse(open(os.path.join(SRC, "__init__.py")).read())
    res = {}
    for cls in tree.body:
        if isinstance(cls, ast.ClassDef) and cls.name in ("Dimension", "Prefix", "Unit"):
            for fn in cls.body:
                if isinstance(fn, ast.FunctionDef) and fn.name == "__new__":
                    out = []
                    flatten(fn.body, None, out, [0])
                    res[cls.name] = out
    # is _interning a re-entrant or plain lock object created at module level?
    lock_defined = any(isinstance(n, ast.Assign) and ast.unparse(n.targets[0]) == "_interning"
                       and "Lock" in ast.unparse(n.value) for n in tree.body)
    conv = ast.parse(open(os.path.join(SRC, "conversions.py")).read())
    asserts, cached, clears = [], [], []
    for fn in ast.walk(conv):
        if isinstance(fn, ast.FunctionDef):
            if any("lru_cache" in ast.unparse(d) for d in fn.decorator_list):
                cached.append(fn.name)
            for n in ast.walk(fn):
                if isinstance(n, ast.Assert):
                    asserts.append([fn.name, n.lineno])
                if isinstance(n, ast.Call) and isinstance(n.func, ast.Attribute) and n.func.attr == "cache_clear":
                    clears.append([fn.name, ast.unparse(n.func.value)])
    return {"new": res, "lock_defined": lock_defined, "asserts": asserts, "cached": cached, "clears": clears}

MUTATORS = {"pop", "popitem", "update", "clear", "append", "extend", "insert", "remove", "sort", "reverse", "setdefault", "add", "discard", "__setitem__", "__delitem__", "move_to_end"}

def argument_mutations(filename):
    """statements of a module's functions that change an object reachable from a parameter (augmented assignment to a parameter or to
    an attribute / item of one, assignment to an attribute / item of one, a mutating method called on one, `del` of one's items) --
    through the parameter itself or through a local name bound to an attribute chain of it.  [(function, line, source)]"""
    tree = ast.parse(open(os.path.join(SRC, filename)).read())
    found = []
    def root(n):
        while isinstance(n, (ast.Attribute, ast.Subscript)): n = n.value
        return n.id if isinstance(n, ast.Name) else None
    for fn in ast.walk(tree):
        if not isinstance(fn, (ast.FunctionDef, ast.AsyncFunctionDef)): continue
        tainted = {a.arg for a in fn.args.args + fn.args.kwonlyargs + fn.args.posonlyargs} - {"self", "cls", "p", "printer", "cycle"}
        for st in ast.walk(fn):
            if isinstance(st, ast.Assign) and len(st.targets) == 1 and isinstance(st.targets[0], ast.Name) and isinstance(st.value, (ast.Attribute, ast.Subscript, ast.Name)) and root(st.value) in tainted:
                tainted.add(st.targets[0].id)
        for st in ast.walk(fn):
            if isinstance(st, ast.AugAssign) and root(st.target) in tainted and not (isinstance(st.target, ast.Name) and False):
                # `x += 1` on a parameter rebinds an immutable number but mutates in place whatever defines __iadd__ / __imul__: reported
                found.append([fn.name, st.lineno, ast.unparse(st)[:80]])
            elif isinstance(st, ast.Assign) and any(isinstance(t, (ast.Attribute, ast.Subscript)) and root(t) in tainted for t in st.targets):
                found.append([fn.name, st.lineno, ast.unparse(st)[:80]])
            elif isinstance(st, ast.Delete) and any(isinstance(t, (ast.Attribute, ast.Subscript)) and root(t) in tainted for t in st.targets):
                found.append([fn.name, st.lineno, ast.unparse(st)[:80]])
            elif isinstance(st, ast.Call) and isinstance(st.func, ast.Attribute) and st.func.attr in MUTATORS and root(st.func.value) in tainted:
                found.append([fn.name, st.lineno, ast.unparse(st)[:80]])
    return found

class Untranslatable(Exception):
    pass

def translate_new(fn):
    """__new__ as a program of Model/NewProg.v: [(coq instruction, source line or None)], fail-closed.
    Register `true` is the one local variable assigned from cls._known.get(...) / .setdefault(...); register `false` is the outcome of
    the membership test `key in cls._known`.  A line is given to the instruction it makes observable to the line scheduler; None means
    the instruction is taken silently (Model/NewProg.v, replay)."""
    out = []
    reg = [None]          # name of the register variable
    state = {"key_assigned": False}
    def src(n): return ast.unparse(n)
    def touches(n): return "._known" in src(n) or "_interning" in src(n)
    def is_table(n): return isinstance(n, ast.Attribute) and n.attr == "_known"
    def table_call(n, name):
        return isinstance(n, ast.Call) and isinstance(n.func, ast.Attribute) and n.func.attr == name and is_table(n.func.value)
    def is_key(n): return isinstance(n, ast.Name) and n.id == "key"
    def is_alloc(n): return isinstance(n, ast.Call) and src(n.func) in ("super().__new__", "object.__new__")
    def the_reg(name):
        if reg[0] is None: reg[0] = name
        if reg[0] != name: raise Untranslatable(f"two variables hold looked-up objects: {reg[0]}, {name}")
    def leaves_only(body):
        for st in body:
            if isinstance(st, ast.Raise) or isinstance(st, ast.Pass): continue
            if isinstance(st, ast.Return):
                if st.value is not None and (touches(st.value) or src(st.value) == "self" or (reg[0] and src(st.value) == reg[0])): return False
                continue
            if isinstance(st, ast.If):
                if touches(st.test) or not leaves_only(st.body) or not leaves_only(st.orelse): return False
                continue
            if isinstance(st, ast.Assign) and len(st.targets) == 1 and is_key(st.targets[0]) and not touches(st.value): continue
            return False
        return True
    def emit(body, in_lock):
        for st in body:
            ln = st.lineno
            if isinstance(st, ast.With):
                names = [src(i.context_expr) for i in st.items]
                if any(n == "_interning" or n.endswith("._interning") for n in names):
                    if len(names) != 1: raise Untranslatable("with _interning combined with other context managers")
                    out.append(("IAcquire", None)); emit(st.body, True)
                    # leaving the block by falling through: the interpreter reports the `with` line a second time and releases the lock
                    # there (a negative line number stands for "the second time this thread is at that line")
                    if not isinstance(st.body[-1], (ast.Return, ast.Raise)): out.append(("IRelease", -ln))
                elif any(touches(i.context_expr) for i in st.items): raise Untranslatable("with over the table")
                else: emit(st.body, in_lock)
            elif isinstance(st, ast.Assign):
                if len(st.targets) != 1: raise Untranslatable("multiple assignment targets")
                t, v = st.targets[0], st.value
                if isinstance(t, ast.Subscript) and is_table(t.value):
                    if not (is_key(t.slice) and src(v) == "self"): raise Untranslatable("table store of something other than self under key: " + src(st))
                    out.append(("IStore", ln))
                elif isinstance(t, ast.Name) and t.id == "self":
                    if not is_alloc(v): raise Untranslatable("self assigned from " + src(v))
                    out.append(("IAlloc", ln))
                elif isinstance(t, ast.Name) and table_call(v, "get"):
                    if not (v.args and is_key(v.args[0]) and not v.keywords): raise Untranslatable("lookup of another key: " + src(st))
                    the_reg(t.id)
                    if len(v.args) == 1: out.append(("IGet true", ln))
                    elif len(v.args) == 2 and src(v.args[1]) == t.id: out.append(("IGetDefault true", ln))
                    else: raise Untranslatable("lookup with a default other than the variable itself: " + src(st))
                elif isinstance(t, ast.Name) and table_call(v, "setdefault"):
                    if not (len(v.args) == 2 and is_key(v.args[0]) and src(v.args[1]) == "self"): raise Untranslatable(src(st))
                    the_reg(t.id); out.append(("ISetDefault (Some true)", ln))
                elif touches(st): raise Untranslatable("unrecognised use of the table: " + src(st))
                elif isinstance(t, ast.Name) and reg[0] and t.id == reg[0]: raise Untranslatable("the looked-up variable is reassigned: " + src(st))
                elif is_key(t):
                    out.append(("IMayLeave" if state["key_assigned"] else "ISkip", None)); state["key_assigned"] = True
                else: out.append(("ISkip", None))
            elif isinstance(st, ast.Expr):
                if table_call(st.value, "setdefault"):
                    v = st.value
                    if not (len(v.args) == 2 and is_key(v.args[0]) and src(v.args[1]) == "self"): raise Untranslatable(src(st))
                    out.append(("ISetDefault None", ln))
                elif touches(st): raise Untranslatable("unrecognised use of the table: " + src(st))
                else: out.append(("ISkip", None))
            elif isinstance(st, ast.Return):
                v = st.value
                if v is not None and src(v) == "self": out.append(("IRetSelf", ln))
                elif v is not None and reg[0] and src(v) == reg[0]: out.append(("IRetReg true", ln))
                elif v is not None and table_call(v, "setdefault"):
                    if not (len(v.args) == 2 and is_key(v.args[0]) and src(v.args[1]) == "self"): raise Untranslatable(src(st))
                    the_reg(reg[0] or "known"); out.append(("ISetDefault (Some true)", ln)); out.append(("IRetReg true", ln))
                elif v is not None and isinstance(v, ast.Subscript) and is_table(v.value) and is_key(v.slice):
                    the_reg(reg[0] or "known"); out.append(("IGet true", ln)); out.append(("IRetReg true", ln))
                elif v is not None and touches(v): raise Untranslatable("unrecognised use of the table: " + src(st))
                else: out.append(("IMayLeave", None))
            elif isinstance(st, ast.If):
                t = st.test
                if isinstance(t, ast.Compare) and len(t.ops) == 1 and isinstance(t.ops[0], ast.In) and is_key(t.left) and is_table(t.comparators[0]):
                    ok = (not st.orelse and len(st.body) == 1 and isinstance(st.body[0], ast.Return) and isinstance(st.body[0].value, ast.Subscript)
                          and is_table(st.body[0].value.value) and is_key(st.body[0].value.slice))
                    if not ok: raise Untranslatable("membership test not followed by `return cls._known[key]`: " + src(st)[:80])
                    out.append(("IGet false", ln)); out.append(("IRetTabIf false", st.body[0].lineno))
                elif (isinstance(t, ast.Compare) and len(t.ops) == 1 and isinstance(t.ops[0], ast.IsNot) and isinstance(t.left, ast.Name)
                      and reg[0] and t.left.id == reg[0] and src(t.comparators[0]) == "None"):
                    ok = not st.orelse and len(st.body) == 1 and isinstance(st.body[0], ast.Return) and src(st.body[0].value) == reg[0]
                    if not ok: raise Untranslatable("`if known is not None` not followed by `return known`: " + src(st)[:80])
                    out.append(("IRetIf true", st.body[0].lineno))
                elif touches(t): raise Untranslatable("unrecognised test on the table: " + src(t))
                elif leaves_only(st.body) and leaves_only(st.orelse): out.append(("IMayLeave", None))
                else: raise Untranslatable("a branch that neither leaves nor is a recognised lookup: " + src(st)[:80])
            elif isinstance(st, ast.Raise): out.append(("IMayLeave", None))
            elif isinstance(st, ast.Pass): pass
            elif isinstance(st, (ast.For, ast.While, ast.Try)): raise Untranslatable(f"unsupported statement in __new__: {type(st).__name__}")
            elif touches(st): raise Untranslatable("unrecognised use of the table: " + src(st)[:80])
            else: out.append(("ISkip", None))
    emit(fn.body, False)
    return out

PROGRAM_CLASSES = ("Dimension", "Prefix", "Unit", "Logarithm", "LogarithmicUnit")      # every class that interns its instances in a _known table

def programs():
    """{class name: {"prog": [(instr, line)], "first": first line, "last": last line of __new__}}"""
    tree = ast.parse(open(os.path.join(SRC, "__init__.py")).read())
    res = {}
    for cls in tree.body:
        if isinstance(cls, ast.ClassDef) and cls.name in PROGRAM_CLASSES:
            for fn in cls.body:
                if isinstance(fn, ast.FunctionDef) and fn.name == "__new__":
                    res[cls.name] = {"prog": translate_new(fn), "first": fn.lineno, "last": fn.end_lineno}
    if sorted(res) != sorted(PROGRAM_CLASSES): raise Untranslatable("missing __new__: " + str(sorted(res)))
    return res

def memo_helpers():
    """the memoised arithmetic helpers in front of the interning constructors: [(class, function, decorated with lru_cache,
    every return is a call of an interning constructor)]"""
    tree = ast.parse(open(os.path.join(SRC, "__init__.py")).read())
    out = []
    for cls in tree.body:
        if isinstance(cls, ast.ClassDef) and cls.name in ("Dimension", "Unit"):
            for fn in cls.body:
                if isinstance(fn, ast.FunctionDef) and fn.name in ("_multiply", "_divide"):
                    deco = any("lru_cache" in ast.unparse(d) for d in fn.decorator_list)
                    rets = [n for n in ast.walk(fn) if isinstance(n, ast.Return)]
                    ok = bool(rets) and all(isinstance(r.value, ast.Call) and isinstance(r.value.func, ast.Name) and r.value.func.id in PROGRAM_CLASSES for r in rets)
                    out.append([cls.name, fn.name, deco, ok])
    return out

def coq_programs(pr):
    lines = ["From Coq Require Import List Bool. Import ListNotations.", "From Measured Require Import Model.NewProg.", ""]
    for c in PROGRAM_CLASSES:
        lines.append(f"Definition {c.lower()}_prog : list instr := [" + "; ".join(i for i, _ in pr[c]["prog"]) + "].")
    return "\n".join(lines) + "\n"

def coq_struct(s):
    def body(l):
        return "[" + "; ".join(f"({k}, {'Some ' + str(r) + '%nat' if r is not None else 'None'})" for k, r in l) + "]"
    lines = ["From Coq Require Import List Bool. Import ListNotations. Open Scope bool_scope.", "From Measured Require Import Model.Threads.", ""]
    for c in ("Dimension", "Prefix", "Unit"):
        lines.append(f"Definition {c.lower()}_new : list stmt := {body(s['new'].get(c, []))}.")
    lines.append(f"Definition lock_defined : bool := {'true' if s['lock_defined'] else 'false'}.")
    return "\n".join(lines) + "\n"

if __name__ == "__main__":
    s = scan()
    print(json.dumps(s, indent=1)); print(coq_struct(s))
    pr = programs(); print(json.dumps(pr)); print(coq_programs(pr))
