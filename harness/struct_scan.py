"""Fail-closed AST scan of /repo/src/measured/__init__.py: the statement structure of the interning
constructors (which statements read / allocate / write the intern table and inside which `with`
block), all `assert` statements and lru_cache'd functions of conversions.py.  Emits Coq text."""
import ast, os, sys, json

SRC = os.path.join(os.environ.get("VERIF_REPO", "/repo"), "src/measured")

def kind_of(node):
    """classify one simple statement of __new__"""
    src = ast.unparse(node)
    writes_table = False
    for n in ast.walk(node):
        if isinstance(n, (ast.Assign, ast.AugAssign)):
            targets = n.targets if isinstance(n, ast.Assign) else [n.target]
            for t in targets:
                if isinstance(t, ast.Subscript) and ast.unparse(t.value).endswith("._known"):
                    writes_table = True
        if isinstance(n, ast.Call) and isinstance(n.func, ast.Attribute) and ast.unparse(n.func.value).endswith("._known") \
                and n.func.attr in ("setdefault", "update", "__setitem__", "pop", "clear"):
            writes_table = True
    if writes_table:
        return "KInsert"
    if "super().__new__" in src or "object.__new__" in src:
        return "KAlloc"
    if "._known" in src:
        return "KLookup"
    if isinstance(node, ast.Return):
        return "KReturn"
    return "KOther"

def flatten(body, region, out, counter):
    for st in body:
        if isinstance(st, ast.With):
            names = [ast.unparse(i.context_expr) for i in st.items]
            if any(n in ("_interning",) or n.endswith("._interning") for n in names):
                counter[0] += 1
                flatten(st.body, counter[0] if region is None else region, out, counter)
            else:
                flatten(st.body, region, out, counter)
        elif isinstance(st, ast.If):
            out.append((kind_of(ast.Expr(st.test)), region))
            flatten(st.body, region, out, counter)
            flatten(st.orelse, region, out, counter)
        elif isinstance(st, (ast.For, ast.While, ast.Try)):
            raise ValueError(f"unsupported statement in __new__: {type(st).__name__}")
        else:
            out.append((kind_of(st), region))

def scan():
    tree = ast.parse(open(os.path.join(SRC, "__init__.py")).read())
    res = {}
    for cls in tree.body:
        if isinstance(cls, ast.ClassDef) and cls.name in ("Dimension", "Prefix", "Unit"):
            for fn in cls.body:
                if isinstance(fn, ast.FunctionDef) and fn.name == "__new__":
                    out = []
                    flatten(fn.body, None, out, [0])
                    res[cls.name] = out
    # is _interning a re-entrant or plain lock object created at module level?
    lock_defined = any(isinstance(n, ast.Assign) and ast.unparse(n.targets[0]) == "_interning"
                       and "Lock" in ast.unparse(n.value) for n in tree.body)
    conv = ast.parse(open(os.path.join(SRC, "conversions.py")).read())
    asserts, cached, clears = [], [], []
    for fn in ast.walk(conv):
        if isinstance(fn, ast.FunctionDef):
            if any("lru_cache" in ast.unparse(d) for d in fn.decorator_list):
                cached.append(fn.name)
            for n in ast.walk(fn):
                if isinstance(n, ast.Assert):
                    asserts.append([fn.name, n.lineno])
                if isinstance(n, ast.Call) and isinstance(n.func, ast.Attribute) and n.func.attr == "cache_clear":
                    clears.append([fn.name, ast.unparse(n.func.value)])
    return {"new": res, "lock_defined": lock_defined, "asserts": asserts, "cached": cached, "clears": clears}

def coq_struct(s):
    def body(l):
        return "[" + "; ".join(f"({k}, {'Some ' + str(r) + '%nat' if r is not None else 'None'})" for k, r in l) + "]"
    lines = ["From Coq Require Import List Bool. Import ListNotations. Open Scope bool_scope.", "From Measured Require Import Model.Threads.", ""]
    for c in ("Dimension", "Prefix", "Unit"):
        lines.append(f"Definition {c.lower()}_new : list stmt := {body(s['new'].get(c, []))}.")
    lines.append(f"Definition lock_defined : bool := {'true' if s['lock_defined'] else 'false'}.")
    return "\n".join(lines) + "\n"

if __name__ == "__main__":
    s = scan()
    print(json.dumps(s, indent=1)); print(coq_struct(s))
